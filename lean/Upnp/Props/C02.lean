/-
  C02 — no datagram can make the SSDP receive path raise.

  Property theorems only (lemmas: `Lemmas/C02Total.lean`).  The model (`Model/C02Recv.lean`) has
  every raising primitive explicit (`Except Exn`) and every repair as a switch (`Fixes`); the
  driver runs `recv` with the switches the translator found in the source
  (`Gen/C02Recv.lean`), the judge `C02.ok` of `Spec/C02.lean` is evaluated on the
  implementation's observations.
-/
import Upnp.Lemmas.C02Total
import Upnp.Gen.C01Ssdp
import Upnp.Gen.C02Recv
namespace Upnp.C02
open Upnp Upnp.C01

/-! ### the source has every guard the model's `Fixes.all` stands for -/

/-- the guards found in the source by the translator -/
def sourceFixes : Fixes :=
  { catchInvalidHeader := Gen.C02Recv.catchInvalidHeader, catchLineTooLong := Gen.C02Recv.catchLineTooLong,
    catchUnicode := Gen.C02Recv.catchUnicode, urlsplitGuard := Gen.C02Recv.urlsplitGuard,
    hostnameGuard := Gen.C02Recv.hostnameGuard, portGuard := Gen.C02Recv.portGuard, tdGuard := Gen.C02Recv.tdGuard,
    dtGuard := Gen.C02Recv.dtGuard, intGuard := Gen.C02Recv.intGuard, mxClamp := Gen.C02Recv.mxClamp,
    checkBeforePurge := Gen.C02Recv.checkBeforePurge }

/-- every raising call of the receive path sits under a handler for what it raises, the MX test
    is `delay > 0`, and `_see_device` validates before it purges -/
theorem guards_present : sourceFixes = Fixes.all := by decide

/-- the constants the model hard-codes are the ones in the source -/
theorem constants_pinned :
    Gen.C02Recv.defaultMaxAge = 900 ∧ Gen.C02Recv.locationPrefix = ofString "http"
    ∧ Gen.C02Recv.badLocationNeedles = badNeedles ∧ Gen.C02Recv.mxCap = 5
    ∧ Gen.C02Recv.jitterLo = 100 ∧ Gen.C02Recv.jitterHiOffset = 250
    ∧ Gen.C02Recv.searchRequestLine = ofString "M-SEARCH * HTTP/1.1" ∧ Gen.C02Recv.discover = discover
    ∧ Gen.C02Recv.ntsAlive = ofString "ssdp:alive" ∧ Gen.C02Recv.ntsByebye = ofString "ssdp:byebye"
    ∧ Gen.C02Recv.ntsUpdate = ofString "ssdp:update"
    ∧ Gen.C02Recv.cacheControlReBytes = ofString "max-age\\s*=\\s*(\\d+)"
    ∧ Gen.C02Recv.cacheControlReFlags = ["IGNORECASE"]
    ∧ Gen.C02Recv.searchKeys = [ofString "_udn", ofString "st", ofString "location"]
    ∧ Gen.C02Recv.advertisementKeys = [ofString "_udn", ofString "nt", ofString "nts", ofString "location"]
    ∧ Gen.C02Recv.byebyeKeys = [ofString "_udn", ofString "nt", ofString "nts"] := by decide

/-! ### totality -/

theorem onData_total (cfg : Cfg) (ep : Endpoint) (t : Tracker) {d : Bytes} {loc : Option Addr} {src : Addr} {now : Int}
    {rl : Bytes} {h : Hdrs} (hd : decodeX Fixes.all d loc src now = .ok (rl, h)) :
    ∃ r, onData Fixes.all cfg ep t rl h = .ok r := by
  cases ep with
  | adv => exact ⟨_, rfl⟩
  | search =>
    obtain ⟨b, hb⟩ := searchClassify_total cfg.targetHost hd
    simp only [onData, hb]; exact ⟨_, rfl⟩
  | listenerAdv =>
    simp only [onData]
    cases advClassify h with
    | none => exact ⟨_, rfl⟩
    | some k =>
      cases k with
      | byebye => exact ⟨_, rfl⟩
      | alive =>
        simp only [seeAdvertisement]
        split
        · exact ⟨_, rfl⟩
        · obtain ⟨⟨t', o⟩, hs⟩ := seeDevice_total t h
          rw [hs]; cases o <;> exact ⟨_, rfl⟩
      | update =>
        simp only [seeAdvertisement]
        split
        · exact ⟨_, rfl⟩
        · obtain ⟨⟨t', o⟩, hs⟩ := seeDevice_total t h
          rw [hs]; cases o <;> exact ⟨_, rfl⟩
  | listenerSearch =>
    obtain ⟨b, hb⟩ := searchClassify_total cfg.targetHost hd
    simp only [onData, hb]
    cases b with
    | false => exact ⟨_, rfl⟩
    | true =>
      simp only [seeSearch]
      split
      · exact ⟨_, rfl⟩
      · obtain ⟨⟨t', o⟩, hs⟩ := seeDevice_total t h
        rw [hs]; cases o <;> exact ⟨_, rfl⟩
  | responder =>
    obtain ⟨e, he⟩ := responder_total cfg rl h
    simp only [onData, he]; exact ⟨_, rfl⟩

/-- **C02, first sentence.**  Whatever bytes arrive from whatever sender, at whatever clock value
    and in whatever tracker state, handing the datagram to any endpoint (advertisement listener,
    search listener, the combined listener through either of its sockets, the search responder of
    any device tree) returns normally. -/
theorem recv_total (cfg : Cfg) (ep : Endpoint) (t : Tracker) (data : Bytes) (loc : Option Addr) (src : Addr) (now : Int) :
    ∃ t' eff, recv Fixes.all cfg ep t data loc src now = .ok (t', eff) := by
  unfold recv
  obtain ⟨r, hr⟩ := protocolRecv_total cfg.prefixes data loc src now
  rw [hr]
  cases r with
  | none => exact ⟨t, noEff, rfl⟩
  | some p =>
    obtain ⟨rl, h⟩ := p
    have hd : decodeX Fixes.all data loc src now = .ok (rl, h) := by
      unfold protocolRecv at hr
      split at hr
      · cases hr
      · split at hr
        · rename_i r' hr'; cases hr; exact hr'
        · split at hr <;> cases hr
    obtain ⟨⟨t', e⟩, ho⟩ := onData_total cfg ep t hd
    exact ⟨t', e, ho⟩

/-- any sequence of datagrams, to any endpoints, from any senders: never a raise, so every
    endpoint is left in a state from which the next datagram is again handled normally -/
theorem recv_sequence_total (cfg : Cfg) (t : Tracker) (ops : List (Endpoint × Bytes × Option Addr × Addr × Int)) :
    ∃ t' effs, recvAll Fixes.all cfg t ops = .ok (t', effs) ∧ effs.length = ops.length := by
  induction ops generalizing t with
  | nil => exact ⟨t, [], rfl, rfl⟩
  | cons op r ih =>
    obtain ⟨ep, data, loc, src, now⟩ := op
    obtain ⟨t1, e1, h1⟩ := recv_total cfg ep t data loc src now
    obtain ⟨t2, es, h2, hl⟩ := ih t1
    exact ⟨t2, e1 :: es, by simp [recvAll, h1, h2], by simp [hl]⟩

/-! ### a dropped datagram is inert, a well-formed message is dispatched -/

/-- **C02, second sentence.**  A datagram that is not a well-formed message for the endpoint
    (gate fails, decoding is rejected, the endpoint's validity test fails, not an
    M-SEARCH/`ssdp:discover`, no matching target) fires no callback, sends nothing, schedules
    nothing and leaves the tracker — in particular the set of known devices — exactly as it was. -/
theorem dropped_inert (cfg : Cfg) (ep : Endpoint) (t t' : Tracker) (eff : Eff) (data : Bytes) (loc : Option Addr)
    (src : Addr) (now : Int) (hwf : classify cfg ep data loc src now = none)
    (h : recv Fixes.all cfg ep t data loc src now = .ok (t', eff)) : eff = noEff ∧ t' = t := by
  unfold recv at h
  unfold classify at hwf
  cases hp : protocolRecv Fixes.all cfg.prefixes data loc src now with
  | error e => rw [hp] at h; cases h
  | ok r =>
    rw [hp] at h hwf
    cases r with
    | none => cases h; exact ⟨rfl, rfl⟩
    | some p =>
      obtain ⟨rl, hd⟩ := p
      dsimp only at h hwf
      cases ep with
      | adv =>
        simp only [onData] at h
        have : (advClassify hd).isSome = false := by
          cases hc : (advClassify hd).isSome <;> simp_all
        simp only [this] at h
        cases h; exact ⟨rfl, rfl⟩
      | search =>
        simp only [onData] at h
        have hf : firesSearch cfg hd = false := by
          cases hc : firesSearch cfg hd <;> simp_all
        unfold firesSearch at hf
        cases hc : searchClassify cfg.targetHost hd with
        | error e => rw [hc] at h; cases h
        | ok b =>
          rw [hc] at h hf
          simp only at hf
          subst hf
          cases h; exact ⟨rfl, rfl⟩
      | listenerAdv =>
        simp only [onData] at h
        cases hc : advClassify hd with
        | none => rw [hc] at h; cases h; exact ⟨rfl, rfl⟩
        | some k =>
          rw [hc] at h hwf
          cases k with
          | byebye =>
            simp only [unsee] at h
            by_cases hv : validByebye hd = true
            · have hn : usnUdn hd = none := by simpa [hv] using hwf
              simp [hv, hn] at h; exact ⟨h.2.symm, h.1.symm⟩
            · simp [hv] at h; exact ⟨h.2.symm, h.1.symm⟩
          | alive =>
            simp only [seeAdvertisement] at h
            by_cases hv : validAdv hd = true
            · have hn : usnUdn hd = none := by simpa [hv] using hwf
              simp [hv, seeDevice_none t hd hn] at h; exact ⟨h.2.symm, h.1.symm⟩
            · simp [hv] at h; exact ⟨h.2.symm, h.1.symm⟩
          | update =>
            simp only [seeAdvertisement] at h
            by_cases hv : validAdv hd = true
            · have hn : usnUdn hd = none := by simpa [hv] using hwf
              simp [hv, seeDevice_none t hd hn] at h; exact ⟨h.2.symm, h.1.symm⟩
            · simp [hv] at h; exact ⟨h.2.symm, h.1.symm⟩
      | listenerSearch =>
        simp only [onData] at h
        cases hc : searchClassify cfg.targetHost hd with
        | error e => rw [hc] at h; cases h
        | ok b =>
          rw [hc] at h
          have hfs : firesSearch cfg hd = b := by unfold firesSearch; rw [hc]
          cases b with
          | false => cases h; exact ⟨rfl, rfl⟩
          | true =>
            simp only [seeSearch] at h
            by_cases hv : validSearch hd = true
            · have hn : usnUdn hd = none := by simpa [hfs, hv] using hwf
              simp [hv, seeDevice_none t hd hn] at h; exact ⟨h.2.symm, h.1.symm⟩
            · simp [hv] at h; exact ⟨h.2.symm, h.1.symm⟩
      | responder =>
        simp only [onData] at h
        unfold responder at h
        by_cases hs : isSearch rl hd = true
        · have hc : responseCount cfg hd = 0 := by
            by_cases hc : responseCount cfg hd = 0
            · exact hc
            · simp [hs, hc] at hwf
          simp [hs, respond, hc] at h; exact ⟨h.2.symm, h.1.symm⟩
        · simp [hs] at h; exact ⟨h.2.symm, h.1.symm⟩

/-- whether a datagram is a well-formed message for an endpoint — and what it asks for — does not
    depend on the clock (nor, by construction, on the tracker state): the clock value only travels
    into the `_timestamp` metadata, which no validity test reads -/
theorem classify_clock_irrelevant (cfg : Cfg) (ep : Endpoint) (data : Bytes) (loc : Option Addr) (src : Addr)
    (now now' : Int) : classify cfg ep data loc src now = classify cfg ep data loc src now' := by
  unfold classify
  rcases protocolRecv_now cfg.prefixes data loc src now now' with ⟨h1, h2⟩ | ⟨rl, h, h', h1, h2, hs⟩
  · rw [h1, h2]
  · rw [h1, h2]
    obtain ⟨a, b, c, d, e, f, g, i⟩ := classifiers_same hs
    dsimp only
    cases ep with
    | adv => simp only [a]
    | search => unfold firesSearch; rw [i]
    | listenerAdv => simp only [a, c, d, e]
    | listenerSearch => unfold firesSearch; rw [i, b, e]
    | responder => simp only [f, g]

/-- the C02 model decodes exactly as the C01 model does -/
theorem decoder_is_C01 (d : Bytes) (loc : Option Addr) (src : Addr) (now : Int) :
    decodeX Fixes.all d loc src now = decode d loc src now := decodeX_all_eq d loc src now

/-- the known-device map is a dict: its keys stay unique whatever arrives -/
theorem purgeLoop_sublist (now : Int) (d : PyDict Bytes Int) (nx : Option Int) :
    (purgeLoop now d nx).1.Sublist d := by
  induction d generalizing nx with
  | nil => simp [purgeLoop]
  | cons p r ih =>
    obtain ⟨u, vt⟩ := p
    unfold purgeLoop
    split
    · exact (ih nx).trans (List.sublist_cons_self _ _)
    · exact (ih _).cons_cons _

theorem purge_nodup (t : Tracker) (now : Int) (h : (PyDict.keys t.devices).Nodup) :
    (PyDict.keys (purge t now).devices).Nodup := by
  have key : (PyDict.keys (purgeLoop now t.devices none).1).Nodup :=
    List.Nodup.sublist ((purgeLoop_sublist now t.devices none).map _) h
  unfold purge
  split
  · split
    · exact h
    · exact key
  · exact key

theorem seeDevice_spec {t t' : Tracker} {hd : Hdrs} {o : Option Bytes}
    (h : seeDevice Fixes.all t hd = .ok (t', o)) (hn : (PyDict.keys t.devices).Nodup) :
    (PyDict.keys t'.devices).Nodup ∧ (usnUdn hd = none → t' = t) ∧ (∀ u, usnUdn hd = some u → u ∈ PyDict.keys t'.devices) := by
  unfold seeDevice at h
  simp only [Fixes.all, if_true] at h
  cases hu : usnUdn hd with
  | none => rw [hu] at h; cases h; exact ⟨hn, fun _ => rfl, fun u e => by cases e⟩
  | some udn =>
    rw [hu] at h
    dsimp only at h
    obtain ⟨vt, hv⟩ := validTo_total hd (nowOf hd)
    simp only [Fixes.all] at hv
    rw [hv] at h
    cases h
    refine ⟨PyDict.nodup_keys_set _ _ _ (purge_nodup t _ hn), ⟨fun e => absurd e (by simp), ?_⟩⟩
    intro u e
    simp only [Option.some.injEq] at e; subst e
    exact (PyDict.mem_keys_set _ _ _ _).mpr (Or.inl rfl)

theorem respond_effect (delay : Int) (count : Nat) {e : Eff} (hc : count ≠ 0)
    (h : respond Fixes.all delay count = .ok e) : e.sends + e.timers ≥ 1 := by
  unfold respond at h
  by_cases hd : delay > 0
  · have : ¬ (delay * 1000 - 250 ≤ 100) := by omega
    simp [hc, hd, this, Fixes.all] at h
    subst h; decide
  · simp [hc, hd, Fixes.all] at h
    subst h
    show count + 0 ≥ 1
    omega

/-- model-level reading of `Obs.dispatched` -/
def dispatchedM (t' : Tracker) (eff : Eff) : Dispatch → Prop
  | .notify => eff.cbMin ≥ 1
  | .see u => u ∈ PyDict.keys t'.devices
  | .unsee u => u ∉ PyDict.keys t'.devices
  | .respond => eff.sends + eff.timers ≥ 1

/-- **C02, "a well-formed message is dispatched"**, and the invariant that makes the next datagram
    meet a proper dict again: in every state whose device keys are unique, a well-formed message
    has its effect (callback / device recorded / device forgotten / answer sent or scheduled) and
    the keys stay unique; a dropped one changes nothing. -/
theorem dispatched_effect (cfg : Cfg) (ep : Endpoint) (t t' : Tracker) (eff : Eff) (data : Bytes) (loc : Option Addr)
    (src : Addr) (now : Int) (hn : (PyDict.keys t.devices).Nodup)
    (h : recv Fixes.all cfg ep t data loc src now = .ok (t', eff)) :
    (PyDict.keys t'.devices).Nodup ∧ ∀ d, classify cfg ep data loc src now = some d → dispatchedM t' eff d := by
  cases hcl : classify cfg ep data loc src now with
  | none =>
    obtain ⟨_, rfl⟩ := dropped_inert cfg ep t t' eff data loc src now hcl h
    exact ⟨hn, fun d e => by cases e⟩
  | some d0 =>
    unfold recv at h
    unfold classify at hcl
    cases hp : protocolRecv Fixes.all cfg.prefixes data loc src now with
    | error e => rw [hp] at h; cases h
    | ok r =>
      rw [hp] at h hcl
      cases r with
      | none => cases hcl
      | some p =>
        obtain ⟨rl, hd⟩ := p
        dsimp only at h hcl
        cases ep with
        | adv =>
          simp only [onData] at h
          by_cases hc : (advClassify hd).isSome = true
          · simp only [hc, if_true, Option.some.injEq] at hcl h
            cases h; subst hcl
            exact ⟨hn, fun d e => by cases e; show oneCb.cbMin ≥ 1; decide⟩
          · simp [hc] at hcl
        | search =>
          simp only [onData] at h
          by_cases hf : firesSearch cfg hd = true
          · simp only [hf, if_true, Option.some.injEq] at hcl
            unfold firesSearch at hf
            cases hc : searchClassify cfg.targetHost hd with
            | error e => rw [hc] at h; cases h
            | ok b =>
              rw [hc] at h hf; simp only at hf; subst hf
              cases h; subst hcl
              exact ⟨hn, fun d e => by cases e; show oneCb.cbMin ≥ 1; decide⟩
          · simp [hf] at hcl
        | listenerAdv =>
          simp only [onData] at h
          cases hc : advClassify hd with
          | none => rw [hc] at hcl; cases hcl
          | some k =>
            rw [hc] at h hcl
            cases k with
            | byebye =>
              by_cases hv : validByebye hd = true
              · simp only [hv, if_true] at hcl
                cases hu : usnUdn hd with
                | none => rw [hu] at hcl; cases hcl
                | some u =>
                  rw [hu] at hcl; simp only [Option.map_some, Option.some.injEq] at hcl; subst hcl
                  simp only [unsee, hv, hu] at h
                  by_cases hk : PyDict.contains t.devices u = true
                  · simp [hk] at h
                    obtain ⟨rfl, rfl⟩ := h
                    refine ⟨PyDict.nodup_keys_erase _ _ hn, fun d e => ?_⟩
                    cases e
                    show u ∉ PyDict.keys (PyDict.erase t.devices u)
                    rw [← PyDict.get?_eq_none_iff]; exact PyDict.get?_erase_self _ _ hn
                  · simp [hk] at h
                    obtain ⟨rfl, rfl⟩ := h
                    refine ⟨hn, fun d e => ?_⟩
                    cases e
                    show u ∉ PyDict.keys t.devices
                    rw [← PyDict.get?_eq_none_iff]
                    simpa [PyDict.contains] using hk
              · simp [hv] at hcl
            | alive =>
              by_cases hv : validAdv hd = true
              · simp only [hv, if_true] at hcl
                simp only [seeAdvertisement, hv] at h
                obtain ⟨⟨t1, o⟩, hs⟩ := seeDevice_total t hd
                rw [hs] at h
                obtain ⟨n1, _, n3⟩ := seeDevice_spec hs hn
                have ht : t' = t1 := by cases o <;> (simp at h; exact h.1.symm)
                subst ht
                refine ⟨n1, fun d e => ?_⟩
                cases hu : usnUdn hd with
                | none => rw [hu] at hcl; cases hcl
                | some u => rw [hu] at hcl; simp at hcl; subst hcl; cases e; exact n3 u hu
              · simp [hv] at hcl
            | update =>
              by_cases hv : validAdv hd = true
              · simp only [hv, if_true] at hcl
                simp only [seeAdvertisement, hv] at h
                obtain ⟨⟨t1, o⟩, hs⟩ := seeDevice_total t hd
                rw [hs] at h
                obtain ⟨n1, _, n3⟩ := seeDevice_spec hs hn
                have ht : t' = t1 := by cases o <;> (simp at h; exact h.1.symm)
                subst ht
                refine ⟨n1, fun d e => ?_⟩
                cases hu : usnUdn hd with
                | none => rw [hu] at hcl; cases hcl
                | some u => rw [hu] at hcl; simp at hcl; subst hcl; cases e; exact n3 u hu
              · simp [hv] at hcl
        | listenerSearch =>
          simp only [onData] at h
          by_cases hf : (firesSearch cfg hd && validSearch hd) = true
          · simp only [hf, if_true] at hcl
            simp only [Bool.and_eq_true] at hf
            obtain ⟨hf1, hv⟩ := hf
            unfold firesSearch at hf1
            cases hc : searchClassify cfg.targetHost hd with
            | error e => rw [hc] at h; cases h
            | ok b =>
              rw [hc] at h hf1; simp only at hf1; subst hf1
              simp only [seeSearch, hv] at h
              obtain ⟨⟨t1, o⟩, hs⟩ := seeDevice_total t hd
              rw [hs] at h
              obtain ⟨n1, _, n3⟩ := seeDevice_spec hs hn
              have ht : t' = t1 := by cases o <;> (simp at h; exact h.1.symm)
              subst ht
              refine ⟨n1, fun d e => ?_⟩
              cases hu : usnUdn hd with
              | none => rw [hu] at hcl; cases hcl
              | some u => rw [hu] at hcl; simp at hcl; subst hcl; cases e; exact n3 u hu
          · simp [hf] at hcl
        | responder =>
          simp only [onData] at h
          by_cases hc : (isSearch rl hd && responseCount cfg hd != 0) = true
          · simp only [hc, if_true, Option.some.injEq] at hcl; subst hcl
            simp only [Bool.and_eq_true, bne_iff_ne, ne_eq] at hc
            obtain ⟨hs, hcnt⟩ := hc
            unfold responder at h
            simp only [hs, Bool.not_true, Bool.false_eq_true, if_false] at h
            obtain ⟨e1, he1⟩ := respond_total (delayOf hd) (responseCount cfg hd)
            rw [he1] at h
            simp only [Except.ok.injEq, Prod.mk.injEq] at h
            obtain ⟨rfl, rfl⟩ := h
            exact ⟨hn, fun d e => by cases e; exact respond_effect _ _ hcnt he1⟩
          · simp [hc] at hcl

/-- every state reached from the empty tracker by any sequence of datagrams has unique device keys
    (the hypothesis of `dispatched_effect` / `model_judged_ok` holds along every history) -/
theorem recv_sequence_nodup (cfg : Cfg) (t : Tracker) (hn : (PyDict.keys t.devices).Nodup)
    (ops : List (Endpoint × Bytes × Option Addr × Addr × Int)) (t' : Tracker) (effs : List Eff)
    (h : recvAll Fixes.all cfg t ops = .ok (t', effs)) : (PyDict.keys t'.devices).Nodup := by
  induction ops generalizing t effs with
  | nil => simp only [recvAll, Except.ok.injEq, Prod.mk.injEq] at h; rw [← h.1]; exact hn
  | cons op r ih =>
    obtain ⟨ep, data, loc, src, now⟩ := op
    unfold recvAll at h
    obtain ⟨t1, e1, h1⟩ := recv_total cfg ep t data loc src now
    rw [h1] at h
    dsimp only at h
    obtain ⟨t2, es, h2, _⟩ := recv_sequence_total cfg t1 r
    rw [h2] at h
    simp only [Except.ok.injEq, Prod.mk.injEq] at h
    obtain ⟨rfl, _⟩ := h
    exact ih t1 (dispatched_effect cfg ep t t1 e1 data loc src now hn h1).1 es h2

/-- the judge accepts what the model does: for every datagram, in every state with unique device
    keys, the model's own outcome rendered as an observation satisfies `C02.ok` — so a judge
    failure at run time is a property of the implementation, never of the judge -/
theorem model_judged_ok (cfg : Cfg) (ep : Endpoint) (t : Tracker) (data : Bytes) (loc : Option Addr) (src : Addr)
    (now : Int) (hn : (PyDict.keys t.devices).Nodup) (sortKeys : List Bytes → List Bytes)
    (hsort : ∀ l x, x ∈ sortKeys l ↔ x ∈ l) :
    ∃ o, obsOf t (recv Fixes.all cfg ep t data loc src now) sortKeys = some o
      ∧ ok (classify cfg ep data loc src now) o = true := by
  obtain ⟨t', eff, h⟩ := recv_total cfg ep t data loc src now
  rw [h]
  refine ⟨_, rfl, ?_⟩
  obtain ⟨_, hd⟩ := dispatched_effect cfg ep t t' eff data loc src now hn h
  cases hc : classify cfg ep data loc src now with
  | none =>
    obtain ⟨he, ht⟩ := dropped_inert cfg ep t t' eff data loc src now hc h
    subst he ht
    simp [ok, Obs.inert, noEff]
  | some d =>
    have := hd d hc
    cases d with
    | notify => simpa [ok, Obs.dispatched, dispatchedM] using this
    | see u => simpa [ok, Obs.dispatched, dispatchedM, hsort] using this
    | unsee u => simpa [ok, Obs.dispatched, dispatchedM, hsort] using this
    | respond => simpa [ok, Obs.dispatched, dispatchedM] using this

/-! ### each repair is necessary: one raising datagram per unrepaired variant

`recv_total` is false for every variant of the model with one guard switched off; the witnesses
below are the design-time probes of DESIGN §7 (F02a–F02i) and the new finding F02j, evaluated on
the model by the kernel.  They also show that the hypotheses of `dropped_inert` are not vacuous. -/

def raises {α : Type} (r : Except Exn α) : Option Exn := match r with | .error e => some e | .ok _ => none

def wCfg : Cfg :=
  { prefixes := Gen.C01Ssdp.ssdpPrefixes, rootUdn := ofString "uuid:r",
    devices := [(ofString "uuid:r", ofString "urn:schemas-upnp-org:device:Basic:1")], services := [] }
def v4 : Addr := { host := ofString "192.168.1.7", port := 1900 }
def scopedSrc : Addr := { host := ofString "fe80::1", port := 1900, v6 := true, scope := 3 }
def crlf : Bytes := [CR, LF]
def alive (extra : Bytes) : Bytes :=
  ofString "NOTIFY * HTTP/1.1" ++ crlf ++ ofString "NT:upnp:rootdevice" ++ crlf ++ ofString "NTS:ssdp:alive" ++ crlf
  ++ ofString "USN:uuid:d1::upnp:rootdevice" ++ crlf ++ extra ++ crlf ++ crlf
def http : Bytes := ofString "LOCATION:http://192.168.1.7/d"

/-- an exception of the decoder that the protocol does not catch escapes `recv` at every endpoint -/
theorem raise_propagates (fx : Fixes) (cfg : Cfg) (ep : Endpoint) (t : Tracker) (data : Bytes) (loc : Option Addr)
    (src : Addr) (now : Int) (e : Exn) (hg : isValidPacket cfg.prefixes data = true)
    (hd : decodeX fx data loc src now = .error e) (hc : caught fx e = false) :
    recv fx cfg ep t data loc src now = .error e := by
  unfold recv protocolRecv
  simp [hg, hd, hc]

/-- F02a, at the call site: EVERY header value longer than 8190 bytes (not starting with a blank)
    makes the parser raise `LineTooLong`, which the original `except InvalidHeader` does not catch -/
theorem witness_F02a (v : Bytes) (hl : v.length > maxField) (h1 : v.head? ≠ some SP) (h2 : v.head? ≠ some HT) :
    parseLine (ofString "X:" ++ v) = .error .lineTooLong
    ∧ caught { Fixes.all with catchLineTooLong := false } .lineTooLong = false := by
  refine ⟨?_, by decide⟩
  have hs : splitFirst COLON (ofString "X:" ++ v) = some ([88], v) := by
    have e : ofString "X:" = [88, 58] := by decide
    have : ofString "X:" ++ v = [88] ++ COLON :: v := by rw [e]; rfl
    rw [this, splitFirst_append COLON [88] v (by decide)]
  unfold parseLine
  simp only [hs, lstripSPHT_id v h1 h2]
  have : ¬ ([88] : Bytes).length > maxField := by decide
  have hv : v.length > maxField := hl
  simp [hv, isToken, isTchar, SP, HT]

theorem witness_F02b :
    raises (recv { Fixes.all with catchUnicode := false } wCfg .adv {}
      (ofString "NOTIFY * HTTP/1.1 " ++ [255] ++ crlf ++ ofString "NTS:ssdp:alive" ++ crlf ++ crlf) none v4 0)
      = some .unicodeDecode := by decide +kernel

theorem witness_F02c :
    raises (recv { Fixes.all with urlsplitGuard := false } wCfg .listenerAdv {} (alive (ofString "LOCATION:http://[fe80::1/")) none scopedSrc 0)
      = some .urlValueError := by decide +kernel

theorem witness_F02d :
    raises (recv { Fixes.all with hostnameGuard := false } wCfg .search {} (alive (ofString "LOCATION:foo")) none scopedSrc 0)
      = some .hostnameAssertion := by decide +kernel

theorem witness_F02e :
    raises (recv { Fixes.all with portGuard := false } wCfg .listenerAdv {} (alive (ofString "LOCATION:http://[fe80::1]:99999/")) none scopedSrc 0)
      = some .portValueError := by decide +kernel

theorem witness_F02f :
    raises (recv { Fixes.all with tdGuard := false } wCfg .listenerAdv {}
      (alive (http ++ crlf ++ ofString "CACHE-CONTROL:max-age=99999999999999999999")) none v4 0)
      = some .timedeltaOverflow := by decide +kernel

theorem witness_F02g :
    raises (recv { Fixes.all with dtGuard := false } wCfg .listenerAdv {}
      (alive (http ++ crlf ++ ofString "CACHE-CONTROL:max-age=999999999999")) none v4 0)
      = some .datetimeOverflow := by decide +kernel

/-- F02h, at the call site: EVERY max-age of more than 4300 digits makes the unguarded `int()` raise -/
theorem witness_F02h (ds : Bytes) (hl : ds.length > 4300) (hd : ∀ b ∈ ds, isDigit b = true) :
    maxAgeUs { Fixes.all with intGuard := false } (ofString "max-age=" ++ ds) = .error .intDigitsLimit := by
  have hne : ds ≠ [] := by intro e; subst e; simp at hl
  obtain ⟨d0, dr, rfl⟩ := List.exists_cons_of_ne_nil hne
  have hd0 : isDigit d0 = true := hd d0 (by simp)
  have hws : isReWs d0 = false := by
    simp only [isDigit, Bool.and_eq_true, decide_eq_true_eq] at hd0
    simp only [isReWs, Bool.or_eq_false_iff, Bool.and_eq_false_iff, beq_eq_false_iff_ne, decide_eq_false_iff_not]
    omega
  have tw : ∀ l : Bytes, (∀ b ∈ l, isDigit b = true) → l.takeWhile isDigit = l := by
    intro l; induction l with
    | nil => intro _; rfl
    | cons a r ih => intro h; simp [List.takeWhile, h a (by simp), ih (fun b hb => h b (by simp [hb]))]
  have htw : (d0 :: dr).takeWhile isDigit = d0 :: dr := tw _ hd
  have hm : matchMaxAgeAt (ofString "max-age=" ++ d0 :: dr) = some (d0 :: dr) := by
    have e1 : ofString "max-age=" ++ d0 :: dr = [109, 97, 120, 45, 97, 103, 101, 61] ++ d0 :: dr := by
      have : ofString "max-age=" = [109, 97, 120, 45, 97, 103, 101, 61] := by decide
      rw [this]
    rw [e1]
    unfold matchMaxAgeAt
    have hst : startsWith (lower (([109, 97, 120, 45, 97, 103, 101, 61] ++ d0 :: dr).take 7)) (ofString "max-age") = true := by
      show startsWith (lower [109, 97, 120, 45, 97, 103, 101]) (ofString "max-age") = true
      decide
    simp only [hst, if_true]
    have hdrop : (([109, 97, 120, 45, 97, 103, 101, 61] ++ d0 :: dr).drop 7).dropWhile isReWs = 61 :: d0 :: dr := by
      simp [isReWs]
    rw [hdrop]
    simp only [List.dropWhile, hws, htw]
    simp
  have hf : findMaxAge (ofString "max-age=" ++ d0 :: dr) = some (d0 :: dr) := by
    have e1 : ofString "max-age=" ++ d0 :: dr = 109 :: ([97, 120, 45, 97, 103, 101, 61] ++ d0 :: dr) := by
      have : ofString "max-age=" = [109, 97, 120, 45, 97, 103, 101, 61] := by decide
      rw [this]; rfl
    rw [e1] at hm ⊢
    unfold findMaxAge
    rw [hm]
  unfold maxAgeUs
  rw [hf]
  have hl' : ¬ (dr.length ≤ 4299) := by simp at hl; omega
  simp [hl', Fixes.all]

theorem witness_F02i :
    raises (recv { Fixes.all with mxClamp := false } wCfg .responder {}
      (ofString "M-SEARCH * HTTP/1.1" ++ crlf ++ ofString "MAN:\"ssdp:discover\"" ++ crlf ++ ofString "MX:-1" ++ crlf
        ++ ofString "ST:ssdp:all" ++ crlf ++ crlf) none v4 0)
      = some .randrangeEmpty := by decide +kernel

/-- F02j: with the purge before the USN check, a message without USN that smuggles its own `_udn`
    header is dropped (no callback) and yet removes an expired device -/
theorem witness_F02j :
    let t : Tracker := { devices := [(ofString "uuid:d1", 1000)], next := some 1000 }
    let spoof := ofString "NOTIFY * HTTP/1.1" ++ crlf ++ ofString "_udn:uuid:x" ++ crlf ++ ofString "NT:x" ++ crlf
      ++ ofString "NTS:ssdp:alive" ++ crlf ++ http ++ crlf ++ crlf
    wellFormed wCfg .listenerAdv spoof none v4 5000 = false
    ∧ (recv { Fixes.all with checkBeforePurge := false } wCfg .listenerAdv t spoof none v4 5000).toOption
        = some ({ devices := [], next := none }, noEff)
    ∧ (recv Fixes.all wCfg .listenerAdv t spoof none v4 5000).toOption = some (t, noEff) := by decide +kernel

/-- non-vacuity of the positive side: a well-formed alive is dispatched (device added, one
    notification), a well-formed M-SEARCH with MX 2 schedules one deferred answer -/
example :
    wellFormed wCfg .listenerAdv (alive http) none v4 7 = true
    ∧ (recv Fixes.all wCfg .listenerAdv {} (alive http) none v4 7).toOption
        = some ({ devices := [(ofString "uuid:d1", 900000007)], next := some 900000007 }, oneCb)
    ∧ (recv Fixes.all wCfg .responder {}
        (ofString "M-SEARCH * HTTP/1.1" ++ crlf ++ ofString "MAN:\"ssdp:discover\"" ++ crlf ++ ofString "MX:2" ++ crlf
          ++ ofString "ST:upnp:rootdevice" ++ crlf ++ crlf) none v4 0).toOption = some ({}, { timers := 1 }) := by
  decide +kernel

end Upnp.C02
