/-
  C03 — known devices live exactly as long as max-age and byebye allow.

  Property theorems only (helper lemmas: `Lemmas/C03Tracker.lean`, `Lemmas/C03Judge.lean`).  The model
  (`Model/C03Tracker.lean`) transcribes `SsdpDeviceTracker` / `SsdpDevice` / the `SsdpListener` callbacks; `step`
  is the function the correspondence driver runs, `C03.ok` (`Spec/C03.lean`) is the judge the driver evaluates on
  the implementation's device maps.  All theorems are for an arbitrary string type, arbitrary `ipv` / `skip`
  functions, **every** list of events and arbitrary integer timestamps (equal, increasing or going backwards).
  `Ev.wf` is what the receive path guarantees about a message (see `Msg.wf`).
-/
import Upnp.Lemmas.C03Judge
import Upnp.Spec.C03Cfg
namespace Upnp.C03
open Upnp PyDict
variable {σ : Type} [DecidableEq σ] (ipv : σ → Option Nat) (skip : σ → Bool)

/-- the constants the source uses now (default max-age, regex text, location prefix, bad-location needles,
    volatile headers) are the ones the property text names -/
theorem gen_cfg_pinned : genCfg = specCfg := by decide

/-- the max-age regex the model implements by hand is the one in the source -/
theorem gen_regex_pinned :
    Gen.C03Tracker.cacheControlRe = "max-age\\s*=\\s*(\\d+)" ∧ Gen.C03Tracker.cacheControlFlags = "re.IGNORECASE" := by
  decide

/-- the header names the validity tests require, and the comparison operators of the purge / watermark tests,
    are the ones the model transcribes -/
theorem gen_shape_pinned :
    Gen.C03Tracker.searchRequired = ["_udn", "st", "location"] ∧
    Gen.C03Tracker.advRequired = ["_udn", "nt", "nts", "location"] ∧
    Gen.C03Tracker.byebyeRequired = ["_udn", "nt", "nts"] ∧
    Gen.C03Tracker.byebyeLocationPrefix = none ∧ Gen.C03Tracker.byebyeBadNeedles = [] ∧
    Gen.C03Tracker.purgeTests =
      ["purge_locations: now > valid_to", "_see_device: self.next_valid_to > ssdp_device.valid_to",
       "purge_devices: self.next_valid_to > now", "purge_devices: now > device.valid_to",
       "purge_devices: device.valid_to < self.next_valid_to"] := by
  decide

/-- the state after a history -/
def final (s : Tracker σ) (evs : List (Ev σ)) : Tracker σ := evs.foldl (fun s e => (step ipv skip s e).1) s

/-- **watermark_inv** — in every reachable state `next_valid_to` is set whenever a device is known and is a
    lower bound of every `valid_to`; device keys are distinct; every device has a location valid as long as itself. -/
theorem watermark_inv (evs : List (Ev σ)) : Inv (final ipv skip {} evs) := by
  suffices H : ∀ s : Tracker σ, Inv s → Inv (final ipv skip s evs) from H _ inv_empty
  induction evs with
  | nil => intro s h; exact h
  | cons e r ih => intro s h; exact ih _ (inv_step ipv skip h e)

/-- **purge_exact** — in every reachable state `purge_devices(now)`, whether or not it takes the early exit,
    keeps exactly the devices with `valid_to ≥ now`, and changes nothing of a kept device except dropping
    expired locations: the lazy purge refines the eager filter. -/
theorem purge_exact (evs : List (Ev σ)) (now : Int) (u : σ) :
    let s := final ipv skip {} evs
    (∀ d, get? s.devices u = some d → now ≤ d.validTo →
        ∃ d', get? (purge s now).devices u = some d' ∧ Keeps now d d') ∧
    (∀ d, get? s.devices u = some d → d.validTo < now → get? (purge s now).devices u = none) ∧
    (get? s.devices u = none → get? (purge s now).devices u = none) := by
  intro s
  have hi := watermark_inv ipv skip evs
  exact ⟨fun d h hv => purge_get?_kept now u d h (by omega),
         fun d h hv => purge_get?_expired hi now u d h (by omega),
         fun h => purge_get?_none now u h⟩

/-! ### one step satisfies the judge -/

theorem wf_not_sighting_of_invalid (m : Msg σ) (hw : m.wf = true)
    (h : (m.kind = .search ∧ m.validSearch = false) ∨ (m.kind ≠ .search ∧ m.validAdv = false)) :
    m.sighting? = none := by
  unfold Msg.sighting?
  split
  · rfl
  · cases hu : m.udn <;> cases ht : m.ty <;> cases hl : m.loc <;> simp
    rename_i u ty loc
    cases hlo : m.locOk with
    | false => rfl
    | true =>
    exfalso
    simp only [Msg.wf, hu, Option.isNone_some, Bool.false_or, Bool.and_eq_true, decide_eq_true_eq, Bool.or_eq_true] at hw
    rcases h with ⟨_, h⟩ | ⟨hk, h⟩
    · simp [Msg.validSearch, hw.1.1, ht, hl, hlo] at h
    · have hn : m.ntsOk = true := by rcases hw.1.2 with h' | h'; exact absurd h' hk; exact h'
      simp [Msg.validAdv, hw.1.1, ht, hl, hlo, hn] at h

/-- the transitions of a search response / alive / update, as seen by the judge -/
theorem sight_step_ok (le : σ → σ → Bool) {s : Tracker σ} {sp : Sp σ} (hi : Inv s) (hr : Rel sp s) (m : Msg σ)
    (hw : m.wf = true) (hk : m.kind ≠ .byebye) (s' : Tracker σ)
    (H : (s' = s ∧ m.sighting? = none) ∨ (s' = purge s m.ts ∧ m.sighting? = none) ∨
      ∃ u loc d nl d', seeDevice ipv s m = ((seeDevice ipv s m).1, some (u, d, nl)) ∧ m.sighting? = some (u, loc) ∧
        d'.validTo = d.validTo ∧ d'.locs = d.locs ∧
        s' = ⟨set (seeDevice ipv s m).1.devices u d', (seeDevice ipv s m).1.next⟩) :
    Inv s' ∧ Rel (specStep sp (.msg m)) s' ∧
    stepOk (specStep sp (.msg m)) (.msg m) (snapOf le s) (snapOf le s') = true := by
  have hbye : m.byebye? = none := by simp [Msg.byebye?, hk]
  rcases H with ⟨hs, hsi⟩ | ⟨hs, hsi⟩ | ⟨u, loc, d, nl, d', hsd, hsi, hv, hl, hs⟩
  · rw [hs]
    have hr' : Rel (specStep sp (.msg m)) s := by simp only [specStep, hsi, hbye]; exact rel_tick hr _
    refine ⟨hi, hr', ?_⟩
    simp only [stepOk, hsi, hbye, Bool.and_eq_true]
    exact ⟨present_ok le hi hr', inert_same le hi⟩
  · rw [hs]
    have hi' := inv_purge hi m.ts
    have hr' : Rel (specStep sp (.msg m)) (purge s m.ts) := by
      simp only [specStep, hsi, hbye]; exact rel_tick_purge hi hr _
    refine ⟨hi', hr', ?_⟩
    simp only [stepOk, hsi, hbye, Bool.and_eq_true]
    exact ⟨present_ok le hi' hr', inert_purge le hi m.ts⟩
  · obtain ⟨loc', hu, hloc, hd, _, hsd1⟩ := seeDevice_dev ipv s m _ u d nl hsd
    have hisd := inv_seeDevice ipv hi m
    have hdv : d.validTo = m.ts + m.maxAge := by rw [hd, (sighted_props _ _ _ _).1, refreshed_validTo]
    have hget : get? (seeDevice ipv s m).1.devices u = some d := by rw [hsd1]; simp [get?_set_self]
    have hrsd : Rel (specStep sp (.msg m)) (seeDevice ipv s m).1 := by
      simp only [specStep, hsi, Ev.time]
      rw [hsd1, ← hdv]
      exact rel_sight (rel_tick_purge hi hr m.ts) u d _
    rw [hs]
    refine ⟨inv_restore hisd u d d' hget hv hl, rel_restore hrsd u d d' _ hget hv, ?_⟩
    rw [snapOf_restore le _ u d d' _ hget hv hl]
    simp only [stepOk, hsi, Bool.and_eq_true]
    refine ⟨present_ok le hisd hrsd, expired_gone_of le hisd hrsd m.ts ?_⟩
    intro k x hx
    rw [hsd1] at hx
    simp only [get?_set] at hx
    by_cases e : u = k
    · simp only [e, if_true, Option.some.injEq] at hx
      subst hx
      have : 0 ≤ m.maxAge := by simp [Msg.wf] at hw; exact hw.2
      omega
    · simp only [e, if_false] at hx
      obtain ⟨x0, _, h2, h3⟩ := purge_get?_inv hi m.ts k x hx
      rw [h3.1]; omega

theorem sighting_of_valid (m : Msg σ) (hk : m.kind ≠ .byebye) (u loc ty : σ)
    (hu : m.udn = some u) (hl : m.loc = some loc) (ht : m.ty = some ty) (hlo : m.locOk = true) :
    m.sighting? = some (u, loc) := by
  simp [Msg.sighting?, hk, hu, hl, ht, hlo]

theorem search_cases (s : Tracker σ) (m : Msg σ) (hw : m.wf = true) (hk : m.kind = .search) :
    ((seeSearch ipv skip s m).1 = s ∧ m.sighting? = none) ∨
    ((seeSearch ipv skip s m).1 = purge s m.ts ∧ m.sighting? = none) ∨
      ∃ u loc d nl d', seeDevice ipv s m = ((seeDevice ipv s m).1, some (u, d, nl)) ∧ m.sighting? = some (u, loc) ∧
        d'.validTo = d.validTo ∧ d'.locs = d.locs ∧
        (seeSearch ipv skip s m).1 = ⟨set (seeDevice ipv s m).1.devices u d', (seeDevice ipv s m).1.next⟩ := by
  by_cases hv : m.validSearch = true
  · have hv' := hv
    simp only [Msg.validSearch, Bool.and_eq_true, Option.isSome_iff_exists] at hv'
    obtain ⟨⟨⟨_, ⟨ty, hty⟩⟩, ⟨loc, hloc⟩⟩, hlo⟩ := hv'
    cases hu : m.udn with
    | none =>
      right; left
      refine ⟨?_, by simp [Msg.sighting?, hu]⟩
      simp [seeSearch, hv, seeDevice_none ipv s m (Or.inl hu)]
    | some u =>
      right; right
      have hsd := seeDevice_some ipv s m u loc hu hloc
      obtain ⟨d, hd⟩ : ∃ d, d = sighted (refreshed (purge s m.ts) u (m.ts + m.maxAge)) loc (m.ts + m.maxAge) m.ts :=
        ⟨_, rfl⟩
      rw [← hd] at hsd
      refine ⟨u, loc, d, _, { d with search := set d.search ty m.hdrs }, by rw [hsd],
        sighting_of_valid m (by simp [hk]) u loc ty hu hloc hty hlo, rfl, rfl, ?_⟩
      simp only [seeSearch, hv, Bool.not_true, Bool.false_eq_true, if_false, hsd, hty]
  · left
    have hv2 : m.validSearch = false := by simpa using hv
    exact ⟨by simp [seeSearch, hv2], wf_not_sighting_of_invalid m hw (Or.inl ⟨hk, hv2⟩)⟩

theorem adv_cases (s : Tracker σ) (m : Msg σ) (hw : m.wf = true) (hk : m.kind = .alive ∨ m.kind = .update) :
    ((seeAdv ipv skip s m).1 = s ∧ m.sighting? = none) ∨
    ((seeAdv ipv skip s m).1 = purge s m.ts ∧ m.sighting? = none) ∨
      ∃ u loc d nl d', seeDevice ipv s m = ((seeDevice ipv s m).1, some (u, d, nl)) ∧ m.sighting? = some (u, loc) ∧
        d'.validTo = d.validTo ∧ d'.locs = d.locs ∧
        (seeAdv ipv skip s m).1 = ⟨set (seeDevice ipv s m).1.devices u d', (seeDevice ipv s m).1.next⟩ := by
  have hnb : m.kind ≠ .byebye := by rcases hk with h | h <;> simp [h]
  have hns : m.kind ≠ .search := by rcases hk with h | h <;> simp [h]
  by_cases hv : m.validAdv = true
  · have hv' := hv
    simp only [Msg.validAdv, Bool.and_eq_true, Option.isSome_iff_exists] at hv'
    obtain ⟨⟨⟨⟨_, ⟨ty, hty⟩⟩, _⟩, ⟨loc, hloc⟩⟩, hlo⟩ := hv'
    cases hu : m.udn with
    | none =>
      right; left
      refine ⟨?_, by simp [Msg.sighting?, hu]⟩
      simp [seeAdv, hv, seeDevice_none ipv s m (Or.inl hu)]
    | some u =>
      right; right
      have hsd := seeDevice_some ipv s m u loc hu hloc
      obtain ⟨d, hd⟩ : ∃ d, d = sighted (refreshed (purge s m.ts) u (m.ts + m.maxAge)) loc (m.ts + m.maxAge) m.ts :=
        ⟨_, rfl⟩
      rw [← hd] at hsd
      refine ⟨u, loc, d, _, { d with adv := set d.adv ty m.hdrs }, by rw [hsd],
        sighting_of_valid m hnb u loc ty hu hloc hty hlo, rfl, rfl, ?_⟩
      simp only [seeAdv, hv, Bool.not_true, Bool.false_eq_true, if_false, hsd, hty]
  · left
    have hv2 : m.validAdv = false := by simpa using hv
    exact ⟨by simp [seeAdv, hv2], wf_not_sighting_of_invalid m hw (Or.inr ⟨hns, hv2⟩)⟩

theorem erase_of_get?_none {κ ν : Type} [DecidableEq κ] (d : PyDict κ ν) (k : κ) (h : get? d k = none) :
    erase d k = d := by
  induction d with
  | nil => rfl
  | cons p r ih =>
    obtain ⟨k', v⟩ := p
    by_cases e : k' = k
    · simp [get?, e] at h
    · simp [get?, e] at h; simp [erase, e, ih h]

theorem byebye_step_ok (le : σ → σ → Bool) {s : Tracker σ} {sp : Sp σ} (hi : Inv s) (hr : Rel sp s) (m : Msg σ)
    (hw : m.wf = true) (hk : m.kind = .byebye) :
    Inv (unsee s m).1 ∧ Rel (specStep sp (.msg m)) (unsee s m).1 ∧
    stepOk (specStep sp (.msg m)) (.msg m) (snapOf le s) (snapOf le (unsee s m).1) = true := by
  have hsi : m.sighting? = none := by simp [Msg.sighting?, hk]
  have inert : m.byebye? = none → (unsee s m).1 = s →
      Inv (unsee s m).1 ∧ Rel (specStep sp (.msg m)) (unsee s m).1 ∧
      stepOk (specStep sp (.msg m)) (.msg m) (snapOf le s) (snapOf le (unsee s m).1) = true := by
    intro hb hs
    rw [hs]
    have hr' : Rel (specStep sp (.msg m)) s := by simp only [specStep, hsi, hb]; exact rel_tick hr _
    refine ⟨hi, hr', ?_⟩
    simp only [stepOk, hsi, hb, Bool.and_eq_true]
    exact ⟨present_ok le hi hr', inert_same le hi⟩
  cases hu : m.udn with
  | none => exact inert (by simp [Msg.byebye?, hu]) (by unfold unsee; simp [hu])
  | some u =>
    cases hty : m.ty with
    | none =>
      exact inert (by simp [Msg.byebye?, hu, hty]) (by unfold unsee; simp [hu, hty])
    | some ty =>
      have hb : m.byebye? = some u := by simp [Msg.byebye?, hk, hu, hty]
      have hvalid : m.validByebye = true := by
        simp only [Msg.wf, hu, hk, Option.isNone_some, Bool.false_or, Bool.and_eq_true, decide_eq_true_eq,
          Bool.or_eq_true] at hw
        have hn : m.ntsOk = true := by
          rcases hw.1.2 with h' | h'
          · cases h'
          · exact h'
        simp [Msg.validByebye, hw.1.1, hty, hn]
      cases hg : get? s.devices u with
      | none =>
        have hs : (unsee s m).1 = s := by simp [unsee, hvalid, hu, hty, hg]
        rw [hs]
        have hr' : Rel (specStep sp (.msg m)) s := by
          simp only [specStep, hsi, hb]
          have := rel_erase hi (rel_tick hr (Ev.time (.msg m))) u s.next
          rw [erase_of_get?_none _ _ hg] at this
          exact this
        refine ⟨hi, hr', ?_⟩
        simp only [stepOk, hsi, hb, Bool.and_eq_true]
        exact ⟨present_ok le hi hr', byebye_ok_unknown le hi u hg⟩
      | some d =>
        have hs : (unsee s m).1 = ⟨erase s.devices u, s.next⟩ := by simp [unsee, hvalid, hu, hty, hg]
        rw [hs]
        have hi' := inv_erase hi u
        have hr' : Rel (specStep sp (.msg m)) ⟨erase s.devices u, s.next⟩ := by
          simp only [specStep, hsi, hb]
          exact rel_erase hi (rel_tick hr _) u s.next
        refine ⟨hi', hr', ?_⟩
        simp only [stepOk, hsi, hb, Bool.and_eq_true]
        exact ⟨present_ok le hi' hr', byebye_ok_erase le hi u s.next⟩

/-- **Every step of the model satisfies the judge's step relation** and keeps the invariants. -/
theorem step_ok (le : σ → σ → Bool) {s : Tracker σ} {sp : Sp σ} (hi : Inv s) (hr : Rel sp s) (e : Ev σ)
    (hw : e.wf = true) :
    Inv (step ipv skip s e).1 ∧ Rel (specStep sp e) (step ipv skip s e).1 ∧
    stepOk (specStep sp e) e (snapOf le s) (snapOf le (step ipv skip s e).1) = true := by
  cases e with
  | msg m =>
    simp only [Ev.wf] at hw
    simp only [step]
    cases hk : m.kind with
    | search => exact sight_step_ok ipv le hi hr m hw (by simp [hk]) _ (search_cases ipv skip s m hw hk)
    | alive => exact sight_step_ok ipv le hi hr m hw (by simp [hk]) _ (adv_cases ipv skip s m hw (Or.inl hk))
    | update => exact sight_step_ok ipv le hi hr m hw (by simp [hk]) _ (adv_cases ipv skip s m hw (Or.inr hk))
    | byebye => exact byebye_step_ok le hi hr m hw hk
  | purge now =>
    simp only [step, specStep]
    have hi' := inv_purge hi now
    have hr' : Rel (tick now sp) (purge s now) := rel_tick_purge hi hr now
    refine ⟨hi', hr', ?_⟩
    simp only [stepOk, Ev.time, Bool.and_eq_true]
    refine ⟨present_ok le hi' hr', expired_gone_of le hi' hr' now ?_, inert_purge le hi now⟩
    intro k x hx
    obtain ⟨x0, _, h2, h3⟩ := purge_get?_inv hi now k x hx
    rw [h3.1]; omega
  | noise ts =>
    simp only [step, specStep]
    have hr' : Rel (tick ts sp) s := rel_tick hr ts
    refine ⟨hi, hr', ?_⟩
    simp only [stepOk, Bool.and_eq_true]
    exact ⟨present_ok le hi hr', inert_same le hi⟩

/-- the trace the judge reads, produced by the model -/
def traceOf (le : σ → σ → Bool) (s : Tracker σ) (evs : List (Ev σ)) : List (Ev σ × Snap σ) :=
  (run ipv skip s evs).map fun x => (x.1, snapOf le x.2.1)

/-- **c03_history** — for every history of well-formed events (any length, any devices, any timestamps) the
    device maps of the model satisfy the judge `C03.ok`: every device within its max-age and not byebye'd is
    present with a location; after a valid sighting or purge at `t` no device whose validity ended before `t`
    remains; a byebye removes the named device and only it; every other message creates and refreshes nothing. -/
theorem c03_history (le : σ → σ → Bool) (evs : List (Ev σ)) (hw : ∀ e ∈ evs, e.wf = true) :
    ok (traceOf ipv skip le {} evs) = true := by
  suffices H : ∀ (s : Tracker σ) (sp : Sp σ), Inv s → Rel sp s →
      okFrom sp (snapOf le s) (traceOf ipv skip le s evs) = true from H _ _ inv_empty rel_empty
  induction evs with
  | nil => intro s sp _ _; rfl
  | cons e r ih =>
    intro s sp hi hr
    obtain ⟨hi', hr', hok⟩ := step_ok ipv skip le hi hr e (hw e List.mem_cons_self)
    simp only [traceOf, run, List.map_cons, okFrom, Bool.and_eq_true]
    exact ⟨hok, ih (fun x hx => hw x (List.mem_cons_of_mem _ hx)) _ _ hi' hr'⟩

/-- non-vacuity: a concrete history (strings are numbers) with two devices, an expiry by explicit purge, a
    byebye and a re-appearance satisfies the hypotheses; the final state is non-trivial and the judge, which can
    fail (last line: a trace in which an expired device survives a purge), accepts the model's trace -/
example :
    let ipv : Nat → Option Nat := fun l => if l < 100 then some 4 else some 6
    let skip : Nat → Bool := fun k => decide (k < 10)
    let le : Nat → Nat → Bool := fun a b => decide (a ≤ b)
    let mk (kind : Kind) (ts : Int) (u loc : Nat) (age : Int) : Ev Nat :=
      .msg { kind := kind, ts := ts, udnHdr := some u, udn := some u, ty := some 1, ntsOk := true,
             loc := some loc, locOk := true, maxAge := age, hdrs := [(20, (20, 7))] }
    let evs := [mk .search 0 1 50 5, mk .alive 3 2 60 1, .purge 5, mk .byebye 5 1 50 0, mk .update 6 2 150 10]
    (∀ e ∈ evs, e.wf = true) ∧
    (final ipv skip {} evs).devices.map (fun p => (p.1, p.2.validTo, p.2.locs)) = [(2, 16, [(150, 16)])] ∧
    (final ipv skip {} (evs.take 3)).devices.map (fun p => (p.1, p.2.validTo)) = [(1, 5)] ∧
    ok (traceOf ipv skip le {} evs) = true ∧
    ok [(mk .search 0 1 50 5, [⟨1, 5, [(50, 5)], some 50⟩]), (.purge 6, [⟨1, 5, [(50, 5)], some 50⟩])] = false := by
  decide

/-! ### the clauses of the property, stated directly on the model -/

/-- **expired_gone** — in every reachable state, processing a valid sighting or an explicit purge at time `t`
    leaves no device whose validity ended before `t`. -/
theorem expired_gone (evs : List (Ev σ)) (e : Ev σ) (hw : e.wf = true) (t : Int)
    (he : e = .purge t ∨ ∃ m, e = .msg m ∧ m.ts = t ∧ m.sighting?.isSome = true) :
    ∀ k d, get? (step ipv skip (final ipv skip {} evs) e).1.devices k = some d → t ≤ d.validTo := by
  have hi := watermark_inv ipv skip evs
  intro k d hd
  rcases he with rfl | ⟨m, rfl, rfl, hs⟩
  · obtain ⟨x0, _, h2, h3⟩ := purge_get?_inv hi t k d hd
    rw [h3.1]; omega
  · simp only [Ev.wf] at hw
    have key : ∀ s', ((s' = final ipv skip {} evs ∧ m.sighting? = none) ∨
        (s' = purge (final ipv skip {} evs) m.ts ∧ m.sighting? = none) ∨
        ∃ u loc d nl d', seeDevice ipv (final ipv skip {} evs) m =
            ((seeDevice ipv (final ipv skip {} evs) m).1, some (u, d, nl)) ∧ m.sighting? = some (u, loc) ∧
          d'.validTo = d.validTo ∧ d'.locs = d.locs ∧
          s' = ⟨set (seeDevice ipv (final ipv skip {} evs) m).1.devices u d',
                (seeDevice ipv (final ipv skip {} evs) m).1.next⟩) →
        get? s'.devices k = some d → m.ts ≤ d.validTo := by
      intro s' H hd
      rcases H with ⟨_, h⟩ | ⟨_, h⟩ | ⟨u, loc, d1, nl, d', hsd, _, hv, _, hs'⟩
      · rw [h] at hs; cases hs
      · rw [h] at hs; cases hs
      · obtain ⟨loc', _, _, hd1, _, hsd1⟩ := seeDevice_dev ipv _ m _ u d1 nl hsd
        have hdv : d1.validTo = m.ts + m.maxAge := by rw [hd1, (sighted_props _ _ _ _).1, refreshed_validTo]
        have : 0 ≤ m.maxAge := by simp [Msg.wf] at hw; exact hw.2
        rw [hs'] at hd
        simp only [get?_set] at hd
        by_cases e : u = k
        · simp only [e, if_true, Option.some.injEq] at hd; subst hd; omega
        · simp only [e, if_false] at hd
          rw [hsd1] at hd
          simp only [get?_set, e, if_false] at hd
          obtain ⟨x0, _, h2, h3⟩ := purge_get?_inv hi m.ts k d hd
          rw [h3.1]; omega
    simp only [step] at hd
    cases hk : m.kind with
    | search => rw [hk] at hd; exact key _ (search_cases ipv skip _ m hw hk) hd
    | alive => rw [hk] at hd; exact key _ (adv_cases ipv skip _ m hw (Or.inl hk)) hd
    | update => rw [hk] at hd; exact key _ (adv_cases ipv skip _ m hw (Or.inr hk)) hd
    | byebye => simp [Msg.sighting?, hk] at hs

/-- **byebye_exact** — a byebye naming `u` (uuid USN, a type) removes `u` and only `u`, at once: the device map
    becomes `erase u` of what it was (nothing else is touched, no purge happens, the watermark stays);
    for an unknown `u` the state is unchanged. -/
theorem byebye_exact (evs : List (Ev σ)) (m : Msg σ) (hw : m.wf = true) (u : σ) (hb : m.byebye? = some u) :
    let s := final ipv skip {} evs
    (step ipv skip s (.msg m)).1 = ⟨erase s.devices u, s.next⟩ ∧
    get? (step ipv skip s (.msg m)).1.devices u = none ∧
    (∀ k, k ≠ u → get? (step ipv skip s (.msg m)).1.devices k = get? s.devices k) ∧
    (get? s.devices u = none → (step ipv skip s (.msg m)).1 = s) := by
  intro s
  have hi : Inv s := watermark_inv ipv skip evs
  have hk : m.kind = .byebye := by
    unfold Msg.byebye? at hb; split at hb
    · assumption
    · cases hb
  have hu : m.udn = some u ∧ ∃ ty, m.ty = some ty := by
    simp only [Msg.byebye?, hk, if_true] at hb
    cases hu : m.udn <;> cases hty : m.ty <;> simp [hu, hty] at hb
    exact ⟨by rw [hb], _, rfl⟩
  obtain ⟨hu, ty, hty⟩ := hu
  have hvalid : m.validByebye = true := by
    simp only [Msg.wf, hu, hk, Option.isNone_some, Bool.false_or, Bool.and_eq_true, decide_eq_true_eq,
      Bool.or_eq_true] at hw
    have hn : m.ntsOk = true := by
      rcases hw.1.2 with h' | h'
      · cases h'
      · exact h'
    simp [Msg.validByebye, hw.1.1, hty, hn]
  have hst : (step ipv skip s (.msg m)).1 = ⟨erase s.devices u, s.next⟩ := by
    simp only [step, hk]
    cases hg : get? s.devices u with
    | none => simp [unsee, hvalid, hu, hty, hg, erase_of_get?_none _ _ hg]
    | some d => simp [unsee, hvalid, hu, hty, hg]
  refine ⟨hst, ?_, ?_, ?_⟩
  · rw [hst]; exact get?_erase_self _ _ hi.nodup
  · intro k hk'; rw [hst]; exact get?_erase_ne _ _ _ (Ne.symm hk')
  · intro hg; rw [hst]; simp [erase_of_get?_none _ _ hg]

/-- **invalid_inert** — a message that is not a valid sighting in the sense of the property text (no uuid USN, no
    type, no location, location not starting with `http` or containing a loopback / link-local needle) and not
    a byebye naming a device never creates or refreshes a device: the tracker is unchanged, or — for a message
    with a literal `_udn` header but no uuid USN, which passes the code's validity test — merely purged at the
    message's timestamp. -/
theorem invalid_inert (s : Tracker σ) (m : Msg σ) (hw : m.wf = true)
    (hs : m.sighting? = none) (hb : m.byebye? = none) :
    (step ipv skip s (.msg m)).1 = s ∨ (step ipv skip s (.msg m)).1 = purge s m.ts := by
  simp only [step]
  have key : ∀ s', ((s' = s ∧ m.sighting? = none) ∨ (s' = purge s m.ts ∧ m.sighting? = none) ∨
        ∃ u loc d nl d', seeDevice ipv s m = ((seeDevice ipv s m).1, some (u, d, nl)) ∧ m.sighting? = some (u, loc) ∧
          d'.validTo = d.validTo ∧ d'.locs = d.locs ∧
          s' = ⟨set (seeDevice ipv s m).1.devices u d', (seeDevice ipv s m).1.next⟩) →
        s' = s ∨ s' = purge s m.ts := by
    intro s' H
    rcases H with ⟨h, _⟩ | ⟨h, _⟩ | ⟨u, loc, _, _, _, _, h, _⟩
    · exact Or.inl h
    · exact Or.inr h
    · rw [hs] at h; cases h
  cases hk : m.kind with
  | search => exact key _ (search_cases ipv skip s m hw hk)
  | alive => exact key _ (adv_cases ipv skip s m hw (Or.inl hk))
  | update => exact key _ (adv_cases ipv skip s m hw (Or.inr hk))
  | byebye =>
    left
    simp only [Msg.byebye?, hk, if_true] at hb
    unfold unsee
    cases hu : m.udn <;> cases hty : m.ty <;> simp [hu, hty] at hb ⊢

end Upnp.C03
