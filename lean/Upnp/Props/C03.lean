/-
  C03 — known devices live exactly as long as max-age and byebye allow.  (work in progress)
-/
import Upnp.Spec.C03
import Upnp.Spec.C03Cfg
namespace Upnp.C03
open Upnp PyDict

/-- the constants the source uses now are the ones the property text names -/
theorem gen_cfg_pinned : genCfg = specCfg := by decide

end Upnp.C03
