/-
  C03 — known devices live exactly as long as max-age and byebye allow.

  Property theorems only (helper lemmas: `Lemmas/C03Tracker.lean`, `Lemmas/C03Judge.lean`, `Lemmas/C03Step.lean`).  The model
  (`Model/C03Tracker.lean`) transcribes `SsdpDeviceTracker` / `SsdpDevice` / the `SsdpListener` callbacks; `step`
  is the function the correspondence driver runs, `C03.ok` (`Spec/C03.lean`) is the judge the driver evaluates on
  the implementation's device maps.  All theorems are for an arbitrary string type, arbitrary `ipv` / `skip`
  functions, **every** list of events and arbitrary integer timestamps (equal, increasing or going backwards).
  `Ev.wf` is what the receive path guarantees about a message (see `Msg.wf`).
-/
import Upnp.Lemmas.C03Present
import Upnp.Lemmas.C03Parse
import Upnp.Spec.C03Cfg
namespace Upnp.C03
open Upnp PyDict
variable {σ : Type} [DecidableEq σ] (ipv : σ → Option Nat) (skip : σ → Bool)

/-- the constants the source uses now (default max-age, regex text, location prefix, bad-location needles,
    volatile headers) are the ones the property text names -/
theorem gen_cfg_pinned : genCfg = specCfg := by decide

/-- the max-age regex the model implements by hand is the one in the source -/
theorem gen_regex_pinned :
    Gen.C03Tracker.cacheControlRe = "max-age\\s*=\\s*(\\d+)" ∧ Gen.C03Tracker.cacheControlFlags = "re.IGNORECASE" := by
  decide

/-- the header names the validity tests require, the comparison operators of the purge / watermark tests, and the
    statement order of `_see_device` (the USN is validated BEFORE the purge: an ignored message touches nothing)
    are the ones the model transcribes -/
theorem gen_shape_pinned :
    Gen.C03Tracker.searchRequired = ["_udn", "st", "location"] ∧
    Gen.C03Tracker.advRequired = ["_udn", "nt", "nts", "location"] ∧
    Gen.C03Tracker.byebyeRequired = ["_udn", "nt", "nts"] ∧
    Gen.C03Tracker.byebyeLocationPrefix = none ∧ Gen.C03Tracker.byebyeBadNeedles = [] ∧
    Gen.C03Tracker.purgeTests =
      ["purge_locations: now > valid_to", "_see_device: self.next_valid_to > ssdp_device.valid_to",
       "purge_devices: self.next_valid_to > now", "purge_devices: now > device.valid_to",
       "purge_devices: device.valid_to < self.next_valid_to"] ∧
    Gen.C03Tracker.seeDeviceOrder =
      ["validate-usn-return", "now", "purge", "valid_to", "create-or-refresh", "location_changed", "add_location",
       "last_seen", "lower-watermark", "return"] := by
  decide

/-- every function the model transcribes by hand still reads as it did when it was transcribed (whole source, not only
    constants: the `elif` of `purge_devices`, the decisive last line of `is_usable_location`, the `ipv4_mapped` unwrapping, …) -/
theorem gen_sources_pinned :
    Gen.C03Tracker.sources = transcribedSources ∧ Gen.C03Tracker.usableLocationSrc = transcribedUsableLocation :=
  ⟨rfl, rfl⟩

/-- the state after a history -/
def final (s : Tracker σ) (evs : List (Ev σ)) : Tracker σ := evs.foldl (fun s e => (step ipv skip s e).1) s

/-- **watermark_inv** — in every reachable state `next_valid_to` is set whenever a device is known and is a
    lower bound of every `valid_to`; device keys are distinct; every device has a location valid as long as itself. -/
theorem watermark_inv (evs : List (Ev σ)) : Inv (final ipv skip {} evs) := by
  suffices H : ∀ s : Tracker σ, Inv s → Inv (final ipv skip s evs) from H _ inv_empty
  induction evs with
  | nil => intro s h; exact h
  | cons e r ih => intro s h; exact ih _ (inv_step ipv skip h e)

/-- **purge_exact** — in every reachable state `purge_devices(now)`, whether or not it takes the early exit,
    keeps exactly the devices with `valid_to ≥ now`, and changes nothing of a kept device except dropping
    expired locations: the lazy purge refines the eager filter. -/
theorem purge_exact (evs : List (Ev σ)) (now : Int) (u : σ) :
    let s := final ipv skip {} evs
    (∀ d, get? s.devices u = some d → now ≤ d.validTo →
        ∃ d', get? (purge s now).devices u = some d' ∧ Keeps now d d') ∧
    (∀ d, get? s.devices u = some d → d.validTo < now → get? (purge s now).devices u = none) ∧
    (get? s.devices u = none → get? (purge s now).devices u = none) := by
  intro s
  have hi := watermark_inv ipv skip evs
  exact ⟨fun d h hv => purge_get?_kept now u d h (by omega),
         fun d h hv => purge_get?_expired hi now u d h (by omega),
         fun h => purge_get?_none now u h⟩
/-- **Every step of the model satisfies the judge's step relation** and keeps the invariants. -/
theorem step_ok (le : σ → σ → Bool) {s : Tracker σ} {sp : Sp σ} (hi : Inv s) (hr : Rel sp s) (e : Ev σ)
    (hw : e.wf = true) :
    Inv (step ipv skip s e).1 ∧ Rel (specStep sp e) (step ipv skip s e).1 ∧
    stepOk (specStep sp e) e (snapOf le s) (snapOf le (step ipv skip s e).1) = true := by
  cases e with
  | msg m =>
    simp only [Ev.wf] at hw
    simp only [step]
    cases hk : m.kind with
    | search => exact sight_step_ok ipv le hi hr m hw (by simp [hk]) _ (search_cases ipv skip s m hw hk)
    | alive => exact sight_step_ok ipv le hi hr m hw (by simp [hk]) _ (adv_cases ipv skip s m hw (Or.inl hk))
    | update => exact sight_step_ok ipv le hi hr m hw (by simp [hk]) _ (adv_cases ipv skip s m hw (Or.inr hk))
    | byebye => exact byebye_step_ok le hi hr m hw hk
  | purge now =>
    simp only [step, specStep]
    have hi' := inv_purge hi now
    have hr' : Rel (tick now sp) (purge s now) := rel_tick_purge hi hr now
    refine ⟨hi', hr', ?_⟩
    simp only [stepOk, Ev.time, Bool.and_eq_true]
    refine ⟨present_ok le hi' hr', expired_gone_of le hi' hr' now ?_, inert_purge le hi now⟩
    intro k x hx
    obtain ⟨x0, _, h2, h3⟩ := purge_get?_inv hi now k x hx
    rw [h3.1]; omega
  | noise ts =>
    simp only [step, specStep]
    have hr' : Rel (tick ts sp) s := rel_tick hr ts
    refine ⟨hi, hr', ?_⟩
    simp only [stepOk, Bool.and_eq_true]
    exact ⟨present_ok le hi hr', inert_same le hi⟩

/-- the trace the judge reads, produced by the model -/
def traceOf (le : σ → σ → Bool) (s : Tracker σ) (evs : List (Ev σ)) : List (Ev σ × Snap σ) :=
  (run ipv skip s evs).map fun x => (x.1, snapOf le x.2.1)

/-- **c03_history** — for every history of well-formed events (any length, any devices, any timestamps) the
    device maps of the model satisfy the judge `C03.ok`: every device within its max-age and not byebye'd is
    present with a location; after a valid sighting or purge at `t` no device whose validity ended before `t`
    remains; a byebye removes the named device and only it; every other message creates and refreshes nothing. -/
theorem c03_history (le : σ → σ → Bool) (evs : List (Ev σ)) (hw : ∀ e ∈ evs, e.wf = true) :
    ok (traceOf ipv skip le {} evs) = true := by
  suffices H : ∀ (s : Tracker σ) (sp : Sp σ), Inv s → Rel sp s →
      okFrom sp (snapOf le s) (traceOf ipv skip le s evs) = true from H _ _ inv_empty rel_empty
  induction evs with
  | nil => intro s sp _ _; rfl
  | cons e r ih =>
    intro s sp hi hr
    obtain ⟨hi', hr', hok⟩ := step_ok ipv skip le hi hr e (hw e List.mem_cons_self)
    simp only [traceOf, run, List.map_cons, okFrom, Bool.and_eq_true]
    exact ⟨hok, ih (fun x hx => hw x (List.mem_cons_of_mem _ hx)) _ _ hi' hr'⟩

/-- non-vacuity: a concrete history (strings are numbers) with two devices, an expiry by explicit purge, a
    byebye and a re-appearance satisfies the hypotheses; the final state is non-trivial and the judge, which can
    fail (last line: a trace in which an expired device survives a purge), accepts the model's trace -/
example :
    let ipv : Nat → Option Nat := fun l => if l < 100 then some 4 else some 6
    let skip : Nat → Bool := fun k => decide (k < 10)
    let le : Nat → Nat → Bool := fun a b => decide (a ≤ b)
    let mk (kind : Kind) (ts : Int) (u loc : Nat) (age : Int) : Ev Nat :=
      .msg { kind := kind, ts := ts, udnHdr := some u, udn := some u, ty := some 1, ntsOk := true,
             loc := some loc, locOk := true, maxAge := age, hdrs := [(20, (20, 7))] }
    let evs := [mk .search 0 1 50 5, mk .alive 3 2 60 1, .purge 5, mk .byebye 5 1 50 0, mk .update 6 2 150 10]
    (∀ e ∈ evs, e.wf = true) ∧
    (final ipv skip {} evs).devices.map (fun p => (p.1, p.2.validTo, p.2.locs)) = [(2, 16, [(150, 16)])] ∧
    (final ipv skip {} (evs.take 3)).devices.map (fun p => (p.1, p.2.validTo)) = [(1, 5)] ∧
    ok (traceOf ipv skip le {} evs) = true ∧
    ok [(mk .search 0 1 50 5, [⟨1, 5, [(50, 5)], some 50⟩]), (.purge 6, [⟨1, 5, [(50, 5)], some 50⟩])] = false := by
  decide

/-! ### soundness of the judge (no model involved): what `ok` implies for an ARBITRARY trace -/

/-- **ok_expired_sound** — for any trace whatsoever (e.g. the implementation's) that the judge accepts: right after a step
    that is an explicit purge at `t` or a valid sighting at `t`, every device in the observed map has a valid sighting of
    its udn earlier in the trace (that step included) whose validity `ts + max-age` is ≥ `t` — i.e. `ok` really forces "no
    device whose validity ended before `t` remains", with validity read from the messages. -/
theorem ok_expired_sound (a b : List (Ev σ × Snap σ)) (e : Ev σ) (after : Snap σ) (t : Int)
    (h : ok (a ++ (e, after) :: b) = true)
    (het : e = .purge t ∨ ∃ m, e = .msg m ∧ m.ts = t ∧ m.sighting?.isSome = true) :
    ∀ d ∈ after, ∃ m l, Ev.msg m ∈ a.map (·.1) ++ [e] ∧ m.sighting? = some (d.udn, l) ∧ t ≤ m.ts + m.maxAge := by
  suffices H : ∀ (a : List (Ev σ × Snap σ)) (evs0 : List (Ev σ)) (sp : Sp σ) (before : Snap σ), SpFrom evs0 sp →
      okFrom sp before (a ++ (e, after) :: b) = true →
      ∀ d ∈ after, ∃ m l, Ev.msg m ∈ evs0 ++ (a.map (·.1) ++ [e]) ∧ m.sighting? = some (d.udn, l) ∧
        t ≤ m.ts + m.maxAge by
    have := H a [] [] [] spFrom_nil h
    simpa using this
  intro a
  induction a with
  | nil =>
    intro evs0 sp before hsp hok d hd
    simp only [List.nil_append, okFrom, Bool.and_eq_true] at hok
    have hsp' := spFrom_step hsp e
    have hexp : expiredGoneOk (specStep sp e) t after = true := by
      have h1 := hok.1
      unfold stepOk at h1
      simp only [Bool.and_eq_true] at h1
      rcases het with rfl | ⟨m, rfl, rfl, hs⟩
      · simp only [Bool.and_eq_true] at h1; exact h1.2.1
      · cases hsi : m.sighting? with
        | none => rw [hsi] at hs; cases hs
        | some p => simp only [hsi] at h1; exact h1.2
    unfold expiredGoneOk at hexp
    rw [List.all_eq_true] at hexp
    have hd' := hexp d hd
    cases hg : get? (specStep sp e) d.udn with
    | none => simp [hg] at hd'
    | some v =>
      obtain ⟨x, bb⟩ := v
      simp only [hg, decide_eq_true_eq] at hd'
      obtain ⟨m, l, hm, h1, h2⟩ := hsp'.src d.udn x bb hg
      exact ⟨m, l, by simpa using hm, h1, by rw [h2]; exact hd'⟩
  | cons p r ih =>
    intro evs0 sp before hsp hok d hd
    obtain ⟨e1, a1⟩ := p
    simp only [List.cons_append, okFrom, Bool.and_eq_true] at hok
    obtain ⟨m, l, hm, h1, h2⟩ := ih (evs0 ++ [e1]) (specStep sp e1) a1 (spFrom_step hsp e1) hok.2 d hd
    exact ⟨m, l, by simpa [List.append_assoc] using hm, h1, h2⟩

/-! ### the clauses of the property, stated directly on the model -/

/-- **present_within_max_age** — take any history `pre ++ [m] ++ post` in which `m` is a valid sighting of `u`
    (time `m.ts`, max-age `m.maxAge`, location `loc`) and is the last event naming `u` (no byebye for `u` and no
    further valid sighting of `u` in `post`), and every later event that runs the purge (a sighting of another device,
    an invalid search / alive / update, an explicit purge) carries a time `≤ m.ts + m.maxAge`.  Then after the whole
    history `u` is known, its `valid_to` is `m.ts + m.maxAge`, `loc` is among its locations (valid as long) and so
    `location` is not `None`.  Any number of other devices, any timestamps before `m`, equal or backward timestamps
    after it. -/
theorem present_within_max_age (pre post : List (Ev σ)) (m : Msg σ) (u loc : σ)
    (hm : m.sighting? = some (u, loc)) (hwm : m.wf = true)
    (hpost : ∀ e ∈ post, e.wf = true ∧ (e.purges = true → e.time ≤ m.ts + m.maxAge) ∧ e.names u = false) :
    ∃ d, get? (final ipv skip {} (pre ++ .msg m :: post)).devices u = some d ∧
      d.validTo = m.ts + m.maxAge ∧ get? d.locs loc = some (m.ts + m.maxAge) ∧
      ∀ le : σ → σ → Bool, (location le d).isSome = true := by
  have hfin : final ipv skip {} (pre ++ .msg m :: post) =
      final ipv skip (step ipv skip (final ipv skip {} pre) (.msg m)).1 post := by
    simp [final, List.foldl_append]
  rw [hfin]
  have hi0 := inv_step ipv skip (watermark_inv ipv skip pre) (.msg m)
  have hp0 := present_sight ipv skip (watermark_inv ipv skip pre) m hwm u loc hm
  suffices H : ∀ s : Tracker σ, Inv s → Present s u loc (m.ts + m.maxAge) →
      Present (final ipv skip s post) u loc (m.ts + m.maxAge) by
    obtain ⟨d, h1, h2, h3⟩ := H _ hi0 hp0
    exact ⟨d, h1, h2, h3, fun le => location_isSome le d loc _ h3⟩
  clear hfin hi0 hp0
  induction post with
  | nil => intro s _ hp; exact hp
  | cons e r ih =>
    intro s hi hp
    obtain ⟨hw, ht, hn⟩ := hpost e List.mem_cons_self
    exact ih (fun x hx => hpost x (List.mem_cons_of_mem _ hx)) _ (inv_step ipv skip hi e)
      (present_step ipv skip hi hp e hw ht hn)

/-- **saturated_never_expires** — what `present_within_max_age` says when the validity saturated (`valid_to =
    datetime.max = tMax`, reached for a max-age beyond the representable range, `valid_to_saturates`): the time
    hypothesis on later events reduces to "their timestamps are datetimes" (≤ `tMax`), so the device stays known —
    with `valid_to = tMax` and its location — through every later history that does not name it: it can only leave by
    a byebye, and only a new sighting changes its validity. -/
theorem saturated_never_expires (tMax : Int) (pre post : List (Ev σ)) (m : Msg σ) (u loc : σ)
    (hm : m.sighting? = some (u, loc)) (hwm : m.wf = true) (hsat : m.ts + m.maxAge = tMax)
    (hpost : ∀ e ∈ post, e.wf = true ∧ e.time ≤ tMax ∧ e.names u = false) :
    ∃ d, get? (final ipv skip {} (pre ++ .msg m :: post)).devices u = some d ∧
      d.validTo = tMax ∧ get? d.locs loc = some tMax := by
  obtain ⟨d, h1, h2, h3, _⟩ := present_within_max_age ipv skip pre post m u loc hm hwm
    (fun e he => ⟨(hpost e he).1, fun _ => by rw [hsat]; exact (hpost e he).2.1, (hpost e he).2.2⟩)
  exact ⟨d, h1, by rw [h2, hsat], by rw [h3, hsat]⟩

/-- non-vacuity of `present_within_max_age`: device 1 is sighted at 10 with max-age 5 after an earlier life; later
    come a sighting of device 2 at 12, a purge at 15 (= validity, equal timestamps), a byebye of device 2 stamped 99
    (byebyes do not purge), an invalid message at 14 (time going backwards); the hypotheses hold and device 1 is
    still there, while one more purge at 16 (hypothesis violated) removes it -/
example :
    let ipv : Nat → Option Nat := fun _ => some 4
    let skip : Nat → Bool := fun _ => false
    let mk (kind : Kind) (ts : Int) (u loc : Nat) (age : Int) (ok : Bool) : Ev Nat :=
      .msg { kind := kind, ts := ts, udnHdr := some u, udn := some u, ty := some 1, ntsOk := true,
             loc := some loc, locOk := ok, maxAge := age, hdrs := [] }
    let pre := [mk .search 0 1 50 1 true, .purge 3]
    let post := [mk .alive 12 2 60 100 true, .purge 15, mk .byebye 99 2 60 0 true, mk .search 14 1 70 5 false]
    (∀ e ∈ post, e.wf = true ∧ (e.purges = true → e.time ≤ 10 + 5) ∧ e.names 1 = false) ∧
    ((final ipv skip {} (pre ++ mk .update 10 1 50 5 true :: post)).devices.map fun p => (p.1, p.2.validTo, p.2.locs))
      = [(1, 15, [(50, 15)])] ∧
    ((final ipv skip {} (pre ++ mk .update 10 1 50 5 true :: (post ++ [.purge 16]))).devices.map fun p => p.1) = [] := by
  decide

/-- **expired_gone** — in every reachable state, processing a valid sighting or an explicit purge at time `t`
    leaves no device whose validity ended before `t`. -/
theorem expired_gone (evs : List (Ev σ)) (e : Ev σ) (hw : e.wf = true) (t : Int)
    (he : e = .purge t ∨ ∃ m, e = .msg m ∧ m.ts = t ∧ m.sighting?.isSome = true) :
    ∀ k d, get? (step ipv skip (final ipv skip {} evs) e).1.devices k = some d → t ≤ d.validTo := by
  have hi := watermark_inv ipv skip evs
  intro k d hd
  rcases he with rfl | ⟨m, rfl, rfl, hs⟩
  · obtain ⟨x0, _, h2, h3⟩ := purge_get?_inv hi t k d hd
    rw [h3.1]; omega
  · simp only [Ev.wf] at hw
    have key : ∀ s', ((s' = final ipv skip {} evs ∧ m.sighting? = none) ∨
        ∃ u loc d nl d', seeDevice ipv (final ipv skip {} evs) m =
            ((seeDevice ipv (final ipv skip {} evs) m).1, some (u, d, nl)) ∧ m.sighting? = some (u, loc) ∧
          d'.validTo = d.validTo ∧ d'.locs = d.locs ∧
          s' = ⟨set (seeDevice ipv (final ipv skip {} evs) m).1.devices u d',
                (seeDevice ipv (final ipv skip {} evs) m).1.next⟩) →
        get? s'.devices k = some d → m.ts ≤ d.validTo := by
      intro s' H hd
      rcases H with ⟨_, h⟩ | ⟨u, loc, d1, nl, d', hsd, _, hv, _, hs'⟩
      · rw [h] at hs; cases hs
      · obtain ⟨loc', _, _, hd1, _, hsd1⟩ := seeDevice_dev ipv _ m _ u d1 nl hsd
        have hdv : d1.validTo = m.ts + m.maxAge := by rw [hd1, (sighted_props _ _ _ _).1, refreshed_validTo]
        have : 0 ≤ m.maxAge := by simp [Msg.wf] at hw; exact hw.2
        rw [hs'] at hd
        simp only [get?_set] at hd
        by_cases e : u = k
        · simp only [e, if_true, Option.some.injEq] at hd; subst hd; omega
        · simp only [e, if_false] at hd
          rw [hsd1] at hd
          simp only [get?_set, e, if_false] at hd
          obtain ⟨x0, _, h2, h3⟩ := purge_get?_inv hi m.ts k d hd
          rw [h3.1]; omega
    simp only [step] at hd
    cases hk : m.kind with
    | search => rw [hk] at hd; exact key _ (search_cases ipv skip _ m hw hk) hd
    | alive => rw [hk] at hd; exact key _ (adv_cases ipv skip _ m hw (Or.inl hk)) hd
    | update => rw [hk] at hd; exact key _ (adv_cases ipv skip _ m hw (Or.inr hk)) hd
    | byebye => simp [Msg.sighting?, hk] at hs

/-- **byebye_exact** — a byebye naming `u` (uuid USN, a type) removes `u` and only `u`, at once: the device map
    becomes `erase u` of what it was (nothing else is touched, no purge happens, the watermark stays);
    for an unknown `u` the state is unchanged. -/
theorem byebye_exact (evs : List (Ev σ)) (m : Msg σ) (hw : m.wf = true) (u : σ) (hb : m.byebye? = some u) :
    let s := final ipv skip {} evs
    (step ipv skip s (.msg m)).1 = ⟨erase s.devices u, s.next⟩ ∧
    get? (step ipv skip s (.msg m)).1.devices u = none ∧
    (∀ k, k ≠ u → get? (step ipv skip s (.msg m)).1.devices k = get? s.devices k) ∧
    (get? s.devices u = none → (step ipv skip s (.msg m)).1 = s) := by
  intro s
  have hi : Inv s := watermark_inv ipv skip evs
  have hk : m.kind = .byebye := by
    unfold Msg.byebye? at hb; split at hb
    · assumption
    · cases hb
  have hu : m.udn = some u ∧ ∃ ty, m.ty = some ty := by
    simp only [Msg.byebye?, hk, if_true] at hb
    cases hu : m.udn <;> cases hty : m.ty <;> simp [hu, hty] at hb
    exact ⟨by rw [hb], _, rfl⟩
  obtain ⟨hu, ty, hty⟩ := hu
  have hvalid : m.validByebye = true := by
    simp only [Msg.wf, hu, hk, Option.isNone_some, Bool.false_or, Bool.and_eq_true, decide_eq_true_eq,
      Bool.or_eq_true] at hw
    have hn : m.ntsOk = true := by
      rcases hw.1.2 with h' | h'
      · cases h'
      · exact h'
    simp [Msg.validByebye, hw.1.1, hty, hn]
  have hst : (step ipv skip s (.msg m)).1 = ⟨erase s.devices u, s.next⟩ := by
    simp only [step, hk]
    cases hg : get? s.devices u with
    | none => simp [unsee, hvalid, hu, hty, hg, erase_of_get?_none _ _ hg]
    | some d => simp [unsee, hvalid, hu, hty, hg]
  refine ⟨hst, ?_, ?_, ?_⟩
  · rw [hst]; exact get?_erase_self _ _ hi.nodup
  · intro k hk'; rw [hst]; exact get?_erase_ne _ _ _ (Ne.symm hk')
  · intro hg; rw [hst]; simp [erase_of_get?_none _ _ hg]

/-- **invalid_inert** — a message that is not a valid sighting in the sense of the property text (no uuid USN, no
    type, no location, location not starting with `http` or containing a loopback / link-local needle) and not
    a byebye naming a device leaves the WHOLE tracker state unchanged — device map, stored headers, locations and
    watermark; in particular it does not run the purge (since the library fix "an ignored SSDP message no longer
    purges devices", `_see_device` validates the USN before purging; before it, a message with a literal `_udn`
    header but no uuid USN purged). -/
theorem invalid_inert (s : Tracker σ) (m : Msg σ) (hw : m.wf = true)
    (hs : m.sighting? = none) (hb : m.byebye? = none) :
    (step ipv skip s (.msg m)).1 = s := by
  simp only [step]
  have key : ∀ s', ((s' = s ∧ m.sighting? = none) ∨
        ∃ u loc d nl d', seeDevice ipv s m = ((seeDevice ipv s m).1, some (u, d, nl)) ∧ m.sighting? = some (u, loc) ∧
          d'.validTo = d.validTo ∧ d'.locs = d.locs ∧
          s' = ⟨set (seeDevice ipv s m).1.devices u d', (seeDevice ipv s m).1.next⟩) →
        s' = s := by
    intro s' H
    rcases H with ⟨h, _⟩ | ⟨u, loc, _, _, _, _, h, _⟩
    · exact h
    · rw [hs] at h; cases h
  cases hk : m.kind with
  | search => exact key _ (search_cases ipv skip s m hw hk)
  | alive => exact key _ (adv_cases ipv skip s m hw (Or.inl hk))
  | update => exact key _ (adv_cases ipv skip s m hw (Or.inr hk))
  | byebye =>
    simp only [Msg.byebye?, hk, if_true] at hb
    unfold unsee
    cases hu : m.udn <;> cases hty : m.ty <;> simp [hu, hty] at hb ⊢

/-- **invalid_inert_raw** — `invalid_inert` stated on the headers the listener receives (`pairs` = the items of the
    decoded header map handed to `_on_data` of the search (`sockA = false`) or advertisement (`sockA = true`)
    listener), through the whole model (dispatch, `udn_from_usn`, the location test, the tracker): a packet that is
    not a byebye and whose USN is missing / empty / not `uuid:…`, or whose ST (NT) is missing or empty, or whose
    LOCATION is missing, empty or not usable (`Parse.locUsable` = `is_usable_location`: not starting with `http`, scheme
    not http / https, no parsable host, or a loopback / IPv4 link-local host — `Parse.locUsable_badHost`, `_noHost`, `_prefix`), leaves the whole tracker state unchanged (no device created or
    refreshed, no purge, watermark untouched).  (`hudn`: `_udn` is the udn of a uuid USN — `decode_ssdp_packet`.) -/
theorem invalid_inert_raw (cfg : Cfg) (sockA : Bool) (pairs : List (String × String)) (s : Tracker String)
    (hudn : (Parse.RawOp.pkt sockA pairs).decoded cfg)
    (hnb : Parse.hget (C16.SMap.writeAll Parse.lower [] pairs) "nts" ≠ some "ssdp:byebye")
    (hbad : (Parse.truthy (get? (C16.SMap.writeAll Parse.lower [] pairs) "usn")).bind Parse.udnFromUsn = none ∨
      Parse.truthy (get? (C16.SMap.writeAll Parse.lower [] pairs) (if sockA then "nt" else "st")) = none ∨
      (match Parse.truthy (get? (C16.SMap.writeAll Parse.lower [] pairs) "location") with
       | none => True
       | some l => Parse.locUsable cfg.searchPrefix cfg.schemes cfg.loopbackNames l = false)) :
    (step Parse.ipVersion (Parse.skipHdr cfg) s (Parse.parseEv cfg sockA pairs)).1 = s := by
  have hw := Parse.parseEv_wf cfg sockA pairs hudn.1 hudn.2
  rcases Parse.parseEv_cases cfg sockA pairs with ⟨ts, he⟩ | ⟨kind, v, he, hk1, hk2, hk3, _⟩
  · rw [he]; rfl
  · rw [he] at hw ⊢
    simp only [Ev.wf] at hw
    have hkb : kind ≠ .byebye := fun e => hnb (hk3 e)
    have hkey : (if (kind == Kind.search) = true then "st" else "nt") = (if sockA = true then "nt" else "st") := by
      cases sockA with
      | true => have := hk2 rfl; cases kind <;> simp_all
      | false => have := hk1 rfl; subst this; simp
    have hsi : (Parse.mkMsg cfg kind (C16.SMap.write Parse.lower (C16.SMap.writeAll Parse.lower [] pairs) "_source" v)).sighting? = none := by
      unfold Msg.sighting?
      simp only [Parse.mkMsg, hkb, if_false, Parse.get?_write_source _ _ "usn" (by decide),
        Parse.get?_write_source _ _ "location" (by decide)]
      rw [hkey, Parse.get?_write_source _ _ _ (by cases sockA <;> decide)]
      rcases hbad with h | h | h
      · rw [h]
      · rw [h]; split <;> simp_all
      · cases hl : Parse.truthy (get? (C16.SMap.writeAll Parse.lower [] pairs) "location") with
        | none => split <;> simp_all
        | some l =>
          rw [hl] at h
          simp only at h
          split <;> simp_all
    have hb : (Parse.mkMsg cfg kind (C16.SMap.write Parse.lower (C16.SMap.writeAll Parse.lower [] pairs) "_source" v)).byebye? = none := by
      simp [Msg.byebye?, Parse.mkMsg, hkb]
    exact invalid_inert Parse.ipVersion (Parse.skipHdr cfg) s _ hw hsi hb

/-- **c03_history_raw** — the history theorem with the model starting at the headers the listener receives: for every
    list of decoded packets (either socket, any headers) and explicit purges, `C03.ok` holds on the trace of the
    full model (dispatch + string layer + tracker), for every configuration of the constants. -/
theorem c03_history_raw (cfg : Cfg) (le : String → String → Bool) (ops : List Parse.RawOp)
    (h : ∀ o ∈ ops, o.decoded cfg) :
    ok (traceOf Parse.ipVersion (Parse.skipHdr cfg) le {} (ops.map (Parse.RawOp.ev cfg))) = true := by
  apply c03_history
  intro e he
  obtain ⟨o, ho, rfl⟩ := List.mem_map.mp he
  exact Parse.RawOp.ev_wf cfg o (h o ho)

/-- **c03_history_raw_target** — the same for a listener whose search side is in unicast mode (`SsdpSearchListener` with a
    non-multicast target; filter host `tgt = get_host_string(target)`, `""` = multicast): responses from other hosts are
    dropped inertly, responses from the target host (`Parse.parseEvT_pass`: `_host = tgt`) are processed exactly as in
    multicast mode, and the judge holds on every trace. -/
theorem c03_history_raw_target (cfg : Cfg) (tgt : String) (le : String → String → Bool) (ops : List Parse.RawOp)
    (h : ∀ o ∈ ops, o.decoded cfg) :
    ok (traceOf Parse.ipVersion (Parse.skipHdr cfg) le {} (ops.map (Parse.RawOp.evT cfg tgt))) = true := by
  apply c03_history
  intro e he
  obtain ⟨o, ho, rfl⟩ := List.mem_map.mp he
  exact Parse.RawOp.evT_wf cfg tgt o (h o ho)

/-- **target_response_processed** — in unicast mode a search response whose `_host` is the configured target host is
    handed to the tracker unchanged (so `valid_search_raw` applies to it: the device becomes known), and a search-socket
    packet that reaches the filter with another `_host` changes nothing. -/
theorem target_response_processed (cfg : Cfg) (tgt : String) (pairs : List (String × String)) (s : Tracker String) :
    (Parse.hget (C16.SMap.writeAll Parse.lower [] pairs) "_host" = some tgt →
      Parse.parseEvT cfg tgt false pairs = Parse.parseEv cfg false pairs) ∧
    (tgt ≠ "" → Parse.hget (C16.SMap.writeAll Parse.lower [] pairs) "_host" ≠ some tgt →
      (step Parse.ipVersion (Parse.skipHdr cfg) s (Parse.parseEvT cfg tgt false pairs)).1 = s ∨
      Parse.parseEvT cfg tgt false pairs = Parse.parseEv cfg false pairs) := by
  refine ⟨fun h => Parse.parseEvT_pass cfg tgt false pairs (Or.inr (Or.inr h)), fun ht hh => ?_⟩
  unfold Parse.parseEvT
  cases hp : Parse.parseEv cfg false pairs with
  | msg m =>
    left
    have : (Parse.hget (C16.SMap.writeAll Parse.lower [] pairs) "_host" != some tgt) = true := by
      simpa using hh
    have hte : tgt.isEmpty = false := by
      cases hte : tgt.isEmpty with
      | false => rfl
      | true => exact absurd (String.isEmpty_iff.mp hte) ht
    simp [this, hte, step]
  | purge n => right; rfl
  | noise t => right; rfl

/-! ### the string layer, at the constants of the property text -/

/-- **max_age_value** — `CACHE-CONTROL: max-age=<n>` announces `n` seconds for every `n` a `timedelta` can hold
    (`n < 86 400 000 000 000`, i.e. less than 10⁹ days) -/
theorem max_age_value (n : Nat) (hn : n < 86400000000000) :
    Parse.maxAgeUs specCfg (String.ofList ("max-age=".toList ++ Parse.dec n)) = (n : Int) * 1000000 :=
  Parse.maxAgeUs_plain specCfg n hn (by
    have := Parse.dec_length n 14 (by omega)
    show (Parse.dec n).length ≤ 4300
    omega)

/-- **max_age_saturates** — a numeral of 10⁹ days or more, or one with more than 4300 digit characters (which `int()`
    refuses; leading zeros count), announces `timedelta.max`: "valid forever" -/
theorem max_age_saturates (ds : List Char) (hds : ∀ c ∈ ds, Parse.isDigit c = true ∧ Parse.isWs c = false) (hne : ds ≠ [])
    (hbig : ds.length > 4300 ∨ Parse.digitsToNat ds ≥ 86400000000000) :
    Parse.maxAgeUs specCfg (String.ofList ("max-age=".toList ++ ds)) = (specCfg.tdMaxUs : Int) ∧
    specCfg.tdMaxUs = 86399999999999999999 := by
  refine ⟨?_, rfl⟩
  have := Parse.maxAgeUs_saturated specCfg [] "max-age".toList [] [] ds [] (by simp) (by decide) (by simp) (by simp)
    hds hne rfl hbig
  simpa using this

/-- **valid_to_saturates** — `valid_to = _timestamp + max-age`, clipped at `datetime.max`: the effective max-age never
    carries `valid_to` beyond `tMax`, equals the announced one whenever the sum is representable, and otherwise makes
    `valid_to = datetime.max`. -/
theorem valid_to_saturates (cfg : Cfg) (ts : Int) (cc : String) :
    ts + Parse.effMaxAge cfg ts cc ≤ cfg.tMax ∧
    (ts + Parse.maxAgeUs cfg cc ≤ cfg.tMax → Parse.effMaxAge cfg ts cc = Parse.maxAgeUs cfg cc) ∧
    (ts + Parse.maxAgeUs cfg cc > cfg.tMax → ts + Parse.effMaxAge cfg ts cc = cfg.tMax) :=
  ⟨Parse.effMaxAge_le cfg ts cc, Parse.effMaxAge_exact cfg ts cc, Parse.effMaxAge_saturated cfg ts cc⟩

/-- **max_age_default** — "900 s when none is given": a cache-control value in which the regex `max-age\\s*=\\s*\\d+`
    (any casing) has no match announces 900 s.  This is the weakest hypothesis the text licenses; it covers an absent or
    empty header, `no-cache`, `must-revalidate`, `max-stale=5, min-fresh=3`, and `max-age` without digits. -/
theorem max_age_default (cc : String) (h : Parse.maxAgeSearch cc.toList = none) :
    Parse.maxAgeUs specCfg cc = 900 * 1000000 := by
  rw [Parse.maxAgeUs_default specCfg cc h]; rfl

/-- corollaries: no directive named `max-age` at all (any casing), in particular no letter `m` / `M` -/
theorem max_age_default_no_directive (cc : String)
    (h : Parse.isInfixL "max-age".toList (Parse.lowerL cc.toList) = false) :
    Parse.maxAgeUs specCfg cc = 900 * 1000000 :=
  max_age_default cc (Parse.maxAgeSearch_none_of_no_infix _ h)

example : Parse.maxAgeUs specCfg "" = 900 * 1000000 ∧ Parse.maxAgeUs specCfg "must-revalidate" = 900 * 1000000 ∧
    Parse.maxAgeUs specCfg "max-stale=5, min-fresh=3" = 900 * 1000000 ∧ Parse.maxAgeUs specCfg "max-age=" = 900 * 1000000 ∧
    Parse.maxAgeUs specCfg "Max-Age = 30, public" = 30 * 1000000 := by decide

/-- **max_age_value_general** — the licensed general form of `max_age_value`: in ANY cache-control text whose leftmost
    `max-age\\s*=\\s*\\d+` match (any casing of `max-age`, anything without `m`/`M` before it, white space around `=`,
    any non-digit continuation) carries the numeral of `n`, the announced max-age is `n` seconds (n < 10⁹ days). -/
theorem max_age_value_general (junk pre ws1 ws2 rest : List Char) (n : Nat)
    (hj : ∀ c ∈ junk, Parse.lowerC c ≠ 'm') (hpre : Parse.lowerL pre = "max-age".toList)
    (hw1 : ∀ c ∈ ws1, Parse.isWs c = true) (hw2 : ∀ c ∈ ws2, Parse.isWs c = true)
    (hrest : rest.takeWhile Parse.isDigit = []) (hn : n < 86400000000000) :
    Parse.maxAgeUs specCfg (String.ofList (junk ++ (pre ++ (ws1 ++ '=' :: (ws2 ++ (Parse.dec n ++ rest)))))) =
      (n : Int) * 1000000 :=
  Parse.maxAgeUs_dec specCfg junk pre ws1 ws2 rest n hj hpre hw1 hw2 hrest hn (by
    have := Parse.dec_length n 14 (by omega)
    show (Parse.dec n).length ≤ 4300
    omega)

/-- **loopback_rejected** — the host decides, not a substring: a location whose parsed host is loopback or IPv4
    link-local (`Parse.hostBad`: any dotted quad in 127/8 or 169.254/16 — `Parse.hostBad_v4` —, `::1` in any spelling,
    IPv4-mapped forms of those, `localhost`) is refused, whatever user-info, port or path surround it; so is a location
    without a parsable host or not starting with `http`; and an accepted location has an http / https scheme and a host
    that is none of these. -/
theorem loopback_rejected (loc : String) :
    (∀ host, (Parse.netlocOfUrl loc.toList).bind Parse.hostOfNetloc = some host →
        Parse.hostBad specCfg.loopbackNames host = true →
        Parse.locUsable specCfg.searchPrefix specCfg.schemes specCfg.loopbackNames loc = false) ∧
    ((Parse.netlocOfUrl loc.toList).bind Parse.hostOfNetloc = none →
        Parse.locUsable specCfg.searchPrefix specCfg.schemes specCfg.loopbackNames loc = false) ∧
    (Parse.locUsable specCfg.searchPrefix specCfg.schemes specCfg.loopbackNames loc = true →
        ∃ host, (Parse.netlocOfUrl loc.toList).bind Parse.hostOfNetloc = some host ∧
          Parse.hostBad specCfg.loopbackNames host = false) :=
  ⟨fun host hh hb => Parse.locUsable_badHost _ _ _ loc host hh hb,
   fun hh => Parse.locUsable_noHost _ _ _ loc hh,
   fun h => (Parse.locUsable_true _ _ _ loc h).2.2⟩

/-- the lead's and the auditor's probes, decided by the model at the constants of the text -/
example :
    (["http://127.0.0.2/", "http://user@127.0.0.1/", "http://localhost/", "http://[::1]:80/", "http://169.254.1.1:80/x",
      "http://[0:0:0:0:0:0:0:1]/d", "http://[::0001]/d", "http://user@169.254.7.7/d", "http://[::ffff:169.254.7.7]/d",
      "httpx://192.168.1.7/d", "http-but-not-a-url", "http://[fe80::1/", "http://[169.254.7.7%3]/d", "HTTP://1.2.3.4/"].map
        (Parse.locUsable specCfg.searchPrefix specCfg.schemes specCfg.loopbackNames)).all (· == false) = true ∧
    (["http://127.example.com/", "http://[fe80::1]/", "http://[fe80::1%3]:80/d", "http://192.168.1.7/d",
      "https://tv.example:443/d", "http://[::ffff:10.2.3.4]/"].map
        (Parse.locUsable specCfg.searchPrefix specCfg.schemes specCfg.loopbackNames)).all (· == true) = true := by
  decide

/-- **valid_search_raw** — end to end from the raw headers: a packet on the search socket that is not an M-SEARCH echo,
    has no NTS, whose USN names the device `u` (`udn_from_usn`), with a non-empty ST and an acceptable LOCATION `loc`,
    processed in any state satisfying the invariant, leaves `u` known with
    `valid_to = _timestamp + max-age(cache-control)` and `loc` among its locations. -/
theorem valid_search_raw (cfg : Cfg) (pairs : List (String × String)) (s : Tracker String) (hi : Inv s)
    (hudn : (Parse.RawOp.pkt false pairs).decoded cfg) (usn u ty loc : String)
    (hman : Parse.hget (C16.SMap.writeAll Parse.lower [] pairs) "man" ≠ some Parse.ssdpDiscover)
    (hnts : Parse.truthy (get? (C16.SMap.writeAll Parse.lower [] pairs) "nts") = none)
    (husn : Parse.truthy (get? (C16.SMap.writeAll Parse.lower [] pairs) "usn") = some usn)
    (hu : Parse.udnFromUsn usn = some u)
    (hst : Parse.truthy (get? (C16.SMap.writeAll Parse.lower [] pairs) "st") = some ty)
    (hloc : Parse.truthy (get? (C16.SMap.writeAll Parse.lower [] pairs) "location") = some loc)
    (hok : Parse.locUsable cfg.searchPrefix cfg.schemes cfg.loopbackNames loc = true) :
    Present (step Parse.ipVersion (Parse.skipHdr cfg) s (Parse.parseEv cfg false pairs)).1 u loc
      (Parse.tsOf (C16.SMap.writeAll Parse.lower [] pairs) +
        Parse.effMaxAge cfg (Parse.tsOf (C16.SMap.writeAll Parse.lower [] pairs))
          ((Parse.hget (C16.SMap.writeAll Parse.lower [] pairs) "cache-control").getD "")) := by
  have hw := Parse.parseEv_wf cfg false pairs hudn.1 hudn.2
  have he : Parse.parseEv cfg false pairs =
      .msg (Parse.mkMsg cfg .search (C16.SMap.write Parse.lower (C16.SMap.writeAll Parse.lower [] pairs) "_source" "search")) := by
    unfold Parse.parseEv
    have : (Parse.hget (C16.SMap.writeAll Parse.lower [] pairs) "man" == some Parse.ssdpDiscover) = false := by
      rw [beq_eq_false_iff_ne]; exact hman
    simp [this, hnts]
  rw [he] at hw ⊢
  simp only [Ev.wf] at hw
  have hsi : (Parse.mkMsg cfg .search (C16.SMap.write Parse.lower (C16.SMap.writeAll Parse.lower [] pairs) "_source" "search")).sighting?
      = some (u, loc) := by
    simp [Msg.sighting?, Parse.mkMsg, Parse.get?_write_source _ _ "usn" (by decide),
      Parse.get?_write_source _ _ "location" (by decide), Parse.get?_write_source _ _ "st" (by decide),
      husn, hu, hst, hloc, hok]
  have := present_sight Parse.ipVersion (Parse.skipHdr cfg) hi _ hw u loc hsi
  simpa [Parse.mkMsg, Parse.tsOf, Parse.hget, Parse.get?_write_source _ _ "_timestamp" (by decide),
    Parse.get?_write_source _ _ "cache-control" (by decide)] using this

/-- **present_within_max_age_raw** — clause 1 from the raw headers: after any history `pre`, a decoded search response
    (not an M-SEARCH echo, no NTS) whose USN names `u`, with a type and a usable LOCATION `loc`, followed by any raw
    operations none of which names `u` (no byebye for / valid sighting of `u`) and of which those that run the purge
    carry a `_timestamp` ≤ `_timestamp + max-age(cache-control)` (saturated at `datetime.max`): `u` is known at the
    end, with exactly that `valid_to` and with `loc` among its locations. -/
theorem present_within_max_age_raw (cfg : Cfg) (pre post : List Parse.RawOp) (pairs : List (String × String))
    (hudn : (Parse.RawOp.pkt false pairs).decoded cfg) (usn u ty loc : String)
    (hman : Parse.hget (C16.SMap.writeAll Parse.lower [] pairs) "man" ≠ some Parse.ssdpDiscover)
    (hnts : Parse.truthy (get? (C16.SMap.writeAll Parse.lower [] pairs) "nts") = none)
    (husn : Parse.truthy (get? (C16.SMap.writeAll Parse.lower [] pairs) "usn") = some usn)
    (hu : Parse.udnFromUsn usn = some u)
    (hst : Parse.truthy (get? (C16.SMap.writeAll Parse.lower [] pairs) "st") = some ty)
    (hloc : Parse.truthy (get? (C16.SMap.writeAll Parse.lower [] pairs) "location") = some loc)
    (hok : Parse.locUsable cfg.searchPrefix cfg.schemes cfg.loopbackNames loc = true)
    (hpost : ∀ o ∈ post, o.decoded cfg ∧
      ((o.ev cfg).purges = true → (o.ev cfg).time ≤ Parse.tsOf (C16.SMap.writeAll Parse.lower [] pairs) +
        Parse.effMaxAge cfg (Parse.tsOf (C16.SMap.writeAll Parse.lower [] pairs))
          ((Parse.hget (C16.SMap.writeAll Parse.lower [] pairs) "cache-control").getD "")) ∧
      (o.ev cfg).names u = false) :
    Present (final Parse.ipVersion (Parse.skipHdr cfg) {}
        ((pre ++ Parse.RawOp.pkt false pairs :: post).map (Parse.RawOp.ev cfg))) u loc
      (Parse.tsOf (C16.SMap.writeAll Parse.lower [] pairs) +
        Parse.effMaxAge cfg (Parse.tsOf (C16.SMap.writeAll Parse.lower [] pairs))
          ((Parse.hget (C16.SMap.writeAll Parse.lower [] pairs) "cache-control").getD "")) := by
  have hfin : final Parse.ipVersion (Parse.skipHdr cfg) {}
      ((pre ++ Parse.RawOp.pkt false pairs :: post).map (Parse.RawOp.ev cfg)) =
      final Parse.ipVersion (Parse.skipHdr cfg)
        (step Parse.ipVersion (Parse.skipHdr cfg) (final Parse.ipVersion (Parse.skipHdr cfg) {} (pre.map (Parse.RawOp.ev cfg)))
          (Parse.parseEv cfg false pairs)).1 (post.map (Parse.RawOp.ev cfg)) := by
    simp [final, List.foldl_append, Parse.RawOp.ev]
  rw [hfin]
  have hi0 := watermark_inv Parse.ipVersion (Parse.skipHdr cfg) (pre.map (Parse.RawOp.ev cfg))
  have hp0 := valid_search_raw cfg pairs _ hi0 hudn usn u ty loc hman hnts husn hu hst hloc hok
  have hi1 := inv_step Parse.ipVersion (Parse.skipHdr cfg) hi0 (Parse.parseEv cfg false pairs)
  generalize (step Parse.ipVersion (Parse.skipHdr cfg)
    (final Parse.ipVersion (Parse.skipHdr cfg) {} (pre.map (Parse.RawOp.ev cfg))) (Parse.parseEv cfg false pairs)).1 = s1
    at hp0 hi1
  clear hfin hi0
  induction post generalizing s1 with
  | nil => exact hp0
  | cons o r ih =>
    obtain ⟨hd, ht, hn⟩ := hpost o List.mem_cons_self
    simp only [List.map_cons, final, List.foldl_cons]
    exact ih (fun x hx => hpost x (List.mem_cons_of_mem _ hx)) _
      (present_step Parse.ipVersion (Parse.skipHdr cfg) hi1 hp0 (o.ev cfg) (Parse.RawOp.ev_wf cfg o hd) ht hn)
      (inv_step Parse.ipVersion (Parse.skipHdr cfg) hi1 (o.ev cfg))

/-- **byebye_exact_raw** — end to end from the raw headers: a packet on the advertisement socket with `NTS: ssdp:byebye`
    (not an M-SEARCH echo), whose USN names the device `u` and which has a non-empty NT, removes `u` and only `u` from
    the map of any reachable state, touching nothing else (no purge, watermark unchanged). -/
theorem byebye_exact_raw (cfg : Cfg) (ops : List Parse.RawOp) (pairs : List (String × String))
    (hudn : (Parse.RawOp.pkt true pairs).decoded cfg) (usn u ty : String)
    (hman : Parse.hget (C16.SMap.writeAll Parse.lower [] pairs) "man" ≠ some Parse.ssdpDiscover)
    (hnts : Parse.hget (C16.SMap.writeAll Parse.lower [] pairs) "nts" = some "ssdp:byebye")
    (husn : Parse.truthy (get? (C16.SMap.writeAll Parse.lower [] pairs) "usn") = some usn)
    (hu : Parse.udnFromUsn usn = some u)
    (hnt : Parse.truthy (get? (C16.SMap.writeAll Parse.lower [] pairs) "nt") = some ty) :
    let s := final Parse.ipVersion (Parse.skipHdr cfg) {} (ops.map (Parse.RawOp.ev cfg))
    (step Parse.ipVersion (Parse.skipHdr cfg) s (Parse.parseEv cfg true pairs)).1 = ⟨erase s.devices u, s.next⟩ := by
  intro s
  have hw := Parse.parseEv_wf cfg true pairs hudn.1 hudn.2
  have he : Parse.parseEv cfg true pairs =
      .msg (Parse.mkMsg cfg .byebye (C16.SMap.write Parse.lower (C16.SMap.writeAll Parse.lower [] pairs) "_source" "advertisement")) := by
    unfold Parse.parseEv
    have : (Parse.hget (C16.SMap.writeAll Parse.lower [] pairs) "man" == some Parse.ssdpDiscover) = false := by
      rw [beq_eq_false_iff_ne]; exact hman
    have h1 : ("ssdp:byebye" == "ssdp:alive") = false := by decide
    simp [this, hnts, h1]
  rw [he] at hw ⊢
  simp only [Ev.wf] at hw
  have hb : (Parse.mkMsg cfg .byebye (C16.SMap.write Parse.lower (C16.SMap.writeAll Parse.lower [] pairs) "_source" "advertisement")).byebye?
      = some u := by
    simp [Msg.byebye?, Parse.mkMsg, Parse.get?_write_source _ _ "usn" (by decide),
      Parse.get?_write_source _ _ "nt" (by decide), husn, hu, hnt]
  exact (byebye_exact Parse.ipVersion (Parse.skipHdr cfg) (ops.map (Parse.RawOp.ev cfg)) _ hw u hb).1

/-- non-vacuity of `valid_search_raw` / `invalid_inert_raw`: a concrete decoded search response satisfies every
    hypothesis (device `uuid:a`, max-age 5 s), and the same packet with a loopback location satisfies `hbad` -/
example :
    let prs : List (String × String) :=
      [("CACHE-CONTROL", "max-age=5"), ("LOCATION", "http://192.168.1.10/d"), ("ST", "upnp:rootdevice"),
       ("USN", "uuid:a::upnp:rootdevice"), ("_udn", "uuid:a"), ("_timestamp", "1000000")]
    let h := C16.SMap.writeAll Parse.lower [] prs
    (Parse.RawOp.pkt false prs).decoded specCfg ∧
    Parse.hget h "man" ≠ some Parse.ssdpDiscover ∧ Parse.truthy (get? h "nts") = none ∧
    Parse.truthy (get? h "usn") = some "uuid:a::upnp:rootdevice" ∧
    Parse.udnFromUsn "uuid:a::upnp:rootdevice" = some "uuid:a" ∧
    Parse.truthy (get? h "st") = some "upnp:rootdevice" ∧
    Parse.truthy (get? h "location") = some "http://192.168.1.10/d" ∧
    Parse.locUsable specCfg.searchPrefix specCfg.schemes specCfg.loopbackNames "http://192.168.1.10/d" = true ∧
    Parse.maxAgeUs specCfg ((Parse.hget h "cache-control").getD "") = 5000000 ∧
    Parse.locUsable specCfg.searchPrefix specCfg.schemes specCfg.loopbackNames "http://127.0.0.1:80/d" = false := by
  refine ⟨?_, by decide, by decide, by decide, by decide, by decide, by decide, by decide, by decide, by decide⟩
  refine ⟨?_, by decide⟩
  intro u hu
  have h1 : (Parse.truthy (get? (C16.SMap.writeAll Parse.lower []
      [("CACHE-CONTROL", "max-age=5"), ("LOCATION", "http://192.168.1.10/d"), ("ST", "upnp:rootdevice"),
       ("USN", "uuid:a::upnp:rootdevice"), ("_udn", "uuid:a"), ("_timestamp", "1000000")]) "usn")).bind
      Parse.udnFromUsn = some "uuid:a" := by decide
  rw [h1] at hu
  cases hu
  decide

end Upnp.C03
