/-
  C04 — change notifications fire exactly when something changed, with its snapshot.

  Property theorems only (helper lemmas: `Lemmas/C04.lean`, `Lemmas/C04Step.lean`, and the C03 lemma files).  Model
  and wire protocol are shared with C03; `C04.ok` (`Spec/C04.lean`) is the judge the driver evaluates on the
  implementation's callbacks and stored headers.  Everything is for an arbitrary string type and every event list.
-/
import Upnp.Lemmas.C04Step
import Upnp.Lemmas.C04Stored
import Upnp.Lemmas.C03Parse
import Upnp.Spec.C03Cfg
namespace Upnp.C04
open Upnp PyDict Upnp.C03 Upnp.C16
variable {σ : Type} [DecidableEq σ] (ipv : σ → Option Nat) (skip : σ → Bool) (src : σ) (mode : CbMode)

/-- the volatile-header list and the private prefix the source uses now are the ones the judge uses -/
theorem gen_cfg_pinned : genCfg = specCfg := by decide

/-- the notification logic the model transcribes by hand (`see_search`, `see_advertisement`, `unsee_advertisement`,
    `same_headers_differ`, `location_changed`, `combined_headers`, the four `_on_*` with their two independent callback
    branches) still reads as it did when it was transcribed: e.g. `is_new_device and is_new_service`, a reversed overlay or
    `ssdp:update` treated like alive now also break this pin, not only the judged runs -/
theorem gen_sources_pinned : Gen.C03Tracker.sources = transcribedSources := rfl

/-- **c04_step** — every step of the model, from every state satisfying the tracker invariant, satisfies the
    judge's step relation on the model's own observations: at most one notification per message (both callback
    flavours identical), for the sender and the message's type; `search_changed` / `advertisement_alive` exactly
    when the device, the type for the device or a location in a known address family is new or a non-volatile header
    differs from the previous message of that kind and type; `ssdp:update` always; `ssdp:byebye` iff the device is
    known; anything else never; stored headers are replaced before the callback and `combined_headers` is the
    search headers overlaid by the advertisement headers. -/
theorem c04_step (le : σ → σ → Bool) {s : Tracker σ} (hi : Inv s) (e : Ev σ) (hw : e.wf = true) :
    stepOk ipv skip src mode e (snapOf le s) (modelObs ipv skip src mode s e) = true := by
  cases e with
  | purge now => simp [stepOk, modelObs, step, flavours_cbsOf]
  | noise ts => simp [stepOk, modelObs, step, flavours_cbsOf]
  | msg m =>
    simp only [Ev.wf] at hw
    cases hs : m.sighting? with
    | some p =>
      obtain ⟨u, loc⟩ := p
      have hty : ∃ ty, m.ty = some ty := by
        unfold Msg.sighting? at hs
        split at hs
        · cases hs
        · cases hu : m.udn <;> cases ht : m.ty <;> cases hl : m.loc <;> simp [hu, ht, hl] at hs
          exact ⟨_, rfl⟩
      obtain ⟨ty, hty⟩ := hty
      cases hk : m.kind with
      | search => exact search_sighting_ok ipv skip src mode le hi m hw hk u loc ty hs hty
      | alive => exact alive_sighting_ok ipv skip src mode le hi m hw hk u loc ty hs hty
      | update => exact update_sighting_ok ipv skip src mode le hi m hw hk u loc ty hs hty
      | byebye => simp [Msg.sighting?, hk] at hs
    | none =>
      cases hb : m.byebye? with
      | some u =>
        have hk : m.kind = .byebye := by
          unfold Msg.byebye? at hb; split at hb
          · assumption
          · cases hb
        have hty : ∃ ty, m.ty = some ty := by
          simp only [Msg.byebye?, hk, if_true] at hb
          cases hu : m.udn <;> cases ht : m.ty <;> simp [hu, ht] at hb
          exact ⟨_, rfl⟩
        obtain ⟨ty, hty⟩ := hty
        exact byebye_ok ipv skip src mode le hi m hw hk u ty hb hty
      | none =>
        unfold stepOk modelObs
        simp only [flavours_cbsOf, hs, hb, step]
        cases hk : m.kind with
        | search => simp [seeSearch_notif_none ipv skip s m hk hs]
        | alive => simp [seeAdv_notif_none ipv skip s m (Or.inl hk) hs]
        | update => simp [seeAdv_notif_none ipv skip s m (Or.inr hk) hs]
        | byebye => simp [unsee_notif_none s m hk hb]

/-! ### the notification decisions stated directly on the model (not through the judge) -/

/-- **search_changed_iff** — a valid search response is always notified, for the sender and the message's type, as
    `search_changed` or `search_alive`; and it is `search_changed` EXACTLY when the device is new (not held by the tracker
    after its purge at the message's timestamp), or the type is new for the device, or the location is a changed one, or
    a non-volatile header differs from the stored search response of that type. -/
theorem search_changed_iff {s : Tracker σ} (hi : Inv s) (m : Msg σ) (hw : m.wf = true) (hk : m.kind = .search)
    (u loc ty : σ) (hs : m.sighting? = some (u, loc)) (hty : m.ty = some ty) :
    ∃ src d', (step ipv skip s (.msg m)).2 = some ⟨u, ty, src, d'⟩ ∧ (src = .searchChanged ∨ src = .searchAlive) ∧
      (src = .searchChanged ↔
        Changed ipv skip m loc ty (fun d => get? d.search ty) (get? (purge s m.ts).devices u)) := by
  obtain ⟨hu, hl, hlo, hh⟩ := sighting_fields' m u loc ty hw hs hty
  have hv : m.validSearch = true := by simp [Msg.validSearch, hh, hty, hl, hlo]
  have hiff := changed_bool_iff ipv skip s hi m u loc ty true
  simp only [if_true] at hiff
  simp only [step, hk]
  rw [seeSearch_valid ipv skip s m u loc ty hv hu hh hl hty]
  exact ⟨_, _, rfl, (src_ite _).1, (src_ite _).2.trans hiff⟩

/-- **alive_notified_iff** — a valid `ssdp:alive` is notified (as `advertisement_alive`, for the sender and the message's
    type) EXACTLY under the same conditions relative to the stored advertisement of that type; otherwise there is no
    notification. -/
theorem alive_notified_iff {s : Tracker σ} (hi : Inv s) (m : Msg σ) (hw : m.wf = true) (hk : m.kind = .alive)
    (u loc ty : σ) (hs : m.sighting? = some (u, loc)) (hty : m.ty = some ty) :
    ((∃ d', (step ipv skip s (.msg m)).2 = some ⟨u, ty, .advAlive, d'⟩) ∨ (step ipv skip s (.msg m)).2 = none) ∧
    ((step ipv skip s (.msg m)).2.isSome = true ↔
      Changed ipv skip m loc ty (fun d => get? d.adv ty) (get? (purge s m.ts).devices u)) := by
  obtain ⟨hu, hl, hlo, hh⟩ := sighting_fields' m u loc ty hw hs hty
  have hn : m.ntsOk = true := by simp [Msg.wf, hk] at hw; exact hw.1.2
  have hv : m.validAdv = true := by simp [Msg.validAdv, hh, hty, hl, hlo, hn]
  have hiff := changed_bool_iff ipv skip s hi m u loc ty false
  simp only [Bool.false_eq_true, if_false] at hiff
  simp only [step, hk]
  rw [seeAdv_valid ipv skip s m u loc ty hv hu hh hl hty]
  simp only [hk, show (Kind.alive == Kind.update) = false by decide, Bool.false_or, Bool.false_eq_true, if_false]
  refine ⟨?_, (notif_ite (σ := σ) _ _).2.trans hiff⟩
  rcases (notif_ite (σ := σ) _ _).1 with h | h
  · exact Or.inl ⟨_, h⟩
  · exact Or.inr h

/-- **update_notified** — a valid `ssdp:update` is always notified, as `advertisement_update`, for the sender and the type. -/
theorem update_notified (s : Tracker σ) (m : Msg σ) (hw : m.wf = true) (hk : m.kind = .update)
    (u loc ty : σ) (hs : m.sighting? = some (u, loc)) (hty : m.ty = some ty) :
    ∃ d', (step ipv skip s (.msg m)).2 = some ⟨u, ty, .advUpdate, d'⟩ := by
  obtain ⟨hu, hl, hlo, hh⟩ := sighting_fields' m u loc ty hw hs hty
  have hn : m.ntsOk = true := by simp [Msg.wf, hk] at hw; exact hw.1.2
  have hv : m.validAdv = true := by simp [Msg.validAdv, hh, hty, hl, hlo, hn]
  simp only [step, hk]
  rw [seeAdv_valid ipv skip s m u loc ty hv hu hh hl hty]
  simp [hk]

/-- **byebye_notified_iff** — a byebye naming `u` is notified (as `advertisement_byebye`, for `u` and the message's type)
    EXACTLY when `u` is in the device map; **invalid_never_notified** — a message that is neither a valid sighting nor a
    byebye naming a device is never notified. -/
theorem byebye_notified_iff (s : Tracker σ) (m : Msg σ) (hw : m.wf = true) (u ty : σ)
    (hb : m.byebye? = some u) (hty : m.ty = some ty) :
    ((∃ d', (step ipv skip s (.msg m)).2 = some ⟨u, ty, .advByebye, d'⟩) ∨ (step ipv skip s (.msg m)).2 = none) ∧
    ((step ipv skip s (.msg m)).2.isSome = true ↔ (get? s.devices u).isSome = true) := by
  have hk : m.kind = .byebye := by
    unfold Msg.byebye? at hb; split at hb
    · assumption
    · cases hb
  have hu : m.udn = some u := by
    simp only [Msg.byebye?, hk, if_true, hty] at hb
    cases hu : m.udn <;> simp [hu] at hb
    rw [hb]
  have hh : m.udnHdr = some u := by simp [Msg.wf, hu] at hw; exact hw.1.1
  have hn : m.ntsOk = true := by simp [Msg.wf, hk] at hw; exact hw.1.2
  have hv : m.validByebye = true := by simp [Msg.validByebye, hh, hty, hn]
  simp only [step, hk]
  cases hg : get? s.devices u with
  | none => simp [unsee, hv, hu, hty, hg]
  | some d => simp [unsee, hv, hu, hty, hg]

theorem invalid_never_notified (s : Tracker σ) (m : Msg σ) (hs : m.sighting? = none) (hb : m.byebye? = none) :
    (step ipv skip s (.msg m)).2 = none := by
  simp only [step]
  cases hk : m.kind with
  | search => exact seeSearch_notif_none ipv skip s m hk hs
  | alive => exact seeAdv_notif_none ipv skip s m (Or.inl hk) hs
  | update => exact seeAdv_notif_none ipv skip s m (Or.inr hk) hs
  | byebye => exact unsee_notif_none s m hk hb

/-- the trace the judge reads, produced by the model -/
def traceOf (le : σ → σ → Bool) : Tracker σ → List (Ev σ) → List (Ev σ × Snap σ × Obs σ)
  | _, [] => []
  | s, e :: r => (e, snapOf le s, modelObs ipv skip src mode s e) :: traceOf le (step ipv skip s e).1 r

/-- the slack of clause 5 ("a location in an already-known address family is new"), machine-checked: the location set
    that counts is the one the tracker still holds after its purge at the message's timestamp (`search_changed_iff`), and
    the `elif` of `purge_devices` drops a device's lapsed locations only if that device lowers the running minimum — so
    an unrelated, live device listed first changes the answer.  Device 1: IPv4 location 50 valid to 5, IPv6 location
    150 valid to 100; at t = 10 a search response of device 1 from the new IPv4 location 60.  Alone, the lapsed
    location 50 is dropped and the message is `search_alive`; behind device 2 it survives and the same message is
    `search_changed`.  The judge, whose text does not say whether a lapsed location is still "known", accepts both. -/
example :
    let ipv : Nat → Option Nat := fun l => if l < 100 then some 4 else some 6
    let skip : Nat → Bool := fun k => decide (k < 10)
    let le : Nat → Nat → Bool := fun a b => decide (a ≤ b)
    let mk (ts : Int) (u loc : Nat) (age : Int) : Ev Nat :=
      .msg { kind := .search, ts := ts, udnHdr := some u, udn := some u, ty := some 1, ntsOk := true,
             loc := some loc, locOk := true, maxAge := age, hdrs := [(20, (20, 7))] }
    let tail := [mk 0 1 50 5, mk 1 1 150 99, mk 10 1 60 90]
    ((run ipv skip {} tail).map fun x => x.2.2.map (·.source)).getLast? = some (some .searchAlive) ∧
    ((run ipv skip {} (mk 0 2 70 50 :: tail)).map fun x => x.2.2.map (·.source)).getLast? = some (some .searchChanged) ∧
    ok ipv skip 0 .both (traceOf ipv skip 0 .both le {} tail) = true ∧
    ok ipv skip 0 .both (traceOf ipv skip 0 .both le {} (mk 0 2 70 50 :: tail)) = true := by
  decide

/-- **c04_history** — for every history of well-formed events the judge `C04.ok` accepts the model's trace. -/
theorem c04_history (le : σ → σ → Bool) (evs : List (Ev σ)) (hw : ∀ e ∈ evs, e.wf = true) :
    ok ipv skip src mode (traceOf ipv skip src mode le {} evs) = true := by
  suffices H : ∀ s : Tracker σ, Inv s → ok ipv skip src mode (traceOf ipv skip src mode le s evs) = true from H _ inv_empty
  induction evs with
  | nil => intro s _; rfl
  | cons e r ih =>
    intro s hi
    simp only [traceOf, ok, List.all_cons, Bool.and_eq_true]
    exact ⟨c04_step ipv skip src mode le hi e (hw e List.mem_cons_self),
           ih (fun x hx => hw x (List.mem_cons_of_mem _ hx)) _ (inv_step ipv skip hi e)⟩

/-- **c04_history_raw** — the same with the model starting at the headers the listener receives (decoded packets on
    either socket and explicit purges), through dispatch, string layer and tracker. -/
theorem c04_history_raw (cfg : Cfg) (mode : CbMode) (le : String → String → Bool) (ops : List Parse.RawOp)
    (h : ∀ o ∈ ops, o.decoded cfg) :
    ok Parse.ipVersion (Parse.skipHdr cfg) "_source" mode
      (traceOf Parse.ipVersion (Parse.skipHdr cfg) "_source" mode le {} (ops.map (Parse.RawOp.ev cfg))) = true := by
  apply c04_history
  intro e he
  obtain ⟨o, ho, rfl⟩ := List.mem_map.mp he
  exact Parse.RawOp.ev_wf cfg o (h o ho)

/-- **c04_history_raw_target** — the same for a listener whose search side has the unicast filter host `tgt` (`""` =
    multicast): a dropped response yields no notification, a response from the target host is notified as in multicast mode. -/
theorem c04_history_raw_target (cfg : Cfg) (tgt : String) (mode : CbMode) (le : String → String → Bool)
    (ops : List Parse.RawOp) (h : ∀ o ∈ ops, o.decoded cfg) :
    ok Parse.ipVersion (Parse.skipHdr cfg) "_source" mode
      (traceOf Parse.ipVersion (Parse.skipHdr cfg) "_source" mode le {} (ops.map (Parse.RawOp.evT cfg tgt))) = true := by
  apply c04_history
  intro e he
  obtain ⟨o, ho, rfl⟩ := List.mem_map.mp he
  exact Parse.RawOp.evT_wf cfg tgt o (h o ho)

/-- **same_headers_differ_spec** — the early-exit loop over the two case maps answers `True` exactly when some
    header of the stored map, not private (`_…`) and not volatile, is present in the new map with a different value. -/
theorem same_headers_differ_spec (cur new : Hdrs σ) :
    headersDiffer skip cur new = true ↔
      ∃ k sp v sp' v', (k, (sp, v)) ∈ cur ∧ skip k = false ∧ get? new k = some (sp', v') ∧ v ≠ v' := by
  unfold headersDiffer
  simp only [List.any_eq_true, Bool.and_eq_true, Bool.not_eq_true']
  constructor
  · rintro ⟨⟨k, sp, v⟩, hm, hsk, hq⟩
    cases hg : get? new k with
    | none => simp [hg] at hq
    | some q =>
      obtain ⟨q1, q2⟩ := q
      exact ⟨k, sp, v, q1, q2, hm, hsk, hg, by simpa [hg] using hq⟩
  · rintro ⟨k, sp, v, sp', v', hm, hsk, hg, hne⟩
    exact ⟨(k, (sp, v)), hm, hsk, by simp [hg, hne]⟩

/-- **location_changed_spec** — `location_changed` answers `True` exactly when the device has no location yet, or the
    location is not among its locations and some stored location has the same (known) IP version. -/
theorem location_changed_spec (locs : PyDict σ Int) (loc : σ) :
    locChanged ipv locs loc = true ↔
      locs = [] ∨ (get? locs loc = none ∧ ∃ v l t, ipv loc = some v ∧ (l, t) ∈ locs ∧ ipv l = some v) := by
  unfold locChanged
  by_cases he : locs = []
  · simp [he]
  · have hemp : locs.isEmpty = false := by cases locs <;> simp_all
    simp only [hemp, Bool.false_eq_true, if_false, he, false_or]
    by_cases hc : contains locs loc = true
    · have hne : get? locs loc ≠ none := by
        intro h; simp [PyDict.contains, h] at hc
      simp [hc, hne]
    · have hn : get? locs loc = none := by simpa [PyDict.contains] using hc
      simp only [hc, if_false, hn, true_and]
      cases hv : ipv loc with
      | none => simp
      | some v =>
        constructor
        · intro h
          simp only [Bool.false_eq_true, if_false] at h
          rw [List.any_eq_true] at h
          obtain ⟨⟨l, t⟩, hm, hl⟩ := h
          exact ⟨v, l, t, rfl, hm, by simpa using hl⟩
        · rintro ⟨v', l, t, hv', hm, hl⟩
          cases hv'
          simp only [Bool.false_eq_true, if_false]
          rw [List.any_eq_true]
          exact ⟨(l, t), hm, by simpa using hl⟩

/-- a second location in the same (known) address family is a change; a location without IP version (a host name)
    never is one for a device that already has a location -/
theorem location_family (l1 l2 : σ) (t : Int) (hne : l1 ≠ l2) :
    (∀ v, ipv l1 = some v → ipv l2 = some v → locChanged ipv [(l1, t)] l2 = true) ∧
    (ipv l2 = none → locChanged ipv [(l1, t)] l2 = false) ∧
    (∀ v w, ipv l1 = some v → ipv l2 = some w → v ≠ w → locChanged ipv [(l1, t)] l2 = false) := by
  have hc : PyDict.contains [(l1, t)] l2 = false := by simp [PyDict.contains, get?, hne]
  refine ⟨fun v h1 h2 => ?_, fun h2 => ?_, fun v w h1 h2 hvw => ?_⟩
  · simp [locChanged, hc, h2, h1]
  · simp [locChanged, hc, h2]
  · simp [locChanged, hc, h2, h1, hvw]

/-- instance at the real `ip_version_from_location`: two distinct IPv4 URLs `http://a.b.c.d[:port][/path]` — the second
    is a changed location for a device known only at the first -/
theorem new_ipv4_location_is_change (a b c d a' b' c' d' : Nat) (ha : a < 256) (hb : b < 256) (hc : c < 256) (hd : d < 256)
    (ha' : a' < 256) (hb' : b' < 256) (hc' : c' < 256) (hd' : d' < 256) (port port' : Option Nat)
    (path path' : Option (List Char)) (t : Int) :
    let url := fun (a b c d : Nat) (port : Option Nat) (path : Option (List Char)) =>
      String.ofList ("http://".toList ++ (Parse.quad a b c d ++
        ((match port with
          | some p => ':' :: Parse.dec p
          | none => []) ++
         (match path with
          | some p => '/' :: p
          | none => []))))
    url a b c d port path ≠ url a' b' c' d' port' path' →
    locChanged Parse.ipVersion [(url a b c d port path, t)] (url a' b' c' d' port' path') = true := by
  intro url hne
  exact (location_family Parse.ipVersion _ _ t hne).1 4
    (Parse.ipVersion_v4 a b c d ha hb hc hd port path) (Parse.ipVersion_v4 a' b' c' d' ha' hb' hc' hd' port' path')

/-- across families nothing changes: a device known only at an IPv4 URL that is then seen at a bracketed IPv6 URL
    (compressed form, optional numeric zone / port / path) has no "changed location" — `ip_version_from_location`
    answers 4 for the one (`Parse.ipVersion_v4`) and 6 for the other (`Parse.ipVersion_v6`) -/
theorem ipv6_after_ipv4_is_no_change (a b c d : Nat) (ha : a < 256) (hb : b < 256) (hc : c < 256) (hd : d < 256)
    (port : Option Nat) (path : Option (List Char))
    (L R : List (List Char)) (hL : ∀ g ∈ L, Parse.hextetOk g = true) (hR : ∀ g ∈ R, Parse.hextetOk g = true)
    (hLn : L ≠ []) (hRn : R ≠ []) (hlen : L.length + R.length ≤ 7)
    (zone port' : Option Nat) (path' : Option (List Char)) (t : Int) :
    let u4 := String.ofList ("http://".toList ++ (Parse.quad a b c d ++
      ((match port with
        | some p => ':' :: Parse.dec p
        | none => []) ++
       (match path with
        | some p => '/' :: p
        | none => []))))
    let u6 := String.ofList ("http://".toList ++ ('[' :: ((Parse.joinColon L ++ ':' :: ':' :: Parse.joinColon R) ++
      ((match zone with
        | some z => '%' :: Parse.dec z
        | none => []) ++ (']' ::
      ((match port' with
        | some p => ':' :: Parse.dec p
        | none => []) ++
       (match path' with
        | some p => '/' :: p
        | none => [])))))))
    locChanged Parse.ipVersion [(u4, t)] u6 = false := by
  intro u4 u6
  have h4 : Parse.ipVersion u4 = some 4 := Parse.ipVersion_v4 a b c d ha hb hc hd port path
  have h6 : Parse.ipVersion u6 = some 6 := Parse.ipVersion_v6 L R hL hR hLn hRn hlen zone port' path'
  have hne : u4 ≠ u6 := by intro e; rw [e, h6] at h4; cases h4
  exact (location_family Parse.ipVersion u4 u6 t hne).2.2 4 6 h4 h6 (by decide)

/-- **combined_spec** — `combined_headers(ty)` equals, as a map from folded header names to values and the entry
    `_source` apart, the stored search headers overlaid by the stored advertisement headers (either alone when the
    other is absent, empty when both are). -/
theorem combined_spec (d : Dev σ) (ty : σ) :
    mapEqBut src (combined src d ty) (overlaid (get? d.search ty) (get? d.adv ty)) = true :=
  comb_ok src d ty

/-- **combined_keywise** (corollary of `combined_spec`) — header by header, names compared case-insensitively (`k` is
    a folded name other than `_source`): `combined_headers(ty)[k]` is the latest advertisement's value if the
    advertisement of that type has the header, otherwise the latest search response's value, otherwise absent.
    (`hn`: the stored advertisement header map has one entry per folded name — C16; `hdrs_nodup` in
    `Lemmas/C03Parse.lean` shows it for every map the listener builds.) -/
theorem combined_keywise (d : Dev σ) (ty k : σ) (hk : k ≠ src)
    (hn : ∀ b, get? d.adv ty = some b → (keys b).Nodup) :
    val (combined src d ty) k =
      match (get? d.adv ty).bind (fun b => val b k) with
      | some v => some v
      | none => (get? d.search ty).bind (fun a => val a k) := by
  rw [mapEqBut_val src (combined_spec src d ty) k hk]
  unfold overlaid
  cases hs : get? d.search ty with
  | none =>
    cases ha : get? d.adv ty with
    | none => simp [val, get?]
    | some b => simp only [Option.bind_some, Option.bind_none]; cases val b k <;> rfl
  | some a =>
    cases ha : get? d.adv ty with
    | none => simp
    | some b =>
      simp only [Option.bind_some, val, SMap.overlay]
      rw [get?_foldl_set, get?_reverse_nodup b (hn b ha) k]
      cases get? b k <;> simp

/-- the state after a history (as in C03) -/
def final (s : Tracker σ) (evs : List (Ev σ)) : Tracker σ := evs.foldl (fun s e => (step ipv skip s e).1) s

theorem inv_final (evs : List (Ev σ)) (s : Tracker σ) (hi : Inv s) : Inv (final ipv skip s evs) := by
  induction evs generalizing s with
  | nil => exact hi
  | cons e r ih => exact ih _ (inv_step ipv skip hi e)

/-- **stored_headers_nodup** — if every message's header map has one entry per folded name (true of every map the
    listener builds: `Parse.hdrs_nodup_source`), so has every header map stored in every reachable state. -/
theorem stored_headers_nodup (evs : List (Ev σ)) (hh : ∀ e ∈ evs, Ev.hdrsOk e) : HInv (final ipv skip {} evs) := by
  suffices H : ∀ s : Tracker σ, Inv s → HInv s → HInv (final ipv skip s evs) from H _ inv_empty hinv_empty
  induction evs with
  | nil => intro s _ h; exact h
  | cons e r ih =>
    intro s hi h
    exact ih (fun x hx => hh x (List.mem_cons_of_mem _ hx)) _ (inv_step ipv skip hi e)
      (hinv_step ipv skip hi h e (hh e List.mem_cons_self))

/-- **combined_keywise_notified** — at every notification of every history, header by header (folded name `k` other than
    `_source`): the combined headers handed to the user hold the latest advertisement's value for `k` if that
    advertisement has the header, else the latest search response's value, else nothing.  No side hypothesis on
    the stored maps is left: it is discharged by `stored_headers_nodup`. -/
theorem combined_keywise_notified (evs : List (Ev σ)) (e : Ev σ) (hh : ∀ x ∈ evs ++ [e], Ev.hdrsOk x)
    (n : Notif σ) (hn : (step ipv skip (final ipv skip {} evs) e).2 = some n) (k : σ) (hk : k ≠ src) :
    val (combined src n.dev n.ty) k =
      match (get? n.dev.adv n.ty).bind (fun b => val b k) with
      | some v => some v
      | none => (get? n.dev.search n.ty).bind (fun a => val a k) := by
  have hi : Inv (final ipv skip {} evs) := inv_final ipv skip evs _ inv_empty
  have hs := stored_headers_nodup ipv skip evs (fun x hx => hh x (List.mem_append_left _ hx))
  have hd := hdev_notif ipv skip hi hs e (hh e (by simp)) n hn
  exact combined_keywise src n.dev n.ty k hk (fun b hb => hd n.ty b (Or.inr hb))

/-- non-vacuity: a concrete history (strings are numbers; header 20 is a BOOTID-like header, names below 10 are
    skipped) in which the first alive is reported, its repetition suppressed, a header change reported, a search
    response of an already advertised type is `alive`, a new location in a known family makes it `changed`, update
    and the first byebye are reported and the second byebye is not; the hypotheses hold, the judge accepts the
    model's trace, and it rejects the same trace with the suppressed alive reported -/
example :
    let ipv : Nat → Option Nat := fun l => if l < 100 then some 4 else some 6
    let skip : Nat → Bool := fun k => decide (k < 10)
    let le : Nat → Nat → Bool := fun a b => decide (a ≤ b)
    let mk (kind : Kind) (ts : Int) (u loc : Nat) (age : Int) (boot : Nat) : Ev Nat :=
      .msg { kind := kind, ts := ts, udnHdr := some u, udn := some u, ty := some 1, ntsOk := true,
             loc := some loc, locOk := true, maxAge := age, hdrs := [(20, (20, boot)), (5, (5, 99))] }
    let evs := [mk .alive 0 1 50 100 7, mk .alive 1 1 50 100 7, mk .alive 2 1 50 100 8, mk .search 3 1 50 100 8,
                mk .search 4 1 50 100 8, mk .search 5 1 60 100 8, mk .update 6 1 60 100 8, .purge 7,
                mk .byebye 8 1 60 0 8, mk .byebye 9 1 60 0 8]
    (∀ e ∈ evs, e.wf = true) ∧
    (run ipv skip {} evs).map (fun x => x.2.2.map (·.source)) =
      [some .advAlive, none, some .advAlive, some .searchAlive, some .searchAlive, some .searchChanged,
       some .advUpdate, none, some .advByebye, none] ∧
    ok ipv skip 0 .both (traceOf ipv skip 0 .both le {} evs) = true ∧
    ok ipv skip 0 .sync (traceOf ipv skip 0 .sync le {} evs) = true ∧
    ok ipv skip 0 .async (traceOf ipv skip 0 .async le {} evs) = true ∧
    ok ipv skip 0 .sync (traceOf ipv skip 0 .both le {} evs) = false ∧
    ok ipv skip 0 .both ((traceOf ipv skip 0 .both le {} evs).zipIdx.map fun x =>
      if x.2 = 1 then (x.1.1, x.1.2.1, { x.1.2.2 with cbs := cbsOf 0 .both (some ⟨1, 1, .advAlive, newDev 0⟩) }) else x.1) = false := by
  decide

end Upnp.C04
