/-
  C04 — change notifications fire exactly when something changed, with its snapshot.  (work in progress)
-/
import Upnp.Spec.C04
import Upnp.Spec.C03Cfg
namespace Upnp.C04
open Upnp PyDict Upnp.C03

/-- the volatile-header list and the private prefix the source uses now are the ones the judge uses -/
theorem gen_cfg_pinned : genCfg = specCfg := by decide

end Upnp.C04
