/-
  C04 — change notifications fire exactly when something changed, with its snapshot.
-/
import Upnp.Lemmas.C04
import Upnp.Spec.C03Cfg
namespace Upnp.C04
open Upnp PyDict Upnp.C03 Upnp.C16
variable {σ : Type} [DecidableEq σ] (ipv : σ → Option Nat) (skip : σ → Bool) (src : σ)

/-- the volatile-header list and the private prefix the source uses now are the ones the judge uses -/
theorem gen_cfg_pinned : genCfg = specCfg := by decide

theorem lookOf_restored (s1 : Tracker σ) (u ty : σ) (d d' : Dev σ) (nx : Option Int) :
    lookOf (⟨set (set s1.devices u d) u d', nx⟩ : Tracker σ) (some u) (some ty) =
      ⟨true, keys d'.search, keys d'.adv, get? d'.search ty, get? d'.adv ty⟩ := by
  simp [lookOf, get?_set_self]

theorem differs_eq (skip : σ → Bool) (cur new : Hdrs σ) : differs skip cur new = headersDiffer skip cur new := rfl

theorem combOk_model (c : Bool) (u ty : σ) (sc : Source) (d : Dev σ) (k1 k2 : List σ) (b : Bool) :
    combOk src (Option.map (fun n => ⟨false, n.udn, n.ty, n.source, combined src n.dev n.ty⟩)
        (if c = true then some (⟨u, ty, sc, d⟩ : Notif σ) else none))
      ⟨b, k1, k2, get? d.search ty, get? d.adv ty⟩ = true := by
  cases c <;> simp [combOk, comb_ok]

theorem knownAt_fresh (le : σ → σ → Bool) (s : Tracker σ) (u : σ) (t : Int)
    (h : get? s.devices u = none ∨ ∃ d, get? s.devices u = some d ∧ d.validTo < t) :
    knownAt (snapOf le s) u t = none := by
  unfold knownAt
  rw [findDev_snapOf]
  rcases h with h | ⟨d, h, hv⟩
  · simp [h]
  · simp [h, obsOf]; omega

theorem knownAt_kept (le : σ → σ → Bool) (s : Tracker σ) (u : σ) (t : Int) (d : Dev σ)
    (h : get? s.devices u = some d) (hv : t ≤ d.validTo) :
    knownAt (snapOf le s) u t = some (obsOf le u d) := by
  unfold knownAt
  rw [findDev_snapOf]
  simp [h, obsOf, hv]

theorem lookOf_known (s : Tracker σ) (u ty : σ) (d : Dev σ) (h : get? s.devices u = some d) :
    lookOf s (some u) (some ty) = ⟨true, keys d.search, keys d.adv, get? d.search ty, get? d.adv ty⟩ := by
  simp [lookOf, h]

theorem search_sighting_ok (le : σ → σ → Bool) {s : Tracker σ} (hi : Inv s) (m : Msg σ) (hw : m.wf = true)
    (hk : m.kind = .search) (u loc ty : σ) (hs : m.sighting? = some (u, loc)) (hty : m.ty = some ty) :
    stepOk ipv skip src (.msg m) (snapOf le s) (modelObs ipv skip src s (.msg m)) = true := by
  have hu : m.udn = some u ∧ m.loc = some loc ∧ m.locOk = true := by
    unfold Msg.sighting? at hs
    simp only [hk] at hs
    cases hu : m.udn <;> cases hl : m.loc <;> simp [hu, hl, hty] at hs
    cases hlo : m.locOk <;> simp [hlo] at hs
    exact ⟨by rw [hs.1], by rw [hs.2], rfl⟩
  obtain ⟨hu, hl, hlo⟩ := hu
  have hh : m.udnHdr = some u := by simp [Msg.wf, hu] at hw; exact hw.1.1
  have hv : m.validSearch = true := by simp [Msg.validSearch, hh, hty, hl, hlo]
  unfold stepOk modelObs
  simp only [flavours_cbsOf, step, hk, targetOf, hu, hty, hs]
  rw [seeSearch_valid ipv skip s m u loc ty hv hu hh hl hty]
  simp only [Option.map_some, lookOf_restored]
  unfold sightingOk
  simp only [Bool.and_eq_true, decide_eq_true_eq, true_and]
  rcases refreshed_cases hi u m.ts (m.ts + m.maxAge) with ⟨hun, hR⟩ | ⟨dOld, hg, hvt, hRs, hRa, hRl⟩
  · rw [knownAt_fresh le s u m.ts hun, hR]
    refine ⟨⟨?_, ?_⟩, ?_⟩
    · simp [notifOk, hk, baseChange, newDev, PyDict.contains, get?]
    · simp [storedOk, hk, prevOther, sighted, newDev, get?_set_self, mapEq_refl, get?, optMapEq]
    · exact comb_ok src _ ty
  · rw [knownAt_kept le s u m.ts dOld hg hvt, lookOf_known s u ty dOld hg]
    have hc : contains s.devices u = true := by simp [PyDict.contains, hg]
    refine ⟨⟨?_, ?_⟩, ?_⟩
    · simp only [notifOk, hk, baseChange, prevSame, Option.isSome_some, Bool.not_true, Bool.false_or, if_true,
        locsAll, obsOf, contains_keys, hc, hRs, hRa, differs_eq, decide_true, Bool.true_and]
      have hX : locChanged ipv (refreshed (purge s m.ts) u (m.ts + m.maxAge)).locs loc = locChanged ipv dOld.locs loc ∨
          locChanged ipv (refreshed (purge s m.ts) u (m.ts + m.maxAge)).locs loc =
            locChanged ipv (List.filter (fun p => decide (m.ts ≤ p.2)) dOld.locs) loc := by
        rcases hRl with h | h <;> rw [h]
        · exact Or.inl rfl
        · exact Or.inr rfl
      generalize locChanged ipv (refreshed (purge s m.ts) u (m.ts + m.maxAge)).locs loc = x at hX ⊢
      generalize locChanged ipv dOld.locs loc = xa at hX ⊢
      generalize locChanged ipv (List.filter (fun p => decide (m.ts ≤ p.2)) dOld.locs) loc = xl at hX ⊢
      generalize contains dOld.adv ty = a
      generalize contains dOld.search ty = b
      cases hgs : get? dOld.search ty with
      | none =>
        cases a <;> cases b <;> cases x <;> cases xa <;> cases xl <;> simp_all
      | some cur =>
        simp only []
        by_cases hdd : headersDiffer skip cur m.hdrs = true
        · simp only [hdd]
          cases a <;> cases b <;> cases x <;> cases xa <;> cases xl <;> simp_all
        · have hdd' : headersDiffer skip cur m.hdrs = false := by simpa using hdd
          simp only [hdd']
          cases a <;> cases b <;> cases x <;> cases xa <;> cases xl <;> simp_all
    · simp [storedOk, hk, prevOther, sighted, get?_set_self, mapEq_refl, hRa, optMapEq_refl]
    · exact comb_ok src _ ty

theorem alive_sighting_ok (le : σ → σ → Bool) {s : Tracker σ} (hi : Inv s) (m : Msg σ) (hw : m.wf = true)
    (hk : m.kind = .alive) (u loc ty : σ) (hs : m.sighting? = some (u, loc)) (hty : m.ty = some ty) :
    stepOk ipv skip src (.msg m) (snapOf le s) (modelObs ipv skip src s (.msg m)) = true := by
  have hu : m.udn = some u ∧ m.loc = some loc ∧ m.locOk = true := by
    unfold Msg.sighting? at hs
    simp only [hk] at hs
    cases hu : m.udn <;> cases hl : m.loc <;> simp [hu, hl, hty] at hs
    cases hlo : m.locOk <;> simp [hlo] at hs
    exact ⟨by rw [hs.1], by rw [hs.2], rfl⟩
  obtain ⟨hu, hl, hlo⟩ := hu
  have hh : m.udnHdr = some u := by simp [Msg.wf, hu] at hw; exact hw.1.1
  have hn : m.ntsOk = true := by simp [Msg.wf, hk] at hw; exact hw.1.2
  have hv : m.validAdv = true := by simp [Msg.validAdv, hh, hty, hl, hlo, hn]
  unfold stepOk modelObs
  simp only [flavours_cbsOf, step, hk, targetOf, hu, hty, hs]
  rw [seeAdv_valid ipv skip s m u loc ty hv hu hh hl hty]
  simp only [lookOf_restored]
  unfold sightingOk
  simp only [Bool.and_eq_true, decide_eq_true_eq, true_and]
  rcases refreshed_cases hi u m.ts (m.ts + m.maxAge) with ⟨hun, hR⟩ | ⟨dOld, hg, hvt, hRs, hRa, hRl⟩
  · rw [knownAt_fresh le s u m.ts hun, hR]
    have hp : (newDev (σ := σ) (m.ts + m.maxAge)).adv = [] ∧ (newDev (σ := σ) (m.ts + m.maxAge)).search = [] := ⟨rfl, rfl⟩
    refine ⟨⟨?_, ?_⟩, ?_⟩
    · simp [notifOk, hk, baseChange, newDev, PyDict.contains, get?]
    · simp [storedOk, hk, prevOther, sighted, newDev, get?_set_self, mapEq_refl, get?, optMapEq]
    · simp only [hp.1, hp.2, PyDict.contains, get?, Option.isSome_none, Bool.not_false, Bool.and_self, Bool.or_true,
        Bool.true_or, if_true, Option.map_some, combOk]
      exact comb_ok src _ ty
  · rw [knownAt_kept le s u m.ts dOld hg hvt, lookOf_known s u ty dOld hg]
    have hc : contains s.devices u = true := by simp [PyDict.contains, hg]
    refine ⟨⟨?_, ?_⟩, ?_⟩
    · simp only [notifOk, hk, baseChange, prevSame, Option.isSome_some, Bool.not_true, Bool.false_or, if_true,
        locsAll, obsOf, contains_keys, hc, hRs, hRa, differs_eq, decide_true, Bool.true_and]
      have hX : locChanged ipv (refreshed (purge s m.ts) u (m.ts + m.maxAge)).locs loc = locChanged ipv dOld.locs loc ∨
          locChanged ipv (refreshed (purge s m.ts) u (m.ts + m.maxAge)).locs loc =
            locChanged ipv (List.filter (fun p => decide (m.ts ≤ p.2)) dOld.locs) loc := by
        rcases hRl with h | h <;> rw [h]
        · exact Or.inl rfl
        · exact Or.inr rfl
      generalize locChanged ipv (refreshed (purge s m.ts) u (m.ts + m.maxAge)).locs loc = x at hX ⊢
      generalize locChanged ipv dOld.locs loc = xa at hX ⊢
      generalize locChanged ipv (List.filter (fun p => decide (m.ts ≤ p.2)) dOld.locs) loc = xl at hX ⊢
      generalize contains dOld.adv ty = a
      generalize contains dOld.search ty = b
      cases hgs : get? dOld.adv ty with
      | none =>
        cases a <;> cases b <;> cases x <;> cases xa <;> cases xl <;> simp_all
      | some cur =>
        simp only []
        by_cases hdd : headersDiffer skip cur m.hdrs = true
        · simp only [hdd]
          cases a <;> cases b <;> cases x <;> cases xa <;> cases xl <;> simp_all
        · have hdd' : headersDiffer skip cur m.hdrs = false := by simpa using hdd
          simp only [hdd']
          cases a <;> cases b <;> cases x <;> cases xa <;> cases xl <;> simp_all
    · simp [storedOk, hk, prevOther, sighted, get?_set_self, mapEq_refl, hRs, optMapEq_refl]
    · exact combOk_model src _ u ty _ _ _ _ _

theorem update_sighting_ok (le : σ → σ → Bool) {s : Tracker σ} (hi : Inv s) (m : Msg σ) (hw : m.wf = true)
    (hk : m.kind = .update) (u loc ty : σ) (hs : m.sighting? = some (u, loc)) (hty : m.ty = some ty) :
    stepOk ipv skip src (.msg m) (snapOf le s) (modelObs ipv skip src s (.msg m)) = true := by
  have hu : m.udn = some u ∧ m.loc = some loc ∧ m.locOk = true := by
    unfold Msg.sighting? at hs
    simp only [hk] at hs
    cases hu : m.udn <;> cases hl : m.loc <;> simp [hu, hl, hty] at hs
    cases hlo : m.locOk <;> simp [hlo] at hs
    exact ⟨by rw [hs.1], by rw [hs.2], rfl⟩
  obtain ⟨hu, hl, hlo⟩ := hu
  have hh : m.udnHdr = some u := by simp [Msg.wf, hu] at hw; exact hw.1.1
  have hn : m.ntsOk = true := by simp [Msg.wf, hk] at hw; exact hw.1.2
  have hv : m.validAdv = true := by simp [Msg.validAdv, hh, hty, hl, hlo, hn]
  unfold stepOk modelObs
  simp only [flavours_cbsOf, step, hk, targetOf, hu, hty, hs]
  rw [seeAdv_valid ipv skip s m u loc ty hv hu hh hl hty]
  simp only [lookOf_restored]
  unfold sightingOk
  simp only [Bool.and_eq_true, decide_eq_true_eq, true_and]
  rcases refreshed_cases hi u m.ts (m.ts + m.maxAge) with ⟨hun, hR⟩ | ⟨dOld, hg, hvt, hRs, hRa, hRl⟩
  · rw [knownAt_fresh le s u m.ts hun, hR]
    have hp : (newDev (σ := σ) (m.ts + m.maxAge)).adv = [] ∧ (newDev (σ := σ) (m.ts + m.maxAge)).search = [] := ⟨rfl, rfl⟩
    refine ⟨⟨?_, ?_⟩, ?_⟩
    · simp [notifOk, hk, baseChange, newDev, PyDict.contains, get?]
    · simp [storedOk, hk, prevOther, sighted, newDev, get?_set_self, mapEq_refl, get?, optMapEq]
    · simp only [hp.1, hp.2, PyDict.contains, get?, Option.isSome_none, Bool.not_false, Bool.and_self, Bool.or_true,
        Bool.true_or, if_true, Option.map_some, combOk]
      exact comb_ok src _ ty
  · rw [knownAt_kept le s u m.ts dOld hg hvt, lookOf_known s u ty dOld hg]
    have hc : contains s.devices u = true := by simp [PyDict.contains, hg]
    refine ⟨⟨?_, ?_⟩, ?_⟩
    · simp only [notifOk, hk, baseChange, prevSame, Option.isSome_some, Bool.not_true, Bool.false_or, if_true,
        locsAll, obsOf, contains_keys, hc, hRs, hRa, differs_eq, decide_true, Bool.true_and]
      have hX : locChanged ipv (refreshed (purge s m.ts) u (m.ts + m.maxAge)).locs loc = locChanged ipv dOld.locs loc ∨
          locChanged ipv (refreshed (purge s m.ts) u (m.ts + m.maxAge)).locs loc =
            locChanged ipv (List.filter (fun p => decide (m.ts ≤ p.2)) dOld.locs) loc := by
        rcases hRl with h | h <;> rw [h]
        · exact Or.inl rfl
        · exact Or.inr rfl
      generalize locChanged ipv (refreshed (purge s m.ts) u (m.ts + m.maxAge)).locs loc = x at hX ⊢
      generalize locChanged ipv dOld.locs loc = xa at hX ⊢
      generalize locChanged ipv (List.filter (fun p => decide (m.ts ≤ p.2)) dOld.locs) loc = xl at hX ⊢
      generalize contains dOld.adv ty = a
      generalize contains dOld.search ty = b
      cases hgs : get? dOld.adv ty with
      | none =>
        cases a <;> cases b <;> cases x <;> cases xa <;> cases xl <;> simp_all
      | some cur =>
        simp only []
        by_cases hdd : headersDiffer skip cur m.hdrs = true
        · simp only [hdd]
          cases a <;> cases b <;> cases x <;> cases xa <;> cases xl <;> simp_all
        · have hdd' : headersDiffer skip cur m.hdrs = false := by simpa using hdd
          simp only [hdd']
          cases a <;> cases b <;> cases x <;> cases xa <;> cases xl <;> simp_all
    · simp [storedOk, hk, prevOther, sighted, get?_set_self, mapEq_refl, hRs, optMapEq_refl]
    · exact combOk_model src _ u ty _ _ _ _ _

theorem byebye_ok (le : σ → σ → Bool) {s : Tracker σ} (hi : Inv s) (m : Msg σ) (hw : m.wf = true)
    (hk : m.kind = .byebye) (u ty : σ) (hb : m.byebye? = some u) (hty : m.ty = some ty) :
    stepOk ipv skip src (.msg m) (snapOf le s) (modelObs ipv skip src s (.msg m)) = true := by
  have hsi : m.sighting? = none := by simp [Msg.sighting?, hk]
  have hu : m.udn = some u := by
    simp only [Msg.byebye?, hk, if_true, hty] at hb
    cases hu : m.udn <;> simp [hu] at hb
    rw [hb]
  have hh : m.udnHdr = some u := by simp [Msg.wf, hu] at hw; exact hw.1.1
  have hn : m.ntsOk = true := by simp [Msg.wf, hk] at hw; exact hw.1.2
  have hv : m.validByebye = true := by simp [Msg.validByebye, hh, hty, hn]
  unfold stepOk modelObs
  simp only [flavours_cbsOf, step, hk, targetOf, hu, hty, hsi, hb]
  unfold byebyeOk4
  cases hg : get? s.devices u with
  | none => simp [unsee, hv, hu, hty, hg, findDev_snapOf]
  | some d =>
    simp only [unsee, hv, hu, hty, hg, findDev_snapOf, Option.map_some, Bool.not_true, Bool.false_eq_true, if_false,
      Option.isSome_some, Bool.true_and, decide_true, lookOf_known s u ty d hg]
    have := comb_ok src ({ d with adv := set d.adv ty m.hdrs } : Dev σ) ty
    simpa [get?_set_self] using this

theorem seeSearch_notif_none (s : Tracker σ) (m : Msg σ) (hk : m.kind = .search) (hs : m.sighting? = none) :
    (seeSearch ipv skip s m).2 = none := by
  by_cases hv : m.validSearch = true
  · have hv' := hv
    simp only [Msg.validSearch, Bool.and_eq_true, Option.isSome_iff_exists] at hv'
    obtain ⟨⟨⟨_, ⟨ty, hty⟩⟩, ⟨loc, hloc⟩⟩, hlo⟩ := hv'
    cases hu : m.udn with
    | none => simp [seeSearch, hv, seeDevice_none ipv s m (Or.inl hu)]
    | some u => simp [Msg.sighting?, hk, hu, hty, hloc, hlo] at hs
  · have hv2 : m.validSearch = false := by simpa using hv
    simp [seeSearch, hv2]

theorem seeAdv_notif_none (s : Tracker σ) (m : Msg σ) (hk : m.kind = .alive ∨ m.kind = .update)
    (hs : m.sighting? = none) : (seeAdv ipv skip s m).2 = none := by
  have hnb : m.kind ≠ .byebye := by rcases hk with h | h <;> simp [h]
  by_cases hv : m.validAdv = true
  · have hv' := hv
    simp only [Msg.validAdv, Bool.and_eq_true, Option.isSome_iff_exists] at hv'
    obtain ⟨⟨⟨⟨_, ⟨ty, hty⟩⟩, _⟩, ⟨loc, hloc⟩⟩, hlo⟩ := hv'
    cases hu : m.udn with
    | none => simp [seeAdv, hv, seeDevice_none ipv s m (Or.inl hu)]
    | some u => simp [Msg.sighting?, hnb, hu, hty, hloc, hlo] at hs
  · have hv2 : m.validAdv = false := by simpa using hv
    simp [seeAdv, hv2]

theorem unsee_notif_none (s : Tracker σ) (m : Msg σ) (hk : m.kind = .byebye) (hb : m.byebye? = none) :
    (unsee s m).2 = none := by
  simp only [Msg.byebye?, hk, if_true] at hb
  unfold unsee
  cases hu : m.udn <;> cases hty : m.ty <;> simp [hu, hty] at hb ⊢
  all_goals (split <;> rfl)

/-- **c04_step** — every step of the model, from every state satisfying the tracker invariant, satisfies the
    judge's step relation on the model's own observations: at most one notification per message (both callback
    flavours identical), for the sender and the message's type; `search_changed` / `advertisement_alive` exactly
    when the device, the type for the device or a location in a known address family is new or a non-volatile header
    differs from the previous message of that kind and type; `ssdp:update` always; `ssdp:byebye` iff the device is
    known; anything else never; stored headers are replaced before the callback and `combined_headers` is the
    search headers overlaid by the advertisement headers. -/
theorem c04_step (le : σ → σ → Bool) {s : Tracker σ} (hi : Inv s) (e : Ev σ) (hw : e.wf = true) :
    stepOk ipv skip src e (snapOf le s) (modelObs ipv skip src s e) = true := by
  cases e with
  | purge now => simp [stepOk, modelObs, step, flavours_cbsOf]
  | noise ts => simp [stepOk, modelObs, step, flavours_cbsOf]
  | msg m =>
    simp only [Ev.wf] at hw
    cases hs : m.sighting? with
    | some p =>
      obtain ⟨u, loc⟩ := p
      have hty : ∃ ty, m.ty = some ty := by
        unfold Msg.sighting? at hs
        split at hs
        · cases hs
        · cases hu : m.udn <;> cases ht : m.ty <;> cases hl : m.loc <;> simp [hu, ht, hl] at hs
          exact ⟨_, rfl⟩
      obtain ⟨ty, hty⟩ := hty
      cases hk : m.kind with
      | search => exact search_sighting_ok ipv skip src le hi m hw hk u loc ty hs hty
      | alive => exact alive_sighting_ok ipv skip src le hi m hw hk u loc ty hs hty
      | update => exact update_sighting_ok ipv skip src le hi m hw hk u loc ty hs hty
      | byebye => simp [Msg.sighting?, hk] at hs
    | none =>
      cases hb : m.byebye? with
      | some u =>
        have hk : m.kind = .byebye := by
          unfold Msg.byebye? at hb; split at hb
          · assumption
          · cases hb
        have hty : ∃ ty, m.ty = some ty := by
          simp only [Msg.byebye?, hk, if_true] at hb
          cases hu : m.udn <;> cases ht : m.ty <;> simp [hu, ht] at hb
          exact ⟨_, rfl⟩
        obtain ⟨ty, hty⟩ := hty
        exact byebye_ok ipv skip src le hi m hw hk u ty hb hty
      | none =>
        unfold stepOk modelObs
        simp only [flavours_cbsOf, hs, hb, step]
        cases hk : m.kind with
        | search => simp [seeSearch_notif_none ipv skip s m hk hs]
        | alive => simp [seeAdv_notif_none ipv skip s m (Or.inl hk) hs]
        | update => simp [seeAdv_notif_none ipv skip s m (Or.inr hk) hs]
        | byebye => simp [unsee_notif_none s m hk hb]

/-- the trace the judge reads, produced by the model -/
def traceOf (le : σ → σ → Bool) : Tracker σ → List (Ev σ) → List (Ev σ × Snap σ × Obs σ)
  | _, [] => []
  | s, e :: r => (e, snapOf le s, modelObs ipv skip src s e) :: traceOf le (step ipv skip s e).1 r

/-- **c04_history** — for every history of well-formed events the judge `C04.ok` accepts the model's trace. -/
theorem c04_history (le : σ → σ → Bool) (evs : List (Ev σ)) (hw : ∀ e ∈ evs, e.wf = true) :
    ok ipv skip src (traceOf ipv skip src le {} evs) = true := by
  suffices H : ∀ s : Tracker σ, Inv s → ok ipv skip src (traceOf ipv skip src le s evs) = true from H _ inv_empty
  induction evs with
  | nil => intro s _; rfl
  | cons e r ih =>
    intro s hi
    simp only [traceOf, ok, List.all_cons, Bool.and_eq_true]
    exact ⟨c04_step ipv skip src le hi e (hw e List.mem_cons_self),
           ih (fun x hx => hw x (List.mem_cons_of_mem _ hx)) _ (inv_step ipv skip hi e)⟩

/-- **same_headers_differ_spec** — the early-exit loop over the two case maps answers `True` exactly when some
    header of the stored map, not private (`_…`) and not volatile, is present in the new map with a different value. -/
theorem same_headers_differ_spec (cur new : Hdrs σ) :
    headersDiffer skip cur new = true ↔
      ∃ k sp v sp' v', (k, (sp, v)) ∈ cur ∧ skip k = false ∧ get? new k = some (sp', v') ∧ v ≠ v' := by
  unfold headersDiffer
  simp only [List.any_eq_true, Bool.and_eq_true, Bool.not_eq_true']
  constructor
  · rintro ⟨⟨k, sp, v⟩, hm, hsk, hq⟩
    cases hg : get? new k with
    | none => simp [hg] at hq
    | some q =>
      obtain ⟨q1, q2⟩ := q
      exact ⟨k, sp, v, q1, q2, hm, hsk, hg, by simpa [hg] using hq⟩
  · rintro ⟨k, sp, v, sp', v', hm, hsk, hg, hne⟩
    exact ⟨(k, (sp, v)), hm, hsk, by simp [hg, hne]⟩

/-- **location_changed_spec** — `location_changed` answers `True` exactly when the device has no location yet, or the
    location is not among its locations and some stored location has the same (known) IP version. -/
theorem location_changed_spec (locs : PyDict σ Int) (loc : σ) :
    locChanged ipv locs loc = true ↔
      locs = [] ∨ (get? locs loc = none ∧ ∃ v l t, ipv loc = some v ∧ (l, t) ∈ locs ∧ ipv l = some v) := by
  unfold locChanged
  by_cases he : locs = []
  · simp [he]
  · have hemp : locs.isEmpty = false := by cases locs <;> simp_all
    simp only [hemp, Bool.false_eq_true, if_false, he, false_or]
    by_cases hc : contains locs loc = true
    · have hne : get? locs loc ≠ none := by
        intro h; simp [PyDict.contains, h] at hc
      simp [hc, hne]
    · have hn : get? locs loc = none := by simpa [PyDict.contains] using hc
      simp only [hc, if_false, hn, true_and]
      cases hv : ipv loc with
      | none => simp
      | some v =>
        constructor
        · intro h
          simp only [Bool.false_eq_true, if_false] at h
          rw [List.any_eq_true] at h
          obtain ⟨⟨l, t⟩, hm, hl⟩ := h
          exact ⟨v, l, t, rfl, hm, by simpa using hl⟩
        · rintro ⟨v', l, t, hv', hm, hl⟩
          cases hv'
          simp only [Bool.false_eq_true, if_false]
          rw [List.any_eq_true]
          exact ⟨(l, t), hm, by simpa using hl⟩

/-- **combined_spec** — `combined_headers(ty)` equals, as a map from folded header names to values and the entry
    `_source` apart, the stored search headers overlaid by the stored advertisement headers (either alone when the
    other is absent, empty when both are). -/
theorem combined_spec (d : Dev σ) (ty : σ) :
    mapEqBut src (combined src d ty) (overlaid (get? d.search ty) (get? d.adv ty)) = true :=
  comb_ok src d ty

/-- non-vacuity: a concrete history (strings are numbers; header 20 is a BOOTID-like header, names below 10 are
    skipped) in which the first alive is reported, its repetition suppressed, a header change reported, a search
    response of an already advertised type is `alive`, a new location in a known family makes it `changed`, update
    and the first byebye are reported and the second byebye is not; the hypotheses hold, the judge accepts the
    model's trace, and it rejects the same trace with the suppressed alive reported -/
example :
    let ipv : Nat → Option Nat := fun l => if l < 100 then some 4 else some 6
    let skip : Nat → Bool := fun k => decide (k < 10)
    let le : Nat → Nat → Bool := fun a b => decide (a ≤ b)
    let mk (kind : Kind) (ts : Int) (u loc : Nat) (age : Int) (boot : Nat) : Ev Nat :=
      .msg { kind := kind, ts := ts, udnHdr := some u, udn := some u, ty := some 1, ntsOk := true,
             loc := some loc, locOk := true, maxAge := age, hdrs := [(20, (20, boot)), (5, (5, 99))] }
    let evs := [mk .alive 0 1 50 100 7, mk .alive 1 1 50 100 7, mk .alive 2 1 50 100 8, mk .search 3 1 50 100 8,
                mk .search 4 1 50 100 8, mk .search 5 1 60 100 8, mk .update 6 1 60 100 8, .purge 7,
                mk .byebye 8 1 60 0 8, mk .byebye 9 1 60 0 8]
    (∀ e ∈ evs, e.wf = true) ∧
    (run ipv skip {} evs).map (fun x => x.2.2.map (·.source)) =
      [some .advAlive, none, some .advAlive, some .searchAlive, some .searchAlive, some .searchChanged,
       some .advUpdate, none, some .advByebye, none] ∧
    ok ipv skip 0 (traceOf ipv skip 0 le {} evs) = true ∧
    ok ipv skip 0 ((traceOf ipv skip 0 le {} evs).zipIdx.map fun x =>
      if x.2 = 1 then (x.1.1, x.1.2.1, { x.1.2.2 with cbs := cbsOf 0 (some ⟨1, 1, .advAlive, newDev 0⟩) }) else x.1) = false := by
  decide

end Upnp.C04
