/-
  C05 — description documents produce a faithful device model.

  Property theorems only (lemmas: `Lemmas/C05Xml`, `C05Parts`, `C05Service`, `C05Device`, `C05Wf`).
  `DeviceSpec` is an abstract description; `renderDevice`/`renderDoc`/`serve` are the XML trees a
  device would serve for it; `asyncCreateDevice` (Model/C05Factory.lean) transcribes
  `client_factory.py` at tree level and is what the correspondence driver runs; `mirror`
  (Spec/C05.lean) is the object model the property demands and `judge` compares the
  implementation's dump with it.  All theorems are about `Gen.C08Types.table`, the type table
  regenerated from the source on every run.  Floats are abstract (`fo : FloatOps F`).
-/
import Upnp.Gen.C08Types
import Upnp.Lemmas.C05Wf
namespace Upnp.C05
open Upnp Upnp.C08 Upnp.Gen.C08Types

/-- `_state_variable_create_schema` converts a `defaultValue` with the type's own `"in"` converter
    (pinned from the source; false on the tree with defect F05a) -/
theorem default_converted_by_type : table.defaultViaIn = true := by decide

section
variable {F : Type} (fo : FloatOps F)

/-- **factory_mirror.** For every well-formed description `d` — any tree of embedded devices (any
    depth and width), any services / state variables / actions / icons, under only the uniqueness
    UPnP itself demands: service ids unique within a device, UDNs unique among sibling devices,
    variable / action names unique within a service (`DeviceSpec.wf`; device and service types are
    URNs, i.e. contain no `#`, and may REPEAT among siblings; declared texts denote values, related
    variables are declared), SCPD URLs inside the URL grammar with one content per URL (`urlsOk`) —
    served at `base`, in strict or non-strict mode: the factory, run on the XML trees of `d`, returns
    exactly `mirror d` — the same devices, services, actions, arguments bound by name, metadata and
    resolved URLs, one model object per described object — or the same refusal.
    (`fuel` only bounds the recursion depth of the model.) -/
theorem factory_mirror (d : DeviceSpec) (base : Str) (nonStrict : Bool) (fuel : Nat)
    (hw : d.wf fo table base = true) (hu : urlsOk base d = true) (hf : d.depth ≤ fuel) :
    asyncCreateDevice fo table (serve base d) nonStrict base fuel = mirror fo table nonStrict base d := by
  have hgood : Good (serve base d) base d := wf_good fo table (serve base d) base d hw (serve_spec base d hu)
  unfold asyncCreateDevice
  have h1 : serve base d base = .doc (renderRoot d) := by simp [serve]
  rw [h1]
  have h2 : (renderRoot d).find .device .device = some (renderDevice d) := by
    cases d with
    | mk info icons svcs emb => simp [renderRoot, Xml.find, Xml.children, renderDevice]
  simp only [h2]
  exact createDevice_render fo table (serve base d) nonStrict base d fuel hf hgood

/-- **Refusals are the library's XML errors, and only in strict mode.** On a well-formed
    description `mirror` (hence, by `factory_mirror`, the factory) fails only in strict mode and only
    with `UpnpXmlContentError` / `UpnpXmlParseError`. In particular non-strict creation never fails —
    also when service descriptions are INCOMPLETE (a variable without supported data type, an argument
    naming an undeclared variable): completeness is asked in strict mode only. -/
theorem refusal_class (d : DeviceSpec) (base : Str) (nonStrict : Bool) (e : FErr)
    (hw : d.wf fo table base = true) (hc : nonStrict = false → d.complete table = true)
    (h : mirror fo table nonStrict base d = .error e) :
    nonStrict = false ∧ e.isXml :=
  mirror_error fo table d nonStrict base e default_converted_by_type hw
    (fun hn s hs => List.all_eq_true.mp (hc hn) s hs) h

/-- a corrupted service document: foreign root, unparsable text, or an SCPD without state table -/
def DocSpec.corrupted : DocSpec → Prop
  | .foreign _ _ => True
  | .unparsable => True
  | .scpd sp => sp.vars = none
  | .status _ => False

/-- **strict_refuses.** In strict mode a service whose document is corrupted is refused: with a
    foreign root or a missing state table `UpnpXmlContentError`, unparsable `UpnpXmlParseError`. -/
theorem strict_refuses (base : Str) (s : ServiceSpec) (hc : s.doc.corrupted) :
    ∃ e, mirrorService fo table false base s = .error e ∧ e.isXml := by
  unfold mirrorService svcOf mirrorBody
  cases hd : s.doc with
  | status n => rw [hd] at hc; cases hc
  | unparsable => exact ⟨.xmlParse, by simp, trivial⟩
  | foreign n t => exact ⟨.xmlContent, by simp, trivial⟩
  | scpd sp =>
    rw [hd] at hc
    have : sp.vars = none := hc
    exact ⟨.xmlContent, by simp [this], trivial⟩

/-- … and the refusal of one service refuses the whole device (strict mode), with an XML error. -/
theorem strict_refuses_device (base : Str) (info : List (Option Str)) (icons : List IconSpec)
    (svcs : List ServiceSpec) (emb : List DeviceSpec) (s : ServiceSpec) (hs : s ∈ svcs) (hc : s.doc.corrupted)
    (hw : (DeviceSpec.mk info icons svcs emb).wf fo table base = true)
    (hcomp : (DeviceSpec.mk info icons svcs emb).complete table = true) :
    ∃ e, mirror fo table false base (.mk info icons svcs emb) = .error e ∧ e.isXml := by
  cases h : mirror fo table false base (.mk info icons svcs emb) with
  | error e => exact ⟨e, rfl, (refusal_class fo _ base false e hw (fun _ => hcomp) h).2⟩
  | ok m =>
    exfalso
    rw [mirror] at h
    cases h1 : mapE (mirrorIcon base) icons with
    | error e => simp [h1] at h
    | ok ic =>
      cases h2 : mapE (mirrorService fo table false base) svcs with
      | error e => simp [h1, h2] at h
      | ok sv =>
        -- every service succeeded, in particular the corrupted one: impossible
        obtain ⟨e, he, _⟩ := strict_refuses fo base s hc
        have : ∀ (l : List ServiceSpec) (r : List (SvcM F)), mapE (mirrorService fo table false base) l = .ok r →
            s ∈ l → False := by
          intro l
          induction l with
          | nil => intro _ _ hm; cases hm
          | cons a rest ih =>
            intro r hr hm
            simp only [mapE] at hr
            cases ha : mirrorService fo table false base a with
            | error e' => simp [ha] at hr
            | ok b =>
              cases hrest : mapE (mirrorService fo table false base) rest with
              | error e' => simp [ha, hrest] at hr
              | ok bs =>
                rcases List.mem_cons.mp hm with rfl | hm'
                · rw [he] at ha; cases ha
                · exact ih bs hrest hm'
        exact this svcs sv h2 hs

/-- **nonstrict_degrades.** In non-strict mode a well-formed description always yields a device
    (corrupted documents never fail it) … -/
theorem nonstrict_never_fails (d : DeviceSpec) (base : Str) (hw : d.wf fo table base = true) :
    ∃ m, mirror fo table true base d = .ok m := by
  cases h : mirror fo table true base d with
  | ok m => exact ⟨m, rfl⟩
  | error e => exact absurd (refusal_class fo d base true e hw (fun hn => by cases hn) h).1 (by decide)

/-- … in which a service with a corrupted document is empty (no state variables, no actions) while
    its identifiers and URLs are still those of the description. -/
theorem nonstrict_degrades (base : Str) (s : ServiceSpec) (hc : s.doc.corrupted) :
    mirrorService fo table true base s =
      .ok { serviceId := s.serviceId.getD [], serviceType := s.serviceType.getD []
            controlUrl := urljoin base (s.controlURL.getD []), eventSubUrl := urljoin base (s.eventSubURL.getD [])
            scpdUrl := urljoin base (s.scpdURL.getD []), vars := [], actions := [] } := by
  unfold mirrorService svcOf mirrorBody
  cases hd : s.doc with
  | status n => rw [hd] at hc; cases hc
  | unparsable => simp
  | foreign n t => simp
  | scpd sp =>
    rw [hd] at hc
    have : sp.vars = none := hc
    simp [this]

/-- **The run-time judge accepts every output of the model.** Whatever the description (well-formed
    or not), base URL and mode: what the factory model returns for the trees and requester of `d`,
    observed the way the driver observes the implementation (`observedOf` of the flattened graph or
    the exception), satisfies `judge`. -/
theorem judge_accepts_model [DecidableEq F] (norm : DevRow F → DevRow F) (d : DeviceSpec) (base : Str)
    (nonStrict : Bool) (fuel : Nat) (hf : d.depth ≤ fuel) :
    judge fo table norm nonStrict base d
      (observedOf (match asyncCreateDevice fo table (serve base d) nonStrict base fuel with
        | .ok m => .ok (flatten 0 m)
        | .error e => .error e)) = true := by
  unfold judge
  cases hj : judged fo table nonStrict base d with
  | false => simp
  | true =>
    simp only [judged, Bool.and_eq_true, Bool.or_eq_true] at hj
    obtain ⟨⟨hw, hu⟩, hc⟩ := hj
    rw [factory_mirror fo d base nonStrict fuel hw hu hf]
    cases hm : mirror fo table nonStrict base d with
    | ok m => simp [observedOf]
    | error e =>
      have := (refusal_class fo d base nonStrict e hw
        (fun hn => by rcases hc with hc | hc; · rw [hn] at hc; cases hc
                      · exact hc) hm).2
      cases e <;> simp [FErr.isXml] at this <;> simp [observedOf, FErr.isLibrary]

/-- **Creation has no memory.** The model of a long-lived factory is the function
    `asyncCreateDevice (what the requester answers NOW) (options)`: it has no factory state, so a history
    of creations — documents changed, repaired, corrupted, swapped between URLs, other devices in between —
    is judged creation by creation, each against the documents served at that time; every one of them
    satisfies the judge. (`steps`: for each creation the description served then and its URL.) -/
theorem history_judged [DecidableEq F] (norm : DevRow F → DevRow F) (nonStrict : Bool) (fuel : Nat)
    (steps : List (DeviceSpec × Str)) (step : DeviceSpec × Str) (_hmem : step ∈ steps) (hf : step.1.depth ≤ fuel) :
    judge fo table norm nonStrict step.2 step.1
      (observedOf (match asyncCreateDevice fo table (serve step.2 step.1) nonStrict step.2 fuel with
        | .ok m => .ok (flatten 0 m)
        | .error e => .error e)) = true :=
  judge_accepts_model fo norm step.1 step.2 nonStrict fuel hf

/-- **No cross-talk between creations.** A creation is a function of ITS OWN arguments (description
    URL, options) and of the responses to ITS OWN requests (`fetch`): creations that are in flight at the
    same time on one factory — whatever the order in which their responses arrive — are each judged
    against their own documents and URL, and each satisfies the judge. (`creations`: for every creation
    in flight its description and URL; the interleaving does not occur in the model because nothing is
    shared.) -/
theorem concurrent_judged [DecidableEq F] (norm : DevRow F → DevRow F) (nonStrict : Bool) (fuel : Nat)
    (creations : List (DeviceSpec × Str)) (hf : ∀ c ∈ creations, c.1.depth ≤ fuel) :
    ∀ c ∈ creations, judge fo table norm nonStrict c.2 c.1
      (observedOf (match asyncCreateDevice fo table (serve c.2 c.1) nonStrict c.2 fuel with
        | .ok m => .ok (flatten 0 m)
        | .error e => .error e)) = true :=
  fun c hc => judge_accepts_model fo norm c.1 c.2 nonStrict fuel (hf c hc)

/-- **One-to-one.** The created device has exactly the services of the description, in order, with
    their types; each service's model depends on that service's description only. -/
theorem services_one_to_one (nonStrict : Bool) (base : Str) (info : List (Option Str)) (icons : List IconSpec)
    (svcs : List ServiceSpec) (emb : List DeviceSpec) (i : List (Option Str)) (u : Str) (ic : List IconM)
    (sv : List (SvcM F)) (em : List (DevM F))
    (h : mirror fo table nonStrict base (.mk info icons svcs emb) = .ok (.mk i u ic sv em)) :
    mapE (mirrorService fo table nonStrict base) svcs = .ok sv ∧ mirrors fo table nonStrict base emb = .ok em
    ∧ sv.map (·.serviceType) = svcs.map (fun s => s.serviceType.getD []) ∧ u = base ∧ i = mirrorInfo infoTags info := by
  rw [mirror] at h
  cases h1 : mapE (mirrorIcon base) icons with
  | error e => simp [h1] at h
  | ok ic' =>
    cases h2 : mapE (mirrorService fo table nonStrict base) svcs with
    | error e => simp [h1, h2] at h
    | ok sv' =>
      cases h3 : mirrors fo table nonStrict base emb with
      | error e => simp [h1, h2, h3] at h
      | ok em' =>
        simp only [h1, h2, h3, Except.ok.injEq, DevM.mk.injEq] at h
        obtain ⟨rfl, rfl, rfl, rfl, rfl⟩ := h
        exact ⟨rfl, rfl, svc_types fo table nonStrict base svcs sv' h2, rfl, rfl⟩

/-- **Arguments are bound by name.** Every argument of a created action is bound to a state
    variable of the service whose name is the argument's `relatedStateVariable`; the arguments are
    the complete ones of the description, in order. -/
theorem args_bound_by_name (vars : List (VarM F)) (a : ActionSpec) (m : ActM) (h : mirrorAction vars a = .ok m) :
    m.args.map (fun g => (g.name, g.direction, g.related))
        = a.args.filterMap (fun g => completeArg g.name g.direction (g.related.map stripWs))
    ∧ ∀ g ∈ m.args, ∃ v ∈ vars, v.name = g.related ∧ v.dataType = g.relatedType := by
  unfold mirrorAction actionOf at h
  cases hm : mapE (bindArg fun r => vars.find? (·.name == r)) (a.args.filterMap fun g => completeArg g.name g.direction (g.related.map stripWs)) with
  | error e => simp [hm] at h
  | ok as =>
    simp only [hm, Except.ok.injEq] at h
    subst h
    simp only [mkAct]
    generalize (a.args.filterMap fun g => completeArg g.name g.direction (g.related.map stripWs)) = l at hm
    induction l generalizing as with
    | nil => simp [mapE] at hm; subst hm; simp
    | cons t rest ih =>
      simp only [mapE] at hm
      cases hb : bindArg (fun r => vars.find? (·.name == r)) t with
      | error e => simp [hb] at hm
      | ok b =>
        cases hr : mapE (bindArg fun r => vars.find? (·.name == r)) rest with
        | error e => simp [hb, hr] at hm
        | ok bs =>
          simp only [hb, hr, Except.ok.injEq] at hm
          subst hm
          obtain ⟨ih1, ih2⟩ := ih bs hr
          unfold bindArg at hb
          cases hf : vars.find? (·.name == t.2.2) with
          | none => simp [hf] at hb
          | some v =>
            simp only [hf, Except.ok.injEq] at hb
            subst hb
            have hv := List.find?_some hf
            have hmem := List.mem_of_find?_eq_some hf
            simp only [beq_iff_eq] at hv
            refine ⟨by simp [ih1, hv], ?_⟩
            intro g hg
            rcases List.mem_cons.mp hg with rfl | hg'
            · exact ⟨v, hmem, rfl, rfl⟩
            · exact ih2 g hg'

/-- **`argument(name, direction)` finds every argument.** When the (name, direction) pairs of an
    action's arguments are distinct — an in- and an out-argument MAY share a name —
    `argument(a.name, a.direction)` returns exactly `a`, for every argument `a` of the action. -/
theorem argument_lookup (name : Str) (args : List ArgM) (h : (args.map fun a => (a.name, a.direction)).Nodup) :
    (mkAct name args).byNameDir = (List.range args.length).map some :=
  byNameDir_id name args h

/-- **`in_arguments()` / `out_arguments()`** list exactly the arguments whose direction is `in` / `out`, in
    document order -/
theorem in_out_arguments (name : Str) (args : List ArgM) (i : Nat) :
    (i ∈ (mkAct name args).inArgs ↔ ∃ a, args[i]? = some a ∧ a.direction = dirIn)
    ∧ (i ∈ (mkAct name args).outArgs ↔ ∃ a, args[i]? = some a ∧ a.direction = dirOut)
    ∧ (mkAct name args).inArgs.Pairwise (· < ·) ∧ (mkAct name args).outArgs.Pairwise (· < ·) := by
  refine ⟨?_, ?_, (idxWhere_sorted _ args 0).2, (idxWhere_sorted _ args 0).2⟩
  · have := idxWhere_mem (fun a : ArgM => a.direction == dirIn) args 0 i
    simpa [mkAct] using this
  · have := idxWhere_mem (fun a : ArgM => a.direction == dirOut) args 0 i
    simpa [mkAct] using this

/-- a well-formed SCPD gives every action distinct (name, direction) pairs, so `argument_lookup` applies
    to the actions `mirror` creates -/
theorem wf_action_pairs (sp : ScpdSpec) (vars : List VarSpec) (acts : List ActionSpec)
    (hv : sp.vars = some vars) (ha : sp.actions = some acts) (hw : ScpdSpec.wf fo table sp = true)
    (a : ActionSpec) (hmem : a ∈ acts) (ms : List (VarM F)) (m : ActM) (hm : mirrorAction ms a = .ok m) :
    (m.args.map fun g => (g.name, g.direction)).Nodup := by
  obtain ⟨h1, _⟩ := args_bound_by_name ms a m hm
  have hpairs : m.args.map (fun g => (g.name, g.direction))
      = (a.args.filterMap fun g => completeArg g.name g.direction (g.related.map stripWs)).map (fun t => (t.1, t.2.1)) := by
    rw [← h1]; simp [List.map_map, Function.comp_def]
  rw [hpairs]
  unfold ScpdSpec.wf at hw
  rw [hv, ha] at hw
  simp only [Bool.and_eq_true, List.all_eq_true] at hw
  have hd := ((hw.2.2 a hmem).1).2
  have hall := (hw.2.2 a hmem).2
  have hcomp : (a.args.filterMap fun g => completeArg g.name g.direction (g.related.map stripWs)).map (fun t => (t.1, t.2.1))
      = a.args.map fun g => (g.name.getD [], g.direction.getD []) := by
    have : ∀ l : List ArgSpec, (∀ g ∈ l, (g.name.isSome = true ∧ g.direction.isSome = true) ∧ g.related.isSome = true) →
        (l.filterMap fun g => completeArg g.name g.direction (g.related.map stripWs)).map (fun t => (t.1, t.2.1))
          = l.map fun g => (g.name.getD [], g.direction.getD []) := by
      intro l
      induction l with
      | nil => intro _; rfl
      | cons g r ih =>
        intro hl
        obtain ⟨⟨hn, hdd⟩, hr⟩ := hl g (by simp)
        obtain ⟨n, hn'⟩ := Option.isSome_iff_exists.mp hn
        obtain ⟨d, hd'⟩ := Option.isSome_iff_exists.mp hdd
        obtain ⟨x, hx'⟩ := Option.isSome_iff_exists.mp hr
        have ihr := ih (fun y hy => hl y (by simp [hy]))
        have hc : completeArg g.name g.direction (g.related.map stripWs) = some (n, d, stripWs x) := by
          simp [completeArg, hn', hd', hx']
        rw [List.filterMap_cons, hc]
        simp only [List.map_cons, hn', hd', Option.getD_some]
        rw [ihr]
    apply this
    intro g hg
    have := hall g hg
    refine ⟨this.1, ?_⟩
    cases hrel : g.related with
    | none => rw [hrel] at this; simp at this
    | some r => rfl
  rw [hcomp]
  exact distinctPairs_nodup _ hd

/-- **Lookup by name / id finds every object.** With distinct variable names, action names and
    service ids (what `wf` asks), `state_variable(v.name)`, `action(a.name)` and `service_id(s.id)` return
    exactly `v`, `a`, `s`, and the keys of the name-keyed dicts are the names in document order. -/
theorem lookups_find_everything (depth : Nat) (info : List (Option Str)) (url : Str) (icons : List IconM)
    (svcs : List (SvcM F)) (emb : List (DevM F)) (hid : (svcs.map (·.serviceId)).Nodup) :
    (rowOf depth info url icons svcs emb).svcById = (List.range svcs.length).map some
    ∧ ∀ s ∈ svcs, ((s.vars.map (·.name)).Nodup → (lookOf s).varByName = (List.range s.vars.length).map some)
        ∧ ((s.actions.map (·.name)).Nodup → (lookOf s).actByName = (List.range s.actions.length).map some)
        ∧ (lookOf s).varKeys = s.vars.map (·.name) ∧ (lookOf s).actKeys = s.actions.map (·.name) := by
  refine ⟨?_, fun s _ => ⟨fun h => ?_, fun h => ?_, rfl, rfl⟩⟩
  · have := findIdx_self (fun x : SvcM F => x.serviceId) svcs [] (by simpa using hid)
    simpa [rowOf, List.range_eq_range'] using this
  · have := findIdx_self (fun x : VarM F => x.name) s.vars [] (by simpa using h)
    simpa [lookOf, List.range_eq_range'] using this
  · have := findIdx_self (fun x : ActM => x.name) s.actions [] (by simpa using h)
    simpa [lookOf, List.range_eq_range'] using this

/-- **Metadata, declaratively.** For a variable of a supported type the created state variable carries:
    the stripped `<name>`, the `<dataType>` text, the evented flag `sendEventsOf`, and as `min_value` /
    `max_value` / `allowed_values` / `default_value` the type's own converter (`coercePython`, whose meaning is
    C08's) applied to the text of `<minimum>` / `<maximum>` / every `<allowedValue>` (an empty one is `""`
    for the string types and skipped otherwise) / `<defaultValue>` — each element feeding its own field. -/
theorem mirrorVar_meta (nonStrict : Bool) (v : VarSpec) (dt : Str) (row : TypeRow) (m : VarM F)
    (hdt : v.dataType = some dt) (hrow : table.row? dt = some row) (h : mirrorVar fo table nonStrict v = .ok m) :
    m.name = stripWs (v.name.getD []) ∧ m.dataType = dt ∧ m.sendEvents = sendEventsOf v
    ∧ m.min = R.ofExcept (optM (coercePython fo table row) (v.range.bind (·.1)))
    ∧ m.max = R.ofExcept (optM (coercePython fo table row) (v.range.bind (·.2.1)))
    ∧ m.allowed = R.ofExcept (mapM' (coercePython fo table row)
        ((v.allowed.map fun l => allowedTexts (row.ty == .str) (l.map fun s => if s.isEmpty then none else some s)).getD []))
    ∧ m.default = R.ofExcept (optM (coercePython fo table row) v.default) := by
  unfold mirrorVar at h
  rw [hdt] at h
  obtain ⟨h1, h2, h3, h4, h5, h6, h7⟩ := varOf_fields fo table nonStrict _ _ _ _ dt row _ _ m hrow h
  refine ⟨h1, h2, ?_, ?_, ?_, ?_, h7⟩
  · rw [h3]; unfold sendEventsOf eventedOf; cases v.seAttr <;> cases v.seElem <;> rfl
  · rw [h4]; cases v.range <;> rfl
  · rw [h5]; cases v.range <;> rfl
  · rw [h6]; cases v.allowed <;> rfl

/-- **se_link.** the evented flag of every created variable is `sendEventsOf` of its description (so
    `send_events_spec` speaks about the created object model) -/
theorem se_link (nonStrict : Bool) (v : VarSpec) (m : VarM F) (h : mirrorVar fo table nonStrict v = .ok m) :
    m.sendEvents = sendEventsOf v := by
  unfold mirrorVar varOf at h
  cases hdt : v.dataType with
  | none => simp [hdt] at h
  | some dt =>
    rw [hdt] at h
    simp only at h
    cases hrow : table.row? dt with
    | none => simp [hrow] at h
    | some row =>
      have h' : mirrorVar fo table nonStrict v = .ok m := by
        unfold mirrorVar varOf; rw [hdt]; exact h
      exact (mirrorVar_meta fo nonStrict v dt row m hdt hrow h').2.2.1

/-- under `wf` the declared minimum of a typed variable is read as the value its text denotes -/
theorem mirrorVar_min_value (nonStrict : Bool) (v : VarSpec) (dt : Str) (row : TypeRow) (m : VarM F) (s : Str)
    (hdt : v.dataType = some dt) (hrow : table.row? dt = some row) (hw : VarSpec.wf fo table v = true)
    (hmin : v.range.bind (·.1) = some s) (h : mirrorVar fo table nonStrict v = .ok m) :
    ∃ x, coercePython fo table row s = .ok x ∧ m.min = .ok (some x) := by
  have hm := (mirrorVar_meta fo nonStrict v dt row m hdt hrow h).2.2.2.1
  unfold VarSpec.wf at hw
  rw [hdt] at hw
  simp only [hrow, Bool.and_eq_true] at hw
  obtain ⟨⟨⟨⟨⟨_, hden⟩, _⟩, _⟩, _⟩, _⟩ := hw
  have hd : isOk (coercePython fo table row s) = true := by
    cases hr : v.range with
    | none => rw [hr] at hmin; cases hmin
    | some r =>
      obtain ⟨a, b, c⟩ := r
      rw [hr] at hmin hden
      simp only [Option.bind_some] at hmin
      subst hmin
      simp only [Bool.and_eq_true] at hden
      exact hden.2.1
  cases hc : coercePython fo table row s with
  | error e => rw [hc] at hd; cases hd
  | ok x => exact ⟨x, rfl, by rw [hm, hmin]; simp [optM, hc, R.ofExcept]⟩

/-- **`urljoin` laws.** An empty reference is the base; a reference whose scheme (the text before its first
    `:`, if that is a scheme name) differs from the base's is returned unchanged. (The rest of the
    resolution is modelled and compared with the code on every URL of every case; see `urljoin_samples`.) -/
theorem urljoin_laws (base ref : Str) (b : Url) (hb : parseAbs base = some b) :
    urljoin base [] = some base
    ∧ (∀ sch rest, ref ≠ [] → okChars ref = true → splitScheme ref = some (sch, rest) → sch ≠ b.scheme →
        urljoin base ref = some ref) := by
  refine ⟨by simp [urljoin], ?_⟩
  intro sch rest hne hok hs hdiff
  unfold urljoin
  have h1 : ref.isEmpty = false := by cases ref <;> simp_all
  have h2 : (sch == b.scheme) = false := by simpa using hdiff
  simp [h1, hb, hok, hs, h2]

/-- the table of (description URL, reference, result) below: results computed by CPython 3.12 `urljoin` -/
def urlSamples : List (Str × Str × Str) := [
   (['h','t','t','p',':','/','/','1','0','.','0','.','0','.','1','/','a','/','b','/','d','e','s','c','.','x','m','l','?','x','=','1'], ['/','c','t','l'], ['h','t','t','p',':','/','/','1','0','.','0','.','0','.','1','/','c','t','l']),
   (['h','t','t','p',':','/','/','1','0','.','0','.','0','.','1','/','a','/','b','/','d','e','s','c','.','x','m','l','?','x','=','1'], ['c','t','l','/','1'], ['h','t','t','p',':','/','/','1','0','.','0','.','0','.','1','/','a','/','b','/','c','t','l','/','1']),
   (['h','t','t','p',':','/','/','1','0','.','0','.','0','.','1','/','a','/','b','/','d','e','s','c','.','x','m','l','?','x','=','1'], ['.','.','/','e','v','t'], ['h','t','t','p',':','/','/','1','0','.','0','.','0','.','1','/','a','/','e','v','t']),
   (['h','t','t','p',':','/','/','1','0','.','0','.','0','.','1','/','a','/','b','/','d','e','s','c','.','x','m','l','?','x','=','1'], ['.','/','s','.','x','m','l'], ['h','t','t','p',':','/','/','1','0','.','0','.','0','.','1','/','a','/','b','/','s','.','x','m','l']),
   (['h','t','t','p',':','/','/','1','0','.','0','.','0','.','1','/','a','/','b','/','d','e','s','c','.','x','m','l','?','x','=','1'], ['.','.','/','.','.','/','x','/','.','/','s','/','.','.','/','s','2'], ['h','t','t','p',':','/','/','1','0','.','0','.','0','.','1','/','x','/','s','2']),
   (['h','t','t','p',':','/','/','1','0','.','0','.','0','.','1','/','a','/','b','/','d','e','s','c','.','x','m','l','?','x','=','1'], ['h','t','t','p',':','/','/','o','t','h','e','r',':','9','9','/','x'], ['h','t','t','p',':','/','/','o','t','h','e','r',':','9','9','/','x']),
   (['h','t','t','p',':','/','/','1','0','.','0','.','0','.','1','/','a','/','b','/','d','e','s','c','.','x','m','l','?','x','=','1'], ['/','/','n','l','.','e','x','a','m','p','l','e','/','p','?','q','=','1'], ['h','t','t','p',':','/','/','n','l','.','e','x','a','m','p','l','e','/','p','?','q','=','1']),
   (['h','t','t','p',':','/','/','1','0','.','0','.','0','.','1','/','a','/','b','/','d','e','s','c','.','x','m','l','?','x','=','1'], ['?','q','=','2'], ['h','t','t','p',':','/','/','1','0','.','0','.','0','.','1','/','a','/','b','/','d','e','s','c','.','x','m','l','?','q','=','2']),
   (['h','t','t','p',':','/','/','1','0','.','0','.','0','.','1','/','a','/','b','/','d','e','s','c','.','x','m','l','?','x','=','1'], ['h','t','t','p','d','/','i','.','j','p','g'], ['h','t','t','p',':','/','/','1','0','.','0','.','0','.','1','/','a','/','b','/','h','t','t','p','d','/','i','.','j','p','g']),
   (['h','t','t','p',':','/','/','1','0','.','0','.','0','.','1','/','a','/','b','/','d','e','s','c','.','x','m','l','?','x','=','1'], ['h','t','t','p'], ['h','t','t','p',':','/','/','1','0','.','0','.','0','.','1','/','a','/','b','/','h','t','t','p']),
   (['h','t','t','p',':','/','/','1','0','.','0','.','0','.','1','/','a','/','b','/','d','e','s','c','.','x','m','l','?','x','=','1'], ['x',':','y','/','z'], ['x',':','y','/','z']),
   (['h','t','t','p',':','/','/','1','0','.','0','.','0','.','1','/','a','/','b','/','d','e','s','c','.','x','m','l','?','x','=','1'], ['a','/','b',':','c'], ['h','t','t','p',':','/','/','1','0','.','0','.','0','.','1','/','a','/','b','/','a','/','b',':','c']),
   (['h','t','t','p',':','/','/','1','0','.','0','.','0','.','1','/','a','/','b','/','d','e','s','c','.','x','m','l','?','x','=','1'], ['H','T','T','P',':','/','/','U','p','.','e','x','/','x'], ['h','t','t','p',':','/','/','U','p','.','e','x','/','x']),
   (['h','t','t','p',':','/','/','1','0','.','0','.','0','.','1','/','a','/','b','/','d','e','s','c','.','x','m','l','?','x','=','1'], ['h','t','t','p',':','r','e','l','/','x'], ['h','t','t','p',':','/','/','1','0','.','0','.','0','.','1','/','a','/','b','/','r','e','l','/','x']),
   (['h','t','t','p',':','/','/','1','0','.','0','.','0','.','1','/','a','/','b','/','d','e','s','c','.','x','m','l','?','x','=','1'], ['h','t','t','p','s',':','r','e','l'], ['h','t','t','p','s',':','r','e','l']),
   (['h','t','t','p',':','/','/','1','0','.','0','.','0','.','1','/','a','/','b','/','d','e','s','c','.','x','m','l','?','x','=','1'], ['h','o','s','t',':','8','0','8','0','/','p'], ['h','o','s','t',':','8','0','8','0','/','p']),
   (['h','t','t','p',':','/','/','1','0','.','0','.','0','.','1','/','a','/','b','/','d','e','s','c','.','x','m','l','?','x','=','1'], ['a','/','.','.','/','b','/','.','.','/','.','.','/','c'], ['h','t','t','p',':','/','/','1','0','.','0','.','0','.','1','/','a','/','c']),
   (['h','t','t','p',':','/','/','1','0','.','0','.','0','.','1','/','a','/','b','/','d','e','s','c','.','x','m','l','?','x','=','1'], ['/','d','/'], ['h','t','t','p',':','/','/','1','0','.','0','.','0','.','1','/','d','/']),
   (['h','t','t','p','s',':','/','/','d','e','v','.','e','x','a','m','p','l','e','/','u','p','n','p','/','d','e','s','c'], ['/','c','t','l'], ['h','t','t','p','s',':','/','/','d','e','v','.','e','x','a','m','p','l','e','/','c','t','l']),
   (['h','t','t','p','s',':','/','/','d','e','v','.','e','x','a','m','p','l','e','/','u','p','n','p','/','d','e','s','c'], ['.','.','/','e','v','t'], ['h','t','t','p','s',':','/','/','d','e','v','.','e','x','a','m','p','l','e','/','e','v','t']),
   (['h','t','t','p','s',':','/','/','d','e','v','.','e','x','a','m','p','l','e','/','u','p','n','p','/','d','e','s','c'], ['.','.','/','.','.','/','x','/','.','/','s','/','.','.','/','s','2'], ['h','t','t','p','s',':','/','/','d','e','v','.','e','x','a','m','p','l','e','/','x','/','s','2']),
   (['h','t','t','p','s',':','/','/','d','e','v','.','e','x','a','m','p','l','e','/','u','p','n','p','/','d','e','s','c'], ['/','/','n','l','.','e','x','a','m','p','l','e','/','p','?','q','=','1'], ['h','t','t','p','s',':','/','/','n','l','.','e','x','a','m','p','l','e','/','p','?','q','=','1']),
   (['h','t','t','p','s',':','/','/','d','e','v','.','e','x','a','m','p','l','e','/','u','p','n','p','/','d','e','s','c'], ['h','t','t','p','d','/','i','.','j','p','g'], ['h','t','t','p','s',':','/','/','d','e','v','.','e','x','a','m','p','l','e','/','u','p','n','p','/','h','t','t','p','d','/','i','.','j','p','g']),
   (['h','t','t','p','s',':','/','/','d','e','v','.','e','x','a','m','p','l','e','/','u','p','n','p','/','d','e','s','c'], ['x',':','y','/','z'], ['x',':','y','/','z']),
   (['h','t','t','p','s',':','/','/','d','e','v','.','e','x','a','m','p','l','e','/','u','p','n','p','/','d','e','s','c'], ['H','T','T','P',':','/','/','U','p','.','e','x','/','x'], ['H','T','T','P',':','/','/','U','p','.','e','x','/','x']),
   (['h','t','t','p','s',':','/','/','d','e','v','.','e','x','a','m','p','l','e','/','u','p','n','p','/','d','e','s','c'], ['h','t','t','p','s',':','r','e','l'], ['h','t','t','p','s',':','/','/','d','e','v','.','e','x','a','m','p','l','e','/','u','p','n','p','/','r','e','l']),
   (['h','t','t','p','s',':','/','/','d','e','v','.','e','x','a','m','p','l','e','/','u','p','n','p','/','d','e','s','c'], ['a','/','.','.','/','b','/','.','.','/','.','.','/','c'], ['h','t','t','p','s',':','/','/','d','e','v','.','e','x','a','m','p','l','e','/','c']),
   (['h','t','t','p',':','/','/','h'], ['/','c','t','l'], ['h','t','t','p',':','/','/','h','/','c','t','l']),
   (['h','t','t','p',':','/','/','h'], ['.','/','s','.','x','m','l'], ['h','t','t','p',':','/','/','h','/','s','.','x','m','l']),
   (['h','t','t','p',':','/','/','h'], ['/','/','n','l','.','e','x','a','m','p','l','e','/','p','?','q','=','1'], ['h','t','t','p',':','/','/','n','l','.','e','x','a','m','p','l','e','/','p','?','q','=','1']),
   (['h','t','t','p',':','/','/','h'], ['h','t','t','p'], ['h','t','t','p',':','/','/','h','/','h','t','t','p']),
   (['h','t','t','p',':','/','/','h'], ['H','T','T','P',':','/','/','U','p','.','e','x','/','x'], ['h','t','t','p',':','/','/','U','p','.','e','x','/','x']),
   (['h','t','t','p',':','/','/','h'], ['h','o','s','t',':','8','0','8','0','/','p'], ['h','o','s','t',':','8','0','8','0','/','p'])
  ]

/-- **`urljoin` pinned on samples.** On these references (absolute-path, relative, dot segments beyond the
    root, absolute, network-path, query-only, scheme-looking prefixes, foreign / own / upper-case schemes, `:` inside
    a path) against three description URLs the model returns exactly what CPython's `urljoin` returns. -/
theorem urljoin_samples : urlSamples.all (fun t => urljoin t.1 t.2.1 == some t.2.2) = true := by decide

/-- **send_events_spec.** evented: the attribute wins over the element; only the literal `yes` is true -/
theorem send_events_spec (v : VarSpec) :
    sendEventsOf v = true ↔
      v.seAttr = some ['y','e','s'] ∨ (v.seAttr = none ∧ v.seElem = some ['y','e','s']) := by
  unfold sendEventsOf
  cases v.seAttr <;> cases v.seElem <;> simp

end

/-! ### non-vacuity -/

namespace Example
def fo : FloatOps Unit := ⟨fun _ => [], fun _ => none, fun _ _ => true, fun _ _ => true⟩
def base : Str := ['h','t','t','p',':','/','/','1','0','.','0','.','0','.','1','/','a','/','d','e','s','c','.','x','m','l']
def good : ScpdSpec :=
  { vars := some [
      { name := some ['V','o','l','u','m','e'], dataType := some ['u','i','2'], seAttr := some ['y','e','s'],
        default := some ['5'], range := some (some ['0'], some ['1','0','0'], some ['1']) },
      { name := some ['S','i','n','c','e'], dataType := some ['d','a','t','e','T','i','m','e','.','t','z'], seElem := some ['y','e','s'],
        default := some ['2','0','2','4','-','0','2','-','2','9','T','1','2',':','0','0',':','0','0','+','0','1',':','0','0'] },
      { name := some [' ','M','o','d','e',' '], dataType := some ['s','t','r','i','n','g'], seAttr := some ['n','o'],
        allowed := some [['P','L','A','Y'], ['S','T','O','P']] }],
    actions := some [
      { name := some ['S','e','t'], args := [
          { name := some ['m'], direction := some ['i','n'], related := some ['M','o','d','e'] },
          { name := some ['v'], direction := some ['o','u','t'], related := some ['V','o','l','u','m','e'] }] }] }
def svc (n : Char) (doc : DocSpec) : ServiceSpec :=
  { serviceId := some [n], serviceType := some ['t', n], controlURL := some ['/', 'c', n], eventSubURL := some ['.', '.', '/', 'e', n],
    scpdURL := some ['s', n, '.', 'x', 'm', 'l'], doc := doc }
def info (n : Char) : List (Option Str) :=
  [some ['d', n], some ['n'], none, none, none, some [], none, none, none, some ['u', n], none, none]
def dev : DeviceSpec :=
  .mk (info '0') [{ width := some ['4','8'], url := some ['/','i','c','o','n','.','p','n','g'] }]
    [svc '1' (.scpd good), svc '2' (.foreign (.other []) (.other []))]
    [.mk (info '1') [] [svc '3' (.scpd { vars := none, actions := good.actions }), svc '4' .unparsable] []]
/-- two services of one type (ids `1`, `2`) and two embedded siblings of one type (UDNs `u1`, `u2`) -/
def twins : DeviceSpec :=
  .mk (info '0') []
    [{ svc '1' (.scpd good) with serviceType := some ['t'] }, { svc '2' (.scpd good) with serviceType := some ['t'] }]
    [.mk (some ['e'] :: (info '1').tail) [] [] [], .mk (some ['e'] :: (info '2').tail) [] [] []]
end Example

open Example in
/-- a well-formed description with an embedded device, a complete service and three corrupted ones:
    strict creation is refused with the XML content error, non-strict creation succeeds with the two
    devices and four services, the corrupted services empty, the complete one mirrored (argument `m`
    bound to the variable named `Mode`, evented flag from the attribute, default read as a value) -/
example :
    dev.wf fo table base = true ∧ urlsOk base dev = true ∧ dev.depth = 2 ∧
    (match mirror fo table false base dev with | .error .xmlContent => true | _ => false) = true ∧
    (match mirror fo table true base dev with
     | .ok m =>
        (flatten 0 m).map (fun r => (r.depth, r.services.map fun s => (s.controlUrl, s.vars.length, s.actions.length)))
          == [(0, [(some ['h','t','t','p',':','/','/','1','0','.','0','.','0','.','1','/','c','1'], 3, 1), (some ['h','t','t','p',':','/','/','1','0','.','0','.','0','.','1','/','c','2'], 0, 0)]),
              (1, [(some ['h','t','t','p',':','/','/','1','0','.','0','.','0','.','1','/','c','3'], 0, 0), (some ['h','t','t','p',':','/','/','1','0','.','0','.','0','.','1','/','c','4'], 0, 0)])]
        && ((flatten 0 m).head?.map fun r => r.services.head?.map fun s =>
              (s.eventSubUrl, s.vars.map (fun v => (v.name, v.sendEvents, v.default)), s.actions.map (·.args)))
          == some (some (some ['h','t','t','p',':','/','/','1','0','.','0','.','0','.','1','/','e','1'],
              [(['V','o','l','u','m','e'], true, .ok (some (.int 5))),
               (['S','i','n','c','e'], true, .ok (some (.datetime ⟨2024, 2, 29⟩ ⟨12, 0, 0⟩ (some 60)))),
               (['M','o','d','e'], false, .ok none)],
              [[⟨['m'], ['i','n'], ['M','o','d','e'], ['s','t','r','i','n','g']⟩, ⟨['v'], ['o','u','t'], ['V','o','l','u','m','e'], ['u','i','2']⟩]]))
     | .error _ => false) = true := by
  refine ⟨by decide, by decide, by decide, by decide, by decide⟩

open Example in
/-- `factory_mirror` instantiated: for the example description the factory model, run on the rendered
    trees through `serve`, returns `mirror` in both modes -/
example (nonStrict : Bool) :
    asyncCreateDevice fo table (serve base dev) nonStrict base 2 = mirror fo table nonStrict base dev :=
  factory_mirror fo dev base nonStrict 2 (by decide) (by decide) (by decide)

open Example in
/-- repeated types are inside the domain: the description with twin services and twin embedded
    devices is well-formed and its mirror has all three devices and both services -/
example :
    twins.wf fo table base = true ∧ urlsOk base twins = true ∧
    (match mirror fo table false base twins with
     | .ok m => (flatten 0 m).map (fun r => (r.depth, (r.info.getD 9 none), r.services.map (·.serviceId)))
          == [(0, some ['u','0'], [['1'], ['2']]), (1, some ['u','1'], []), (1, some ['u','2'], [])]
     | .error _ => false) = true := by
  refine ⟨by decide, by decide, by decide⟩

end Upnp.C05
