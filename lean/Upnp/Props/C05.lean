/-
  C05 — description documents produce a faithful device model (property theorems).
-/
import Upnp.Gen.C08Types
import Upnp.Spec.C05
namespace Upnp.C05
open Upnp Upnp.C08

/-- evented: the attribute wins over the element; only the literal `yes` is true -/
theorem send_events_spec (v : VarSpec) :
    sendEventsOf v = true ↔
      v.seAttr = some ['y','e','s'] ∨ (v.seAttr = none ∧ v.seElem = some ['y','e','s']) := by
  unfold sendEventsOf
  cases v.seAttr <;> cases v.seElem <;> simp

end Upnp.C05
