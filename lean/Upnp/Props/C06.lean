/-
  C06 — SOAP requests say exactly what the caller asked.

  Property theorems only (lemmas: `Upnp/Lemmas/C06*.lean`).  The model
  (`Upnp/Model/C06Val.lean`, `C06Xml.lean`, `C06Soap.lean`) transcribes
  `UpnpAction.create_request / _format_request_args / validate_arguments`, the validation schema
  built by `client_factory._state_variable_create_schema`, and `xml.sax.saxutils.escape`;
  `asyncCallSend` is the function the correspondence driver runs, `C06.ok` (`Upnp/Spec/C06.lean`)
  is the judge the driver evaluates on the implementation's requests.  The type table, the entity
  table handed to `escape` and the exception hierarchy are `Gen.C06Types.*`, regenerated from the
  source on every run.

  Full-strength statement (property text): for EVERY action and assignment accepted by the
  declared types/ranges/lists the request is a POST to the resolved control URL with the stated
  headers and a well-formed envelope whose body holds one `{serviceType}action` element containing
  each in-argument once, in order, whose text decodes to the supplied value; every other assignment
  is refused with the library's error before anything is sent.
  Proved: exactly that, for the model, for all actions / assignments / strictness modes
  (`c06_model_ok`), where "well-formed … holds …" is "`readEnvelope` (an exact left inverse of the
  renderer, `body_reads_back`) yields that tree" and character data is decoded by `xmlDecodeText`
  (XML 1.0 end-of-line normalisation + references).  What a real XML parser makes of the text is
  compared with `readEnvelope` on every generated call, not proved (DESIGN §4.6).
-/
import Upnp.Lemmas.C06Main
import Upnp.Lemmas.C06Url
import Upnp.Gen.C06Types
import Upnp.Model.C06Anc
namespace Upnp.C06
open Upnp.Gen

/-! ### the generated tables are the ones the proofs are about -/

/-- the entity table `_format_request_args` hands to `escape` sends CR as a character reference -/
theorem escape_table_pin : C06Types.escapeExtra = crTable := by decide

/-- the type table is C08's generated table (`Gen.C08Types`): every one of its 26 rows has one of
    the coercer shapes C08 proves to round-trip (`C08.rows_good`), and its regex / strptime table and
    tz guard are the ones C08's proofs are about (`C08.table_good`) — re-exported so that a change of
    `const.py` / `utils.py` breaks an obligation of C06 too -/
theorem type_table_sound :
    (∀ row ∈ C08Types.rows, Upnp.C08.goodRow row = true) ∧ Upnp.C08.GoodTable C08Types.table :=
  ⟨Upnp.C08.rows_good, Upnp.C08.table_good⟩

/-- `create_request` writes the service type into `xmlns:u=` through `quoteattr` -/
theorem ns_attr_pin : C06Types.nsAttrQuoted = true := by decide

/-- the refusals are the library's error: both classes descend from `UpnpError` -/
theorem exc_hierarchy_pin :
    (genAnc "UpnpError").contains "UpnpError" = true
    ∧ (genAnc "UpnpValueError").contains "UpnpError" = true := by decide

/-! ### text level -/

/-- escaping loses nothing: an XML 1.0 parser (end-of-line normalisation, then references) reads
    back exactly the supplied text — for every string, including CR, CR LF, `<`, `>`, `&`, `]]>` -/
theorem escape_lossless (s : Str) : xmlDecodeText (escape C06Types.escapeExtra s) = some s := by
  rw [escape_table_pin]; exact decode_escape s

/-- the envelope the client emits reads back as exactly what it was built from, for EVERY service
    type (any characters: it is quoted by `quoteattr`, whose result `xmlDecodeAttr` inverts) and
    every action / argument name in the XML-name domain -/
theorem body_reads_back (name st : Str) (args : List (Str × Str))
    (hn : xmlNameOk name = true) (ha : ∀ p ∈ args, xmlNameOk p.1 = true) :
    readEnvelope (renderBody C06Types.escapeExtra C06Types.nsAttrQuoted name st args)
      = some { action := name, ns := st, args := args } := by
  rw [escape_table_pin, ns_attr_pin]
  exact readEnvelope_render name st args (xmlNameOk_nameOk name hn).2 (fun p hp => (xmlNameOk_nameOk p.1 (ha p hp)).1)

/-- `quoteattr` is lossless: the receiver's attribute-value decoding returns the service type -/
theorem ns_attr_lossless (st : Str) :
    ∃ (q : Char) (v : Str), (q = '"' ∨ q = '\'') ∧ quoteattr st = q :: v ++ [q] ∧ q ∉ v
      ∧ xmlDecodeAttr v = some st := quoteattr_spec st

/-- **All 26 types.**  For every row of the generated type table and every in-domain value of the
    row's class (C08's `rtDomain`), `coerce_upnp` renders the prescribed wire text (`C08.wire`), that
    text survives escaping (`escape_lossless`), and the declared `in` coercion decodes it back to the
    supplied value (for a `bool` under an integer type: to the integer equal to it).  No float /
    date-time hypotheses any more: C08's `roundtrip_all_types` discharges them; the one assumption
    left is C08's `RoundTrips` (`float(repr(x)) == x`). -/
theorem arg_text_decodes (O : Oracles) (hf : Upnp.C08.FloatOps.RoundTrips O) (row : TypeRow)
    (hrow : row ∈ C08Types.rows) (v : PyVal) (hv : Upnp.C08.rtDomain row.ty v = true) :
    coerceUpnp O row v = .ok (Upnp.C08.wire O v)
      ∧ xmlDecodeText (escape C06Types.escapeExtra (Upnp.C08.wire O v)) = some (Upnp.C08.wire O v)
      ∧ coercePython O row (Upnp.C08.wire O v) = .ok (Upnp.C08.expectBack row.ty v)
      ∧ decodesTo O row (Upnp.C08.wire O v) v = true := by
  obtain ⟨h1, h2⟩ := Upnp.C08.roundtrip_all_types O hf row hrow v hv
  refine ⟨h1, escape_lossless _, h2, ?_⟩
  unfold decodesTo
  show (match Upnp.C08.coercePython O C08Types.table row (Upnp.C08.wire O v) with
        | .ok w => w == Upnp.C08.expectBack row.ty v | .error _ => false) = true
  rw [h2]; simp

/-- the same on the widened domain `inDom` (C08's `rtDomain`, plus a `datetime` given for a `date`
    argument): rendered, and the rendered text decodes to the supplied value -/
theorem arg_text_decodes_inDom (O : Oracles) (hf : Upnp.C08.FloatOps.RoundTrips O) (row : TypeRow)
    (hrow : row ∈ C08Types.rows) (v : PyVal) (hv : inDom row.ty v = true) :
    ∃ t, coerceUpnp O row v = .ok t
      ∧ xmlDecodeText (escape C06Types.escapeExtra t) = some t
      ∧ decodesTo O row t v = true := by
  obtain ⟨t, h1, h2⟩ := roundtrip_inDom O hf row hrow v hv
  exact ⟨t, h1, escape_lossless t, h2⟩

/-! ### URL -/

/-- a control URL written as an absolute path is resolved to the device URL's scheme and authority
    followed by that path, and the `Host` header the model sends (netloc of the resolved URL) is the
    device URL's authority — for every device URL with a scheme and every plain absolute path -/
theorem control_url_abs_path (base sch r : Str) (hb : schemeOf base = some (sch, r))
    (hlow : lowerScheme sch = true)
    (c : Char) (t : Str) (hc : c ≠ '/') (hp : plainPath ('/' :: c :: t) = true) :
    urljoin base ('/' :: c :: t) = some (sch ++ "://".toList ++ netloc base ++ '/' :: c :: t)
    ∧ netloc (sch ++ "://".toList ++ netloc base ++ '/' :: c :: t) = netloc base :=
  urljoin_abs_path base sch r _ hb hlow c t rfl hc hp

/-- an absolute control URL (`scheme://…`, lower-case scheme) is used as it is -/
theorem control_url_absolute (base ref bs br rs rr : Str) (hb : schemeOf base = some (bs, br))
    (hbl : lowerScheme bs = true) (hr : schemeOf ref = some (rs, rr)) (hrl : lowerScheme rs = true) :
    urljoin base ref = some ref := by
  unfold urljoin
  have hne : ref.isEmpty = false := by
    cases ref with
    | nil => simp [schemeOf] at hr
    | cons _ _ => rfl
  simp [hb, hbl, hne, hr, hrl]

/-- what the URL model does NOT claim: a reference that `urlsplit` would take for an absolute URL of
    another scheme (`x:y`, `c:d/e`) and an upper-case scheme are outside the modelled grammar (`none`:
    nothing is proved or judged about the URL there) — Python returns such a reference unchanged and
    lower-cases the scheme, which this model does not reproduce -/
theorem url_model_limits :
    urljoin "http://h:80/a/b".toList "x:y".toList = none
    ∧ urljoin "http://h:80/a/b".toList "c:d/e".toList = none
    ∧ urljoin "HTTP://h:80/x".toList "/ctl".toList = none
    ∧ urljoin "http://h:80/a/b".toList "sub/c:d".toList = some "http://h:80/a/sub/c:d".toList := by
  refine ⟨?_, ?_, ?_, ?_⟩ <;> decide +kernel

/-! ### validation -/

/-- "accepted" is C08's `accept_iff`: the factory-built schema passes a value iff it is of the
    declared class, aware where the type demands it, a member of the allowed list and within the
    declared bounds — where list and bounds are what the declaration's texts denote -/
theorem accepts_iff (O : Oracles) (strict : Bool) (d : VarDecl) (v : PyVal) (sc : Upnp.C08.Schema Fl)
    (h : schemaOf O strict d = some sc) :
    accepts O strict d v = some true ↔
      (v.isInstance d.row.ty = true
      ∧ (d.row.requireTz = true → v.hasTz = some true)
      ∧ (∀ l, sc.allowed = some l → ∃ a ∈ l, Upnp.C08.pyEq O v a = true)
      ∧ (∀ m, sc.min = some m → Upnp.C08.pyLe O m v = some true)
      ∧ (∀ m, sc.max = some m → Upnp.C08.pyLe O v m = some true)) := by
  unfold accepts
  rw [h]
  simp only [Option.map_some, Option.some.injEq]
  exact Upnp.C08.accept_iff O d.row.ty d.row.requireTz { min := sc.min, max := sc.max, allowed := sc.allowed } v

/-- **Acceptance from the declared TEXTS** (independent of what the schema builder computes): for
    every row of the generated table and a strict-mode declaration whose minimum, maximum and
    allowed values are written as the wire forms of in-domain values `lo`, `hi`, `a0 :: al`, a value
    is accepted iff it has the declared class (`bool ⊑ int`, `datetime ⊑ date`), is aware where the
    type demands it, equals (Python `==`) one of the allowed values and lies within `lo … hi`
    (Python `<=`) — C08's `wire_declaration_denotes` + `mkSchema_denotes` + `accept_iff`. -/
theorem accepts_declared (O : Oracles) (hf : Upnp.C08.FloatOps.RoundTrips O) (row : TypeRow)
    (hrow : row ∈ C08Types.rows) (lo hi : PyVal) (al : List PyVal) (a0 v : PyVal)
    (hlo : Upnp.C08.rtDomain row.ty lo = true) (hhi : Upnp.C08.rtDomain row.ty hi = true)
    (hlo' : Upnp.C08.wire O lo ≠ []) (hhi' : Upnp.C08.wire O hi ≠ [])
    (hal : ∀ x ∈ a0 :: al, Upnp.C08.rtDomain row.ty x = true) :
    accepts O true { row := row, decl := { range := some (some (Upnp.C08.wire O lo), some (Upnp.C08.wire O hi)),
                                           allowed := some ((a0 :: al).map (Upnp.C08.wire O)), default := none } } v
        = some true
    ↔ (v.isInstance row.ty = true
      ∧ (row.requireTz = true → v.hasTz = some true)
      ∧ (∃ a ∈ a0 :: al, Upnp.C08.pyEq O v (Upnp.C08.expectBack row.ty a) = true)
      ∧ Upnp.C08.pyLe O (Upnp.C08.expectBack row.ty lo) v = some true
      ∧ Upnp.C08.pyLe O v (Upnp.C08.expectBack row.ty hi) = some true) := by
  have hd := Upnp.C08.wire_declaration_denotes O hf row hrow lo hi al a0 hlo hhi hlo' hhi' hal
  have hm := Upnp.C08.mkSchema_denotes O C08Types.table row _ _ hd rfl
  unfold accepts schemaOf
  show (match Upnp.C08.mkSchema O C08Types.table row true _ with | .ok sc => some sc | .error _ => none).map _ = some true ↔ _
  rw [hm]
  simp only [Option.map_some, Option.some.injEq]
  rw [Upnp.C08.accept_iff]
  constructor
  · rintro ⟨h1, h2, h3, h4, h5⟩
    obtain ⟨a, ha, hae⟩ := h3 _ rfl
    obtain ⟨x, hx, rfl⟩ := List.mem_map.mp ha
    exact ⟨h1, h2, ⟨x, hx, hae⟩, h4 _ rfl, h5 _ rfl⟩
  · rintro ⟨h1, h2, ⟨x, hx, hxe⟩, h4, h5⟩
    refine ⟨h1, h2, ?_, ?_, ?_⟩
    · intro l hl; cases hl; exact ⟨_, List.mem_map.mpr ⟨x, hx, rfl⟩, hxe⟩
    · intro m hm'; cases hm'; exact h4
    · intro m hm'; cases hm'; exact h5

/-- the schema the factory builds (`C08.mkSchema` / `Schema.check`) decides exactly that predicate -/
theorem schema_is_accepts (O : Oracles) (strict : Bool) (d : VarDecl) (v : PyVal) :
    schemaOk O strict d v = accepts O strict d v := schemaOk_eq_accepts O strict d v

/-- an assignment that omits an in-argument or violates type / range / allowed list is refused
    with `UpnpError` / `UpnpValueError`, and nothing is sent -/
theorem refusal_before_send (O : Oracles) (extra : List (Char × Str)) (nsq : Bool) (a : ActionDecl) (kw : Kwargs)
    (hurl : (urljoin a.deviceUrl a.controlUrl).isSome = true)
    (h : allAccepted O a.strict a.inArgs kw = some false) :
    asyncCallSend O extra nsq a kw = ([], some .upnpError) ∨ asyncCallSend O extra nsq a kw = ([], some .upnpValueError) := by
  unfold asyncCallSend createRequest
  cases hu : urljoin a.deviceUrl a.controlUrl with
  | none => simp [hu] at hurl
  | some u =>
    rcases validate_refused O a.strict kw a.inArgs h with hv | hv
    · left; simp [hv]
    · right; simp [hv]

/-! ### the property -/

/-- **Main theorem.**  For every declared action, every caller assignment and both strictness
    modes, the model's observable behaviour satisfies the judge `C06.ok`: accepted ⇒ exactly one
    POST to the resolved control URL with `SOAPAction "type#action"`, `text/xml; charset="utf-8"`,
    `Host` = the URL's authority, and a body that reads back as one `{serviceType}action` element
    holding each in-argument exactly once, in declared order, whose text decodes to the supplied
    value; not accepted ⇒ a library error and nothing sent. -/
theorem c06_model_okCore (O : Oracles) (anc : String → List String) (a : ActionDecl) (kw : Kwargs)
    (hanc1 : (anc "UpnpError").contains "UpnpError" = true)
    (hanc2 : (anc "UpnpValueError").contains "UpnpError" = true)
    (H : Hyp O a kw) :
    okCore O a kw (modelObs anc (asyncCallSend O crTable true a kw)) = true := by
  unfold okCore
  cases hacc : allAccepted O a.strict a.inArgs kw with
  | none => rfl
  | some b =>
    cases hu : urljoin a.deviceUrl a.controlUrl with
    | none => have := H.url; simp [hu] at this
    | some u =>
      cases b with
      | false =>
        have h1 : "UpnpError" ∈ anc "UpnpError" := by simpa using hanc1
        have h2 : "UpnpError" ∈ anc "UpnpValueError" := by simpa using hanc2
        rcases refusal_before_send O crTable true a kw H.url hacc with h | h <;>
          simp [h, refusedOk, modelObs, excInfo, ExcInfo.isLibraryError, Exc.tok, h1, h2]
      | true =>
        obtain ⟨args, hc, hn, hok⟩ := coerceArgs_ok O H.floats a.strict kw a.inArgs hacc H.domain
        have hv := validate_accepted O a.strict kw a.inArgs hacc
        have hnames : ∀ p ∈ args, nameOk p.1 = true := by
          intro p hp
          have : p.1 ∈ args.map (·.1) := List.mem_map.mpr ⟨p, hp, rfl⟩
          rw [hn] at this
          obtain ⟨d, hd, hdn⟩ := List.mem_map.mp this
          rw [← hdn]; exact (xmlNameOk_nameOk _ (H.names d hd)).1
        have hsend : asyncCallSend O crTable true a kw =
            ([{ method := "POST".toList, url := u,
                headers := [("SOAPAction".toList, '"' :: a.serviceType ++ '#' :: a.name ++ ['"']),
                            ("Host".toList, netloc u),
                            ("Content-Type".toList, "text/xml; charset=\"utf-8\"".toList)],
                body := renderBody crTable true a.name a.serviceType args }], none) := by
          simp [asyncCallSend, createRequest, hu, hv, hc]
        rw [hsend]
        simp only [sentOk, modelObs, readEnvelope_render a.name a.serviceType args (xmlNameOk_nameOk _ H.action).2 hnames,
          Option.map_some, header_soapaction, header_host, header_ctype]
        have hct : contentTypeOk "text/xml; charset=\"utf-8\"".toList = true := by decide
        rw [hct, envelopeOk_tree O a kw args hok]
        simp [hu]

/-- the judge `C06.ok` only relaxes `okCore` (extras are not judged; a proper-subclass value may also be
    refused), so the model satisfies it as well -/
theorem c06_model_ok (O : Oracles) (anc : String → List String) (a : ActionDecl) (kw : Kwargs)
    (hanc1 : (anc "UpnpError").contains "UpnpError" = true)
    (hanc2 : (anc "UpnpValueError").contains "UpnpError" = true)
    (H : Hyp O a kw) :
    ok O a kw (modelObs anc (asyncCallSend O crTable true a kw)) = true := by
  unfold ok
  split
  · rfl
  · rw [c06_model_okCore O anc a kw hanc1 hanc2 H]; rfl

/-- the same, instantiated with the tables generated from the source -/
theorem c06_model_ok_gen (O : Oracles) (a : ActionDecl) (kw : Kwargs) (H : Hyp O a kw) :
    ok O a kw (modelObs genAnc
      (asyncCallSend O C06Types.escapeExtra C06Types.nsAttrQuoted a kw)) = true := by
  rw [escape_table_pin, ns_attr_pin]
  exact c06_model_ok O _ a kw exc_hierarchy_pin.1 exc_hierarchy_pin.2 H

/-! ### histories -/

/-- what can happen to one long-lived device / service / action object between and during calls -/
inductive HOp
  | call (kw : Kwargs)            -- `action.async_call(**kw)`
  | reinit (deviceUrl : Str)      -- `UpnpDevice.reinit(new_device)`: the description URL is replaced
  | mutate (what : String)        -- the caller mutates a list / dict the public accessors RETURNED

/-- The model of a history.  Request construction (`asyncCallSend`) is a **pure function of the
    current declaration — device description URL, service control URL, action, declared arguments —
    and the assignment**: it has no other input, so nothing of an earlier call (accepted or refused)
    can influence a later one, and a re-initialisation acts only through the declaration's
    `deviceUrl`.  Each entry: the declaration in force, the assignment, the observation. -/
def runHistory (O : Oracles) (anc : String → List String) (a : ActionDecl) :
    List HOp → List (ActionDecl × Kwargs × Obs)
  | [] => []
  | .call kw :: r => (a, kw, modelObs anc (asyncCallSend O crTable true a kw)) :: runHistory O anc a r
  | .reinit u :: r => runHistory O anc { a with deviceUrl := u } r
  -- `in_arguments()` / `out_arguments()` / `async_call` hand out fresh objects: whatever the caller does
  -- to them, the request stays a function of the action AS DECLARED
  | .mutate _ :: r => runHistory O anc a r

/-- **Every call of every history** satisfies the judge with the declaration in force at that call:
    an invalid assignment is refused before anything is sent *every time* it is tried, a valid one
    after any number of refusals is sent in full, and after a re-initialisation the request goes to
    the control URL resolved against the NEW description URL with the matching `Host`. -/
theorem c06_history_ok (O : Oracles) (anc : String → List String)
    (hanc1 : (anc "UpnpError").contains "UpnpError" = true)
    (hanc2 : (anc "UpnpValueError").contains "UpnpError" = true) (ops : List HOp) :
    ∀ (a : ActionDecl), ∀ e ∈ runHistory O anc a ops, Hyp O e.1 e.2.1 → ok O e.1 e.2.1 e.2.2 = true := by
  induction ops with
  | nil => intro a e he; simp [runHistory] at he
  | cons op r ih =>
    intro a e he
    cases op with
    | call kw =>
      simp only [runHistory, List.mem_cons] at he
      rcases he with rfl | he
      · intro H; exact c06_model_ok O anc a kw hanc1 hanc2 H
      · exact ih a e he
    | reinit u => exact ih _ e he
    | mutate w => exact ih a e he

/-- repeating an assignment gives the same observation, whatever happened in between (no re-init) -/
theorem repeat_same (O : Oracles) (anc : String → List String) (a : ActionDecl) (kw : Kwargs)
    (between : List Kwargs) :
    (runHistory O anc a (.call kw :: between.map HOp.call ++ [.call kw])).getLast?
      = (runHistory O anc a [.call kw]).getLast? := by
  have h : ∀ (l : List Kwargs) (x : ActionDecl × Kwargs × Obs),
      (runHistory O anc a (l.map HOp.call ++ [.call kw])).getLast? = some (a, kw, modelObs anc (asyncCallSend O crTable true a kw)) := by
    intro l x
    induction l with
    | nil => simp [runHistory]
    | cons k t ih =>
      simp only [List.map_cons, List.cons_append, runHistory]
      rw [List.getLast?_cons_of_ne_nil]
      · exact ih
      · cases t <;> simp [runHistory]
  have := h (kw :: between) (a, kw, modelObs anc (asyncCallSend O crTable true a kw))
  simpa [runHistory] using this

/-! ### non-vacuity -/

section Example
private def rowOf (n : String) : TypeRow :=
  (table.row? n.toList).getD ⟨[], .str, .str, .str, false⟩

/-- a float carrier whose `repr` / `float()` are inverse by construction (unary numerals), so the
    float assumption `RoundTrips` is satisfiable -/
def exO : Oracles where
  repr
    | .nan => ['N']
    | .inf n => [if n then 'I' else 'J']
    | .fin n a b => (if n then '-' else '+') :: (List.replicate a 'a' ++ List.replicate b 'b')
  parse
    | 'N' :: _ => some .nan
    | 'I' :: _ => some (.inf true)
    | 'J' :: _ => some (.inf false)
    | '-' :: r => some (.fin true (r.count 'a') (r.count 'b'))
    | '+' :: r => some (.fin false (r.count 'a') (r.count 'b'))
    | _ => none
  le := Fl.le
  eq := Fl.eq

theorem exO_roundTrips : Upnp.C08.FloatOps.RoundTrips exO := by
  intro x
  cases x with
  | nan => rfl
  | inf n => cases n <;> rfl
  | fin n a b =>
    cases n <;> simp [exO, List.count_append, List.count_replicate]

/-- SetVolume(InstanceID: ui4, Channel: string ∈ {Master, "a<b\r&"}, DesiredVolume: ui2 ∈ [0,100],
    Mute: boolean, Since: dateTime.tz, Born: date) -> Old: ui2 -/
private def exAction : ActionDecl :=
  { name := "SetVolume".toList,
    serviceType := "urn:acme&co:service:R\"C:1".toList,
    deviceUrl := "http://192.168.1.10:8080/desc/root.xml".toList,
    controlUrl := "/ctl/rc".toList,
    args := [⟨"InstanceID".toList, true, { row := rowOf "ui4" }⟩,
             ⟨"Old".toList, false, { row := rowOf "ui2" }⟩,
             ⟨"Channel".toList, true, { row := rowOf "string", decl := { allowed := some ["Master".toList, "a<b\r&".toList] } }⟩,
             ⟨"DesiredVolume".toList, true,
                { row := rowOf "ui2", decl := { range := some (some ['0'], some "100".toList) } }⟩,
             ⟨"Mute".toList, true, { row := rowOf "boolean" }⟩,
             ⟨"Since".toList, true, { row := rowOf "dateTime.tz" }⟩,
             ⟨"Born".toList, true, { row := rowOf "date" }⟩] }

/-- caller order differs from declared order; `True` for an integer; markup and CR in a string;
    an aware date-time with a negative offset; a date before the year 1000 -/
private def exKw : Kwargs :=
  [("Mute".toList, .bool false), ("DesiredVolume".toList, .int 100), ("InstanceID".toList, .bool true),
   ("Born".toList, .date ⟨987, 2, 28⟩),
   ("Since".toList, .datetime ⟨2024, 2, 29⟩ ⟨23, 59, 59⟩ (some (-330))),
   ("Channel".toList, .str "a<b\r&".toList)]

/-- the hypotheses of `c06_model_ok` hold for a non-trivial action and assignment, the request is
    the expected one, and an out-of-range value is refused with nothing sent -/
example :
    Hyp exO exAction exKw
    ∧ allAccepted exO true exAction.inArgs exKw = some true
    ∧ (asyncCallSend exO C06Types.escapeExtra C06Types.nsAttrQuoted exAction exKw).1.map (fun r => (r.url, r.body)) =
        [("http://192.168.1.10:8080/ctl/rc".toList,
          "<?xml version=\"1.0\"?><s:Envelope s:encodingStyle=\"http://schemas.xmlsoap.org/soap/encoding/\"".toList ++
           " xmlns:s=\"http://schemas.xmlsoap.org/soap/envelope/\"><s:Body>".toList ++
           "<u:SetVolume xmlns:u='urn:acme&amp;co:service:R\"C:1'>".toList ++
           "<InstanceID>1</InstanceID>\n<Channel>a&lt;b&#13;&amp;</Channel>\n<DesiredVolume>100</DesiredVolume>\n<Mute>0</Mute>".toList ++
           "\n<Since>2024-02-29T23:59:59-05:30</Since>\n<Born>0987-02-28</Born>".toList ++
           "</u:SetVolume></s:Body></s:Envelope>".toList)]
    ∧ (asyncCallSend exO C06Types.escapeExtra C06Types.nsAttrQuoted exAction (("DesiredVolume".toList, .int 101) :: exKw)).2
        = some .upnpValueError
    ∧ (asyncCallSend exO C06Types.escapeExtra C06Types.nsAttrQuoted exAction (exKw.drop 1)).2 = some .upnpError := by
  refine ⟨⟨by decide +kernel, by decide +kernel, by decide +kernel, exO_roundTrips, ?_⟩,
          by decide +kernel, by decide +kernel, by decide +kernel, by decide +kernel⟩
  intro d hd
  have hnames : exAction.inArgs.map (·.name) =
      ["InstanceID".toList, "Channel".toList, "DesiredVolume".toList, "Mute".toList, "Since".toList, "Born".toList] := by
    decide +kernel
  have hrows : ∀ d ∈ exAction.inArgs, d.var.row ∈ C08Types.rows := by decide +kernel
  refine ⟨hrows d hd, ?_⟩
  have hall : ∀ d ∈ exAction.inArgs,
      (match exKw.lookup d.name with
       | some w => inDom d.var.row.ty w
       | none => true) = true := by
    decide +kernel
  intro v hv
  have := hall d hd
  rw [hv] at this
  exact this
/-- a `datetime` given for a `date` argument is inside the proved domain (`inDom`), is rendered with
    `isoformat()` and decodes back to itself -/
example :
    inDom (rowOf "date").ty (.datetime ⟨987, 2, 28⟩ ⟨1, 2, 3⟩ (some (-330))) = true
    ∧ (match coerceUpnp exO (rowOf "date") (.datetime ⟨987, 2, 28⟩ ⟨1, 2, 3⟩ (some (-330))) with
       | .ok t => t == "0987-02-28T01:02:03-05:30".toList | .error _ => false) = true
    ∧ decodesTo exO (rowOf "date") "0987-02-28T01:02:03-05:30".toList (.datetime ⟨987, 2, 28⟩ ⟨1, 2, 3⟩ (some (-330))) = true := by
  refine ⟨?_, ?_, ?_⟩ <;> decide +kernel
private def goodObs : Obs := modelObs genAnc (asyncCallSend exO C06Types.escapeExtra C06Types.nsAttrQuoted exAction exKw)

/-- apply `f` to the argument elements inside Envelope/Body/action -/
private def onArgs (f : List Xml → List Xml) : Xml → Xml
  | .node e et [.node b bt [.node a at' args]] => .node e et [.node b bt [.node a at' (f args)]]
  | x => x

private def setHdr (g : Obs) (k v : String) : List (Str × Str) :=
  g.headers.map fun p => if p.1 == k.toList then (p.1, v.toList) else p
private def setTree (g : Obs) (f : List Xml → List Xml) : Option Xml := g.tree.map (onArgs f)

private def badKw : Kwargs := ("DesiredVolume".toList, .int 101) :: exKw
private def libErr : ExcInfo := { cls := "UpnpValueError", mro := genAnc "UpnpValueError" }

/-- **The judge is not trivially true**: the model's observation passes, and each single deviation
    from what the text demands is REJECTED by `C06.ok` (evaluated on the judge itself). -/
example :
    (fun (g : Obs) =>
      [ ok exO exAction exKw g,
        ok exO exAction exKw { g with sent := 2 },
        ok exO exAction exKw { g with sent := 0 },
        ok exO exAction exKw { g with method := "GET".toList },
        ok exO exAction exKw { g with url := "http://192.168.1.10:8080/ctl/other".toList },
        ok exO exAction exKw { g with headers := g.headers.filter (fun p => p.1 != "Host".toList) },
        ok exO exAction exKw { g with headers := setHdr g "Host" "192.168.1.10" },
        ok exO exAction exKw { g with headers := setHdr g "SOAPAction" "urn:acme&co:service:R\"C:1#SetVolume" },
        ok exO exAction exKw { g with headers := setHdr g "Content-Type" "text/plain" },
        ok exO exAction exKw { g with tree := none },
        ok exO exAction exKw { g with tree := setTree g List.reverse },
        ok exO exAction exKw { g with tree := setTree g (List.drop 1) },
        ok exO exAction exKw { g with tree := setTree g (fun l => l ++ l.take 1) },
        ok exO exAction exKw { g with tree := setTree g (List.map fun x => .node x.tag (some ['x']) x.children) },
        -- refusal: nothing sent AND the library's error
        ok exO exAction badKw { sent := 0, err := some libErr },
        ok exO exAction badKw { sent := 0, err := some { cls := "RAW:ValueError", mro := [] } },
        ok exO exAction badKw { sent := 0, err := none },
        ok exO exAction badKw { g with err := some libErr },
        ok exO exAction badKw g ]) goodObs
    = [true, false, false, false, false, false, false, false, false, false, false, false, false, false,
       true, false, false, false, false] := by
  decide +kernel
end Example


end Upnp.C06
