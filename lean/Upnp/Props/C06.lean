/-
  C06 — SOAP requests say exactly what the caller asked.  (work in progress: first theorems)
-/
import Upnp.Spec.C06
import Upnp.Gen.C06Types
namespace Upnp.C06

/-- a refused assignment sends nothing -/
theorem refusal_sends_nothing (O : Oracles) (extra : List (Char × Str)) (a : ActionDecl) (kw : Kwargs)
    (e : Exc) (h : (asyncCallSend O extra a kw).2 = some e) : (asyncCallSend O extra a kw).1 = [] := by
  unfold asyncCallSend at *
  cases hc : createRequest O extra a kw <;> simp_all

end Upnp.C06
