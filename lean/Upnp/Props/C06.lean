/-
  C06 — SOAP requests say exactly what the caller asked.

  Property theorems only (lemmas: `Upnp/Lemmas/C06*.lean`).  The model
  (`Upnp/Model/C06Val.lean`, `C06Xml.lean`, `C06Soap.lean`) transcribes
  `UpnpAction.create_request / _format_request_args / validate_arguments`, the validation schema
  built by `client_factory._state_variable_create_schema`, and `xml.sax.saxutils.escape`;
  `asyncCallSend` is the function the correspondence driver runs, `C06.ok` (`Upnp/Spec/C06.lean`)
  is the judge the driver evaluates on the implementation's requests.  The type table, the entity
  table handed to `escape` and the exception hierarchy are `Gen.C06Types.*`, regenerated from the
  source on every run.

  Full-strength statement (property text): for EVERY action and assignment accepted by the
  declared types/ranges/lists the request is a POST to the resolved control URL with the stated
  headers and a well-formed envelope whose body holds one `{serviceType}action` element containing
  each in-argument once, in order, whose text decodes to the supplied value; every other assignment
  is refused with the library's error before anything is sent.
  Proved: exactly that, for the model, for all actions / assignments / strictness modes
  (`c06_model_ok`), where "well-formed … holds …" is "`readEnvelope` (an exact left inverse of the
  renderer, `body_reads_back`) yields that tree" and character data is decoded by `xmlDecodeText`
  (XML 1.0 end-of-line normalisation + references).  What a real XML parser makes of the text is
  compared with `readEnvelope` on every generated call, not proved (DESIGN §4.6).
-/
import Upnp.Lemmas.C06Main
import Upnp.Lemmas.C06Url
import Upnp.Gen.C06Types
import Upnp.Model.C06Anc
namespace Upnp.C06
open Upnp.Gen

/-! ### the generated tables are the ones the proofs are about -/

/-- the entity table `_format_request_args` hands to `escape` sends CR as a character reference -/
theorem escape_table_pin : C06Types.escapeExtra = crTable := by decide

/-- every row of `STATE_VARIABLE_TYPE_MAPPING` has an `out` coercer whose result its `in` coercer
    decodes (integers through `str(int(v))`, booleans `1`/`0` with `1` accepted and `0` not,
    dates/times by the `isoformat` call that exists for their class — `time.tz` included since the
    repair of F08a). -/
theorem type_table_sound : ∀ row ∈ C06Types.table, rowSound row = true := by decide

/-- `create_request` writes the service type into `xmlns:u=` through `quoteattr` -/
theorem ns_attr_pin : C06Types.nsAttrQuoted = true := by decide

/-- the refusals are the library's error: both classes descend from `UpnpError` -/
theorem exc_hierarchy_pin :
    (genAnc "UpnpError").contains "UpnpError" = true
    ∧ (genAnc "UpnpValueError").contains "UpnpError" = true := by decide

/-! ### text level -/

/-- `int(str(n)) == n` for every integer -/
theorem int_roundtrip (n : Int) : pyInt? (decOfInt n) = some n := pyInt_decOfInt n

/-- escaping loses nothing: an XML 1.0 parser (end-of-line normalisation, then references) reads
    back exactly the supplied text — for every string, including CR, CR LF, `<`, `>`, `&`, `]]>` -/
theorem escape_lossless (s : Str) : xmlDecodeText (escape C06Types.escapeExtra s) = some s := by
  rw [escape_table_pin]; exact decode_escape s

/-- the envelope the client emits reads back as exactly what it was built from, for EVERY service
    type (any characters: it is quoted by `quoteattr`, whose result `xmlDecodeAttr` inverts) and
    every action / argument name in the XML-name domain -/
theorem body_reads_back (name st : Str) (args : List (Str × Str))
    (hn : xmlNameOk name = true) (ha : ∀ p ∈ args, xmlNameOk p.1 = true) :
    readEnvelope (renderBody C06Types.escapeExtra C06Types.nsAttrQuoted name st args)
      = some { action := name, ns := st, args := args } := by
  rw [escape_table_pin, ns_attr_pin]
  exact readEnvelope_render name st args (xmlNameOk_nameOk name hn).2 (fun p hp => (xmlNameOk_nameOk p.1 (ha p hp)).1)

/-- `quoteattr` is lossless: the receiver's attribute-value decoding returns the service type -/
theorem ns_attr_lossless (st : Str) :
    ∃ (q : Char) (v : Str), (q = '"' ∨ q = '\'') ∧ quoteattr st = q :: v ++ [q] ∧ q ∉ v
      ∧ xmlDecodeAttr v = some st := quoteattr_spec st

/-- every value the schema accepts is rendered to a text that the declared `in` coercion decodes
    back to it (Python `==`; `bool ⊑ int`), and that text survives escaping -/
theorem arg_text_decodes (O : Oracles) (strict : Bool) (d : VarDecl) (v : PyVal)
    (hrow : rowSound d.row = true) (hacc : accepts O strict d v = some true) (hO : oracleOk O v) :
    ∃ t, coerceUpnp d.row v = .ok t
      ∧ xmlDecodeText (escape C06Types.escapeExtra t) = some t
      ∧ decodesTo O d.row t v = true := by
  obtain ⟨t, h1, h2⟩ := roundtrip O d.row v hrow (accepted_isInstance O strict d v hacc) hO
  exact ⟨t, h1, escape_lossless t, h2⟩

/-! ### URL -/

/-- a control URL written as an absolute path is resolved to the device URL's scheme and authority
    followed by that path, and the `Host` header the model sends (netloc of the resolved URL) is the
    device URL's authority — for every device URL with a scheme and every plain absolute path -/
theorem control_url_abs_path (base sch r : Str) (hb : schemeOf base = some (sch, r))
    (c : Char) (t : Str) (hc : c ≠ '/') (hp : plainPath ('/' :: c :: t) = true) :
    urljoin base ('/' :: c :: t) = some (sch ++ "://".toList ++ netloc base ++ '/' :: c :: t)
    ∧ netloc (sch ++ "://".toList ++ netloc base ++ '/' :: c :: t) = netloc base :=
  urljoin_abs_path base sch r _ hb c t rfl hc hp

/-- an absolute control URL is used as it is -/
theorem control_url_absolute (base ref : Str) (hb : (schemeOf base).isSome = true)
    (hr : (schemeOf ref).isSome = true) : urljoin base ref = some ref := by
  unfold urljoin
  cases h : schemeOf base with
  | none => simp [h] at hb
  | some p =>
    have hne : ref.isEmpty = false := by
      cases ref with
      | nil => simp [schemeOf] at hr
      | cons _ _ => rfl
    simp [hne, hr]

/-! ### validation -/

/-- the `vol.All` chain is the declarative acceptance predicate -/
theorem schema_is_accepts (O : Oracles) (strict : Bool) (d : VarDecl) (v : PyVal) :
    schemaOk O strict d v = accepts O strict d v := schemaOk_eq_accepts O strict d v

/-- an assignment that omits an in-argument or violates type / range / allowed list is refused
    with `UpnpError` / `UpnpValueError`, and nothing is sent -/
theorem refusal_before_send (O : Oracles) (extra : List (Char × Str)) (nsq : Bool) (a : ActionDecl) (kw : Kwargs)
    (hurl : (urljoin a.deviceUrl a.controlUrl).isSome = true)
    (h : allAccepted O a.strict a.inArgs kw = some false) :
    asyncCallSend O extra nsq a kw = ([], some .upnpError) ∨ asyncCallSend O extra nsq a kw = ([], some .upnpValueError) := by
  unfold asyncCallSend createRequest
  cases hu : urljoin a.deviceUrl a.controlUrl with
  | none => simp [hu] at hurl
  | some u =>
    rcases validate_refused O a.strict kw a.inArgs h with hv | hv
    · left; simp [hv]
    · right; simp [hv]

/-! ### the property -/

/-- **Main theorem.**  For every declared action, every caller assignment and both strictness
    modes, the model's observable behaviour satisfies the judge `C06.ok`: accepted ⇒ exactly one
    POST to the resolved control URL with `SOAPAction "type#action"`, `text/xml; charset="utf-8"`,
    `Host` = the URL's authority, and a body that reads back as one `{serviceType}action` element
    holding each in-argument exactly once, in declared order, whose text decodes to the supplied
    value; not accepted ⇒ a library error and nothing sent. -/
theorem c06_model_ok (O : Oracles) (anc : String → List String) (a : ActionDecl) (kw : Kwargs)
    (hanc1 : (anc "UpnpError").contains "UpnpError" = true)
    (hanc2 : (anc "UpnpValueError").contains "UpnpError" = true)
    (H : Hyp O a kw) :
    ok O a kw (modelObs anc (asyncCallSend O crTable true a kw)) = true := by
  unfold ok
  cases hacc : allAccepted O a.strict a.inArgs kw with
  | none => rfl
  | some b =>
    cases hu : urljoin a.deviceUrl a.controlUrl with
    | none => have := H.url; simp [hu] at this
    | some u =>
      cases b with
      | false =>
        have h1 : "UpnpError" ∈ anc "UpnpError" := by simpa using hanc1
        have h2 : "UpnpError" ∈ anc "UpnpValueError" := by simpa using hanc2
        rcases refusal_before_send O crTable true a kw H.url hacc with h | h <;>
          simp [h, modelObs, excInfo, ExcInfo.isLibraryError, Exc.tok, h1, h2]
      | true =>
        obtain ⟨args, hc, hn, hok⟩ := coerceArgs_ok O a.strict kw a.inArgs hacc H.rows H.oracle
        have hv := validate_accepted O a.strict kw a.inArgs hacc
        have hnames : ∀ p ∈ args, nameOk p.1 = true := by
          intro p hp
          have : p.1 ∈ args.map (·.1) := List.mem_map.mpr ⟨p, hp, rfl⟩
          rw [hn] at this
          obtain ⟨d, hd, hdn⟩ := List.mem_map.mp this
          rw [← hdn]; exact (xmlNameOk_nameOk _ (H.names d hd)).1
        have hsend : asyncCallSend O crTable true a kw =
            ([{ method := "POST".toList, url := u,
                headers := [("SOAPAction".toList, '"' :: a.serviceType ++ '#' :: a.name ++ ['"']),
                            ("Host".toList, netloc u),
                            ("Content-Type".toList, "text/xml; charset=\"utf-8\"".toList)],
                body := renderBody crTable true a.name a.serviceType args }], none) := by
          simp [asyncCallSend, createRequest, hu, hv, hc]
        rw [hsend]
        simp only [modelObs, readEnvelope_render a.name a.serviceType args (xmlNameOk_nameOk _ H.action).2 hnames,
          Option.map_some, header_soapaction, header_host, header_ctype]
        have hct : contentTypeOk "text/xml; charset=\"utf-8\"".toList = true := by decide
        rw [hct, envelopeOk_tree O a kw args hok]
        simp

/-- the same, instantiated with the tables generated from the source -/
theorem c06_model_ok_gen (O : Oracles) (a : ActionDecl) (kw : Kwargs) (H : Hyp O a kw) :
    ok O a kw (modelObs genAnc
      (asyncCallSend O C06Types.escapeExtra C06Types.nsAttrQuoted a kw)) = true := by
  rw [escape_table_pin, ns_attr_pin]
  exact c06_model_ok O _ a kw exc_hierarchy_pin.1 exc_hierarchy_pin.2 H

/-! ### histories -/

/-- what can happen to one long-lived device / service / action object between and during calls -/
inductive HOp
  | call (kw : Kwargs)            -- `action.async_call(**kw)`
  | reinit (deviceUrl : Str)      -- `UpnpDevice.reinit(new_device)`: the description URL is replaced

/-- The model of a history.  Request construction (`asyncCallSend`) is a **pure function of the
    current declaration — device description URL, service control URL, action, declared arguments —
    and the assignment**: it has no other input, so nothing of an earlier call (accepted or refused)
    can influence a later one, and a re-initialisation acts only through the declaration's
    `deviceUrl`.  Each entry: the declaration in force, the assignment, the observation. -/
def runHistory (O : Oracles) (anc : String → List String) (a : ActionDecl) :
    List HOp → List (ActionDecl × Kwargs × Obs)
  | [] => []
  | .call kw :: r => (a, kw, modelObs anc (asyncCallSend O crTable true a kw)) :: runHistory O anc a r
  | .reinit u :: r => runHistory O anc { a with deviceUrl := u } r

/-- **Every call of every history** satisfies the judge with the declaration in force at that call:
    an invalid assignment is refused before anything is sent *every time* it is tried, a valid one
    after any number of refusals is sent in full, and after a re-initialisation the request goes to
    the control URL resolved against the NEW description URL with the matching `Host`. -/
theorem c06_history_ok (O : Oracles) (anc : String → List String)
    (hanc1 : (anc "UpnpError").contains "UpnpError" = true)
    (hanc2 : (anc "UpnpValueError").contains "UpnpError" = true) (ops : List HOp) :
    ∀ (a : ActionDecl), ∀ e ∈ runHistory O anc a ops, Hyp O e.1 e.2.1 → ok O e.1 e.2.1 e.2.2 = true := by
  induction ops with
  | nil => intro a e he; simp [runHistory] at he
  | cons op r ih =>
    intro a e he
    cases op with
    | call kw =>
      simp only [runHistory, List.mem_cons] at he
      rcases he with rfl | he
      · intro H; exact c06_model_ok O anc a kw hanc1 hanc2 H
      · exact ih a e he
    | reinit u => exact ih _ e he

/-- repeating an assignment gives the same observation, whatever happened in between (no re-init) -/
theorem repeat_same (O : Oracles) (anc : String → List String) (a : ActionDecl) (kw : Kwargs)
    (between : List Kwargs) :
    (runHistory O anc a (.call kw :: between.map HOp.call ++ [.call kw])).getLast?
      = (runHistory O anc a [.call kw]).getLast? := by
  have h : ∀ (l : List Kwargs) (x : ActionDecl × Kwargs × Obs),
      (runHistory O anc a (l.map HOp.call ++ [.call kw])).getLast? = some (a, kw, modelObs anc (asyncCallSend O crTable true a kw)) := by
    intro l x
    induction l with
    | nil => simp [runHistory]
    | cons k t ih =>
      simp only [List.map_cons, List.cons_append, runHistory]
      rw [List.getLast?_cons_of_ne_nil]
      · exact ih
      · cases t <;> simp [runHistory]
  have := h (kw :: between) (a, kw, modelObs anc (asyncCallSend O crTable true a kw))
  simpa [runHistory] using this

/-! ### non-vacuity -/

section Example
private def rowOf (n : String) : TypeRow :=
  (C06Types.table.find? (·.name == n.toList)).getD ⟨[], .str, false, .str, .str⟩

/-- SetVolume(InstanceID: ui4, Channel: string ∈ {Master, "a<b\r&"}, DesiredVolume: ui2 ∈ [0,100],
    Mute: boolean) -> Old: ui2 -/
private def exAction : ActionDecl :=
  { name := "SetVolume".toList,
    serviceType := "urn:acme&co:service:R\"C:1".toList,
    deviceUrl := "http://192.168.1.10:8080/desc/root.xml".toList,
    controlUrl := "/ctl/rc".toList,
    args := [⟨"InstanceID".toList, true, { row := rowOf "ui4" }⟩,
             ⟨"Old".toList, false, { row := rowOf "ui2" }⟩,
             ⟨"Channel".toList, true, { row := rowOf "string", allowed := some ["Master".toList, "a<b\r&".toList] }⟩,
             ⟨"DesiredVolume".toList, true,
                { row := rowOf "ui2", hasRange := true, min := some ['0'], max := some "100".toList }⟩,
             ⟨"Mute".toList, true, { row := rowOf "boolean" }⟩] }

private def exO : Oracles := { parseFloat := fun _ => none, parseDt := fun _ => none }

/-- caller order differs from declared order; `True` for an integer; markup and CR in a string -/
private def exKw : Kwargs :=
  [("Mute".toList, .bool false), ("DesiredVolume".toList, .int 100), ("InstanceID".toList, .bool true),
   ("Channel".toList, .str "a<b\r&".toList)]

/-- the hypotheses of `c06_model_ok` hold for a non-trivial action and assignment, the request is
    the expected one, and an out-of-range value is refused with nothing sent -/
example :
    Hyp exO exAction exKw
    ∧ allAccepted exO true exAction.inArgs exKw = some true
    ∧ (asyncCallSend exO C06Types.escapeExtra C06Types.nsAttrQuoted exAction exKw).1.map (fun r => (r.url, r.body)) =
        [("http://192.168.1.10:8080/ctl/rc".toList,
          ("<?xml version=\"1.0\"?><s:Envelope s:encodingStyle=\"http://schemas.xmlsoap.org/soap/encoding/\"" ++
           " xmlns:s=\"http://schemas.xmlsoap.org/soap/envelope/\"><s:Body>" ++
           "<u:SetVolume xmlns:u='urn:acme&amp;co:service:R\"C:1'>" ++
           "<InstanceID>1</InstanceID>\n<Channel>a&lt;b&#13;&amp;</Channel>\n<DesiredVolume>100</DesiredVolume>\n<Mute>0</Mute>" ++
           "</u:SetVolume></s:Body></s:Envelope>").toList)]
    ∧ asyncCallSend exO C06Types.escapeExtra C06Types.nsAttrQuoted exAction (("DesiredVolume".toList, .int 101) :: exKw)
        = ([], some .upnpValueError)
    ∧ asyncCallSend exO C06Types.escapeExtra C06Types.nsAttrQuoted exAction (exKw.drop 1) = ([], some .upnpError) := by
  refine ⟨⟨by decide +kernel, by decide +kernel, by decide +kernel, by decide +kernel, ?_⟩, by decide +kernel, by decide +kernel, by rfl, by rfl⟩
  intro d hd v hv
  have hnames : exAction.inArgs.map (·.name) =
      ["InstanceID".toList, "Channel".toList, "DesiredVolume".toList, "Mute".toList] := by decide +kernel
  have hd' : d.name ∈ exAction.inArgs.map (·.name) := List.mem_map.mpr ⟨d, hd, rfl⟩
  rw [hnames] at hd'
  simp only [List.mem_cons, List.not_mem_nil, or_false] at hd'
  rcases hd' with h | h | h | h <;> rw [h] at hv
  · have : exKw.lookup "InstanceID".toList = some (.bool true) := by decide +kernel
    rw [this] at hv; cases hv; trivial
  · have : exKw.lookup "Channel".toList = some (.str "a<b\r&".toList) := by decide +kernel
    rw [this] at hv; cases hv; trivial
  · have : exKw.lookup "DesiredVolume".toList = some (.int 100) := by decide +kernel
    rw [this] at hv; cases hv; trivial
  · have : exKw.lookup "Mute".toList = some (.bool false) := by decide +kernel
    rw [this] at hv; cases hv; trivial
end Example

end Upnp.C06
