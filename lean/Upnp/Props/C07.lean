/-
  C07 — SOAP responses and faults are decoded faithfully.  (work in progress: first theorems)
-/
import Upnp.Spec.C07
import Upnp.Gen.C06Types
namespace Upnp.C07
open Upnp.C06

/-- no body at all is a library error, whatever the status -/
theorem decode_no_body (O : Oracles) (X : XmlOracle) (a : ActionDecl) (status : Int) :
    decode O X a status none = .exc .noBody := rfl

end Upnp.C07
