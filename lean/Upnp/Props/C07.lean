/-
  C07 — SOAP responses and faults are decoded faithfully.

  Property theorems only (lemmas: `Upnp/Lemmas/C07*.lean`).  The model
  (`Upnp/Model/C07Decode.lean`) transcribes the response half of `UpnpAction.async_call`,
  `_parse_fault`, `parse_response` and `_parse_response_args`; `decode` is the function the
  correspondence driver runs and `C07.ok` (`Upnp/Spec/C07.lean`) the judge it evaluates on the
  implementation's outcomes.  XML text → tree is an oracle `X` (any function: the theorems hold
  for every parser behaviour); the exception hierarchy is `Gen.C06Types.excAncestors`.

  Full-strength statement (property text): for every control response — a 200 response whose body
  holds the action's response element returns exactly the out-arguments present, converted to the
  declared Python types, regardless of prefix, order, whitespace or trailing NUL padding; a SOAP
  fault with any status raises the action error carrying code and description (and the status when
  not 200); any other non-200 raises the response error carrying the status; a body that is not
  XML raises the XML-parse error; unknown out-arguments / a foreign-namespace response element are
  errors in strict mode and tolerated in non-strict mode.
  Proved: exactly that for the model, for all actions, modes, statuses, body texts, oracles and
  trees (`c07_model_ok`, with the case theorems below as corollaries of the same lemmas).
  "Regardless of prefix / whitespace" lives in the text → tree oracle (sampled by the
  correspondence check); "regardless of order / padding" is inside the theorem.
-/
import Upnp.Lemmas.C07Fault
import Upnp.Model.C06Anc
import Upnp.Props.C08
namespace Upnp.C07
open Upnp.C06 Upnp.Gen

/-- `exceptions.py` has the hierarchy callers branch on: `UpnpActionResponseError` is both an
    action error and a response error, each class is a `UpnpError` … -/
theorem exc_hierarchy_pin : AncOk genAnc := by
  refine ⟨?_, ?_, ?_, ?_, ?_, ?_⟩ <;> decide

theorem dropWhile_append_all (p : Char → Bool) (q r : Str) (h : ∀ c ∈ q, p c = true) :
    (q ++ r).dropWhile p = r.dropWhile p := by
  induction q with
  | nil => rfl
  | cons a t ih =>
    have : p a = true := h a (by simp)
    simp only [List.cons_append, List.dropWhile_cons, this, if_true]
    exact ih (fun c hc => h c (by simp [hc]))

/-- trailing padding (`" \t\r\n\0"`) never reaches the parser -/
theorem rstripPad_append_pad (s p : Str) (hp : ∀ c ∈ p, isPad c = true) :
    rstripPad (s ++ p) = rstripPad s := by
  unfold rstripPad
  rw [List.reverse_append, dropWhile_append_all isPad _ _ (fun c hc => hp c (by simpa using hc))]

/-- a 200 answer is decoded the same whatever padding (spaces, tabs, CR, LF, NUL) follows it -/
theorem decode_padding_irrelevant (O : Oracles) (X : XmlOracle) (a : ActionDecl) (text pad : Str)
    (hp : ∀ c ∈ pad, isPad c = true) :
    decode O X a 200 (some (text ++ pad)) = decode O X a 200 (some text) := by
  have h200 : ((200 : Int) != 200) = false := by decide
  unfold decode
  simp only [h200, rstripPad_append_pad text pad hp]
  rfl

/-- 200 and not XML ⇒ the XML-parse error; non-200 and not XML ⇒ the response error with status -/
theorem decode_garbage (O : Oracles) (X : XmlOracle) (a : ActionDecl) (status : Int) (text : Str)
    (hx : X (if status == 200 then rstripPad text else stripPad text) = some none) :
    decode O X a status (some text) =
      .exc (if status == 200 then .xmlParseError else .responseError status) := by
  cases hs : (status == 200) with
  | true =>
    have hne : (status != 200) = false := by simp [bne, hs]
    simp only [hs, if_true] at hx ⊢
    unfold decode; simp [hne, hx]
  | false =>
    have hne : (status != 200) = true := by simp [bne, hs]
    simp only [hs, Bool.false_eq_true, if_false] at hx ⊢
    unfold decode; simp [hne, hx]

/-- a non-200 answer without a fault ⇒ the response error carrying the status -/
theorem decode_other_non200 (O : Oracles) (X : XmlOracle) (a : ActionDecl) (status : Int) (text : Str)
    (doc : Xml) (hs : (status == 200) = false) (hx : X (stripPad text) = some (some doc))
    (hf : faults doc = []) :
    decode O X a status (some text) = .exc (.responseError status) := by
  have hne : (status != 200) = true := by simp [bne, hs]
  unfold decode; simp only [hne, hx, parseFault_none doc hf]; rfl

/-- **Main theorem.**  For every declared action, strictness mode, status, body and XML oracle the
    model's outcome satisfies the judge `C07.ok`. -/
theorem c07_model_ok (O : Oracles) (X : XmlOracle) (anc : String → List String) (H : AncOk anc)
    (a : ActionDecl) (status : Int) (body : Option Str) :
    ok O X a status body (observe anc (decode O X a status body)) = true := by
  have he : (anc "UpnpError").contains "UpnpError" = true := by simpa using H.e
  cases body with
  | none => rfl
  | some text =>
    unfold ok
    simp only
    cases hs : (status == 200) with
    | false =>
      -- error answer
      have hne : (status != 200) = true := by simp [bne, hs]
      simp only [Bool.false_eq_true, if_false]
      apply Bool.or_eq_true_iff.mpr
      right
      unfold okDoc
      cases hx : X (stripPad text) with
      | none => rfl
      | some od =>
        cases od with
        | none =>
          have hs' : ¬ status = 200 := by simpa using hs
          simp [decode, hne, hx, observe, DExc.cls, isResponseError, ExcObs.isA, H.r, hs']
        | some doc =>
          simp only
          have hdec : decode O X a status (some text) =
              (match parseFault doc (some status) with
               | some e => .exc e
               | none => .exc (.responseError status)) := by
            unfold decode; simp only [hne, hx]; rfl
          generalize hf : faults doc = fl
          match fl, hf with
          | _ :: _ :: _, _ => rfl
          | [f], hf =>
            simp only
            cases hat : (!atBody doc (·.tag == faultTag) || f.children.isEmpty) with
            | true => simp
            | false =>
              simp only [Bool.false_eq_true, if_false]
              have hne' : f.children.isEmpty = false := by
                simp only [Bool.or_eq_false_iff] at hat; exact hat.2
              have hsome := parseFault_isSome doc f hf hne' (some status)
              cases hp : parseFault doc (some status) with
              | none => simp [hp] at hsome
              | some e =>
                rw [hdec, hp]
                exact faultOk_model anc H doc f hf hne' status e (by simp [hs, hp])
          | [], hf =>
            simp only [hne, if_true]
            rw [hdec, parseFault_none doc hf]
            simp [observe, DExc.cls, isResponseError, ExcObs.isA, H.r]
    | true =>
      have hne : (status != 200) = false := by simp [bne, hs]
      simp only [if_true]
      unfold okDoc
      cases hx : X (rstripPad text) with
      | none => rfl
      | some od =>
        cases od with
        | none =>
          have hs' : status = 200 := by simpa using hs
          simp [decode, hne, hx, observe, DExc.cls, isExcOf, ExcObs.isA, H.x, hs']
        | some doc =>
          simp only
          have hdec : decode O X a status (some text) =
              (match parseFault doc none with
               | some e => .exc e
               | none => parseResponseArgs O a doc) := by
            unfold decode; simp only [hne, hx]; rfl
          generalize hf : faults doc = fl
          match fl, hf with
          | _ :: _ :: _, _ => rfl
          | [f], hf =>
            simp only
            cases hat : (!atBody doc (·.tag == faultTag) || f.children.isEmpty) with
            | true => simp
            | false =>
              simp only [Bool.false_eq_true, if_false]
              have hne' : f.children.isEmpty = false := by
                simp only [Bool.or_eq_false_iff] at hat; exact hat.2
              have hsome := parseFault_isSome doc f hf hne' none
              cases hp : parseFault doc none with
              | none => simp [hp] at hsome
              | some e =>
                rw [hdec, hp]
                exact faultOk_model anc H doc f hf hne' status e (by simp [hs, hp])
          | [], hf =>
            simp only [hne, Bool.false_eq_true, if_false]
            rw [hdec, parseFault_none doc hf]
            simp only
            unfold parseResponseArgs findResponse Xml.findDesc Xml.findDescLocal
            rw [find?_eq_head?_filter, find?_eq_head?_filter]
            generalize doc.descendants.filter (·.tag == responseTag a) = l1
            generalize doc.descendants.filter (fun e => Xml.localOf e.tag == a.name ++ "Response".toList) = l2
            match l1 with
            | _ :: _ :: _ => rfl
            | [r] =>
              simp only [List.head?]
              cases atBody doc (·.tag == responseTag a) with
              | false => simp
              | true => simp only [if_true]; exact responseOk_model O anc a r he
            | [] =>
              simp only [List.head?]
              match l2 with
              | [] => rfl
              | [r] =>
                simp only [List.head?]
                cases hst : a.strict with
                | true => simp [observe, DExc.cls, isExcOf, ExcObs.isA, H.e]
                | false =>
                  simp only [Bool.not_false, if_true, Bool.false_eq_true, if_false]
                  cases atBody doc (fun e => Xml.localOf e.tag == a.name ++ "Response".toList) with
                  | false => simp
                  | true => simp only [if_true]; exact responseOk_model O anc a r he
              | _ :: _ :: _ =>
                simp only [List.head?]
                cases hst : a.strict with
                | true => simp [observe, DExc.cls, isExcOf, ExcObs.isA, H.e]
                | false => simp

/-- the same, instantiated with the exception hierarchy generated from `exceptions.py` -/
theorem c07_model_ok_gen (O : Oracles) (X : XmlOracle) (a : ActionDecl) (status : Int) (body : Option Str) :
    ok O X a status body (observe genAnc (decode O X a status body)) = true :=
  c07_model_ok O X genAnc exc_hierarchy_pin a status body

/-! ### the clauses, declaratively (no reading of `okDoc` needed) -/

/-- what `decode` does with a parsed 200 answer that holds no fault -/
theorem decode_200_nofault (O : Oracles) (X : XmlOracle) (a : ActionDecl) (text : Str) (doc : Xml)
    (hx : X (rstripPad text) = some (some doc)) (hf : faults doc = []) :
    decode O X a 200 (some text) = parseResponseArgs O a doc := by
  have h200 : ((200 : Int) != 200) = false := by decide
  unfold decode
  simp only [h200, hx, parseFault_none doc hf]
  rfl

/-- **Success.**  A 200 answer whose document holds no fault and whose (first) response element in
    the service-type namespace is `r`: if every present declared out-argument has convertible text and
    (strict mode) every child is a declared out-argument, `async_call` RETURNS a mapping whose keys
    are distinct, are exactly the declared out-argument names present among `r`'s children — in any
    order, with any duplicates — and each value is the declared conversion of an occurrence's text. -/
theorem decode_success (O : Oracles) (X : XmlOracle) (a : ActionDecl) (text : Str) (doc r : Xml)
    (hx : X (rstripPad text) = some (some doc)) (hf : faults doc = [])
    (hr : doc.findDesc (responseTag a) = some r)
    (hconv : convertible O a r.children = true)
    (hmode : a.strict = false ∨ ∀ c ∈ r.children, isOutName a c.tag = true) :
    ∃ items, decode O X a 200 (some text) = .ret items
      ∧ (keys items).Nodup
      ∧ (∀ q ∈ items, ∃ c ∈ r.children, c.tag = q.1 ∧ decoded O a c = some q.2)
      ∧ (∀ c ∈ r.children, isOutName a c.tag = true → c.tag ∈ keys items) := by
  obtain ⟨items, hok, hinv⟩ := readOutArgs_ok O a r.children [] [] hconv hmode ⟨by simp [keys], by simp, by simp⟩
  refine ⟨items, ?_, hinv.nodup, ?_, ?_⟩
  · rw [decode_200_nofault O X a text doc hx hf]
    unfold parseResponseArgs findResponse
    rw [hr]
    simp only [hok]
  · simpa using hinv.sound
  · simpa using hinv.complete

/-- **Unknown out-argument, strict mode**: a library error (`UpnpError`), whatever else is present. -/
theorem decode_unknown_strict (O : Oracles) (X : XmlOracle) (a : ActionDecl) (text : Str) (doc r : Xml)
    (hx : X (rstripPad text) = some (some doc)) (hf : faults doc = [])
    (hr : doc.findDesc (responseTag a) = some r) (hs : a.strict = true)
    (hconv : convertible O a r.children = true)
    (hun : (r.children.any fun c => !isOutName a c.tag) = true) :
    decode O X a 200 (some text) = .exc .unknownArg := by
  rw [decode_200_nofault O X a text doc hx hf]
  unfold parseResponseArgs findResponse
  rw [hr]
  simp only [readOutArgs_unknown O a hs r.children [] hconv hun]

/-- **Response element only in a foreign namespace**: strict ⇒ library error; non-strict ⇒ the
    element found by local name is decoded like the proper one (`decode_success` applies to it). -/
theorem decode_foreign_ns (O : Oracles) (X : XmlOracle) (a : ActionDecl) (text : Str) (doc : Xml)
    (hx : X (rstripPad text) = some (some doc)) (hf : faults doc = [])
    (hr : doc.findDesc (responseTag a) = none) :
    decode O X a 200 (some text) =
      (if a.strict then .exc .invalidResponse
       else match doc.findDescLocal (a.name ++ "Response".toList) with
         | none => .exc .invalidResponse
         | some r => match readOutArgs O a r.children [] with
             | .ok args => .ret args
             | .error e => .exc e) := by
  rw [decode_200_nofault O X a text doc hx hf]
  unfold parseResponseArgs findResponse
  rw [hr]
  cases a.strict
  · simp only [Bool.not_false, if_true, Bool.false_eq_true, if_false]; rfl
  · simp

/-- **Fault.**  A document (after padding is dropped: trailing only at 200, both ends otherwise)
    whose first `Body/Fault` has children and a numeric (or absent / empty) `errorCode` raises the
    action error carrying that code and the description — `UpnpActionError` at 200,
    `UpnpActionResponseError` with the status otherwise — whatever else the document contains. -/
theorem decode_fault (O : Oracles) (X : XmlOracle) (a : ActionDecl) (status : Int) (text : Str)
    (doc f : Xml) (rest : List Xml)
    (hx : X (if status == 200 then rstripPad text else stripPad text) = some (some doc))
    (hf : faults doc = f :: rest) (hne : f.children.isEmpty = false) (code : Option Int)
    (hcode : faultCode (f.findTextDesc errorCodeTag) = some code) :
    decode O X a status (some text) =
      .exc (if status == 200 then .actionError code (f.findTextDesc errorDescTag)
            else .actionResponseError code (f.findTextDesc errorDescTag) status) := by
  have hpf : ∀ st, parseFault doc st = some (match st with
      | some s => .actionResponseError code (f.findTextDesc errorDescTag) s
      | none => .actionError code (f.findTextDesc errorDescTag)) := by
    intro st
    unfold parseFault
    simp only [hf, List.head?, Xml.truthy, hne, hcode]
    cases st <;> simp
  cases hs : (status == 200) with
  | true =>
    have hne' : (status != 200) = false := by simp [bne, hs]
    simp only [hs, if_true] at hx ⊢
    unfold decode
    simp [hne', hx, hpf none]
  | false =>
    have hne' : (status != 200) = true := by simp [bne, hs]
    simp only [hs, Bool.false_eq_true, if_false] at hx ⊢
    unfold decode
    simp [hne', hx, hpf (some status)]

/-! ### conversion (C08's model, all 26 types) -/

/-- **A conversion failure is a `ValueError`, nothing else** — for every row (any of the 26 types,
    the date / time types through `parse_date_time` included: C08's `in_total` / `parse_total`) and
    every text: the out-argument conversion yields a value or raises `ValueError`. -/
theorem conversion_total (O : Oracles) (row : TypeRow) (text : Str) :
    (∃ v, coercePython O row text = .ok v) ∨ coercePython O row text = .error .valueError := by
  have h := Upnp.C08.in_total O row text
  unfold Upnp.C08.inOk at h
  cases hc : coercePython O row text with
  | ok v => exact Or.inl ⟨v, rfl⟩
  | error e =>
    right
    have hc' : Upnp.C08.coercePython O Gen.C08Types.table row text = .error e := hc
    rw [hc'] at h
    simp at h
    rw [h]

/-- hence the only exceptions that leave the out-argument loop are the strict-mode refusal of an
    unknown argument and `ValueError`: the `raw` case of the model is unreachable -/
theorem readOutArgs_errors (O : Oracles) (a : ActionDecl) :
    ∀ (cs : List Xml) (acc : List (Str × PyVal)) (e : DExc), readOutArgs O a cs acc = .error e →
      e = .unknownArg ∨ e = .valueError := by
  intro cs
  induction cs with
  | nil => intro acc e h; simp [readOutArgs] at h
  | cons c r ih =>
    intro acc e h
    unfold readOutArgs at h
    cases ho : outArg? a c.tag with
    | none =>
      simp only [ho] at h
      cases hs : a.strict with
      | true => simp [hs] at h; exact Or.inl h.symm
      | false => simp only [hs] at h; exact ih acc e (by simpa using h)
    | some d =>
      simp only [ho] at h
      rcases conversion_total O d.var.row (c.text.getD []) with ⟨v, hv⟩ | hv
      · rw [hv] at h; exact ih _ e h
      · rw [hv] at h; simp at h; exact Or.inr h.symm

/-! ### histories -/

/-- Successive calls on one long-lived action object.  In the model a call's outcome is `decode`
    applied to that call's response — `decode` takes no state, so it is *trivially* a function of
    the response alone; this definition only spells that out.  (That the implementation behaves the
    same — no value of an earlier call leaks into a later one through the `Argument` objects — is what
    the correspondence check compares call by call on generated histories.) -/
def runHistory (O : Oracles) (X : XmlOracle) (anc : String → List String) (a : ActionDecl)
    (calls : List (Int × Option Str)) : List OutObs :=
  calls.map fun c => observe anc (decode O X a c.1 c.2)

/-- every call of every history satisfies the judge on its own response, whatever came before -/
theorem c07_history_ok (O : Oracles) (X : XmlOracle) (anc : String → List String) (H : AncOk anc)
    (a : ActionDecl) (calls : List (Int × Option Str)) :
    (calls.zip (runHistory O X anc a calls)).all (fun p => ok O X a p.1.1 p.1.2 p.2) = true := by
  induction calls with
  | nil => rfl
  | cons c r ih =>
    simp only [runHistory, List.map_cons, List.zip_cons_cons, List.all_cons, Bool.and_eq_true]
    exact ⟨c07_model_ok O X anc H a c.1 c.2, ih⟩

/-- the outcome of a call does not depend on the calls before it -/
theorem history_independent (O : Oracles) (X : XmlOracle) (anc : String → List String) (a : ActionDecl)
    (before : List (Int × Option Str)) (c : Int × Option Str) :
    (runHistory O X anc a (before ++ [c])).getLast? = some (observe anc (decode O X a c.1 c.2)) := by
  simp [runHistory]

/-! ### non-vacuity -/

section Example
private def rowOf (n : String) : TypeRow :=
  (table.row? n.toList).getD ⟨[], .str, .str, .str, false⟩

private def exA : ActionDecl :=
  { name := "GetVolume".toList, serviceType := "urn:x:service:RC:1".toList, deviceUrl := [], controlUrl := [],
    args := [⟨"Channel".toList, true, { row := rowOf "string" }⟩,
             ⟨"CurrentVolume".toList, false, { row := rowOf "ui2" }⟩,
             ⟨"Mute".toList, false, { row := rowOf "boolean" }⟩,
             ⟨"At".toList, false, { row := rowOf "time.tz" }⟩,
             ⟨"Day".toList, false, { row := rowOf "date" }⟩] }

private def envelope (inner : List Xml) : Xml :=
  .node (Xml.clark soapEnvNs "Envelope".toList) none [.node bodyTag none inner]

/-- out-arguments in the "wrong" order, alternate spellings, an unknown argument last -/
private def respDoc : Xml :=
  envelope [.node (responseTag exA) none
    [.node "Mute".toList (some "TRUE".toList) [], .node "CurrentVolume".toList (some " 42 ".toList) [],
     .node "Day".toList (some "0987-02-28".toList) [], .node "At".toList (some "23:59:59 -0530".toList) []]]
private def respDocExtra : Xml :=
  envelope [.node (responseTag exA) none
    [.node "CurrentVolume".toList (some "7".toList) [], .node "Bogus".toList none []]]
private def faultDoc : Xml :=
  envelope [.node faultTag none
    [.node "faultcode".toList (some "s:Client".toList) [],
     .node "detail".toList none [.node (Xml.clark ctlNs "UPnPError".toList) none
       [.node errorCodeTag (some "402".toList) [], .node errorDescTag (some "Invalid Args".toList) []]]]]

private def exX : XmlOracle := fun t =>
  if t = ['R'] then some (some respDoc) else if t = ['E'] then some (some respDocExtra)
  else if t = ['F'] then some (some faultDoc) else some none
private def exO : Oracles := { repr := fun _ => [], parse := fun _ => none, le := Fl.le, eq := Fl.eq }

/-- every branch of the property is inhabited: success with padding and reordering, fault at 200
    and at 500 (leading padding there), garbage at 200 and 404, unknown argument strict / non-strict -/
example :
    decode exO exX exA 200 (some "R\r\n\x00 ".toList)
        = .ret [("Mute".toList, .bool true), ("CurrentVolume".toList, .int 42),
                ("Day".toList, .date ⟨987, 2, 28⟩), ("At".toList, .time ⟨23, 59, 59⟩ (some (-330)))]
    ∧ decode exO exX exA 200 (some ['F']) = .exc (.actionError (some 402) (some "Invalid Args".toList))
    ∧ decode exO exX exA 500 (some " F\n".toList)
        = .exc (.actionResponseError (some 402) (some "Invalid Args".toList) 500)
    ∧ decode exO exX exA 200 (some "<html>".toList) = .exc .xmlParseError
    ∧ decode exO exX exA 404 (some "<html>".toList) = .exc (.responseError 404)
    ∧ decode exO exX exA 500 (some ['R']) = .exc (.responseError 500)
    ∧ decode exO exX exA 200 (some ['E']) = .exc .unknownArg
    ∧ decode exO exX { exA with strict := false } 200 (some ['E']) = .ret [("CurrentVolume".toList, .int 7)] := by
  refine ⟨?_, ?_, ?_, ?_, ?_, ?_, ?_, ?_⟩ <;> decide +kernel
/-- a foreign-namespace response element: strict ⇒ library error, non-strict ⇒ tolerated -/
private def respDocForeign : Xml :=
  envelope [.node (Xml.clark "urn:x:service:RC:2".toList "GetVolumeResponse".toList) none
    [.node "CurrentVolume".toList (some "9".toList) []]]
private def exX2 : XmlOracle := fun t => if t = ['G'] then some (some respDocForeign) else exX t

example :
    decode exO exX2 exA 200 (some ['G']) = .exc .invalidResponse
    ∧ decode exO exX2 { exA with strict := false } 200 (some ['G']) = .ret [("CurrentVolume".toList, .int 9)] := by
  refine ⟨?_, ?_⟩ <;> decide +kernel

private def excObs (cls : String) (code : Option Int := none) (desc : Option Str := none)
    (status : Option Int := none) (typed : Bool := true) : OutObs :=
  .exc { info := { cls := cls, mro := genAnc cls }, code := code, desc := desc, status := status, typed := typed }

/-- **The judge is not trivially true**: for each clause a wrong outcome is REJECTED (and the right
    one accepted) — evaluated on the judge `C07.ok` itself with the generated exception hierarchy. -/
example :
    -- success: the right mapping passes; a missing argument, an unconverted (str) value, an extra key,
    -- an exception instead of the mapping are rejected
    ok exO exX exA 200 (some ['R']) (.ret [("Mute".toList, .bool true), ("CurrentVolume".toList, .int 42),
        ("Day".toList, .date ⟨987, 2, 28⟩), ("At".toList, .time ⟨23, 59, 59⟩ (some (-330)))]) = true
    ∧ ok exO exX exA 200 (some ['R']) (.ret [("Mute".toList, .bool true), ("CurrentVolume".toList, .int 42),
        ("Day".toList, .date ⟨987, 2, 28⟩)]) = false
    ∧ ok exO exX exA 200 (some ['R']) (.ret [("Mute".toList, .bool true), ("CurrentVolume".toList, .str " 42 ".toList),
        ("Day".toList, .date ⟨987, 2, 28⟩), ("At".toList, .time ⟨23, 59, 59⟩ (some (-330)))]) = false
    ∧ ok exO exX exA 200 (some ['R']) (.ret [("Mute".toList, .bool true), ("CurrentVolume".toList, .int 42),
        ("Day".toList, .date ⟨987, 2, 28⟩), ("At".toList, .time ⟨23, 59, 59⟩ (some (-330))), ("Channel".toList, .str [])]) = false
    ∧ ok exO exX exA 200 (some ['R']) (excObs "UpnpError") = false
    -- fault at 200: code and description are demanded; a plain UpnpError, a wrong code, a `str` code are rejected
    ∧ ok exO exX exA 200 (some ['F']) (excObs "UpnpActionError" (some 402) (some "Invalid Args".toList)) = true
    ∧ ok exO exX exA 200 (some ['F']) (excObs "UpnpActionError" (some 401) (some "Invalid Args".toList)) = false
    ∧ ok exO exX exA 200 (some ['F']) (excObs "UpnpActionError" none (some "Invalid Args".toList) none false) = false
    ∧ ok exO exX exA 200 (some ['F']) (excObs "UpnpError") = false
    ∧ ok exO exX exA 200 (some ['F']) (.ret []) = false
    -- fault at 500: the status must be carried and the class must be a response error too
    ∧ ok exO exX exA 500 (some ['F']) (excObs "UpnpActionResponseError" (some 402) (some "Invalid Args".toList) (some 500)) = true
    ∧ ok exO exX exA 500 (some ['F']) (excObs "UpnpActionResponseError" (some 402) (some "Invalid Args".toList) (some 200)) = false
    ∧ ok exO exX exA 500 (some ['F']) (excObs "UpnpActionError" (some 402) (some "Invalid Args".toList)) = false
    -- other non-200: response error WITH the status
    ∧ ok exO exX exA 404 (some "<html>".toList) (excObs "UpnpResponseError" none none (some 404)) = true
    ∧ ok exO exX exA 404 (some "<html>".toList) (excObs "UpnpResponseError") = false
    ∧ ok exO exX exA 500 (some ['R']) (.ret [("CurrentVolume".toList, .int 42)]) = false
    -- not XML at 200: the XML-parse error, not just any library error
    ∧ ok exO exX exA 200 (some "<html>".toList) (excObs "UpnpXmlParseError") = true
    ∧ ok exO exX exA 200 (some "<html>".toList) (excObs "UpnpError") = false
    -- unknown argument / foreign namespace: strict must raise, non-strict must return the known arguments
    ∧ ok exO exX exA 200 (some ['E']) (.ret [("CurrentVolume".toList, .int 7)]) = false
    ∧ ok exO exX { exA with strict := false } 200 (some ['E']) (excObs "UpnpError") = false
    ∧ ok exO exX2 exA 200 (some ['G']) (.ret [("CurrentVolume".toList, .int 9)]) = false
    ∧ ok exO exX2 { exA with strict := false } 200 (some ['G']) (excObs "UpnpError") = false := by
  refine ⟨?_, ?_, ?_, ?_, ?_, ?_, ?_, ?_, ?_, ?_, ?_, ?_, ?_, ?_, ?_, ?_, ?_, ?_, ?_, ?_, ?_, ?_⟩ <;> decide +kernel
end Example

end Upnp.C07
