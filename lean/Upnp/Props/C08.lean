/-
  C08 — UPnP data types: lossless round trip and exact validation.

  Property theorems only (lemmas: `Lemmas/C08Digits`, `C08Dates`, `C08Round`, `C08Valid`).
  All theorems are about `Gen.C08Types.table`, the table the translator regenerates from
  `const.py` / `utils.py` / `client_factory.py` on every run, through the model
  (`Model/C08Data`, `Model/C08Types`) the correspondence driver executes; the predicates
  `rtOk`, `spellOk`, `inOk`, `accept`, `setOk`, `setUpnpOk` are the judge the driver applies to the
  implementation's observations.

  Floats are abstract: `F` is any type with the operations `fo : FloatOps F`; the only assumption is
  Python's documented `float(repr(x)) == x` (`fo.RoundTrips`).  Integers beyond CPython's
  4300-digit `str()` limit are outside `rtDomain` (there `str` itself raises).
-/
import Upnp.Gen.C08Types
import Upnp.Lemmas.C08Valid
namespace Upnp.C08
open Upnp Upnp.Gen.C08Types

/-- decimal reader without the digit cap (only used to exhibit a model of the float assumption) -/
def parseNat' (s : Str) : Option Nat := parseDigits s 0 false

theorem parseNat'_decNat (n : Nat) : parseNat' (decNat n) = some n := by
  unfold parseNat' decNat
  rw [parseDigits_map_dc _ (natDigits_lt n) 0 false (Or.inl (natDigits_ne_nil n)), natDigits_val]

/-! ### the generated table is the specified one -/

/-- the source's type table has exactly the 26 specified names, each with the specified Python
    class and timezone demand -/
theorem table_matches_spec :
    rows.map (fun r => (r.name, r.ty, r.requireTz)) = specTypes := by decide

/-- the regex / strptime table and the tz fix-up guard in the source are the ones the proofs are about -/
theorem table_good : GoodTable table := ⟨by decide, by decide⟩

/-- every row of the source's table has one of the seven coercer shapes proved to round-trip -/
theorem rows_good : ∀ r ∈ rows, goodRow r = true := by decide

section
variable {F : Type} [DecidableEq F] (fo : FloatOps F)

/-! ### round trip and wire format -/

/-- **Round trip, every type.** For each of the 26 rows and every value of the row's Python class
    (any integer `str` can print, any float, any string, both booleans, every date 0001..9999, every
    time / date-time at second precision, naive or with any whole-minute offset): `coerce_upnp` yields
    exactly the prescribed wire form and `coerce_python` of that text yields the value back.
    `rtDomain` also contains a `bool` given under an integer type (`bool` is a subclass of `int`):
    it is written `1`/`0` and read back as the integer `1`/`0`, i.e. the value Python considers equal
    to it (`expectBack`; for every other value `expectBack ty v = v`, see `roundtrip_exact_class`). -/
theorem roundtrip_all_types (hf : fo.RoundTrips) (row : TypeRow) (hrow : row ∈ rows) (v : Val F)
    (hv : rtDomain row.ty v = true) :
    coerceUpnp fo row v = .ok (wire fo v) ∧ coercePython fo table row (wire fo v) = .ok (expectBack row.ty v) :=
  roundtrip_row fo table table_good row (rows_good row hrow) hf v hv

/-- **Round trip with the float assumption only where a float occurs.** The same statement under
    the POINTWISE hypothesis "`float(repr(f)) == f` for the float at hand": nothing is assumed for
    values that are not floats, and nothing about floats other than `v` (NaN payloads, …). -/
theorem roundtrip_all_types_pt (row : TypeRow) (hrow : row ∈ rows) (v : Val F)
    (hf : ∀ f, v = .float f → fo.parse (fo.repr f) = some f) (hv : rtDomain row.ty v = true) :
    coerceUpnp fo row v = .ok (wire fo v) ∧ coercePython fo table row (wire fo v) = .ok (expectBack row.ty v) :=
  roundtrip_row_pt fo table table_good row (rows_good row hrow) v hf hv

/-- **The 21 non-float types need no assumption at all**: for a row whose class is not `float`
    (integers, strings, booleans, dates, times, date-times) the round trip is proved outright. -/
theorem roundtrip_nonfloat (row : TypeRow) (hrow : row ∈ rows) (hty : row.ty ≠ .float) (v : Val F)
    (hv : rtDomain row.ty v = true) :
    coerceUpnp fo row v = .ok (wire fo v) ∧ coercePython fo table row (wire fo v) = .ok (expectBack row.ty v) := by
  apply roundtrip_all_types_pt fo row hrow v _ hv
  intro f hvf
  subst hvf
  exfalso
  simp only [rtDomain, boolAsInt, Val.exactType, Bool.and_eq_true, Bool.or_eq_true, beq_iff_eq] at hv
  rcases hv.1 with h | h
  · exact hty h
  · simp at h

/-- accepted spellings without any float assumption, for the non-float rows -/
theorem spelling_nonfloat (row : TypeRow) (hrow : row ∈ rows) (hty : row.ty ≠ .float) (sp : Spelling) (v : Val F)
    (s : Str) (hv : spellDomain row.ty sp v = true) (hs : spell fo sp v = some s) :
    coercePython fo table row s = .ok (expectBack row.ty v) := by
  apply spelling_row_pt fo table table_good row (rows_good row hrow) sp v _ s hv hs
  intro f hvf
  subst hvf
  exfalso
  simp only [spellDomain, rtDomain, boolAsInt, Val.exactType, Bool.and_eq_true, Bool.or_eq_true, beq_iff_eq] at hv
  rcases hv.1.1 with h | h
  · exact hty h
  · simp at h

/-- the integer (and every other) case is not weakened: for a value of exactly the row's class the
    value read back is the value itself -/
theorem roundtrip_exact_class (hf : fo.RoundTrips) (row : TypeRow) (hrow : row ∈ rows) (v : Val F)
    (hv : rtDomain row.ty v = true) (hex : v.exactType row.ty = true) :
    coerceUpnp fo row v = .ok (wire fo v) ∧ coercePython fo table row (wire fo v) = .ok v := by
  have := roundtrip_all_types fo hf row hrow v hv
  rwa [expectBack_exact row.ty v hex] at this

/-- a `bool` under any of the integer rows: written `1`/`0`, read back as the integer Python
    considers equal to it (`True == 1`, `False == 0`) -/
theorem roundtrip_bool_under_int (row : TypeRow) (hrow : row ∈ rows) (hty : row.ty = .int) (b : Bool) :
    coerceUpnp fo row (.bool b) = .ok [if b then '1' else '0']
    ∧ coercePython fo table row [if b then '1' else '0'] = .ok (.int (if b then 1 else 0))
    ∧ pyEq fo (.bool b) (.int (if b then 1 else 0)) = true := by
  obtain ⟨h1, h2⟩ := roundtrip_bool_int fo table row (rows_good row hrow) hty b
  exact ⟨h1, h2, by cases b <;> rfl⟩

/-- the same statement through the run-time judge: the model's observations always satisfy `rtOk` -/
theorem roundtrip_judged (hf : fo.RoundTrips) (row : TypeRow) (hrow : row ∈ rows) (v : Val F) :
    rtOk fo row.ty v (coerceUpnp fo row v)
      (match coerceUpnp fo row v with
       | .ok s => coercePython fo table row s
       | .error e => .error e) = true := by
  unfold rtOk
  cases hd : rtDomain row.ty v with
  | false => rfl
  | true =>
    obtain ⟨h1, h2⟩ := roundtrip_all_types fo hf row hrow v hd
    simp [h1, h2]

/-- **Wire format.** booleans are `1`/`0`, integers are decimal with a leading `-` only,
    dates `YYYY-MM-DD`, times `HH:MM:SS[±HH:MM]`, date-times `YYYY-MM-DDTHH:MM:SS[±HH:MM]`. -/
theorem wire_format :
    wire fo (.bool true) = ['1'] ∧ wire fo (.bool false) = ['0'] ∧
    (∀ n : Nat, wire fo (.int (Int.ofNat n)) = decNat n) ∧
    (∀ n : Nat, wire fo (.int (Int.negSucc n)) = '-' :: decNat (n + 1)) ∧
    (∀ d : Date, wire fo (.date d) = pad4 d.y ++ '-' :: pad2 d.m ++ '-' :: pad2 d.d) ∧
    (∀ (t : Time) (o : Option Int), wire fo (.time t o) = pad2 t.h ++ ':' :: pad2 t.mi ++ ':' :: pad2 t.s ++ isoOff o) ∧
    (∀ (d : Date) (t : Time) (o : Option Int), wire fo (.datetime d t o)
        = (pad4 d.y ++ '-' :: pad2 d.m ++ '-' :: pad2 d.d) ++ 'T' :: (pad2 t.h ++ ':' :: pad2 t.mi ++ ':' :: pad2 t.s) ++ isoOff o) := by
  refine ⟨rfl, rfl, ?_, ?_, fun _ => rfl, ?_, ?_⟩
  · intro n; simp [wire, decInt]
  · intro n; simp [wire, decInt, Int.negSucc_lt_zero]
  · intro t o; simp [wire, isoTime]
  · intro d t o; simp [wire, isoTime, isoDate]

/-- decimal digits: `decNat n` consists of digits only, has no leading zero unless `n = 0`, and denotes `n` -/
theorem decimal_digits (n : Nat) :
    (∀ c ∈ decNat n, isDig c = true) ∧ parseNat (decNat n) = (if (natDigits n).length ≤ maxStrDigits then some n else none) := by
  constructor
  · intro c hc
    obtain ⟨d, hd, rfl⟩ := List.mem_map.mp hc
    exact isDig_dc d (natDigits_lt n d hd)
  · split
    · rename_i h; exact parseNat_decNat n h
    · rename_i h
      unfold parseNat decNat
      rw [countDigits_map_dc _ (natDigits_lt n), if_pos (by omega)]

/-! ### accepted spellings -/

/-- **Boolean spellings.** `1`, `true`, `yes` in any letter case read as True; `0`, `false`, `no` in
    any letter case read as False (for the `boolean` row of the source's table). -/
theorem bool_spellings (hf : fo.RoundTrips) (row : TypeRow) (hrow : row ∈ rows) (hty : row.ty = .bool)
    (k m : Nat) (b : Bool) (s : Str) (hs : spell fo (.boolWord k m) (.bool b) = some s) :
    coercePython fo table row s = .ok (.bool b) := by
  have := spelling_row fo table table_good row (rows_good row hrow) hf (.boolWord k m) (.bool b) s
    (by simp [spellDomain, rtDomain, valueOk, Val.exactType, Val.wellFormed, hty]) hs
  rwa [expectBack_exact row.ty (.bool b) (by simp [Val.exactType, hty])] at this

/-- **ISO-8601 spellings.** For the date/time rows: `T` or a space between date and time, `Z`/`z`
    for UTC, offsets as `±HH:MM` or `±HHMM`, with or without a space before the offset — each is read
    back as the value it spells. (`Spelling` enumerates the forms; `canon` is the wire form.) -/
theorem iso_spellings (hf : fo.RoundTrips) (row : TypeRow) (hrow : row ∈ rows) (sp : Spelling) (v : Val F) (s : Str)
    (hv : rtDomain row.ty v = true) (hex : v.exactType row.ty = true) (hs : spell fo sp v = some s) :
    coercePython fo table row s = .ok v := by
  have := spelling_row fo table table_good row (rows_good row hrow) hf sp v s
    (by simp [spellDomain, hv, hex]) hs
  rwa [expectBack_exact row.ty v hex] at this

/-- the same through the run-time judge (which also covers the wire form of a `bool` under an integer type) -/
theorem spelling_judged (hf : fo.RoundTrips) (row : TypeRow) (hrow : row ∈ rows) (sp : Spelling) (v : Val F) (s : Str) :
    spellOk fo row.ty sp v s (coercePython fo table row s) = true := by
  unfold spellOk
  cases hd : (spellDomain row.ty sp v && spell fo sp v == some s) with
  | false => rfl
  | true =>
    simp only [Bool.and_eq_true, beq_iff_eq] at hd
    rw [spelling_row fo table table_good row (rows_good row hrow) hf sp v s hd.1 hd.2]
    simp

/-! ### conversion is total up to ValueError -/

/-- **parse_total.** `parse_date_time` answers *every* string (including the empty one and strings
    shorter than six characters) with a value or with `ValueError` — never another exception. -/
theorem parse_total (s : Str) :
    (∃ v, parseDateTime (F := F) table.matchers table.tzGuard s = .ok v)
      ∨ parseDateTime (F := F) table.matchers table.tzGuard s = .error .valueError := by
  rw [table_good.guard]
  exact parseDateTime_total _ 6 (Nat.le_refl _) s

/-- every `"in"` entry of the table is total up to ValueError; stated through the judge `inOk` -/
theorem in_total (row : TypeRow) (s : Str) : inOk (coercePython fo table row s) = true :=
  inOk_of_total (coercePython_total fo table 6 table_good.guard (Nat.le_refl _) row s)

/-! ### validation -/

/-- **accept_iff (Prop form).** Strict-mode acceptance is exactly: declared Python class ∧ timezone where
    the type demands one ∧ member of the allowed list (if declared) ∧ within minimum / maximum (if declared). -/
theorem accept_iff (ty : PyType) (tz : Bool) (dv : DeclVals F) (v : Val F) :
    accept fo ty tz dv v = true ↔
      v.isInstance ty = true
      ∧ (tz = true → v.hasTz = some true)
      ∧ (∀ l, dv.allowed = some l → ∃ a ∈ l, pyEq fo v a = true)
      ∧ (∀ m, dv.min = some m → pyLe fo m v = some true)
      ∧ (∀ m, dv.max = some m → pyLe fo v m = some true) := by
  unfold accept
  cases tz <;> cases hA : dv.allowed <;> cases hmin : dv.min <;> cases hmax : dv.max <;>
    simp [Bool.and_eq_true, List.any_eq_true, and_assoc]

/-- **The schema built by the factory decides `accept`.** For a declaration whose texts denote `dv`
    under the row's own `"in"` entry, `_state_variable_create_schema` succeeds and the resulting schema
    accepts `v` iff `accept … dv v`. -/
theorem schema_accepts_iff (row : TypeRow) (d : Decl) (dv : DeclVals F)
    (hd : Denotes (coercePython fo table row) d dv) (hdef : d.default = none) :
    ∃ sc, mkSchema fo table row true d = .ok sc ∧ ∀ v, sc.check fo v = accept fo row.ty row.requireTz dv v :=
  ⟨_, mkSchema_denotes fo table row d dv hd hdef, fun v => check_eq_accept fo row.ty row.requireTz dv v⟩

/-- **… also for declarations WITH a default value** (no `default = none` hypothesis): the default only
    has to be convertible — there is none / an empty one, or the row is boolean, or the source converts
    it with the row's own `"in"` entry (pinned: `table.defaultViaIn`) and its text denotes a value. -/
theorem schema_accepts_iff_default (row : TypeRow) (d : Decl) (dv : DeclVals F)
    (hd : Denotes (coercePython fo table row) d dv)
    (hdef : nonEmpty d.default = none ∨ row.ty = .bool
      ∨ ∀ s, nonEmpty d.default = some s → ∃ v, coercePython fo table row s = .ok v) :
    ∃ sc, mkSchema fo table row true d = .ok sc ∧ ∀ v, sc.check fo v = accept fo row.ty row.requireTz dv v := by
  refine ⟨_, mkSchema_denotes_default fo table row d dv hd (schemaDefault_ok fo table row d.default ?_),
    fun v => check_eq_accept fo row.ty row.requireTz dv v⟩
  rcases hdef with h | h | h
  · exact Or.inl h
  · exact Or.inr (Or.inl h)
  · exact Or.inr (Or.inr ⟨by decide, h⟩)

/-- declarations written in wire form: minimum, maximum and allowed values given as the wire forms
    of in-domain values of the row's class denote those values — for every row of the table -/
theorem wire_declaration_denotes (hf : fo.RoundTrips) (row : TypeRow) (hrow : row ∈ rows)
    (lo hi : Val F) (al : List (Val F)) (a0 : Val F)
    (hlo : rtDomain row.ty lo = true) (hhi : rtDomain row.ty hi = true) (hlo' : wire fo lo ≠ []) (hhi' : wire fo hi ≠ [])
    (hal : ∀ v ∈ a0 :: al, rtDomain row.ty v = true) :
    Denotes (coercePython fo table row)
      { range := some (some (wire fo lo), some (wire fo hi)), allowed := some ((a0 :: al).map (wire fo)), default := none }
      { min := some (expectBack row.ty lo), max := some (expectBack row.ty hi),
        allowed := some ((a0 :: al).map (expectBack row.ty)) } := by
  have rt := fun v hv => (roundtrip_all_types fo hf row hrow v hv).2
  refine ⟨?_, ?_⟩
  · simp only
    refine ⟨?_, ?_⟩
    · unfold DenOpt nonEmpty
      cases h : wire fo lo with
      | nil => exact absurd h hlo'
      | cons c r =>
        simp only [List.isEmpty_cons, Bool.false_eq_true, if_false]
        exact ⟨expectBack row.ty lo, rfl, by rw [← h]; exact rt lo hlo⟩
    · unfold DenOpt nonEmpty
      cases h : wire fo hi with
      | nil => exact absurd h hhi'
      | cons c r =>
        simp only [List.isEmpty_cons, Bool.false_eq_true, if_false]
        exact ⟨expectBack row.ty hi, rfl, by rw [← h]; exact rt hi hhi⟩
  · simp only [List.map_cons]
    refine ⟨expectBack row.ty a0 :: al.map (expectBack row.ty), rfl, ?_⟩
    have := mapM_wire fo table table_good row (rows_good row hrow) hf (a0 :: al) hal
    simpa using this

/-! ### a rejected value never becomes the variable's value -/

/-- **set_spec.** `sv.value = v`: accepted ⇒ stored and no error; rejected ⇒ `UpnpValueError` and the
    value is unchanged (the judge `setOk` holds of the model for every cell state and value). -/
theorem set_spec (ty : PyType) (tz : Bool) (dv : DeclVals F) (c : Cell F) (v : Val F) :
    let sc : Schema F := { ty := ty, requireTz := tz, allowed := dv.allowed, min := dv.min, max := dv.max }
    setOk fo ty tz dv v (setValue fo sc c v).2 c.read (setValue fo sc c v).1.read = true :=
  setValue_ok fo ty tz dv c v

/-- **set_upnp_spec.** `sv.upnp_value = s`: a text converting to an accepted value stores it; one
    converting to a rejected value raises `UpnpValueError` and changes nothing; an unconvertible text
    leaves the value reading `None` or unchanged. -/
theorem set_upnp_spec (row : TypeRow) (dv : DeclVals F) (c : Cell F) (s : Str) :
    let sc : Schema F := { ty := row.ty, requireTz := row.requireTz, allowed := dv.allowed, min := dv.min, max := dv.max }
    setUpnpOk fo row.ty row.requireTz dv (coercePython fo table row s) (setUpnpValue fo table row sc c s).2 c.read
      (setUpnpValue fo table row sc c s).1.read = true :=
  setUpnpValue_ok fo table row dv c s

/-- **reject_keeps_value, all histories.** After *any* sequence of value / upnp_value assignments,
    starting from a fresh variable, what `.value` reads is `None` or a value the schema accepts. -/
theorem stored_value_accepted (row : TypeRow) (sc : Schema F) (ops : List (CellOp F)) :
    let c := ops.foldl (stepCell fo table row sc) (.val .none)
    c.read = .none ∨ sc.check fo c.read = true := by
  intro c
  have inv : CellInv fo sc c := by
    suffices H : ∀ c0, CellInv fo sc c0 → CellInv fo sc (ops.foldl (stepCell fo table row sc) c0) from
      H _ (Or.inl rfl)
    induction ops with
    | nil => intro c0 h; exact h
    | cons op r ih => intro c0 h; exact ih _ (stepCell_inv fo table row sc c0 op h)
  cases hc : c with
  | err => left; rfl
  | val v => rw [hc] at inv; exact inv

/-! ### the run-time judges accept every output of the model -/

/-- the schema the factory builds: for a denoted declaration in strict mode, and the bare class
    (+ timezone) check in non-strict mode -/
def modelSchema (strict : Bool) (ty : PyType) (tz : Bool) (dv : DeclVals F) : Schema F :=
  if strict then { ty := ty, requireTz := tz, allowed := dv.allowed, min := dv.min, max := dv.max }
  else { ty := ty, requireTz := tz, allowed := none, min := none, max := none }

/-- **decl.** a declaration whose texts denote values (no default) yields a schema in either mode —
    the one `modelSchema` describes — so `declOk` holds of the model -/
theorem decl_judged (strict : Bool) (row : TypeRow) (d : Decl) (dv : DeclVals F)
    (hd : Denotes (coercePython fo table row) d dv) (hdef : d.default = none) :
    mkSchema fo table row strict d = .ok (modelSchema strict row.ty row.requireTz dv)
    ∧ declOk (match mkSchema fo table row strict d with | .ok _ => .ok () | .error e => .error e) = true := by
  have h : mkSchema fo table row strict d = .ok (modelSchema strict row.ty row.requireTz dv) := by
    cases strict with
    | true => exact mkSchema_denotes fo table row d dv hd hdef
    | false => simp [mkSchema, schemaAllowed, schemaRange, schemaDefault, hdef, nonEmpty, modelSchema]
  exact ⟨h, by rw [h]; rfl⟩

/-- **validate.** `validate_value` of the model satisfies `validateJ` -/
theorem validate_judged (strict : Bool) (ty : PyType) (tz : Bool) (dv : DeclVals F) (v : Val F) :
    validateJ fo strict ty tz dv v
      (if (modelSchema strict ty tz dv).check fo v then .ok else .upnpValueError) = true := by
  cases strict with
  | false => rfl
  | true =>
    simp only [validateJ, Bool.not_true, Bool.false_or, validateOk, modelSchema, if_true]
    rw [check_eq_accept]
    cases unsettled ty v <;> cases accept fo ty tz dv v <;> simp

/-- whatever the schema, `sv.value = v` stores `v` exactly when it does not raise -/
theorem setKeeps_setValue (sc : Schema F) (c : Cell F) (v : Val F) :
    setKeeps v (setValue fo sc c v).2 c.read (setValue fo sc c v).1.read = true := by
  unfold setKeeps setValue
  by_cases h : sc.check fo v = true <;> simp [h, Cell.read]

/-- **set.** `sv.value = v` of the model satisfies `setJ` in both modes -/
theorem set_judged (strict : Bool) (ty : PyType) (tz : Bool) (dv : DeclVals F) (c : Cell F) (v : Val F) :
    let sc := modelSchema strict ty tz dv
    setJ fo strict ty tz dv v (setValue fo sc c v).2 c.read (setValue fo sc c v).1.read = true := by
  intro sc
  unfold setJ
  cases hc : (strict && !unsettled ty v) with
  | false => simp only [Bool.false_eq_true, if_false]; exact setKeeps_setValue fo sc c v
  | true =>
    simp only [Bool.and_eq_true] at hc
    obtain ⟨rfl, _⟩ := hc
    simp only [if_true]
    exact set_spec fo ty tz dv c v

/-- **upnp_value.** `sv.upnp_value = s` of the model satisfies `setUpnpJ` in both modes -/
theorem set_upnp_judged (strict : Bool) (row : TypeRow) (dv : DeclVals F) (c : Cell F) (s : Str) :
    let sc := modelSchema strict row.ty row.requireTz dv
    setUpnpJ fo strict row.ty row.requireTz dv (coercePython fo table row s) (setUpnpValue fo table row sc c s).2 c.read
      (setUpnpValue fo table row sc c s).1.read = true := by
  intro sc
  unfold setUpnpJ
  cases hcv : coercePython fo table row s with
  | ok v =>
    simp only
    cases hc : (strict && !unsettled row.ty v) with
    | false =>
      simp only [Bool.false_eq_true, if_false, setUpnpValue, hcv]
      exact setKeeps_setValue fo sc c v
    | true =>
      simp only [Bool.and_eq_true] at hc
      obtain ⟨rfl, _⟩ := hc
      simp only [if_true]
      have := set_upnp_spec fo row dv c s
      rw [hcv] at this
      exact this
  | error e =>
    simp only
    cases strict with
    | true =>
      simp only [if_true]
      have := set_upnp_spec fo row dv c s
      rw [hcv] at this
      exact this
    | false =>
      simp only [Bool.false_eq_true, if_false, setUpnpValue, hcv]
      cases e <;> simp [Cell.read]

/-- **argument.** `arg.value = v` on an `UpnpAction.Argument` bound to the variable satisfies the same `setJ` -/
theorem arg_set_judged (strict : Bool) (ty : PyType) (tz : Bool) (dv : DeclVals F) (c v : Val F) :
    let sc := modelSchema strict ty tz dv
    setJ fo strict ty tz dv v (argSetValue fo sc c v).2 c (argSetValue fo sc c v).1 = true := by
  intro sc
  have hk : setKeeps v (argSetValue fo sc c v).2 c (argSetValue fo sc c v).1 = true := by
    unfold setKeeps argSetValue
    by_cases h : sc.check fo v = true <;> simp [h]
  unfold setJ
  cases hc : (strict && !unsettled ty v) with
  | false => simp only [Bool.false_eq_true, if_false]; exact hk
  | true =>
    simp only [Bool.and_eq_true] at hc
    obtain ⟨rfl, _⟩ := hc
    simp only [if_true, setOk, argSetValue]
    rw [show sc.check fo v = accept fo ty tz dv v from rfl]
    cases accept fo ty tz dv v <;> simp

/-- **spell / in.** every conversion of the model satisfies `spellJ` (and `inOk`, theorem `in_total`) -/
theorem spell_judged (hf : fo.RoundTrips) (row : TypeRow) (hrow : row ∈ rows) (sp : Spelling) (v : Val F) (s : Str) :
    spellJ fo row.ty sp v s (coercePython fo table row s) = true := by
  simp only [spellJ, Bool.and_eq_true]
  exact ⟨spelling_judged fo hf row hrow sp v s, in_total fo row s⟩

/-! ### non-vacuity -/

/-- a concrete float-free instance: the `dateTime.tz` row, a declared range, a history with an
    accepted, a rejected (naive) and an out-of-range assignment -/
example :
    let fo : FloatOps Unit := ⟨fun _ => [], fun _ => none, fun _ _ => true, fun _ _ => true⟩
    let lo : Val Unit := .datetime ⟨2024, 2, 28⟩ ⟨12, 0, 0⟩ (some 60)
    let hi : Val Unit := .datetime ⟨2024, 2, 29⟩ ⟨12, 0, 0⟩ (some 0)
    let dv : DeclVals Unit := { min := some lo, max := some hi }
    ∃ row ∈ rows, row.name = ['d','a','t','e','T','i','m','e','.','t','z'] ∧ rtDomain row.ty lo = true ∧
      accept fo row.ty row.requireTz dv (.datetime ⟨2024, 2, 29⟩ ⟨6, 30, 0⟩ (some (-300))) = true ∧
      accept fo row.ty row.requireTz dv (.datetime ⟨2024, 2, 29⟩ ⟨6, 30, 0⟩ none) = false ∧
      accept fo row.ty row.requireTz dv (.datetime ⟨2024, 2, 29⟩ ⟨12, 0, 1⟩ (some 0)) = false ∧
      wire fo lo = ['2','0','2','4','-','0','2','-','2','8','T','1','2',':','0','0',':','0','0','+','0','1',':','0','0'] ∧
      (match coercePython fo table row ['2','0','2','4','-','0','2','-','2','8','T','1','2',':','0','0',':','0','0',' ','+','0','1','0','0'] with
        | .ok v => v == lo
        | .error _ => false) = true := by
  refine ⟨_, List.mem_of_getElem? (i := 23) rfl, by decide, by decide, by decide, by decide, by decide, by decide, by decide⟩

/-- the float assumption is satisfiable: a carrier whose `repr` is injective and `parse` its inverse
    (floats numbered by `Nat`, written in decimal) -/
example : ∃ fo : FloatOps Nat, fo.RoundTrips :=
  ⟨⟨decNat, parseNat', fun a b => decide (a ≤ b), fun a b => a == b⟩, fun x => parseNat'_decNat x⟩

/-- the F08a case as an instance of the theorem: a `time.tz` value with a negative offset is written
    `06:03:55-23:59` and read back, with no float assumption -/
example (fo : FloatOps F) :
    let v : Val F := .time ⟨6, 3, 55⟩ (some (-1439))
    ∃ row ∈ rows, row.name = ['t','i','m','e','.','t','z'] ∧ coerceUpnp fo row v = .ok ['0','6',':','0','3',':','5','5','-','2','3',':','5','9']
      ∧ coercePython fo table row ['0','6',':','0','3',':','5','5','-','2','3',':','5','9'] = .ok v := by
  refine ⟨_, List.mem_of_getElem? (i := 25) rfl, by decide, ?_⟩
  have h := roundtrip_nonfloat fo _ (List.mem_of_getElem? (i := 25) rfl) (by decide)
    (.time ⟨6, 3, 55⟩ (some (-1439))) rfl
  exact h

end
end Upnp.C08
