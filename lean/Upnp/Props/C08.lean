/-
  C08 — UPnP data types: lossless round trip and exact validation (property theorems).
-/
import Upnp.Gen.C08Types
import Upnp.Spec.C08
namespace Upnp.C08
open Upnp Upnp.Gen.C08Types

/-- the source's type table has exactly the 26 specified names, each with the specified Python
    class and timezone demand -/
theorem table_matches_spec :
    rows.map (fun r => (r.name, r.ty, r.requireTz)) = specTypes := by decide

end Upnp.C08
