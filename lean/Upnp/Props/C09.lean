/-
  C09 — the subscription registry mirrors the publisher, with valid GENA requests.

  Property theorems only (lemmas: `Upnp/Lemmas/C09*.lean`).  The model (`Upnp/Model/C09Gena.lean`)
  transcribes `UpnpEventHandler.async_subscribe / _async_do_resubscribe / async_resubscribe /
  async_resubscribe_all / async_unsubscribe / async_unsubscribe_all`; its requests are built from the
  tables GENERATED from event_handler.py (`Upnp/Gen/C09Gena.lean`), so a source change to a header list
  or to the TIMEOUT expression re-checks (and may break) these theorems.  `C09.ok` is the judge the
  driver evaluates on the real handler's traces; `runCall` is the function the driver replays.

  All theorems hold for every history (any length), any number of services, any SIDs, any reaction
  scripts.  `callWF` (caller-supplied timeouts are not negative) is needed only for request validity and
  the returned/requested timeout (`requests_valid`, `c09_history`); the registry, fallback, target and
  unsubscribe clauses hold without it (`call_facts_unconditional`, `registry_mirrors`, …).
-/
import Upnp.Lemmas.C09Hist
import Upnp.Lemmas.C09Decl
namespace Upnp.C09
open Upnp PyDict

/-- **Every request is valid GENA** (over the generated tables): whatever the history, an initial
    SUBSCRIBE carries NT, CALLBACK, an integer `Second-N` TIMEOUT and no SID; a renewal carries SID and an
    integer TIMEOUT and neither NT nor CALLBACK; UNSUBSCRIBE carries SID. -/
theorem requests_valid (cfg : Cfg) (rt : Routing) (c : Call) (rs : List Reaction)
    (hn : (keys rt).Nodup) (hw : callWF c) :
    ∀ e ∈ (runCall cfg rt c rs).exch, validReq e.req = true := by
  have h := (runCall_ok cfg rt c rs hn).valid hw
  rw [List.all_eq_true] at h
  exact h

/-- the integer-TIMEOUT shape of the three request builders, as extracted from the source -/
theorem request_tables_pinned :
    subSpecOk Gen.C09Gena.subscribeReq = true ∧ renewSpecOk Gen.C09Gena.renewReq = true
    ∧ unsubSpecOk Gen.C09Gena.unsubReq = true := gen_tables_ok

/-- **C09, main theorem.** For every history of subscribe / renew (by service, by SID, all) /
    unsubscribe (by service, by SID, all) calls, over any number of services, against a publisher that
    answers each request with any status, any / no / another / an empty SID, any TIMEOUT header, a
    connection error or a timeout — and for both requester behaviours (answering at once, or suspending so
    that renew-all sends every renewal before the first response is processed): the trace of the model
    satisfies the judge `C09.ok` — after each call the routed SIDs are exactly those granted and neither
    unsubscribed nor lost, a call that ended with a grant returns that SID and the granted timeout, a refused
    renewal falls back to exactly one fresh SUBSCRIBE and an unreachable one to none, every request is valid
    GENA. -/
theorem c09_history (cfg : Cfg) (susp : Bool) (probes : List Str) (nsvc : Nat) (hist : List (Call × List Reaction))
    (hw : ∀ p ∈ hist, callWF p.1) :
    ok (modelTraceS cfg susp probes nsvc [] hist) = true :=
  history_from cfg susp probes nsvc hist hw [] List.nodup_nil

/-- **The timeout asked for is the caller's** (audit C09-2): both the initial SUBSCRIBE and the renewal put the
    caller's whole timeout on the wire (`int(timeout.total_seconds())`, read from the source), so "the granted
    timeout" a call returns when the publisher states none is what the publisher was actually asked for. -/
theorem wire_timeout_is_requested (cfg : Cfg) (svc : Nat) (sid : Str) (t : Int) (h : 0 ≤ t) :
    wireTimeout (subscribeRequest cfg svc t) = some t ∧ wireTimeout (renewRequest cfg svc sid t) = some t :=
  ⟨sub_wire cfg svc t h, ren_wire cfg svc t sid h⟩

/-- **Not routed while the UNSUBSCRIBE is in flight** (audit C09-1): every UNSUBSCRIBE of every call arrives at
    the publisher with its SID already unrouted. -/
theorem unsubscribe_unrouted_on_arrival (cfg : Cfg) (susp : Bool) (rt : Routing) (c : Call) (rs : List Reaction)
    (hn : (keys rt).Nodup) : unsubIssuedOk (runCallS cfg susp rt c rs).exch = true :=
  (judgeFacts_runCallS cfg susp rt c rs hn).unsubIssued

/-- the driver's diagnostic walk is the judge: a trace is accepted iff no step is reported -/
theorem ok_iff_no_first_bad (exp : PyDict Str Nat) (l : List Step) (i : Nat) :
    okFrom exp l = (firstBadFrom exp l i).isNone := by
  induction l generalizing exp i with
  | nil => rfl
  | cons s r ih =>
    simp only [okFrom, firstBadFrom]
    by_cases hd : stepInDomain s = true
    · simp only [hd, if_true]
      by_cases h : stepOk exp s = true
      · simp only [h, Bool.true_and, if_true]; exact ih _ _
      · simp [h]
    · simp [hd]

/-- in the non-suspending model the fallback SUBSCRIBE immediately follows its refused renewal, and an
    unreachable renewal is never followed by a fresh SUBSCRIBE for its service -/
theorem fallback_adjacent_sequential (cfg : Cfg) (rt : Routing) (c : Call) (rs : List Reaction)
    (hn : (keys rt).Nodup) : fallbackAdjacent (runCall cfg rt c rs).exch = true :=
  (runCall_ok cfg rt c rs hn).adjacent

/-- **The registry mirrors the publisher**: after one more call — whatever the publisher answered, an
    unparsable granted TIMEOUT included — the routing table is the publisher-side fold of that call's
    exchanges (granted ∖ unsubscribed ∖ lost). -/
theorem registry_mirrors (cfg : Cfg) (susp : Bool) (rt : Routing) (c : Call) (rs : List Reaction)
    (hn : (keys rt).Nodup) :
    (runCallS cfg susp rt c rs).rt = (runCallS cfg susp rt c rs).exch.foldl foldExch rt :=
  (judgeFacts_runCallS cfg susp rt c rs hn).mirror.symm

/-- **The judge's registry clause read in first-order terms** (`Grants`, `Revokes`, `Continues` are written out in
    `Lemmas/C09Decl.lean` without any model definition): after any exchanges, starting from an empty table, the
    publisher-side fold expects SID `s` at service `j` iff some exchange granted `(s, j)` — a 200 to an initial
    SUBSCRIBE carrying SID `s`, or a 200 to a renewal that continues under `s` — and no later exchange granted `s`
    again or revoked it (UNSUBSCRIBE issued for `s`; renewal of `s` refused, unreachable or accepted under another SID). -/
theorem registry_clause_first_order (l : List Exch) (s : Str) (j : Nat) :
    get? (l.foldl foldExch []) s = some j ↔
      ∃ a e b, l = a ++ e :: b ∧ Grants e s j ∧ Untouched b s :=
  foldl_foldExch_get l s j

/-- … one exchange at a time, from any table with distinct SIDs. -/
theorem registry_clause_one_exchange (rt : PyDict Str Nat) (hn : (keys rt).Nodup) (e : Exch) (s : Str) (j : Nat) :
    get? (foldExch rt e) s = some j ↔
      Grants e s j ∨ ((∀ j', ¬ Grants e s j') ∧ ¬ Revokes e s ∧ get? rt s = some j) :=
  foldExch_get rt hn e s j

/-- `Continues` (written out) is the model's `renewedSid`: the two readings of "answered with a new SID" agree. -/
theorem continues_is_renewedSid (s0 : Str) (sid' : Option Str) (s : Str) :
    Continues s0 sid' s ↔ s = renewedSid s0 sid' :=
  continues_iff s0 sid' s

/-- **The handler's table in first-order terms**: after any call (any timeout, either requester mode) SID `s` is routed
    to service `j` iff one of the call's exchanges granted `(s, j)` and none after it touched `s`, or none of them
    touched `s` and it was routed to `j` before. -/
theorem registry_first_order (cfg : Cfg) (susp : Bool) (rt : Routing) (c : Call) (rs : List Reaction)
    (hn : (keys rt).Nodup) (s : Str) (j : Nat) :
    let o := runCallS cfg susp rt c rs
    get? o.rt s = some j ↔
      (∃ a e b, o.exch = a ++ e :: b ∧ Grants e s j ∧ Untouched b s) ∨ (Untouched o.exch s ∧ get? rt s = some j) := by
  intro o
  rw [← (judgeFacts_runCallS cfg susp rt c rs hn).mirror]
  exact foldl_foldExch_get_from o.exch s j rt hn

/-- **An initial SUBSCRIBE carries the notify server's callback URL of the moment it is built** (over the generated header
    table): the model has no remembered URL, `cfg` is the configuration at the time of the call. The driver judges
    `callbackOk <current URL>` on every call of the real handler's trace. -/
theorem initial_subscribe_carries_current_callback (cfg : Cfg) (svc : Nat) (t : Int) :
    callbackOk cfg.callback [⟨subscribeRequest cfg svc t, .connErr⟩] = true := by
  simp [callbackOk, sub_callback]

/-- **Everything but request validity and the returned timeout holds for every call, whatever timeout the caller
    passes** (negative ones included): the registry stays the publisher-side fold with distinct SIDs, the fallback
    count, the targets of the requests and "unrouted when the UNSUBSCRIBE arrives". -/
theorem call_facts_unconditional (cfg : Cfg) (susp : Bool) (rt : Routing) (c : Call) (rs : List Reaction)
    (hn : (keys rt).Nodup) :
    let o := runCallS cfg susp rt c rs
    (keys o.rt).Nodup ∧ o.exch.foldl foldExch rt = o.rt ∧ fallbackOk c o.exch = true
    ∧ unsubIssuedOk o.exch = true ∧ ∀ r s, targetOk ⟨c, o.exch, o.res, r, s⟩ = true :=
  let h := judgeFacts_runCallS cfg susp rt c rs hn
  ⟨h.nodup, h.mirror, h.fallback, h.unsubIssued, h.target⟩

/-- the conversion of the granted TIMEOUT is guarded in both `async_subscribe` and `_async_do_resubscribe`
    (read from the source): an unparsable value cannot make a granted subscription half-registered -/
theorem timeout_guards_pinned :
    Gen.C09Gena.subscribeTimeoutGuarded = true ∧ Gen.C09Gena.renewTimeoutGuarded = true := guards_pinned

/-- **A granted subscription is registered whatever its TIMEOUT header says**: a 200 carrying SID `s` routes
    `s` to the service and the call returns `s` -/
theorem garbage_timeout_still_routed (cfg : Cfg) (rt : Routing) (svc : Nat) (t : Int) (s : Str)
    (th : Option Str) (rs : List Reaction) :
    let o := runCall cfg rt (.subscribe svc t) (.resp 200 (some s) th :: rs)
    (∃ g, o.res = .sub s g) ∧ get? o.rt s = some svc := by
  rcases parse_total th with hk | ⟨n, hk⟩ <;>
    simp [runCall, doSubscribe, nextReact, subscribeFinish, guards_pinned.1, hk, get?_set_self]

/-- **Once an unsubscribe has been issued its SID is no longer routed, whether or not the device
    confirmed** — for every reaction script (200, error status, unreachable). -/
theorem unsubscribed_not_routed (cfg : Cfg) (rt : Routing) (tg : Target) (rs : List Reaction)
    (hn : (keys rt).Nodup) (sid : Str) (svc : Nat) (hr : resolve rt tg = some (sid, svc)) :
    get? (runCall cfg rt (.unsubscribe tg) rs).rt sid = none
    ∧ ∃ r, (runCall cfg rt (.unsubscribe tg) rs).exch = [⟨unsubRequest cfg svc sid, r⟩] := by
  simp only [runCall, doUnsubscribe, hr]
  exact ⟨get?_erase_self _ _ hn, _, rfl⟩

/-- **A refused renewal falls back to a fresh subscription**: an HTTP error status on the renewal drops
    the old SID and is followed by exactly one initial SUBSCRIBE for the same service, whose outcome is the
    call's outcome. -/
theorem refused_renewal_falls_back (cfg : Cfg) (rt : Routing) (tg : Target) (t : Int)
    (status : Nat) (a b : Option Str) (rs : List Reaction) (h : status ≠ 200)
    (sid : Str) (svc : Nat) (hr : resolve rt tg = some (sid, svc)) :
    let o := runCall cfg rt (.resubscribe tg t) (.resp status a b :: rs)
    let o2 := doSubscribe cfg (erase rt sid) svc t rs
    o.exch = ⟨renewRequest cfg svc sid t, .resp status a b⟩ :: o2.exch
    ∧ o2.exch = [⟨subscribeRequest cfg svc t, (nextReact rs).1⟩]
    ∧ o.res = o2.res ∧ o.rt = o2.rt := by
  simp [runCall, doResubscribe, hr, nextReact, h, doSubscribe]

/-- **…unless the device is unreachable**: on a connection error / timeout the SID is dropped, the
    error is raised and no further request is made. -/
theorem unreachable_renewal_no_fallback (cfg : Cfg) (rt : Routing) (tg : Target) (t : Int)
    (rs : List Reaction) (hn : (keys rt).Nodup) (sid : Str) (svc : Nat)
    (hr : resolve rt tg = some (sid, svc)) :
    (let o := runCall cfg rt (.resubscribe tg t) (.connErr :: rs)
     o.exch = [⟨renewRequest cfg svc sid t, .connErr⟩] ∧ o.res = .exc .connError ∧ get? o.rt sid = none)
    ∧ (let o := runCall cfg rt (.resubscribe tg t) (.connTimeout :: rs)
       o.exch = [⟨renewRequest cfg svc sid t, .connTimeout⟩] ∧ o.res = .exc .connTimeout ∧ get? o.rt sid = none) := by
  simp [runCall, doResubscribe, hr, nextReact, get?_erase_self _ _ hn]

/-- **A successful call returns the SID and the granted timeout** — subscribe: a 200 with SID `s` and a
    TIMEOUT header inside the domain returns `(s, granted)`, routes `s` to the service. -/
theorem subscribe_returns_grant (cfg : Cfg) (rt : Routing) (svc : Nat) (t : Int) (s : Str)
    (th : Option Str) (rs : List Reaction) (g : Int) (hg : grantedTimeout th t = some g) :
    let o := runCall cfg rt (.subscribe svc t) (.resp 200 (some s) th :: rs)
    o.res = .sub s g ∧ get? o.rt s = some svc := by
  have hsome : (grantedTimeout th 0).isSome = true := by
    cases th with
    | none => rfl
    | some v =>
      simp only [grantedTimeout] at hg ⊢
      repeat' split at hg
      all_goals simp_all
  obtain ⟨g', hg', hp⟩ := inScope_parse th t hsome
  rw [hg] at hg'; cases hg'
  rcases hp with ⟨hk, rfl⟩ | hk <;>
    simp [runCall, doSubscribe, nextReact, subscribeFinish, guards_pinned.1, hk, get?_set_self]

/-- … renewal: a 200 returns the (possibly new) SID and the granted timeout; a new SID replaces the old
    one in the routing table. -/
theorem renewal_returns_grant (cfg : Cfg) (rt : Routing) (tg : Target) (t : Int) (sid' th : Option Str)
    (rs : List Reaction) (hn : (keys rt).Nodup) (sid : Str) (svc : Nat)
    (hr : resolve rt tg = some (sid, svc)) (g : Int) (hg : grantedTimeout th t = some g) :
    let o := runCall cfg rt (.resubscribe tg t) (.resp 200 sid' th :: rs)
    o.res = .sub (renewedSid sid sid') g ∧ get? o.rt (renewedSid sid sid') = some svc
    ∧ (renewedSid sid sid' ≠ sid → get? o.rt sid = none) := by
  have hsome : (grantedTimeout th 0).isSome = true := by
    cases th with
    | none => rfl
    | some v =>
      simp only [grantedTimeout] at hg ⊢
      repeat' split at hg
      all_goals simp_all
  obtain ⟨g', hg', hp⟩ := inScope_parse th t hsome
  rw [hg] at hg'; cases hg'
  have herase : renewedSid sid sid' ≠ sid →
      get? (set (erase rt sid) (renewedSid sid sid') svc) sid = none := by
    intro hne
    rw [get?_set_ne _ _ _ _ hne]
    exact get?_erase_self _ _ hn
  rcases hp with ⟨hk, rfl⟩ | hk
  · simp only [runCall, doResubscribe, hr, nextReact, renewFinish, guards_pinned.2, hk, ne_eq, not_true_eq_false, if_false]
    refine ⟨trivial, get?_set_self _ _ _, ?_⟩
    intro hne; simp only [hne, not_false_eq_true, if_true]; exact herase hne
  · simp only [runCall, doResubscribe, hr, nextReact, renewFinish, guards_pinned.2, hk, ne_eq, not_true_eq_false, if_false]
    refine ⟨trivial, get?_set_self _ _ _, ?_⟩
    intro hne; simp only [hne, not_false_eq_true, if_true]; exact herase hne

/-! ### non-vacuity: a concrete history through every kind of call and reaction -/

def exCfg : Cfg := ⟨['d',':','1'], ['h',':','/','/','c']⟩
def sA : Str := ['a']
def sB : Str := ['b']
def sC : Str := ['c']
def t300 : Str := secondPrefix ++ ['3','0','0']

/-- subscribe two services, renew with a new SID, a refused renewal with fallback, an unreachable renewal,
    an unconfirmed unsubscribe, renew-all and unsubscribe-all -/
def exHist : List (Call × List Reaction) :=
  [ (.subscribe 0 1800, [.resp 200 (some sA) (some t300)]),
    (.subscribe 1 600, [.resp 200 (some sB) none]),
    (.resubscribe (.svc 0) 1800, [.resp 200 (some sC) (some secondInfinite)]),
    (.resubscribe (.sid sB) 1800, [.resp 412 none none, .resp 200 (some sA) none]),
    (.resubscribeAll, [.resp 200 none none, .connTimeout]),
    (.unsubscribe (.svc 0), [.resp 500 none none]),
    (.subscribe 1 1, [.resp 200 (some sB) none]),
    (.unsubscribeAll, [.connErr]) ]

example : ∀ p ∈ exHist, callWF p.1 := by decide
/-- `Grants` / `Revokes` are inhabited: an initial 200 grants its SID, a renewal answered with another SID grants the
    new one and revokes the old one, an unanswered UNSUBSCRIBE revokes -/
example : Grants ⟨subscribeRequest exCfg 0 1800, .resp 200 (some sA) none⟩ sA 0 :=
  ⟨by decide, rfl, _, _, rfl, Or.inl ⟨by decide, rfl⟩⟩
example : Grants ⟨renewRequest exCfg 0 sA 1800, .resp 200 (some sC) none⟩ sC 0 :=
  ⟨by decide, rfl, _, _, rfl, Or.inr ⟨sA, by decide, Or.inl ⟨rfl, by decide, by decide⟩⟩⟩
example : Revokes ⟨renewRequest exCfg 0 sA 1800, .resp 200 (some sC) none⟩ sA :=
  ⟨by decide, Or.inr ⟨by decide, by
    rintro ⟨sid', th, h, hc⟩
    cases h
    rcases hc with ⟨h, _, _⟩ | ⟨_, h | h | h⟩ <;> revert h <;> decide⟩⟩
example : Revokes ⟨unsubRequest exCfg 0 sA, .connErr⟩ sA := ⟨by decide, Or.inl (by decide)⟩
/-- `call_facts_unconditional` is not vacuous outside `callWF`: a negative timeout is not well-formed, the model
    still registers the granted SID for the service, and the publisher-side fold gives that same table -/
example : ¬ callWF (.subscribe 0 (-5)) := by decide
example : (runCallS exCfg false [] (.subscribe 0 (-5)) [.resp 200 (some sA) none]).rt = [(sA, 0)]
    ∧ (runCallS exCfg false [] (.subscribe 0 (-5)) [.resp 200 (some sA) none]).exch.foldl foldExch [] = [(sA, 0)] := by
  decide
/-- the example history is inside the domain at every step and the judge accepts it (evaluated) -/
example : (modelTrace exCfg [sA, sB, sC] 2 [] exHist).all stepInScope = true := by decide
/-- a renewal answered with a new SID and `Second-abc`: judged, accepted (old SID gone, new one routed) -/
example : ok (modelTrace exCfg [sA, sB] 1 [] [(.subscribe 0 1800, [.resp 200 (some sA) none]),
    (.resubscribe (.sid sA) 1800, [.resp 200 (some sB) (some (secondPrefix ++ ['a','b','c']))])]) = true := by decide
example : ok (modelTrace exCfg [sA, sB, sC] 2 [] exHist) = true := by decide
example : ok (modelTraceS exCfg true [sA, sB, sC] 2 [] exHist) = true := by decide
/-- with a suspending requester renew-all sends both renewals before the fallback SUBSCRIBE -/
example : ((runCallS exCfg true [(sA, 0), (sB, 1)] .resubscribeAll [.resp 412 none none, .connErr, .resp 200 (some sC) none]).exch.map
    fun e => (isRenewal e.req, e.req.svc)) = [(true, 0), (true, 1), (false, 0)] := by decide
/-- and it is not accepted trivially: dropping the routing update of one step is rejected -/
example : ok ((modelTrace exCfg [sA, sB, sC] 2 [] exHist).map
    fun s => { s with routed := s.routed.map fun p => (p.1, none) }) = false := by decide
/-- a `Second-1800.0` renewal (defect F09a) is rejected by the request-validity clause -/
example : validTimeoutText (secondPrefix ++ ['1','8','0','0','.','0']) = false := by decide
example : resolve [(sA, 0)] (.svc 0) = some (sA, 0) := by decide

end Upnp.C09
