import Upnp.Spec.C09
namespace Upnp.C09
open Upnp PyDict

theorem unsub_request_has_sid (cfg : Cfg) (svc : Nat) (sid : Str) :
    hdr (unsubRequest cfg svc sid) kSID = some sid := by
  simp [hdr, unsubRequest, mkReq, Gen.C09Gena.unsubReq, evalHdr, kSID, PyDict.get?]

end Upnp.C09
