/-
  C10 — NOTIFY requests are routed by SID and applied completely.

  Property theorems only (lemmas: `Upnp/Lemmas/C10*.lean`).  The model (`Upnp/Model/C10Notify.lean`)
  transcribes `handle_notify`, `notify_changed_state_variables`, `has_state_variable` /
  `state_variable` and the `upnp_value` setter; the header ladder and the coercer kinds come from the
  tables GENERATED from event_handler.py / const.py (`Upnp/Gen/C10Notify.lean`).  `C10.stepOk` is the
  judge the driver evaluates on the real handler's observations; `handleNotify` is what it replays.
-/
import Upnp.Lemmas.C10Step
set_option linter.unusedSectionVars false
namespace Upnp.C10
open Upnp PyDict Upnp.C09
variable [FloatOracle]

/-- **Status selection** (over the generated ladder): for every combination of present / absent / wrong
    NT, NTS, SID the leading header tests return 400 when NT or NTS is missing, 412 when NT / NTS is wrong
    or SID is missing, and fall through (to the 200 paths) otherwise; no header combination raises. -/
theorem status_spec (h : NHeaders) :
    runLadder h Gen.C10Notify.notifyLadder =
      (if specStatus h = 200 then none else some (.status (specStatus h)))
    ∧ Gen.C10Notify.backlogStatus = 200 ∧ Gen.C10Notify.doneStatus = 200 := ladder_spec h

/-- **Conversion IS C08's**: what `upnp_value = text` does to a variable's cell is `C08.setUpnpValue` for the
    variable's row of the generated type table and its strict-mode schema — for every one of the 26 data
    types, so C08's theorems (accepted spellings, both offset signs, range / allowed-list semantics) are
    the conversion facts of C10. -/
theorem conversion_is_c08 (v : Var) (text : Str) (tick : Nat) :
    ((setUpnpValue v text tick).1.st.stored,
     (if (setUpnpValue v text tick).2 then Upnp.C08.SetRes.ok else .upnpValueError))
      = Upnp.C08.setUpnpValue FloatOracle.ops table v.row v.sc v.st.stored text := by
  unfold setUpnpValue Upnp.C08.setUpnpValue Upnp.C08.setValue
  rcases convert_total v text with ⟨x, hc⟩ | hc
  · have hc' : Upnp.C08.coercePython FloatOracle.ops table v.row text = .ok x := hc
    rw [hc, hc']
    simp only [validate]
    split <;> simp_all
  · have hc' : Upnp.C08.coercePython FloatOracle.ops table v.row text = .error .valueError := hc
    rw [hc, hc']
    simp

/-- no conversion exception can leave `handle_notify`: the loop as coded never exits early -/
theorem no_exception_escapes (s : Svc) (b : Body) (tick : Nat) :
    notifyChangedE s (changesOf b) tick = (notifyChanged s (changesOf b) tick, none) :=
  notifyChangedE_eq s _ tick

end Upnp.C10

namespace Upnp.C10
open Upnp PyDict Upnp.C09
variable [FloatOracle]

/-- **Status selection on the handler, for every state** (no well-formedness of the handler needed): a NOTIFY
    whose body is XML is answered 400 / 412 / 200 by the rule, whether its SID is routed, foreign or unknown. -/
theorem status_any_handler (h : Handler) (n : Notify) (tick : Nat) (hm : n.malformed = false) :
    (handleNotify h n tick).2 = .status (specStatus n.hdrs) := by
  have hspec := (status_spec n.hdrs).1
  rw [handleNotify_eq]
  by_cases h200 : specStatus n.hdrs = 200
  · rw [if_pos h200] at hspec
    have hsid : ∃ s, n.hdrs.sid = some s := by
      cases hs : n.hdrs.sid with
      | some s => exact ⟨s, rfl⟩
      | none =>
        simp only [specStatus, hs, Option.isNone_none, Bool.or_true] at h200
        split at h200 <;> simp at h200
    obtain ⟨s, hs⟩ := hsid
    simp only [hspec, hs, hm, h200, (status_spec n.hdrs).2.1, (status_spec n.hdrs).2.2]
    cases get? h.rt s <;> simp
  · rw [if_neg h200] at hspec
    simp only [hspec]

/-- **Unknown names are skipped, for every property set**: the entries of the `changes` dict whose tag resolves
    to no state variable of the service can be deleted without changing anything (no hypothesis on the body or
    on the declarations). -/
theorem unknown_names_skipped (names : List Str) (tick : Nat) (ch : List (Str × Str)) (vars : List Var) (acc : List Str) :
    applyChanges names tick ch vars acc
      = applyChanges names tick (ch.filter fun p => (resolveName names p.1).isSome) vars acc := by
  rw [applyChanges_named, applyChanges_named]
  congr 1
  induction ch with
  | nil => rfl
  | cons p r ih =>
    simp only [List.filterMap_cons, List.filter_cons]
    cases hres : resolveName names p.1 with
    | none => simpa [hres] using ih
    | some n => simp [hres, ih]

/-- the handler's services are the declared ones (distinct, brace-free variable names per service) -/
def handlerWF (decls : List (List Var)) (h : Handler) : Prop :=
  h.svcs.map declsOf = decls ∧ ∀ ds ∈ decls, declsWF ds

/-- **C10, one request.**  For every handler state (any routing table, any backlog, any current values),
    every NOTIFY request (any header combination, any property set) and any time: the model's observations
    satisfy the judge `C10.stepOk` — status by the 400 / 412 / 200 rule; not 200 or SID not routed: nothing
    changes anywhere, no callback; routed and well-formed: every declared variable of that service ends as
    `specVar` prescribes, independently of the other properties (valid → stored and stamped; not convertible
    → reads absent, listed; out of range / not allowed → untouched; not named / unknown names → untouched),
    exactly one callback listing exactly the replaced variables; every other service untouched. -/
theorem c10_step (decls : List (List Var)) (h : Handler) (hwf : handlerWF decls h) (n : Notify) (tick : Nat) :
    stepOk decls (modelObs h n tick) = true ∧ handlerWF decls (handleNotify h n tick).1 := by
  obtain ⟨hd, hds⟩ := hwf
  have hspec := (status_spec n.hdrs).1
  have hback := (status_spec n.hdrs).2.1
  have hdone := (status_spec n.hdrs).2.2
  subst hd
  have e : evDrop = fun p => List.drop p.fst.events.length p.snd.events := rfl
  have hsame := svcsOkAux_same n.body tick none h.svcs 0 (by intro i hi; cases hi)
  rw [e] at hsame
  simp only [stepOk, modelObs, svcsOk, Bool.or_eq_true, Bool.and_eq_true, beq_iff_eq, handleNotify_eq]
  by_cases h200 : specStatus n.hdrs = 200
  · rw [if_pos h200] at hspec
    have hsid : ∃ s, n.hdrs.sid = some s := by
      cases hs : n.hdrs.sid with
      | some s => exact ⟨s, rfl⟩
      | none =>
        simp only [specStatus, hs, Option.isNone_none, Bool.or_true] at h200
        split at h200 <;> simp at h200
    obtain ⟨s, hs⟩ := hsid
    simp only [hspec, hs, h200, Option.bind_some, beq_self_eq_true, if_true]
    cases hr : get? h.rt s with
    | none =>
      simp only [hback]
      exact ⟨Or.inr ⟨trivial, hsame⟩, rfl, hds⟩
    | some i =>
      by_cases hm : n.malformed = true
      · simp only [hm, if_true]
        exact ⟨Or.inl trivial, rfl, hds⟩
      · simp only [hm, Bool.false_eq_true, if_false, hdone]
        refine ⟨Or.inr ⟨trivial, ?_⟩, ?_, hds⟩
        · have := svcsOkAux_modify n.body tick (fun sv => notifyChanged sv (changesOf n.body) tick) h.svcs i 0
            (fun sv hsv hb => (routedSvcOk_model sv
              ((declsWF_blank sv.vars).mp (hds _ (List.mem_map_of_mem (f := declsOf) hsv))) n.body hb tick).1)
          rw [e] at this
          simpa using this
        · exact declsOf_modifyAt _ _ _ fun sv _ => notifyChanged_decls sv _ _
  · rw [if_neg h200] at hspec
    have hne : (specStatus n.hdrs == 200) = false := by simpa using h200
    simp only [hspec, hne, h200, Bool.false_eq_true, if_false]
    exact ⟨Or.inr ⟨trivial, hsame⟩, rfl, hds⟩

/-- **C10, sequences.**  Every sequence of NOTIFY requests, from every well-formed handler state. -/
theorem c10_history (decls : List (List Var)) (ns : List Notify) (h : Handler) (hwf : handlerWF decls h) (k : Nat) :
    ok decls (modelTrace h ns k) = true := by
  induction ns generalizing h k with
  | nil => rfl
  | cons n r ih =>
    have hs := c10_step decls h hwf n k
    simp only [modelTrace, ok, List.all_cons, Bool.and_eq_true]
    exact ⟨hs.1, ih _ hs.2 _⟩

/-- **Applied completely, each property on its own.**  In a service with distinct brace-free variable
    names and for a well-formed property set, every variable `v` ends in the state `specVar` prescribes — a
    function of `v`'s own declaration, its own previous state and the text carried for `v` alone — and is
    listed in the (single, last) callback exactly when its stored value was replaced. -/
theorem apply_complete (s : Svc) (hs : declsWF s.vars) (b : Body) (hb : bodyWF b = true) (tick : Nat)
    (v : Var) (hv : v ∈ s.vars) :
    let s' := notifyChanged s (changesOf b) tick
    ∃ v' listed, v' ∈ s'.vars ∧ v'.decl = v.decl ∧ s'.events = s.events ++ [listed]
      ∧ (Stored.read v'.st.stored, v'.st.updated, listed.contains v.decl.name)
          = specVar v b tick (Stored.read v.st.stored) v.st.updated := by
  have hnd : (s.vars.map (·.decl.name)).Nodup := hs.1
  have hx : s.names.contains v.decl.name = true := by
    simp only [Svc.names, List.contains_eq_mem, List.mem_map, decide_eq_true_eq]
    exact ⟨v, hv, rfl⟩
  simp only [notifyChanged_spec s hs b hb tick]
  obtain ⟨h1, h2⟩ := varAfter_spec s.names (names_braceFree s hs) b hb tick v hx
  refine ⟨varAfter (assigns s.names b) tick v, _, List.mem_map_of_mem hv, h1.1, rfl, ?_⟩
  rw [listedOf_contains _ (assigns_nodup s.names (names_braceFree s hs) b hb) tick s.vars hnd v hv]
  exact h2

/-- **Exact semantics for ANY property set** (no `bodyWF`: repeated elements and `x` / `{ns}x` mixed included).
    With distinct variable names, one event leaves every variable as the fold of the `upnp_value` setter over
    the entries of the `changes` dict addressed to it (tag resolving to its name), in dict order — each entry
    converted and stored on its own, a rejected one leaving what the previous one stored —, and the single callback
    lists, in that order, the entries that did not raise `UpnpValueError` (a variable addressed through two tags is
    listed twice).  `apply_complete` is the `bodyWF` special case with at most one entry per variable. -/
theorem apply_exact_any_body (s : Svc) (hnd : (s.vars.map (·.decl.name)).Nodup) (b : Body) (tick : Nat) :
    notifyChanged s (changesOf b) tick =
      { vars := s.vars.map (varFold tick (assigns s.names b)),
        events := s.events ++ [listedOf (assigns s.names b) tick s.vars] } := by
  unfold notifyChanged
  rw [applyChanges_named s.names tick (changesOf b)]
  have := applyNamed_exact tick (assigns s.names b) s.vars hnd []
  unfold assigns at this ⊢
  rw [this]
  simp

/-- **Isolation**: the outcome for a variable does not depend on the other properties — two well-formed
    property sets that carry the same text (or nothing) for `v` leave `v` in the same state. -/
theorem isolation (s : Svc) (hs : declsWF s.vars) (b1 b2 : Body) (hb1 : bodyWF b1 = true) (hb2 : bodyWF b2 = true)
    (tick : Nat) (v : Var) (hv : v ∈ s.vars)
    (hc : carried v.decl.name b1 = carried v.decl.name b2) :
    varAfter (assigns s.names b1) tick v = varAfter (assigns s.names b2) tick v := by
  have hx : s.names.contains v.decl.name = true := by
    simp only [Svc.names, List.contains_eq_mem, List.mem_map, decide_eq_true_eq]
    exact ⟨v, hv, rfl⟩
  simp only [varAfter, ← carried_assigns s.names (names_braceFree s hs) _ hb1 v.decl.name hx,
    ← carried_assigns s.names (names_braceFree s hs) _ hb2 v.decl.name hx, hc]

/-- **The callback runs exactly once** per applied event, whatever the property set contains. -/
theorem callback_once (s : Svc) (b : Body) (tick : Nat) :
    ∃ listed, (notifyChanged s (changesOf b) tick).events = s.events ++ [listed] :=
  notifyChanged_events s _ tick

/-- **Frame**: a NOTIFY changes at most the service its SID is routed to; an unrouted SID or a rejected
    request changes no service at all. -/
theorem frame (h : Handler) (n : Notify) (tick : Nat) :
    (∀ i, n.hdrs.sid.bind (get? h.rt) = some i →
        (handleNotify h n tick).1.svcs = h.svcs
        ∨ (handleNotify h n tick).1.svcs = modifyAt h.svcs i fun s => notifyChanged s (changesOf n.body) tick)
    ∧ (n.hdrs.sid.bind (get? h.rt) = none → (handleNotify h n tick).1.svcs = h.svcs) := by
  rw [handleNotify_eq]
  constructor
  · intro i hi
    cases hl : runLadder n.hdrs Gen.C10Notify.notifyLadder with
    | some r => exact Or.inl rfl
    | none =>
      cases hs : n.hdrs.sid with
      | none => exact Or.inl rfl
      | some s =>
        simp only [hs, Option.bind_some] at hi
        simp only [hi]
        by_cases hm : n.malformed = true
        · simp only [hm, if_true]; exact Or.inl trivial
        · simp only [hm, Bool.false_eq_true, if_false]; exact Or.inr trivial
  · intro hnone
    cases hl : runLadder n.hdrs Gen.C10Notify.notifyLadder with
    | some r => rfl
    | none =>
      cases hs : n.hdrs.sid with
      | none => rfl
      | some s =>
        simp only [hs, Option.bind_some] at hnone
        simp only [hnone]

end Upnp.C10

/-! ### non-vacuity -/
namespace Upnp.C10.Ex
open Upnp PyDict Upnp.C09 Upnp.C10

/-- no floats in the example: an oracle that knows none -/
local instance : FloatOracle := ⟨{ repr := fun _ => [], parse := fun _ => none, le := fun _ _ => false, eq := fun _ _ => false }⟩

def exDecls : List Decl :=
  [ { name := ['A'], dtype := ['u','i','2'], range := some (some ['0'], some ['1','0','0']) },
    { name := ['B'], dtype := ['s','t','r','i','n','g'], allowed := some [['x'], ['y']] },
    { name := ['C'], dtype := ['b','o','o','l','e','a','n'] },
    { name := ['D'], dtype := ['i','4'] },
    { name := ['T'], dtype := ['d','a','t','e','T','i','m','e','.','t','z'] } ]

def exVars : List Var := exDecls.filterMap mkVar
def exVars1 : List Var := [{ name := ['A'], dtype := ['i','4'] }].filterMap mkVar

def exHandler : Handler :=
  { rt := [(['s','0'], 0), (['s','1'], 1)], svcs := [ { vars := exVars }, { vars := exVars1 } ] }

/-- A=50 valid, B=q not allowed, C=yes valid (namespaced), D=zz not convertible, Zed unknown,
    T = a dateTime.tz with a NEGATIVE colon offset -/
def exNotify : Notify :=
  { hdrs := ⟨some ntEvent, some ntsPropchange, some ['s','0']⟩,
    body := [ ⟨true, [⟨[], ['A'], ['5','0']⟩, ⟨[], ['B'], ['q']⟩]⟩, ⟨false, [⟨[], ['A'], ['7']⟩]⟩,
              ⟨true, [⟨['u',':','q'], ['C'], ['y','e','s']⟩, ⟨[], ['D'], ['z','z']⟩, ⟨[], ['Z','e','d'], ['1']⟩,
                      ⟨[], ['T'], "2021-03-04T05:06:07-05:00".toList⟩]⟩ ] }

example : exVars.length = 5 ∧ exVars1.length = 1 := by decide
example : handlerWF [exVars, exVars1] exHandler := by
  refine ⟨by rfl, ?_⟩
  intro ds hds
  simp only [List.mem_cons, List.mem_nil_iff, or_false] at hds
  rcases hds with rfl | rfl <;> exact ⟨by decide, by decide⟩
example : bodyWF exNotify.body = true := by decide
example : (modelObs exHandler exNotify 7).res = .status 200 := by decide
/-- the routed service's callback lists A, C, D (its stored value was replaced by the error marker) and T -/
example : (modelObs exHandler exNotify 7).events = [[[['A'], ['C'], ['D'], ['T']]], []] := by decide
example : (modelObs exHandler exNotify 7).after =
    [[(['A'], .int 50, some 7), (['B'], .none, none), (['C'], .bool true, some 7), (['D'], .none, none),
      (['T'], .datetime ⟨2021, 3, 4⟩ ⟨5, 6, 7⟩ (some (-300)), some 7)],
     [(['A'], .none, none)]] := by decide
/-- the judge is not trivially true: reporting the other service's `A` as changed is rejected -/
example : stepOk [exVars, exVars1]
    { modelObs exHandler exNotify 7 with after :=
        [[(['A'], .int 50, some 7), (['B'], .none, none), (['C'], .bool true, some 7), (['D'], .none, none),
          (['T'], .datetime ⟨2021, 3, 4⟩ ⟨5, 6, 7⟩ (some (-300)), some 7)],
         [(['A'], .int 50, some 7)]] } = false := by decide
/-- … and so is a negative-offset dateTime read back as absent (the regression the lead reported) -/
example : stepOk [exVars, exVars1]
    { modelObs exHandler exNotify 7 with after :=
        [[(['A'], .int 50, some 7), (['B'], .none, none), (['C'], .bool true, some 7), (['D'], .none, none),
          (['T'], .none, none)],
         [(['A'], .none, none)]] } = false := by decide

/-- mixed tags (outside `bodyWF`, not judged at run time): `[A=1, {u:q}A=2, A=3]` — the dict holds `A ↦ 3` then
    `{u:q}A ↦ 2`, so A ends at 2 and is listed twice; `apply_exact_any_body` is the theorem behind this value -/
def exMixed : Notify :=
  { hdrs := ⟨some ntEvent, some ntsPropchange, some ['s','0']⟩,
    body := [⟨true, [⟨[], ['A'], ['1']⟩, ⟨['u',':','q'], ['A'], ['2']⟩, ⟨[], ['A'], ['3']⟩]⟩] }
example : bodyWF exMixed.body = false := by decide
example : ((modelObs exHandler exMixed 3).after.head?.bind (·.head?)) = some (['A'], .int 2, some 3)
    ∧ (modelObs exHandler exMixed 3).events = [[[['A'], ['A']]], []] := by decide

end Upnp.C10.Ex
