import Upnp.Spec.C10
namespace Upnp.C10
open Upnp PyDict Upnp.C09

/-- placeholder while the check is wired up; replaced by the real theorems -/
theorem specStatus_ok : specStatus ⟨some ntEvent, some ntsPropchange, some []⟩ = 200 := by decide

end Upnp.C10
