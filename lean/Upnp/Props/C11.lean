/-
  C11 — events that race the SUBSCRIBE response are not lost.

  Property theorems only (lemmas: `Upnp/Lemmas/C11*.lean`).  The model (`Upnp/Model/C11Race.lean`) is
  event driven: subscribe call started / NOTIFY arrived / SUBSCRIBE response arrived, the last one running
  the tail of `async_subscribe` to completion (register the SID, replay the per-SID backlog in arrival
  order, delete it).  `C11.ok` is the judge the driver evaluates on the real handler's observations under
  the deterministic scheduler; `C11.step` is what the driver replays.
-/
import Upnp.Lemmas.C11Sched
set_option linter.unusedSectionVars false
namespace Upnp.C11
open Upnp PyDict Upnp.C09 Upnp.C10
variable [FloatOracle]

/-- **C11, main theorem.**  For every schedule of the external events — subscribe calls started, NOTIFYs
    arriving for any SID with any headers and property sets, SUBSCRIBE responses of any kind arriving, in any
    order and number, over any number of services with distinct brace-free variable names — the model's
    observations satisfy the judge `C11.ok`: as long as the schedule is inside the domain (one subscribe per
    service, distinct SIDs, well-formed property sets), every NOTIFY with valid headers is answered 200 and
    after every event every variable of every service is absent if no NOTIFY for the SID granted to that
    service carried it and otherwise holds the value of the latest such NOTIFY whose text is valid — whether
    that NOTIFY arrived before or after the response. -/
theorem c11_schedules (cfg : Cfg) (decls : List (List Var)) (hd : ∀ ds ∈ decls, declsWF ds) (evs : List Ev) :
    ok decls (modelTrace cfg (initSt decls) evs 0) = true :=
  schedules_from cfg decls hd evs _ _ 0 (inv_init decls)

end Upnp.C11

namespace Upnp.C11
open Upnp PyDict Upnp.C09 Upnp.C10
variable [FloatOracle]

/-- **Exact values and exact callback counts.**  For every schedule inside the domain: after it, every service
    holds EXACTLY what the NOTIFYs received for the SID granted to it leave when applied one after the other in
    arrival order with C10's per-event semantics (`ideal`: a valid text is stored, an unconvertible one reads
    absent, an out-of-range one leaves the previous value) — nothing for a service without a granted SID, nothing
    from NOTIFYs for other SIDs — and has seen exactly one callback per such NOTIFY.  This is stronger than the
    run-time judge (which makes no demand when the latest text is invalid and bounds the callback count). -/
theorem c11_exact (cfg : Cfg) (decls : List (List Var)) (hd : ∀ ds ∈ decls, declsWF ds) (evs : List Ev)
    (hs : allInScope {} evs = true) :
    let s := run cfg (initSt decls) evs 0
    let js := evs.foldl advance {}
    s.h.svcs.length = decls.length ∧
    ∀ i ds sv, decls[i]? = some ds → s.h.svcs[i]? = some sv →
      valsOf sv = ideal ds (notifiesFor js i) ∧ sv.events.length = (notifiesFor js i).length := by
  have key : ∀ (evs : List Ev) (s : St) (js : JS) (k : Nat), Inv decls s js → allInScope js evs = true →
      Inv decls (run cfg s evs k) (evs.foldl advance js) := by
    intro evs
    induction evs with
    | nil => intro s js k inv _; exact inv
    | cons e r ih =>
      intro s js k inv hsc
      simp only [allInScope, Bool.and_eq_true] at hsc
      simp only [run, List.foldl_cons]
      exact ih _ _ _ (step_inv cfg decls hd s js inv e k hsc.1).1 hsc.2
  exact (key evs _ _ 0 (inv_init decls) hs).svcs

/-- **The model's atomic events are the code's** (audit C11-1): no suspension point in `handle_notify`, none in
    `async_subscribe` between registering the SID and returning other than the replay's own `handle_notify` calls —
    so no NOTIFY can be processed between "SID registered" and "backlog replayed" and overtake an early one. -/
theorem atomicity_pinned : atomicOk = true := by decide

/-- **What the publisher sees is what `handle_notify` answers** (round 4): the library's notify server hands headers
    and body of every NOTIFY to the event handler unchanged and answers with the handler's status — it takes no
    decision of its own (read from `aiohttp.py` by the translator), so "each early NOTIFY is answered 200" at the
    handler is the answer on the wire. -/
theorem notify_server_forwards_pinned : Gen.C11Race.notifyServerForwards = true := by decide

/-- the driver's diagnostic walk is the judge: a trace is accepted iff no observation is reported -/
theorem ok_iff_no_first_bad (decls : List (List Var)) (js : JS) (l : List Obs) (i : Nat) :
    okFrom decls js l = (firstBadFrom decls js l i).isNone := by
  induction l generalizing js i with
  | nil => rfl
  | cons o r ih =>
    simp only [okFrom, firstBadFrom]
    by_cases hs : evInScope js o.ev = true
    · simp only [hs, if_true]
      by_cases h : (outOk o && valsOk decls (advance js o.ev) o.vals && cbsOk decls (advance js o.ev) o.cbs) = true
      · simp only [h, if_true, Bool.true_and]; exact ih _ _
      · simp [h]
    · simp [hs]

/-- **Each early NOTIFY is answered 200**: whatever the handler's state (SID routed, not yet routed, never
    routed), a NOTIFY with valid headers is answered 200. -/
theorem early_notify_200 (h : Handler) (n : Notify) (tick : Nat) (hk : hdrsOk n.hdrs = true)
    (hm : n.malformed = false) :
    (handleNotify h n tick).2 = .status 200 := by
  obtain ⟨sid, hsid⟩ := hdrsOk_sid hk
  rw [handleNotify_ok h n tick hk sid hsid hm]
  cases get? h.rt sid <;> rfl

/-- **No loss**: when the response granting SID `x` to service `svc` arrives, the whole backlog of `x` —
    every NOTIFY that raced the response, in arrival order — is applied to `svc` exactly as if each had
    arrived after the subscribe call returned (whatever TIMEOUT header the response carries); the call returns the SID; the backlog entry is gone. -/
theorem no_loss (h : Handler) (svc : Nat) (t : Int) (x : Str) (th : Option Str) (tick : Nat)
    (hitems : ∀ n ∈ (get? h.backlog x).getD [], hdrsOk n.hdrs = true ∧ n.hdrs.sid = some x ∧ n.malformed = false) :
    ∃ g, finishSubscribe h svc t (.resp 200 (some x) th) tick =
      ((⟨PyDict.set h.rt x svc, erase h.backlog x,
         modifyAt h.svcs svc fun sv =>
          ((get? h.backlog x).getD []).foldl (fun sv n => notifyChanged sv (changesOf n.body) tick) sv⟩ : Handler),
       .sub x g) := by
  obtain ⟨g, hfin⟩ := grant_any_timeout h.rt svc t x th
  refine ⟨g, ?_⟩
  have := replay_spec { h with rt := PyDict.set h.rt x svc } x svc (get?_set_self _ _ _) _ hitems tick
  have hE := replayE_eq { h with rt := PyDict.set h.rt x svc } x svc (get?_set_self _ _ _) _ hitems tick
  simp only [finishSubscribe, hfin, hE, this]

/-- **Early NOTIFYs for SIDs that are never granted affect no service**: as long as no response grants a
    SID, every service stays exactly as it was, whatever NOTIFYs arrive. -/
theorem ungranted_inert (cfg : Cfg) (evs : List Ev) (s : St) (k : Nat) (hrt : s.h.rt = [])
    (hng : ∀ e ∈ evs, ∀ svc x th, e ≠ .respond svc (.resp 200 (some x) th)) :
    (run cfg s evs k).h.svcs = s.h.svcs ∧ (run cfg s evs k).h.rt = [] := by
  induction evs generalizing s k with
  | nil => exact ⟨rfl, hrt⟩
  | cons e r ih =>
    simp only [run]
    have hstep : (step cfg s e k).1.h.svcs = s.h.svcs ∧ (step cfg s e k).1.h.rt = [] := by
      cases e with
      | start svc t => simp only [step]; split <;> exact ⟨rfl, hrt⟩
      | notify n =>
        simp only [step, handleNotify_eq]
        split
        · exact ⟨rfl, hrt⟩
        · split
          · exact ⟨rfl, hrt⟩
          · rename_i sid _
            simp only [hrt, get?]
            exact ⟨trivial, trivial⟩
      | respond svc re =>
        simp only [step]
        split
        · exact ⟨rfl, hrt⟩
        · rename_i t _
          have hr : ∀ x th, re ≠ .resp 200 (some x) th := by
            intro x th e
            exact hng (.respond svc re) List.mem_cons_self svc x th (by rw [e])
          obtain ⟨e, hfin⟩ := subscribeFinish_nogrant s.h.rt svc t re hr
          simp only [finishSubscribe, hfin]
          exact ⟨trivial, hrt⟩
    have := ih (step cfg s e k).1 (k + 1) hstep.2 (fun e' he' => hng e' (List.mem_cons_of_mem _ he'))
    exact ⟨this.1.trans hstep.1, this.2⟩

end Upnp.C11

/-! ### non-vacuity: the schedule of defect F11a -/
namespace Upnp.C11.Ex
open Upnp PyDict Upnp.C09 Upnp.C10 Upnp.C11

local instance : FloatOracle := ⟨{ repr := fun _ => [], parse := fun _ => none, le := fun _ _ => false, eq := fun _ _ => false }⟩

def exCfg : Cfg := ⟨['d'], ['c']⟩
def exDecls : List (List Var) :=
  [([{ name := ['A'], dtype := ['u','i','2'], range := some (some ['0'], some ['1','0','0']) },
     { name := ['B'], dtype := ['s','t','r','i','n','g'] }] : List Decl).filterMap mkVar]
def sid0 : Str := ['s','0']
def okHdrs : NHeaders := ⟨some ntEvent, some ntsPropchange, some sid0⟩
/-- NOTIFY{A=1,B=x}, NOTIFY{A=2}, a NOTIFY for a SID never granted, then the SUBSCRIBE response -/
def exSchedule : List Ev :=
  [ .start 0 1800,
    .notify ⟨okHdrs, [⟨true, [⟨[], ['A'], ['1']⟩, ⟨[], ['B'], ['x']⟩]⟩], false⟩,
    .notify ⟨okHdrs, [⟨true, [⟨[], ['A'], ['2']⟩]⟩], false⟩,
    .notify ⟨⟨some ntEvent, some ntsPropchange, some ['z']⟩, [⟨true, [⟨[], ['A'], ['9']⟩]⟩], false⟩,
    .respond 0 (.resp 200 (some sid0) none) ]

example : (exDecls.map List.length) = [2] := by decide
example : ∀ ds ∈ exDecls, declsWF ds := by
  intro ds hds
  simp only [exDecls, List.mem_singleton] at hds
  subst hds
  exact ⟨by decide, by decide⟩
example : allInScope {} exSchedule = true := by decide
example : ok exDecls (modelTrace exCfg (initSt exDecls) exSchedule 0) = true := by decide
/-- after the response: A holds the value of the latest NOTIFY, B the value only the first one carried -/
example : readVals (run exCfg (initSt exDecls) exSchedule 0) = [[(['A'], .int 2), (['B'], .str ['x'])]] := by
  decide
/-- the judge rejects the behaviour of the one-slot backlog (B lost) -/
example : ok exDecls ((modelTrace exCfg (initSt exDecls) exSchedule 0).map fun o =>
    { o with vals := o.vals.map fun l => l.map fun p => if p.1 = ['B'] then (p.1, .none) else p }) = false := by decide
/-- … and a callback made on behalf of a NOTIFY whose SID was never granted -/
example : ok exDecls ((modelTrace exCfg (initSt exDecls) exSchedule 0).map fun o =>
    { o with cbs := o.cbs.map (· + 1) }) = false := by decide

/-- `c11_exact` says more than the judge: A=1 then A=999 (out of range) before the response leaves exactly 1 -/
def exInvalidLatest : List Ev :=
  [ .start 0 1800,
    .notify ⟨okHdrs, [⟨true, [⟨[], ['A'], ['1']⟩]⟩], false⟩,
    .notify ⟨okHdrs, [⟨true, [⟨[], ['A'], ['9','9','9']⟩]⟩], false⟩,
    .respond 0 (.resp 200 (some sid0) (some ['S','e','c','o','n','d','-','a','b'])) ]
example : readVals (run exCfg (initSt exDecls) exInvalidLatest 0) = [[(['A'], .int 1), (['B'], .none)]] := by decide
example : allInScope {} (exInvalidLatest.take 3) = true := by decide

end Upnp.C11.Ex
