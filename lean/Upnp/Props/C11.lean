import Upnp.Spec.C11
namespace Upnp.C11
open Upnp PyDict Upnp.C09 Upnp.C10

/-- placeholder while the check is wired up; replaced by the real theorems -/
theorem hdrsOk_ok : hdrsOk ⟨some ntEvent, some ntsPropchange, some []⟩ = true := by decide

end Upnp.C11
