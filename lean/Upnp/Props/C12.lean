/-
  C12 — profile subscriptions are all-or-nothing, kept alive, and cleanly ended.
  Property theorems only (helper lemmas are in `Upnp/Lemmas/C12*.lean`).
-/
import Upnp.Model.C12Cfg
import Upnp.Model.C12Profile
import Upnp.Spec.C12
namespace Upnp.C12

/-- the shapes the model transcribes are the shapes the translator found -/
theorem gen_shapes_pinned : Gen.C12Profile.shapesPinned = true := by decide

end Upnp.C12
