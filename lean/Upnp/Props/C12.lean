/-
  C12 — profile subscriptions are all-or-nothing, kept alive, and cleanly ended.

  Property theorems only (helper lemmas: `Upnp/Lemmas/C12*.lean`).  The model
  (`Upnp/Model/C12Profile.lean`) transcribes profiles/profile.py on top of the event handler's
  routing-table effects; `Upnp.C12.run` is the very function the correspondence driver runs, with the
  configuration `genCfg` the translator extracted from the source on this run.  The clause predicates
  (`subOkPost`, `subFailPost`, `cleanSnap`, the `spin` / `cb` events) are the ones the run-time judge
  `Upnp.C12.ok` (Spec/C12.lean) applies to the implementation's trace.

  All theorems hold for every state reachable by caller operations (`reachable_consistent`), every
  publisher script (reactions, granted timeouts, latencies), every number of services, every point in
  time — no bounds.
-/
import Upnp.Model.C12Cfg
import Upnp.Model.C12ServiceMax
import Upnp.Gen.C12ServiceTypes
import Upnp.Lemmas.C12Ops
import Upnp.Lemmas.C12Sub
import Upnp.Lemmas.C12Renew
import Upnp.Lemmas.C12Mon
import Upnp.Lemmas.C12Rep
import Upnp.Lemmas.C12Yield
import Upnp.Lemmas.C12Lapse
import Upnp.Lemmas.C12Zeno
import Upnp.Lemmas.C12C09
import Upnp.Lemmas.C12Sound
import Upnp.Spec.C12
namespace Upnp.C12
open Upnp PyDict

/-! ### what the translator found in profiles/profile.py (a source change breaks these) -/

/-- the renewal round renews overdue subscriptions too (no stale-skip), keeps the SID in the
    bookkeeping while its renewal is in flight, and a finished renewal task is forgotten -/
theorem gen_shapes : genCfg.skipStale = false ∧ genCfg.delEarly = false ∧ genCfg.clearDone = true
    ∧ Gen.C12Profile.shapesPinned = true := by decide

/-- the subscribe loop iterates the profile device's services **including those of embedded devices** (the
    profile resolves its services through `find_service()`, which descends): the `n` services the model
    subscribes are all of `profile_device.all_services` that belong to the profile -/
theorem gen_subscribes_embedded : Gen.C12Profile.subscribesEmbedded = true := by decide

/-- the renewal margin is positive and shorter than the timeout asked for -/
theorem gen_constants : 0 < genCfg.tol ∧ genCfg.tol < genCfg.subTimeout := by decide

/-- the code renews exactly the property's margin (`Spec.marginSecs` = 60 s) before the earliest deadline.  The
    judge uses the property's constant, never the code's: with a smaller `RESUBSCRIBE_TOLERANCE` this theorem breaks
    AND the judge (still at 60 s) reports the lapses on the implementation's traces. -/
theorem gen_margin : genCfg.tol = marginSecs := by decide

/-- **service_tables_contiguous** ("all … of its profile's services" starts here): for every profile class
    (DmrDevice, DmsDevice, IgdDevice, PrinterDevice, ConnectionManagerMixin) and every service alias, the set of
    service types extracted from `_SERVICE_TYPES` is exactly `prefix:1 … prefix:n` — no gap, no missing top
    version, no missing or extra alias — with `n` the documented maximum (`Model/C12ServiceMax.lean`).
    Dropping or adding a version or an alias in the source changes `Gen.C12ServiceTypes` and breaks this. -/
theorem service_tables_contiguous :
    Gen.C12ServiceTypes.serviceTypes = serviceMax.map (fun r => (r.1, r.2.1, r.2.2.1, upTo r.2.2.2)) := by decide

/-- the same for `DEVICE_TYPES`: every device version `1 … n` of the profile's device type is accepted -/
theorem device_tables_contiguous :
    Gen.C12ServiceTypes.deviceTypes = deviceMax.map (fun r => (r.1, r.2.1, upTo r.2.2)) := by decide

/-- spelled out: no version below the maximum is missing from any table -/
theorem service_versions_no_gap :
    ∀ r ∈ Gen.C12ServiceTypes.serviceTypes, ∀ v, 1 ≤ v → v ≤ r.2.2.2.length → v ∈ r.2.2.2 := by
  intro r hr v h1 h2
  rw [service_tables_contiguous] at hr
  obtain ⟨q, _, rfl⟩ := List.mem_map.1 hr
  simp only [upTo, List.length_map, List.length_range, List.mem_map, List.mem_range] at h2 ⊢
  exact ⟨v - 1, by omega, by omega⟩

/-! ### reachable states -/

/-- every state reachable by any sequence of caller operations against any publisher is consistent:
    bookkeeping and routing table are dictionaries, every routed SID is in the bookkeeping, an in-flight
    renewal's SID is still in the bookkeeping -/
theorem reachable_consistent (n : Nat) (script : List Entry) (dflt : Entry) (ops : List Op) :
    Core (run genCfg n script dflt ops) ∧ TaskOk (run genCfg n script dflt ops) :=
  run_core genCfg gen_shapes.2.1 n script dflt ops

/-! ### all or nothing -/

/-- **all_or_nothing**: `async_subscribe_services` called while nothing is subscribed — for every number
    `n` of profile services, every publisher script, auto-renewal or not — emits
    `call, requests…, ret, snapshot` such that either it returned normally and the judge's `subOkPost` holds
    (exactly one SUBSCRIBE per profile service `0..n-1` and nothing else, all granted, the bookkeeping holds
    exactly the granted SIDs, all routed), or it raised and the judge's `subFailPost` holds (some SUBSCRIBE
    failed; bookkeeping empty, no renewal task, none of the SIDs granted during the call routed, an
    UNSUBSCRIBE issued for each of them). -/
theorem all_or_nothing (cfg : Cfg) (n : Nat) (auto : Bool) (st : St) (h : Core st)
    (hh : st.halted = false) (hs : st.subs = []) (ha : st.task.alive = false) :
    ∃ (reqs : List Req) (res : Res) (t : Time) (subs routed : List Sid) (task av : Bool),
      (doSub cfg n auto st).rtrace =
        .snap t subs routed task av :: .ret t (.sub auto) res :: (reqs.reverse.map Ev.req) ++ .call st.now (.sub auto) :: st.rtrace
      ∧ (res = none → subOkPost n reqs subs routed = true)
      ∧ (res ≠ none → subFailPost n reqs subs routed task = true) :=
  all_or_nothing_shape cfg n auto st h hh hs ha

/-- non-vacuity: three services, the second SUBSCRIBE refused: raises, SID 1 unsubscribed again;
    and all three accepted: three SIDs held and routed -/
example :
    (run genCfg 3 [⟨.ok, .sec 300, 0⟩, ⟨.refuse, .sec 61, 250⟩] ⟨.ok, .sec 1800, 0⟩ [Op.sub true]).trace.drop 1
      = [.req ⟨0, .sub, 0, none, .ok, .sec 300, 0, some 1⟩, .req ⟨0, .sub, 1, none, .refuse, .sec 61, 250, none⟩,
         .req ⟨250, .unsub, 0, some 1, .ok, .sec 1800, 0, none⟩, .ret 250 (.sub true) (some .refuse),
         .snap 250 [] [] false true]
    ∧ (run genCfg 3 [] ⟨.ok, .sec 1800, 0⟩ [Op.sub true]).trace.getLast? = some (.snap 0 [1, 2, 3] [1, 2, 3] true true) := by
  decide

/-- **all_or_nothing_trace** (the judge's "all or nothing" clause, whole-trace form): for every number of
    services, publisher script and sequence of caller operations (a `sub` issued while something is subscribed or a
    renewal task is alive is a no-op of the model — manual re-subscription is not modelled — so "every subscribe
    call in the history" means every FIRST subscription of a session), the clause monitor `aonMon` of the
    run-time judge, run over the model's complete trace, flags nothing — every subscribe call in the history
    ends in a snapshot satisfying `subOkPost` / `subFailPost` for exactly the requests of that call. -/
theorem all_or_nothing_trace (n : Nat) (script : List Entry) (dflt : Entry) (ops : List Op) :
    (aonMon n (run genCfg n script dflt ops).trace).bad = [] := by
  rw [aonMon_trace]
  suffices H : ∀ st, Core st → TaskOk st → AonInv n st → AonInv n (ops.foldl (step genCfg n) st) from
    (H _ (Core.init script dflt) (by simp [TaskOk, init]) (AonInv.init n script dflt)).bad
  induction ops with
  | nil => intro st _ _ hi; exact hi
  | cons op r ih =>
    intro st h ht hi
    have hc := step_core genCfg gen_shapes.2.1 n st op h ht
    refine ih _ hc.1 hc.2 ?_
    cases op with
    | sub auto => exact aonInv_sub genCfg n auto st h hi
    | wait d => exact aonInv_wait genCfg n d st hi
    | unsub => exact aonInv_unsub genCfg gen_shapes.2.1 n st h ht hi

/-! ### the renewal loop always yields -/

/-- **loop_yields**: from the loop head the renewal loop reaches an await (a sleep or a request) or
    ends within two iterations — the fuel `|subscriptions| + 2` of the run-to-quiescence closure is never
    exhausted, i.e. no `spin` is emitted.  For every state, every clock value, every deadline. -/
theorem loop_yields (cfg : Cfg) (hs : cfg.skipStale = false) (st : St) (hn : (keys st.subs).Nodup) :
    (runHead cfg (headFuel st) st).halted = st.halted := by
  unfold headFuel; exact runHead_no_spin cfg hs _ st hn

theorem loop_yields_gen (st : St) (h : Core st) : (runHead genCfg (headFuel st) st).halted = st.halted :=
  loop_yields genCfg gen_shapes.1 st h.subsNodup

/-- the await budget of every `wait` of the run sufficed (decidable: it is a `Bool` of the executable model).
    A `wait` of `d` ms may perform `(d/125 + 64)·(|subscriptions| + 2)` awaits (`waitFuel`); only a publisher
    under which virtual time stops advancing — granted timeouts ≤ tolerance answered with zero latency, i.e.
    outside the property's quantifier `61..1800 s` — exhausts it. -/
def BudgetOk (n : Nat) (script : List Entry) (dflt : Entry) (ops : List Op) : Bool :=
  !(run genCfg n script dflt ops).halted

/-- subscribing never halts a run -/
theorem doSub_halted (n : Nat) (auto : Bool) (st : St) (h : Core st) : (doSub genCfg n auto st).halted = st.halted := by
  unfold doSub
  split
  · rfl
  · have hl := subLoop_core genCfg st.now (List.range n) (st.emit (.call st.now (.sub auto))) (h.emit _)
    have hnow : (st.emit (.call st.now (.sub auto))).now = st.now := rfl
    simp only [hnow]
    generalize subLoop genCfg st.now (List.range n) (st.emit (.call st.now (.sub auto))) = L at hl
    obtain ⟨S, err⟩ := L
    cases err with
    | some e =>
      dsimp only at hl ⊢
      show (unsubscribeServices S).halted = _
      rw [(unsubscribeServices_clean S hl.1).2.2.2.1, hl.2.2]; rfl
    | none =>
      dsimp only at hl ⊢
      split
      · show S.halted = _; rw [hl.2.2]; rfl
      · show S.halted = _; rw [hl.2.2]; rfl

/-- unsubscribing never halts a run (the loop head reaches an await, `loop_yields`) -/
theorem doUnsub_halted (st : St) (h : Core st) (ht : TaskOk st) : (doUnsub genCfg st).halted = st.halted := by
  by_cases hh : st.halted = true
  · simp [doUnsub, hh]
  have hh' : st.halted = false := by simpa using hh
  have hset : (settle genCfg (st.emit (.call st.now .unsub))).halted = false := by
    rw [settle_halted genCfg gen_shapes.1 (st.emit (.call st.now .unsub)) h.subsNodup]; exact hh'
  have hc := (settle_core genCfg gen_shapes.2.1 _ (h.emit (.call st.now .unsub)) (by simpa [TaskOk, St.emit] using ht)).1
  unfold doUnsub
  simp only [hh', Bool.false_eq_true, if_false, hset]
  show (unsubscribeServices _).halted = false
  rw [(unsubscribeServices_clean _ hc).2.2.2.1]; exact hset

/-- **yield_trace** (the judge's "always yields" clause, whole-trace form).

    For every history whose waits stayed within their await budget (`BudgetOk`, decidable) the trace contains
    no `spin`.  The renewal loop itself always reaches an await (`loop_yields`), subscribing and unsubscribing
    never halt a run (`doSub_halted`, `doUnsub_halted`), so `BudgetOk` can only fail inside a `wait`, when more
    than one renewal round per 125 ms of virtual time is performed for the whole wait — which needs granted
    timeouts at or below the tolerance answered without delay (outside the property's quantifier; the real
    code's behaviour at that point — a zero-delay flood of renewals that does yield to the event loop — is
    recorded by the harness probe `zeno_probe` in the evidence).  Not proved: that `BudgetOk` holds for every
    script whose granted timeouts exceed the tolerance (Zeno-freedom of `waitLoop`). -/
theorem yield_trace (n : Nat) (script : List Entry) (dflt : Entry) (ops : List Op)
    (hb : BudgetOk n script dflt ops = true) :
    yieldBad (run genCfg n script dflt ops).trace = [] := by
  have hh : (run genCfg n script dflt ops).halted = false := by
    unfold BudgetOk at hb; simpa using hb
  have hinv : NoSpinInv (run genCfg n script dflt ops) := by
    clear hh hb
    unfold run
    suffices H : ∀ st, Core st → TaskOk st → NoSpinInv st → NoSpinInv (ops.foldl (step genCfg n) st) from
      H _ (Core.init script dflt) (by simp [TaskOk, init]) (by intro _ e he; simp [init] at he)
    induction ops with
    | nil => intro st _ _ hi; exact hi
    | cons op r ih =>
      intro st h ht hi
      have hc := step_core genCfg gen_shapes.2.1 n st op h ht
      refine ih _ hc.1 hc.2 ?_
      cases op with
      | sub auto => exact noSpin_doSub genCfg n auto st h hi
      | wait d => exact noSpin_doWait genCfg gen_shapes.1 gen_shapes.2.1 d st hi
      | unsub => exact noSpin_doUnsub genCfg gen_shapes.1 gen_shapes.2.1 st h ht hi
  have hno := hinv hh
  unfold yieldBad
  split
  · rename_i hany
    rw [List.any_eq_true] at hany
    obtain ⟨e, he, hf⟩ := hany
    have he' : e ∈ (run genCfg n script dflt ops).rtrace := by simpa [St.trace] using he
    have := hno e he'
    cases e <;> simp_all [Ev.isSpin]
  · rfl

/-- non-vacuity, and the reason for the hypothesis: with the stale-skip of the unrepaired code a single
    subscription whose deadline is more than the tolerance in the past makes the loop spin (F12a) -/
example :
    let cfg : Cfg := { genCfg with skipStale := true }
    let st : St := { now := 131000, subs := [(1, 62000)], routed := [(1, 0)] }
    (runHead cfg (headFuel st) st).halted = true ∧ (runHead genCfg (headFuel st) st).halted = false := by
  decide

/-! ### clean unsubscribe -/

/-- **clean_unsubscribe**: after `async_unsubscribe_services` returns — at every point it can be
    issued: task not started, sleeping, awaiting a renewal reply, awaiting the fall-back SUBSCRIBE's reply,
    ended — the bookkeeping is empty, no SID at all is routed, the renewal task is gone, and the
    snapshot the model emits satisfies the judge's `cleanSnap` for every set of SIDs ever granted. -/
theorem clean_unsubscribe (cfg : Cfg) (hd : cfg.delEarly = false) (hs : cfg.skipStale = false)
    (st : St) (h : Core st) (ht : TaskOk st) (hh : st.halted = false) :
    (doUnsub cfg st).subs = [] ∧ (doUnsub cfg st).routed = [] ∧ (doUnsub cfg st).task = .none
    ∧ (doUnsub cfg st).halted = false
    ∧ ∃ t av rest, (doUnsub cfg st).rtrace = .snap t [] [] false av :: .ret t .unsub none :: rest
        ∧ ∀ ever, cleanSnap ever [] [] false = true := by
  have hset : (settle cfg (st.emit (.call st.now .unsub))).halted = false := by
    have := settle_halted cfg hs (st.emit (.call st.now .unsub)) h.subsNodup
    rw [this]; exact hh
  have hc := (settle_core cfg hd _ (h.emit (.call st.now .unsub)) (by simpa [TaskOk, St.emit] using ht)).1
  have hu := unsubscribeServices_clean _ hc
  have hhalt : (doUnsub cfg st).halted = false := by
    unfold doUnsub
    simp only [hh, Bool.false_eq_true, if_false, hset]
    show (unsubscribeServices _).halted = false
    rw [hu.2.2.2.1]; exact hset
  have := doUnsub_clean cfg hd st h ht hhalt
  refine ⟨this.1, this.2.1, this.2.2, hhalt, ?_⟩
  unfold doUnsub
  simp only [hh, Bool.false_eq_true, if_false, hset]
  generalize unsubscribeServices (settle cfg (st.emit (.call st.now .unsub))) = U at hu ⊢
  refine ⟨U.now, U.avail, U.rtrace, ?_, fun ever => by simp [cleanSnap]⟩
  simp only [St.snap, St.emit, hu.1, hu.2.1, hu.2.2.1, keys, List.map_nil, sortSids_nil, TaskPc.alive]

theorem clean_unsubscribe_gen (n : Nat) (script : List Entry) (dflt : Entry) (ops : List Op)
    (hh : (run genCfg n script dflt ops).halted = false) :
    (doUnsub genCfg (run genCfg n script dflt ops)).subs = []
    ∧ (doUnsub genCfg (run genCfg n script dflt ops)).routed = []
    ∧ (doUnsub genCfg (run genCfg n script dflt ops)).task = .none :=
  let r := reachable_consistent n script dflt ops
  let c := clean_unsubscribe genCfg gen_shapes.2.1 gen_shapes.1 _ r.1 r.2 hh
  ⟨c.1, c.2.1, c.2.2.1⟩

/-- non-vacuity: unsubscribe while the renewal reply of SID 1 is outstanding (the F12b interleaving);
    with the early delete of the unrepaired code SID 1 stays routed -/
example :
    let script : List Entry := [⟨.ok, .sec 61, 0⟩, ⟨.ok, .sec 61, 50000⟩]
    let ops := [Op.sub true, Op.wait 10125, Op.unsub]
    (run genCfg 1 script ⟨.ok, .sec 1800, 0⟩ ops).routed = []
    ∧ (run { genCfg with delEarly := true } 1 script ⟨.ok, .sec 1800, 0⟩ ops).routed = [(1, 0)] := by
  decide

/-- nothing is subscribed and no task exists -/
def Quiet (st : St) : Prop := st.subs = [] ∧ st.task = .none ∧ st.halted = false

/-- **no further requests (and no late callback)**: once unsubscribed, waiting (any duration) and unsubscribing
    again send nothing and report nothing — the trace grows by events none of which is a request or an event
    callback — until the caller subscribes again -/
theorem quiet_after_unsubscribe (cfg : Cfg) (n : Nat) (st : St) (hq : Quiet st) (op : Op)
    (hop : ∀ a, op ≠ .sub a) :
    Quiet (step cfg n st op) ∧ ∃ evs, (step cfg n st op).rtrace = evs ++ st.rtrace ∧ ∀ e ∈ evs, e.isReq = false ∧ e.isCb = false := by
  obtain ⟨hs, htk, hh⟩ := hq
  cases op with
  | sub a => exact absurd rfl (hop a)
  | wait d =>
    have hk : ∃ k, waitFuel d st = k + 1 := by
      refine ⟨waitFuel d st - 1, ?_⟩
      have : 0 < waitFuel d st := by unfold waitFuel; exact Nat.mul_pos (by omega) (by omega)
      omega
    obtain ⟨k, hk⟩ := hk
    simp only [step, doWait, hh, Bool.false_eq_true, if_false, hk, waitLoop, htk]
    refine ⟨⟨?_, ?_, ?_⟩, [_], rfl, ?_⟩
    · simpa [St.snap, St.emit] using hs
    · simp [St.snap, St.emit]
    · simp [St.snap, St.emit, hh]
    · simp [Ev.isReq, Ev.isCb]
  | unsub =>
    simp only [step, doUnsub, hh, Bool.false_eq_true, if_false, settle, St.emit, htk, unsubscribeServices, hs, keys,
      List.map_nil, unsubAll, St.snap]
    refine ⟨⟨rfl, rfl, ?_⟩, [_, _, _], rfl, ?_⟩
    · simp [hh]
    · simp [Ev.isReq, Ev.isCb]

/-- the state after `clean_unsubscribe` is `Quiet`, so both theorems chain: after unsubscribing returns no
    further request is sent for any continuation of waits and unsubscribes -/
theorem quiet_run (cfg : Cfg) (n : Nat) (ops : List Op) (hops : ∀ op ∈ ops, ∀ a, op ≠ .sub a) :
    ∀ st, Quiet st → ∃ evs, (ops.foldl (step cfg n) st).rtrace = evs ++ st.rtrace ∧ ∀ e ∈ evs, e.isReq = false ∧ e.isCb = false := by
  induction ops with
  | nil => intro st _; exact ⟨[], rfl, by simp⟩
  | cons op r ih =>
    intro st hq
    obtain ⟨hq', e1, h1, h2⟩ := quiet_after_unsubscribe cfg n st hq op (hops op List.mem_cons_self)
    obtain ⟨e2, g1, g2⟩ := ih (fun o ho => hops o (List.mem_cons_of_mem _ ho)) _ hq'
    refine ⟨e2 ++ e1, by simp only [List.foldl_cons]; rw [g1, h1, List.append_assoc], ?_⟩
    intro e he
    rcases List.mem_append.1 he with he | he
    · exact g2 e he
    · exact h2 e he

/-- **clean_trace** (the judge's "cleanly ended" clause, whole-trace form): for every number of services,
    every publisher script and every sequence of caller operations, the clause monitor `cleanMon` of the
    run-time judge, run over the model's complete trace, flags nothing — after every `ret unsub` the
    snapshot satisfies `cleanSnap` for the set of all SIDs granted so far, and no request appears between
    an unsubscribe's return and the next subscribe call. -/
theorem clean_trace (n : Nat) (script : List Entry) (dflt : Entry) (ops : List Op) :
    (cleanMon (run genCfg n script dflt ops).trace).bad = [] := by
  rw [cleanMon_trace]
  suffices H : ∀ st, Core st → TaskOk st → CleanInv st →
      CleanInv (ops.foldl (step genCfg n) st) from
    (H _ (Core.init script dflt) (by simp [TaskOk, init]) (CleanInv.init script dflt)).bad
  induction ops with
  | nil => intro st _ _ hi; exact hi
  | cons op r ih =>
    intro st h ht hi
    have hc := step_core genCfg gen_shapes.2.1 n st op h ht
    refine ih _ hc.1 hc.2 ?_
    cases op with
    | sub auto => exact cleanInv_sub genCfg n auto st h hi
    | wait d => exact cleanInv_wait genCfg d st hi
    | unsub => exact cleanInv_unsub genCfg gen_shapes.2.1 gen_shapes.1 st h ht hi

/-! ### kept alive: renewals are sent before the deadline -/

/-- **wake_margin**: whenever the renewal loop goes to sleep, it will wake a full tolerance before
    every deadline in the bookkeeping (`wait_time = min(deadlines) - now - tolerance`) -/
theorem wake_margin (cfg : Cfg) (hs : cfg.skipStale = false) (hd : cfg.delEarly = false) :
    ∀ (f : Nat) (st : St) (u : Time), (runHead cfg f st).task = .sleeping u →
      ∀ p ∈ (runHead cfg f st).subs, u + ms cfg.tol ≤ p.2 := by
  intro f
  induction f with
  | zero => intro st u h; simp [runHead] at h
  | succ f ih =>
    intro st u
    simp only [runHead]
    split
    · intro h; simp at h
    · rename_i p ps hsubs
      split
      · rename_i hw
        intro h
        simp only [TaskPc.sleeping.injEq] at h
        subst h
        intro q hq
        exact head_sleep_margin cfg st p ps hsubs hw q hq
      · split
        · rename_i haw
          intro h
          obtain ⟨_, _, _, _, _, _, _, _, _, _, _, _, _, _, h9, _⟩ := roundStep_request cfg hs hd st.now st.subs st haw
          rw [h9] at h; cases h
        · exact ih _ u

/-- **renew_round_start**: the loop wakes at `u` (a tolerance before every deadline, `wake_margin`); if
    the publisher's next reactions — one per subscription — accept with latencies adding up to less than
    the tolerance, the first renewal request of the round is sent at `u`, a full tolerance before the
    deadline of its SID, and the calm-round invariant holds -/
theorem renew_round_start (cfg : Cfg) (hs : cfg.skipStale = false) (hd : cfg.delEarly = false) (st : St) (u : Time)
    (hm : ∀ p ∈ st.subs, u + ms cfg.tol ≤ p.2)
    (hc : calmNext st.subs.length st.script st.dflt (ms cfg.tol))
    (haw : (roundStep cfg u st.subs { st with now := u }).2 = true) :
    RoundInv cfg (roundStep cfg u st.subs { st with now := u }).1
    ∧ ∃ (r : Req) (sid : Sid) (rt : Time),
        (roundStep cfg u st.subs { st with now := u }).1.rtrace = .req r :: st.rtrace
        ∧ r.kind = .renew ∧ r.sid = some sid ∧ (sid, rt) ∈ st.subs ∧ r.t = u ∧ r.t + ms cfg.tol ≤ rt := by
  have hc' : calmNext st.subs.length st.script st.dflt (u + ms cfg.tol - u) := by
    have : u + ms cfg.tol - u = ms cfg.tol := by unfold Time at *; omega
    rw [this]; exact hc
  obtain ⟨h1, r, sid, rt, h2, h3, h4, h5, h6, h7⟩ :=
    roundStep_calm cfg hs hd u st.subs { st with now := u } haw hm (Int.le_refl _) hc'
  exact ⟨h1, r, sid, rt, h2, h3, h4, h5, h6, by rw [h6]; exact h7⟩

/-- **renew_round_step** (the inductive step, for rounds of any length): in a calm round, when the reply of
    the in-flight renewal arrives, either the next renewal request is sent at that moment — strictly before
    `round start + tolerance`, hence strictly before the deadline of its SID — and the invariant holds
    again, or the round is over and the loop is back at its head -/
theorem renew_round_step (cfg : Cfg) (hs : cfg.skipStale = false) (hd : cfg.delEarly = false) (st : St)
    (rnow : Time) (queue : List (Sid × Time)) (cur : Sid) (svc : Nat) (fb : Bool) (replyAt : Time) (reac : Reac)
    (tmo : Tmo) (granted : Option Sid)
    (ht : st.task = .inflight rnow queue cur svc fb replyAt reac tmo granted) (hinv : RoundInv cfg st) :
    (∃ (r : Req) (sid : Sid) (rt : Time),
        (deliver cfg { st with now := replyAt }).rtrace = .req r :: st.rtrace
        ∧ r.kind = .renew ∧ r.sid = some sid ∧ (sid, rt) ∈ queue ∧ r.t = replyAt
        ∧ rnow ≤ r.t ∧ r.t < rnow + ms cfg.tol ∧ r.t < rt ∧ RoundInv cfg (deliver cfg { st with now := replyAt }))
    ∨ (∃ X : St, deliver cfg { st with now := replyAt } = runHead cfg (headFuel X) X) := by
  unfold RoundInv at hinv
  rw [ht] at hinv
  obtain ⟨hfb, hacc, hle, hcalm, hmargin⟩ := hinv
  have hpos := calmNext_pos _ _ _ _ hcalm
  unfold deliver
  simp only [ht, hacc, if_true]
  generalize (if (granted.getD cur != cur) = true then erase st.routed cur else st.routed) = R
  split
  · rename_i haw
    left
    obtain ⟨h1, r, sid, rt, h2, h3, h4, h5, h6, h7⟩ := roundStep_calm cfg hs hd rnow queue _ haw hmargin hle hcalm
    refine ⟨r, sid, rt, h2, h3, h4, h5, h6, by rw [h6]; exact hle, ?_, ?_, h1⟩
    · rw [h6]; show replyAt < _; unfold Time at *; omega
    · rw [h6]; show replyAt < _; unfold Time at *; omega
  · right
    exact ⟨_, rfl⟩

/-- **deadline_le_expiry**: the deadline the profile stores when a renewal sent at `r.t` in the round
    started at `rnow ≤ r.t` is accepted (`rnow + granted timeout`) is never later than the expiry the
    publisher holds for it (`arrival + granted timeout`, the judge's `expiryOf`) — so "sent before the
    profile's deadline" implies "arrives before the publisher's expiry" -/
theorem deadline_le_expiry (cfg : Cfg) (rnow : Time) (r : Req) (h : rnow ≤ r.t) (e : Time)
    (he : expiryOf cfg.subTimeout r = some e) : rnow + ms (r.tmo.secs cfg) ≤ e := by
  unfold expiryOf at he
  cases ht : r.tmo with
  | sec k => simp only [ht, Option.some.injEq] at he; simp only [Tmo.secs, ms]; unfold Time at *; omega
  | infinite => simp [ht] at he
  | absent => simp only [ht, Option.some.injEq] at he; simp only [Tmo.secs, ms]; unfold Time at *; omega

/-- composition of `wake_margin` and `renew_round_start` for the generated configuration (the whole-trace
    statement including rounds that start without sleeping is `lapse_trace` / `renew_before_expiry` below) -/
theorem renew_round_from_sleep (st : St) (u : Time) (f : Nat) (st0 : St)
    (hst : st = runHead genCfg f st0) (ht : st.task = .sleeping u)
    (hc : calmNext st.subs.length st.script st.dflt (ms genCfg.tol))
    (haw : (roundStep genCfg u st.subs { st with now := u }).2 = true) :
    RoundInv genCfg (roundStep genCfg u st.subs { st with now := u }).1
    ∧ ∃ (r : Req) (sid : Sid) (rt : Time),
        (roundStep genCfg u st.subs { st with now := u }).1.rtrace = .req r :: st.rtrace
        ∧ r.kind = .renew ∧ r.sid = some sid ∧ (sid, rt) ∈ st.subs ∧ r.t + ms genCfg.tol ≤ rt := by
  have hm : ∀ p ∈ st.subs, u + ms genCfg.tol ≤ p.2 := by
    subst hst; exact wake_margin genCfg gen_shapes.1 gen_shapes.2.1 f st0 u ht
  obtain ⟨h1, r, sid, rt, h2, h3, h4, h5, _, h7⟩ := renew_round_start genCfg gen_shapes.1 gen_shapes.2.1 st u hm hc haw
  exact ⟨h1, r, sid, rt, h2, h3, h4, h5, h7⟩

/-- non-vacuity: two subscriptions (61 s and 300 s), the loop wakes at 1 s, both renewals are sent at
    1.0 s and 1.25 s — before 61 s — and again 60 s before the new earliest deadline -/
example :
    ((run genCfg 2 [⟨.ok, .sec 61, 0⟩, ⟨.ok, .sec 300, 0⟩, ⟨.ok, .sec 61, 250⟩] ⟨.ok, .sec 300, 0⟩
        [Op.sub true, Op.wait 70000]).trace.filterMap fun e => match e with
          | .req r => if r.kind == .renew then some (r.t, r.sid) else none
          | _ => none)
      = [(1000, some 1), (1250, some 2), (2000, some 1), (2000, some 2)] := by
  decide

/-- **lapse_trace** (the judge's "kept alive" clause, whole-trace form): for every number of services,
    every publisher script and every sequence of caller operations, the clause monitor `lapseMon` of the
    run-time judge, run over the model's complete trace, flags nothing.  `lapseMon` recomputes the
    publisher's expiry table from the request log (arrival + granted timeout) and, while auto-renewal is in
    force and its decidable flag `calm` holds, demands that every renewal request arrives no later than the
    expiry of its SID and that no subscription in the table has expired at any snapshot.  `calm` is the
    latency hypothesis as a predicate on the history: every SUBSCRIBE of the session so far was accepted, every
    finite granted timeout is at least the tolerance, and every window of `n` consecutive request latencies
    adds up to less than the tolerance.  Rounds that start without sleeping are included (window argument,
    `Lemmas/C12Lapse.lean`). -/
theorem lapse_trace (n : Nat) (script : List Entry) (dflt : Entry) (ops : List Op) :
    (lapseMon n marginSecs genCfg.subTimeout (run genCfg n script dflt ops).trace).bad = [] := by
  rw [← gen_margin, lapseMon_trace]
  have hsubT : (genCfg.tol : Int) * 1000 ≤ (genCfg.subTimeout : Int) * 1000 := by decide
  suffices H : ∀ st, Core st → TaskOk st → LP genCfg n st → LP genCfg n (ops.foldl (step genCfg n) st) from
    (H _ (Core.init script dflt) (by simp [TaskOk, init])
      ⟨rfl, fun ha => by simp [lapseOf, init] at ha⟩).bad
  induction ops with
  | nil => intro st _ _ hi; exact hi
  | cons op r ih =>
    intro st h ht hi
    have hc := step_core genCfg gen_shapes.2.1 n st op h ht
    refine ih _ hc.1 hc.2 ?_
    cases op with
    | sub auto => exact lapse_doSub genCfg gen_shapes.2.2.1 gen_constants.1 hsubT n auto st h hi
    | wait d => exact lapse_doWait genCfg gen_shapes.1 gen_shapes.2.1 hsubT n d st h ht hi
    | unsub => exact lapse_doUnsub genCfg gen_shapes.2.1 n st h ht hi

/-- the latency hypothesis, as the judge evaluates it: the monitor is still `calm` after the history -/
def CalmHistory (n : Nat) (tr : List Ev) : Bool := (lapseMon n marginSecs genCfg.subTimeout tr).calm

/-- **renew_before_expiry**: in any history, a renewal request for SID `s` that is issued while auto-renewal
    is in force and the history so far is calm arrives no later than the expiry the publisher holds for
    `s` — for every granted timeout ≥ tolerance, every number of services, any number of rounds, rounds
    started from a sleep or not.  (`tr` is any prefix of a model trace that ends just before the request.) -/
theorem renew_before_expiry (n : Nat) (script : List Entry) (dflt : Entry) (ops : List Op)
    (pre post : List Ev) (r : Req) (s : Sid) (e : Time)
    (htr : (run genCfg n script dflt ops).trace = pre ++ .req r :: post)
    (hk : r.kind = .renew) (hs : r.sid = some s)
    (hauto : (lapseMon n marginSecs genCfg.subTimeout pre).auto = true)
    (hcalm : CalmHistory n pre = true)
    (he : get? (lapseMon n marginSecs genCfg.subTimeout pre).expiry s = some (some e)) : r.t ≤ e := by
  have hbad := lapse_trace n script dflt ops
  rw [htr] at hbad
  -- the monitor's flags only grow: had this request been late it would still be flagged at the end
  have mono : ∀ (evs : List Ev) (m : LapseMon), m.bad ≠ [] → (evs.foldl lapseStep m).bad ≠ [] := by
    intro evs
    induction evs with
    | nil => intro m h; exact h
    | cons x xs ih =>
      intro m h
      simp only [List.foldl_cons]
      apply ih
      have fl : ∀ (c : Bool) (w : String), flagged m.bad c w ≠ [] := by
        intro c w; unfold flagged; split
        · exact h
        · simp
      cases x with
      | req q => simp only [lapseStep]; exact fl _ _
      | cb t a b c => exact h
      | spin t => exact h
      | snap t a b c d =>
        simp only [lapseStep]; split
        · exact fl _ _
        · exact h
      | call t c => cases c <;> exact h
      | ret t c res => cases c <;> exact h
  have hsplit : lapseMon n marginSecs genCfg.subTimeout (pre ++ .req r :: post)
      = post.foldl lapseStep (lapseStep (lapseMon n marginSecs genCfg.subTimeout pre) (.req r)) := by
    simp [lapseMon, List.foldl_append]
  rw [hsplit] at hbad
  have hstep : (lapseStep (lapseMon n marginSecs genCfg.subTimeout pre) (.req r)).bad = [] := by
    cases hb : (lapseStep (lapseMon n marginSecs genCfg.subTimeout pre) (.req r)).bad with
    | nil => rfl
    | cons x xs => exact absurd hbad (mono post _ (by rw [hb]; simp))
  unfold CalmHistory at hcalm
  generalize lapseMon n marginSecs genCfg.subTimeout pre = m at hauto hcalm he hstep
  simp only [lapseStep, hk, hs, hauto, hcalm, lapsed, he, beq_self_eq_true, Bool.true_and, flagged] at hstep
  by_cases hlt : e < r.t
  · simp [hlt] at hstep
  · unfold Time at *; omega

/-- non-vacuity: a calm history with two rounds, the second one starting without a sleep (granted 61 s,
    the round takes 10 s): every renewal is in time, the history stays calm and auto-renewal is in force -/
example :
    let tr := (run genCfg 2 [⟨.ok, .sec 61, 0⟩, ⟨.ok, .sec 300, 0⟩, ⟨.ok, .sec 61, 5000⟩, ⟨.ok, .sec 300, 5000⟩]
      ⟨.ok, .sec 300, 250⟩ [Op.sub true, Op.wait 100000]).trace
    CalmHistory 2 tr = true ∧ (lapseMon 2 marginSecs genCfg.subTimeout tr).auto = true
    ∧ (tr.filterMap fun e => match e with
          | .req r => if r.kind == .renew then some r.t else none
          | _ => none) = [1000, 6000, 11000, 11250] := by
  decide

/-! ### a failed renewal is reported exactly once -/

/-- **failure_reported_once**: when the reply of an in-flight renewal is delivered,
    * a renewal that finally failed (unreachable, or refused and the fall-back SUBSCRIBE failed too)
      appends exactly one callback with an empty change list for that service, directly after the
      request log, and `available` is cleared iff the failure was a connection error;
    * an accepted renewal (or accepted fall-back) appends no callback and leaves `available` alone;
    * a refused renewal is followed by the fall-back SUBSCRIBE for the same service, no callback yet. -/
theorem failure_reported_once (cfg : Cfg) (st : St) (rnow : Time) (rest : List (Sid × Time)) (sid : Sid) (svc : Nat)
    (fb : Bool) (at_ : Time) (reac : Reac) (tmo : Tmo) (granted : Option Sid)
    (ht : st.task = .inflight rnow rest sid svc fb at_ reac tmo granted) :
    (reac.accepts = false → (fb = true ∨ reac = .unreach) →
        ∃ more, (deliver cfg st).rtrace = more ++ .cb st.now svc 0 (st.avail && reac != .unreach) :: st.rtrace
          ∧ (∀ e ∈ more, e.isCb = false) ∧ (deliver cfg st).avail = (st.avail && reac != .unreach))
    ∧ (reac.accepts = true →
        ∃ more, (deliver cfg st).rtrace = more ++ st.rtrace ∧ (∀ e ∈ more, e.isCb = false)
          ∧ (deliver cfg st).avail = st.avail)
    ∧ (reac.accepts = false → fb = false → reac ≠ .unreach →
        ∃ r, (deliver cfg st).rtrace = .req r :: st.rtrace ∧ r.kind = .sub ∧ r.svc = svc ∧ r.t = st.now
          ∧ (deliver cfg st).avail = st.avail) := by
  unfold deliver
  simp only [ht]
  refine ⟨?_, ?_, ?_⟩
  · intro hacc hfin
    simp only [hacc, Bool.false_eq_true, if_false]
    rcases hfin with hfb | hun
    · simp only [hfb, if_true]
      obtain ⟨more, h1, h2, h3⟩ := cont_emits cfg rnow rest (failed st sid svc reac)
      exact ⟨more, h1, h2, h3⟩
    · by_cases hfb : fb = true
      · simp only [hfb, if_true]
        obtain ⟨more, h1, h2, h3⟩ := cont_emits cfg rnow rest (failed st sid svc reac)
        exact ⟨more, h1, h2, h3⟩
      · simp only [hfb, Bool.false_eq_true, if_false, hun, beq_self_eq_true, if_true]
        obtain ⟨more, h1, h2, h3⟩ := cont_emits cfg rnow rest
          (failed { st with routed := erase st.routed sid, task := .inflight rnow rest sid svc false at_ .unreach tmo granted } sid svc .unreach)
        exact ⟨more, h1, h2, h3⟩
  · intro hacc
    simp only [hacc, if_true]
    obtain ⟨more, h1, h2, h3⟩ := cont_emits cfg rnow rest
      { st with routed := set (if granted.getD sid != sid then erase st.routed sid else st.routed) (granted.getD sid) svc,
                subs := set (erase st.subs sid) (granted.getD sid) (rnow + ms (tmo.secs cfg)),
                task := .inflight rnow rest sid svc fb at_ reac tmo granted }
    exact ⟨more, h1, h2, h3⟩
  · intro hacc hfb hun
    have hun' : (reac == Reac.unreach) = false := by simp [hun]
    simp only [hacc, Bool.false_eq_true, if_false, hfb, hun']
    exact ⟨_, rfl, rfl, rfl, rfl, rfl⟩

/-- **report_trace** (the judge's "a failed renewal is reported once" clause, whole-trace form): for every
    number of services, publisher script and sequence of caller operations, the clause monitor `repMon` of
    the run-time judge, run over the model's complete trace, flags nothing: every renewal that finally
    fails is followed at its reply time by exactly one empty-list callback for its service with `available`
    cleared iff the failure was a connection error, a refused renewal is followed by the fall-back SUBSCRIBE,
    no empty-list callback occurs without such a cause, a renewal cancelled by an unsubscribe is not
    reported, and every snapshot shows the `available` flag the reports imply. -/
theorem report_trace (n : Nat) (script : List Entry) (dflt : Entry) (ops : List Op) :
    (repMon (run genCfg n script dflt ops).trace).bad = [] := by
  rw [repMon_trace]
  suffices H : ∀ st, Core st → TaskOk st → RepB st → RepB (ops.foldl (step genCfg n) st) from
    (H _ (Core.init script dflt) (by simp [TaskOk, init])
      ⟨RepInv.init script dflt, fun _ => by simp [Strict, init]⟩).1.bad
  induction ops with
  | nil => intro st _ _ hi; exact hi
  | cons op r ih =>
    intro st h ht hi
    have hc := step_core genCfg gen_shapes.2.1 n st op h ht
    refine ih _ hc.1 hc.2 ?_
    cases op with
    | sub auto => exact rep_doSub genCfg n auto st h hi
    | wait d => exact rep_doWait genCfg gen_shapes.1 gen_shapes.2.1 d st hi
    | unsub => exact rep_doUnsub genCfg gen_shapes.1 gen_shapes.2.1 st h ht hi

/-- non-vacuity: an unreachable publisher at the first renewal: one callback, device marked unavailable -/
example :
    let script : List Entry := [⟨.ok, .sec 61, 0⟩, ⟨.unreach, .sec 61, 250⟩]
    (run genCfg 1 script ⟨.ok, .sec 1800, 0⟩ [Op.sub true, Op.wait 10125]).trace.filter Ev.isCb
      = [.cb 1250 0 0 false] := by
  decide

/-! ### Zeno-freedom: with long timeouts every wait stays within its budget -/

/-- every reaction of the publisher grants a timeout above the tolerance (for an infinite or absent TIMEOUT
    header the client uses the requested one, which is above the tolerance by `gen_constants`).  Decidable;
    the property's quantifier `61..1800 s, infinite, absent` satisfies it. -/
def LongTimeouts (script : List Entry) (dflt : Entry) : Prop := LongS genCfg script dflt

instance (script : List Entry) (dflt : Entry) : Decidable (LongTimeouts script dflt) := by
  unfold LongTimeouts; infer_instance

/-- **budget_ok_of_long_timeouts** (Zeno-freedom of the model's wait loop): if every granted timeout exceeds
    the tolerance, then — whatever else the publisher does (refusals, unreachability, new SIDs, any
    latencies) — consecutive renewal rounds start at least a second of virtual time apart, so no `wait`
    of any history exhausts its await budget: virtual time always advances. -/
theorem budget_ok_of_long_timeouts (n : Nat) (script : List Entry) (dflt : Entry) (ops : List Op)
    (hl : LongTimeouts script dflt) : BudgetOk n script dflt ops = true := by
  have hrun : ZRun genCfg (run genCfg n script dflt ops) := by
    unfold run
    suffices H : ∀ st, Core st → TaskOk st → ZRun genCfg st → ZRun genCfg (ops.foldl (step genCfg n) st) from
      H _ (Core.init script dflt) (by simp [TaskOk, init]) ⟨rfl, ⟨hl, by simp [init]⟩⟩
    induction ops with
    | nil => intro st _ _ hi; exact hi
    | cons op r ih =>
      intro st h ht hi
      have hc := step_core genCfg gen_shapes.2.1 n st op h ht
      refine ih _ hc.1 hc.2 ?_
      cases op with
      | sub auto => exact z_doSub genCfg n auto st h hi
      | wait d => exact z_doWait genCfg gen_shapes.1 gen_shapes.2.1 d st h ht hi
      | unsub => exact z_doUnsub genCfg gen_shapes.1 gen_shapes.2.1 st h ht hi
  unfold BudgetOk
  rw [hrun.halted]; rfl

/-- **yield_trace_long**: for every history against a publisher that grants timeouts above the tolerance the
    trace contains no `spin` — the renewal loop always yields and virtual time always advances. -/
theorem yield_trace_long (n : Nat) (script : List Entry) (dflt : Entry) (ops : List Op)
    (hl : LongTimeouts script dflt) : yieldBad (run genCfg n script dflt ops).trace = [] :=
  yield_trace n script dflt ops (budget_ok_of_long_timeouts n script dflt ops hl)

/-! ### the run-time judge accepts every model trace -/

/-- **judge_accepts_model**: the predicate the driver evaluates on the implementation's trace
    (`Upnp.C12.ok`, the conjunction of the five clause monitors) holds on the trace of every model run — every
    number of services, publisher script, sequence of caller operations — whose waits stayed within their
    await budget.  So the judge applied to implementation traces is exactly the proven property of the
    model, and a correspondence mismatch is the only way the two can differ. -/
theorem judge_accepts_model (n : Nat) (script : List Entry) (dflt : Entry) (ops : List Op)
    (hb : BudgetOk n script dflt ops = true) :
    ok n marginSecs genCfg.subTimeout (run genCfg n script dflt ops).trace = true := by
  unfold ok violations
  rw [all_or_nothing_trace, lapse_trace, report_trace, clean_trace, yield_trace n script dflt ops hb]
  rfl

/-- **judge_accepts_model_long**: the same for every publisher that grants timeouts above the tolerance
    (hypothesis on the publisher script only): the run-time judge accepts every model trace. -/
theorem judge_accepts_model_long (n : Nat) (script : List Entry) (dflt : Entry) (ops : List Op)
    (hl : LongTimeouts script dflt) :
    ok n marginSecs genCfg.subTimeout (run genCfg n script dflt ops).trace = true :=
  judge_accepts_model n script dflt ops (budget_ok_of_long_timeouts n script dflt ops hl)

/-- non-vacuity of `LongTimeouts` (61 s, 1800 s, infinite, absent); 60 s is the excluded point (its behaviour
    on the real code is recorded by the harness' `zeno_probe`) -/
example : LongTimeouts [⟨.ok, .sec 61, 0⟩, ⟨.refuse, .sec 1800, 300000⟩, ⟨.newSid, .infinite, 0⟩] ⟨.unreach, .absent, 0⟩
    ∧ ¬ LongTimeouts [] ⟨.ok, .sec 60, 0⟩ := by
  decide

/-- non-vacuity: a history with a refused renewal, a successful fall-back, an unreachable publisher and an
    unsubscribe during an in-flight renewal stays within budget and is accepted -/
example :
    let script : List Entry := [⟨.ok, .sec 61, 0⟩, ⟨.ok, .sec 120, 250⟩, ⟨.refuse, .sec 61, 1000⟩, ⟨.ok, .sec 90, 0⟩,
      ⟨.unreach, .sec 61, 500⟩, ⟨.ok, .sec 61, 40000⟩]
    let ops := [Op.sub true, Op.wait 20125, Op.wait 30000, Op.unsub, Op.wait 100000]
    BudgetOk 2 script ⟨.ok, .sec 300, 0⟩ ops = true
    ∧ ok 2 marginSecs genCfg.subTimeout (run genCfg 2 script ⟨.ok, .sec 300, 0⟩ ops).trace = true := by
  decide

/-! ### composition with the event-handler model of C09

The profile model carries a minimal routing table (`St.routed`).  C09's model of `UpnpEventHandler`
(`Model/C09Gena.lean`: `doSubscribe`, `doResubscribe`, `doUnsubscribe`, `unsubAll`, proved in `Props/C09.lean` to
mirror the publisher) performs a whole call atomically (request and answer in one step), whereas the profile
model needs the call split in time (reply latency) and cancellable in between, so C09's functions do not replace
`St.routed`; instead every routing-table effect of the profile model is proved to be the effect of the
corresponding C09 call on the rendered table (`mapRt f`, `f` = any injective, never-empty rendering of SID
numbers as SID text), for every publisher answer and TIMEOUT header text.  What remains outside: a call that is
cancelled between request and reply (the profile model applies no / half of the effect, C09's model has no
cancellation) — that part of the tie is the correspondence harness only. -/

/-- **handler_refinement**: (1) an accepted SUBSCRIBE of the subscribe loop, (2) the whole subscribe loop, (3) the
    delivery of an accepted renewal, (4) of an unreachable one, (5) a refused renewal followed by the fall-back
    SUBSCRIBE, (6) the accepted fall-back and (7) unsubscribing all — each is the corresponding call of C09's
    handler model on the rendered routing table. -/
theorem handler_refinement (f : Sid → C09.Str) (hinj : ∀ a b, f a = f b → a = b) (hne : ∀ a, f a ≠ []) (c : C09.Cfg)
    (T : Int) (th : Option C09.Str) (rs : List C09.Reaction) :
    (∀ (now0 : Time) (i : Nat) (st : St), (send st .sub i none).1.reac.accepts = true →
        mapRt f (subNext genCfg now0 i st).routed
          = (C09.doSubscribe c (mapRt f st.routed) i T (.resp 200 (some (f st.nextSid)) th :: rs)).rt)
    ∧ (∀ (now0 : Time) (l : List Nat) (st : St), ∃ calls : List (Nat × C09.Reaction), calls.map (·.1) = l.take calls.length ∧
        c09SubLoop c T calls (mapRt f st.routed)
          = (mapRt f (subLoop genCfg now0 l st).1.routed, (subLoop genCfg now0 l st).2.isNone))
    ∧ (∀ (st : St) (rnow : Time) (rest : List (Sid × Time)) (cur : Sid) (svc : Nat) (replyAt : Time) (reac : Reac)
        (tmo : Tmo) (granted : Option Sid), TaskOk st →
        st.task = .inflight rnow rest cur svc false replyAt reac tmo granted →
        (reac.accepts = true →
          mapRt f (deliver genCfg st).routed
            = (C09.doResubscribe c (mapRt f st.routed) (.sid (f cur)) T (.resp 200 (some (f (granted.getD cur))) th :: rs)).rt)
        ∧ (reac.accepts = false → (reac == Reac.unreach) = true →
          mapRt f (deliver genCfg st).routed = (C09.doResubscribe c (mapRt f st.routed) (.sid (f cur)) T (.connErr :: rs)).rt)
        ∧ (reac.accepts = false → (reac == Reac.unreach) = false →
          (C09.doResubscribe c (mapRt f st.routed) (.sid (f cur)) T (.resp 412 none th :: rs)).rt
            = (C09.doSubscribe c (mapRt f (deliver genCfg st).routed) svc T rs).rt))
    ∧ (∀ (st : St) (rnow : Time) (rest : List (Sid × Time)) (cur : Sid) (svc : Nat) (replyAt : Time) (reac : Reac)
        (tmo : Tmo) (granted : Option Sid), TaskOk st →
        st.task = .inflight rnow rest cur svc true replyAt reac tmo granted → reac.accepts = true →
        mapRt f (deliver genCfg st).routed
          = (C09.doSubscribe c (mapRt f st.routed) svc T (.resp 200 (some (f (granted.getD cur))) th :: rs)).rt)
    ∧ (∀ st : St, mapRt f (unsubscribeServices st).routed
          = (C09.unsubAll c ((keys st.subs).map f) (mapRt f st.routed) rs).rt) := by
  refine ⟨fun now0 i st h => subscribe_step_refines f hinj genCfg c now0 i st T th rs h,
    fun now0 l st => subLoop_refines f hinj genCfg c now0 T th l st, ?_, ?_, fun st => unsubscribe_refines f hinj c st rs⟩
  · intro st rnow rest cur svc replyAt reac tmo granted htask ht
    exact ⟨fun ha => renew_accept_refines f hinj hne genCfg c st htask rnow rest cur svc replyAt reac tmo granted ht ha T th rs,
      fun ha hu => renew_unreach_refines f hinj genCfg c st htask rnow rest cur svc replyAt reac tmo granted ht ha hu T rs,
      fun ha hu => renew_refused_refines f hinj genCfg c st htask rnow rest cur svc replyAt reac tmo granted ht ha hu T 412
        (by decide) none th rs⟩
  · intro st rnow rest cur svc replyAt reac tmo granted htask ht ha
    exact fallback_accept_refines f hinj genCfg c st htask rnow rest cur svc replyAt reac tmo granted ht ha T th rs

/-- **clean_unsubscribe_composed**: in every reachable state, running C09's `async_unsubscribe` for every SID of
    the profile's bookkeeping on the (rendered) routing table — which is what the profile's unsubscribe does —
    leaves C09's routing table empty, whatever the publisher answers; and that is the profile model's table
    after `doUnsub`. -/
theorem clean_unsubscribe_composed (f : Sid → C09.Str) (hinj : ∀ a b, f a = f b → a = b) (c : C09.Cfg)
    (n : Nat) (script : List Entry) (dflt : Entry) (ops : List Op) (rs : List C09.Reaction)
    (hh : (run genCfg n script dflt ops).halted = false) :
    let st := run genCfg n script dflt ops
    let S := settle genCfg (st.emit (.call st.now .unsub))
    (C09.unsubAll c ((keys S.subs).map f) (mapRt f S.routed) rs).rt = []
    ∧ mapRt f (doUnsub genCfg st).routed = (C09.unsubAll c ((keys S.subs).map f) (mapRt f S.routed) rs).rt := by
  intro st S
  obtain ⟨hcore, htask⟩ := reachable_consistent n script dflt ops
  have hcS := (settle_core genCfg gen_shapes.2.1 _ (hcore.emit (.call st.now .unsub)) (by simpa [TaskOk, St.emit] using htask)).1
  have hu := unsubscribeServices_clean S hcS
  have href := unsubscribe_refines f hinj c S rs
  have hset : S.halted = false := by
    show (settle genCfg (st.emit (.call st.now .unsub))).halted = false
    rw [settle_halted genCfg gen_shapes.1 (st.emit (.call st.now .unsub)) hcore.subsNodup]; exact hh
  have hdo : (doUnsub genCfg st).routed = (unsubscribeServices S).routed := by
    have hh' : st.halted = false := hh
    have hset' : (settle genCfg (st.emit (.call st.now .unsub))).halted = false := hset
    unfold doUnsub
    simp only [hh', Bool.false_eq_true, if_false, hset']
    rfl
  refine ⟨?_, by rw [hdo]; exact href⟩
  rw [← href, hu.2.1]; rfl

/-- **all_or_nothing_composed**: a subscribe call of the profile (nothing subscribed before) is, on C09's handler
    model, a run of `async_subscribe` calls (`c09SubLoop`) over a prefix of the profile's services — if all of
    them succeed the profile's routing table afterwards is exactly C09's; if one raises, C09's `async_unsubscribe`
    for every SID of the bookkeeping (the roll-back) empties C09's table, which is again the profile's. -/
theorem all_or_nothing_composed (f : Sid → C09.Str) (hinj : ∀ a b, f a = f b → a = b) (c : C09.Cfg) (T : Int)
    (th : Option C09.Str) (rs : List C09.Reaction) (n : Nat) (auto : Bool) (st : St) (h : Core st)
    (hpre : (st.halted || !st.subs.isEmpty || st.task.alive) = false) :
    ∃ calls : List (Nat × C09.Reaction), calls.map (·.1) = (List.range n).take calls.length ∧
      ((c09SubLoop c T calls (mapRt f st.routed)).2 = true →
          mapRt f (doSub genCfg n auto st).routed = (c09SubLoop c T calls (mapRt f st.routed)).1)
      ∧ ((c09SubLoop c T calls (mapRt f st.routed)).2 = false →
          mapRt f (doSub genCfg n auto st).routed = []
          ∧ ∃ sids : List Sid, (C09.unsubAll c (sids.map f) (c09SubLoop c T calls (mapRt f st.routed)).1 rs).rt = []) := by
  obtain ⟨calls, h1, h2⟩ := subLoop_refines f hinj genCfg c st.now T th (List.range n) (st.emit (.call st.now (.sub auto)))
  have hcoreS := subLoop_core genCfg st.now (List.range n) (st.emit (.call st.now (.sub auto))) (h.emit _)
  refine ⟨calls, h1, ?_, ?_⟩
  · intro hok
    have h2' : c09SubLoop c T calls (mapRt f st.routed) = _ := h2
    rw [h2'] at hok ⊢
    unfold doSub
    simp only [hpre, Bool.false_eq_true, if_false]
    have hnow : (st.emit (.call st.now (.sub auto))).now = st.now := rfl
    simp only [hnow]
    generalize subLoop genCfg st.now (List.range n) (st.emit (.call st.now (.sub auto))) = L at hok ⊢
    obtain ⟨S, err⟩ := L
    cases err with
    | some e => simp at hok
    | none => dsimp only; split <;> rfl
  · intro hfail
    have h2' : c09SubLoop c T calls (mapRt f st.routed) = _ := h2
    rw [h2'] at hfail ⊢
    unfold doSub
    simp only [hpre, Bool.false_eq_true, if_false]
    have hnow : (st.emit (.call st.now (.sub auto))).now = st.now := rfl
    simp only [hnow]
    generalize subLoop genCfg st.now (List.range n) (st.emit (.call st.now (.sub auto))) = L at hfail hcoreS ⊢
    obtain ⟨S, err⟩ := L
    cases err with
    | none => simp at hfail
    | some e =>
      dsimp only at hcoreS ⊢
      have hu := unsubscribeServices_clean S hcoreS.1
      have href := unsubscribe_refines f hinj c S rs
      refine ⟨?_, keys S.subs, ?_⟩
      · show mapRt f (unsubscribeServices S).routed = []
        rw [hu.2.1]; rfl
      · rw [← href, hu.2.1]; rfl

/-! ### judge soundness: what an accepted trace says, in plain terms

The theorems above show that the run-time judge accepts every model trace.  These show the converse direction of
meaning: whatever trace the judge accepts — the implementation's in particular; no model is involved — satisfies the
first-order reading of the clause.  (`tr` is any list of events.) -/

/-- **judge_sound_all_or_nothing** ("subscribes all and only its profile's services or, if any fails, leaves none
    subscribed and raises"): in a trace accepted by `ok`, for every subscribe call — its call event, the requests
    `reqs` made during it, its return and the snapshot after it —
    * if it returned normally: every profile service `0 .. n-1` received a SUBSCRIBE, every SUBSCRIBE went to a
      profile service and there were exactly `n` (so none elsewhere, none twice), all were accepted, nothing was
      unsubscribed, the bookkeeping holds exactly the granted SIDs and all of them are routed;
    * if it raised: some SUBSCRIBE was not accepted, the bookkeeping is empty, no renewal task is left, and every SID
      granted during the call is not routed and was sent an UNSUBSCRIBE. -/
theorem judge_sound_all_or_nothing (n tolSecs subT : Nat) (tr pre post : List Ev) (t t' t'' : Time) (a a' : Bool)
    (reqs : List Req) (res : Res) (subs routed : List Sid) (task av : Bool)
    (h : ok n tolSecs subT tr = true)
    (htr : tr = pre ++ .call t (.sub a) :: ((reqs.map Ev.req) ++ .ret t' (.sub a') res :: .snap t'' subs routed task av :: post)) :
    (res = none →
        (∀ i, i < n → ∃ r ∈ reqs, r.kind = .sub ∧ r.svc = i)
        ∧ (∀ r ∈ reqs, r.kind = .sub → r.svc < n ∧ r.reac.accepts = true)
        ∧ (reqs.filter (·.kind == .sub)).length = n
        ∧ (∀ r ∈ reqs, r.kind ≠ .unsub)
        ∧ subs.length = n
        ∧ (∀ g, g ∈ subs ↔ ∃ r ∈ reqs, r.kind = .sub ∧ r.granted = some g)
        ∧ (∀ r ∈ reqs, r.kind = .sub → ∀ g, r.granted = some g → g ∈ routed))
    ∧ (res ≠ none →
        (∃ r ∈ reqs, r.kind = .sub ∧ r.reac.accepts = false)
        ∧ (∀ r ∈ reqs, r.kind = .sub → r.svc < n)
        ∧ subs = [] ∧ task = false
        ∧ (∀ r ∈ reqs, r.kind = .sub → ∀ g, r.granted = some g →
            g ∉ routed ∧ ∃ u ∈ reqs, u.kind = .unsub ∧ u.sid = some g)) := by
  have hs := aon_sound n tr pre post t t' t'' a a' reqs res subs routed task av (ok_parts n tolSecs subT tr h).1 htr
  exact ⟨fun hr => subOkPost_decl n reqs subs routed (hs.1 hr), fun hr => subFailPost_decl n reqs subs routed task (hs.2 hr)⟩

/-- **judge_sound_clean** ("after unsubscribing returns no SID of that profile is still routed, the renewal task has
    ended and no further requests are sent"): in a trace accepted by `ok`, the snapshot after every returned
    unsubscribe shows an empty bookkeeping, no task, and no SID granted earlier in the trace routed; and any request
    after that return is preceded by a new subscribe call. -/
theorem judge_sound_clean (n tolSecs subT : Nat) (tr : List Ev) (h : ok n tolSecs subT tr = true) :
    (∀ pre post t t' res subs routed task av,
        tr = pre ++ .ret t .unsub res :: .snap t' subs routed task av :: post →
        subs = [] ∧ task = false ∧ ∀ r g, Ev.req r ∈ pre → r.granted = some g → g ∉ routed)
    ∧ (∀ pre mid post t res r, tr = pre ++ .ret t .unsub res :: (mid ++ .req r :: post) →
        ∃ e ∈ mid, ∃ t' a, e = .call t' (.sub a)) := by
  have hc := (ok_parts n tolSecs subT tr h).2.2.2.1
  exact ⟨fun pre post t t' res subs routed task av htr => clean_sound tr pre post t t' res subs routed task av hc htr,
    fun pre mid post t res r htr => clean_sound_quiet tr pre mid post t res r hc htr⟩

/-- **judge_sound_lapse** ("every subscription is renewed before the publisher would expire it for as long as the
    publisher accepts renewals"): in a trace accepted by `ok`, a renewal request sent while auto-renewal is in force
    and the history so far is calm arrives no later than the publisher's expiry of its SID, and at every snapshot
    taken under the same conditions nothing in the publisher's table has expired. -/
theorem judge_sound_lapse (n tolSecs subT : Nat) (tr : List Ev) (h : ok n tolSecs subT tr = true) :
    (∀ pre post r s e, tr = pre ++ .req r :: post → r.kind = .renew → r.sid = some s →
        (lapseMon n tolSecs subT pre).auto = true → (lapseMon n tolSecs subT pre).calm = true →
        get? (lapseMon n tolSecs subT pre).expiry s = some (some e) → r.t ≤ e)
    ∧ (∀ pre post t a b c d, tr = pre ++ .snap t a b c d :: post →
        (lapseMon n tolSecs subT pre).auto = true → (lapseMon n tolSecs subT pre).calm = true →
        ∀ p ∈ (lapseMon n tolSecs subT pre).expiry, ∀ e, p.2 = some e → t ≤ e) := by
  have hl := (ok_parts n tolSecs subT tr h).2.1
  exact ⟨fun pre post r s e htr hk hs ha hc he => lapse_sound n tolSecs subT tr pre post r s e hl htr hk hs ha hc he,
    fun pre post t a b c d htr ha hc => lapse_sound_snapshot n tolSecs subT tr pre post t a b c d hl htr ha hc⟩

/-- **judge_sound_yield**: a trace accepted by `ok` contains no `spin` marker -/
theorem judge_sound_yield (n tolSecs subT : Nat) (tr : List Ev) (h : ok n tolSecs subT tr = true) :
    ∀ t, Ev.spin t ∉ tr :=
  yield_sound tr (ok_parts n tolSecs subT tr h).2.2.2.2

/-- non-vacuity: the soundness theorems apply to a concrete accepted trace (a model run: two services subscribed,
    unsubscribed); their conclusions for it: both services got their SUBSCRIBE, nothing is routed afterwards -/
example :
    let tr := (run genCfg 2 [] ⟨.ok, .sec 300, 0⟩ [Op.sub true, Op.unsub]).trace
    ok 2 marginSecs genCfg.subTimeout tr = true
    ∧ (∀ i, i < 2 → ∃ r ∈ [(⟨0, .sub, 0, none, .ok, .sec 300, 0, some 1⟩ : Req), ⟨0, .sub, 1, none, .ok, .sec 300, 0, some 2⟩],
          r.kind = .sub ∧ r.svc = i) := by
  intro tr
  have hok : ok 2 marginSecs genCfg.subTimeout tr = true :=
    judge_accepts_model 2 [] ⟨.ok, .sec 300, 0⟩ [Op.sub true, Op.unsub] (by decide)
  refine ⟨hok, ?_⟩
  have hs := judge_sound_all_or_nothing 2 marginSecs genCfg.subTimeout tr [] (tr.drop 5) 0 0 0 true true
    [⟨0, .sub, 0, none, .ok, .sec 300, 0, some 1⟩, ⟨0, .sub, 1, none, .ok, .sec 300, 0, some 2⟩] none [1, 2] [1, 2] true true
    hok (by decide)
  exact (hs.1 rfl).1

end Upnp.C12
