/-
  C12 — profile subscriptions are all-or-nothing, kept alive, and cleanly ended.

  Property theorems only (helper lemmas: `Upnp/Lemmas/C12*.lean`).  The model
  (`Upnp/Model/C12Profile.lean`) transcribes profiles/profile.py on top of the event handler's
  routing-table effects; `Upnp.C12.run` is the very function the correspondence driver runs, with the
  configuration `genCfg` the translator extracted from the source on this run.  The clause predicates
  (`subOkPost`, `subFailPost`, `cleanSnap`, the `spin` / `cb` events) are the ones the run-time judge
  `Upnp.C12.ok` (Spec/C12.lean) applies to the implementation's trace.

  All theorems hold for every state reachable by caller operations (`reachable_consistent`), every
  publisher script (reactions, granted timeouts, latencies), every number of services, every point in
  time — no bounds.
-/
import Upnp.Model.C12Cfg
import Upnp.Lemmas.C12Ops
import Upnp.Lemmas.C12Sub
import Upnp.Lemmas.C12Renew
import Upnp.Lemmas.C12Mon
import Upnp.Lemmas.C12Rep
import Upnp.Lemmas.C12Yield
import Upnp.Spec.C12
namespace Upnp.C12
open Upnp PyDict

/-! ### what the translator found in profiles/profile.py (a source change breaks these) -/

/-- the renewal round renews overdue subscriptions too (no stale-skip), keeps the SID in the
    bookkeeping while its renewal is in flight, and a finished renewal task is forgotten -/
theorem gen_shapes : genCfg.skipStale = false ∧ genCfg.delEarly = false ∧ genCfg.clearDone = true
    ∧ Gen.C12Profile.shapesPinned = true := by decide

/-- the renewal margin is positive and shorter than the timeout asked for -/
theorem gen_constants : 0 < genCfg.tol ∧ genCfg.tol < genCfg.subTimeout := by decide

/-! ### reachable states -/

/-- every state reachable by any sequence of caller operations against any publisher is consistent:
    bookkeeping and routing table are dictionaries, every routed SID is in the bookkeeping, an in-flight
    renewal's SID is still in the bookkeeping -/
theorem reachable_consistent (n : Nat) (script : List Entry) (dflt : Entry) (ops : List Op) :
    Core (run genCfg n script dflt ops) ∧ TaskOk (run genCfg n script dflt ops) :=
  run_core genCfg gen_shapes.2.1 n script dflt ops

/-! ### all or nothing -/

/-- **all_or_nothing**: `async_subscribe_services` called while nothing is subscribed — for every number
    `n` of profile services, every publisher script, auto-renewal or not — emits
    `call, requests…, ret, snapshot` such that either it returned normally and the judge's `subOkPost` holds
    (exactly one SUBSCRIBE per profile service `0..n-1` and nothing else, all granted, the bookkeeping holds
    exactly the granted SIDs, all routed), or it raised and the judge's `subFailPost` holds (some SUBSCRIBE
    failed; bookkeeping empty, no renewal task, none of the SIDs granted during the call routed, an
    UNSUBSCRIBE issued for each of them). -/
theorem all_or_nothing (cfg : Cfg) (n : Nat) (auto : Bool) (st : St) (h : Core st)
    (hh : st.halted = false) (hs : st.subs = []) (ha : st.task.alive = false) :
    ∃ (reqs : List Req) (res : Res) (t : Time) (subs routed : List Sid) (task av : Bool),
      (doSub cfg n auto st).rtrace =
        .snap t subs routed task av :: .ret t (.sub auto) res :: (reqs.reverse.map Ev.req) ++ .call st.now (.sub auto) :: st.rtrace
      ∧ (res = none → subOkPost n reqs subs routed = true)
      ∧ (res ≠ none → subFailPost n reqs subs routed task = true) :=
  all_or_nothing_shape cfg n auto st h hh hs ha

/-- non-vacuity: three services, the second SUBSCRIBE refused: raises, SID 1 unsubscribed again;
    and all three accepted: three SIDs held and routed -/
example :
    (run genCfg 3 [⟨.ok, .sec 300, 0⟩, ⟨.refuse, .sec 61, 250⟩] ⟨.ok, .sec 1800, 0⟩ [Op.sub true]).trace.drop 1
      = [.req ⟨0, .sub, 0, none, .ok, .sec 300, 0, some 1⟩, .req ⟨0, .sub, 1, none, .refuse, .sec 61, 250, none⟩,
         .req ⟨250, .unsub, 0, some 1, .ok, .sec 1800, 0, none⟩, .ret 250 (.sub true) (some .refuse),
         .snap 250 [] [] false true]
    ∧ (run genCfg 3 [] ⟨.ok, .sec 1800, 0⟩ [Op.sub true]).trace.getLast? = some (.snap 0 [1, 2, 3] [1, 2, 3] true true) := by
  decide

/-- **all_or_nothing_trace** (the judge's "all or nothing" clause, whole-trace form): for every number of
    services, publisher script and sequence of caller operations, the clause monitor `aonMon` of the
    run-time judge, run over the model's complete trace, flags nothing — every subscribe call in the history
    ends in a snapshot satisfying `subOkPost` / `subFailPost` for exactly the requests of that call. -/
theorem all_or_nothing_trace (n : Nat) (script : List Entry) (dflt : Entry) (ops : List Op) :
    (aonMon n (run genCfg n script dflt ops).trace).bad = [] := by
  rw [aonMon_trace]
  suffices H : ∀ st, Core st → TaskOk st → AonInv n st → AonInv n (ops.foldl (step genCfg n) st) from
    (H _ (Core.init script dflt) (by simp [TaskOk, init]) (AonInv.init n script dflt)).bad
  induction ops with
  | nil => intro st _ _ hi; exact hi
  | cons op r ih =>
    intro st h ht hi
    have hc := step_core genCfg gen_shapes.2.1 n st op h ht
    refine ih _ hc.1 hc.2 ?_
    cases op with
    | sub auto => exact aonInv_sub genCfg n auto st h hi
    | wait d => exact aonInv_wait genCfg n d st hi
    | unsub => exact aonInv_unsub genCfg gen_shapes.2.1 n st h ht hi

/-! ### the renewal loop always yields -/

/-- **loop_yields**: from the loop head the renewal loop reaches an await (a sleep or a request) or
    ends within two iterations — the fuel `|subscriptions| + 2` of the run-to-quiescence closure is never
    exhausted, i.e. no `spin` is emitted.  For every state, every clock value, every deadline. -/
theorem loop_yields (cfg : Cfg) (hs : cfg.skipStale = false) (st : St) (hn : (keys st.subs).Nodup) :
    (runHead cfg (headFuel st) st).halted = st.halted := by
  unfold headFuel; exact runHead_no_spin cfg hs _ st hn

theorem loop_yields_gen (st : St) (h : Core st) : (runHead genCfg (headFuel st) st).halted = st.halted :=
  loop_yields genCfg gen_shapes.1 st h.subsNodup

/-- the judge's "always yields" clause, whole-trace form, as far as it is proved.

    Full statement: for every history the trace contains no `spin` (`yieldBad … = []`).

    Proved (`_partial`): a run that has not halted has emitted no `spin` — and by `loop_yields` the renewal
    loop's own fuel (`|subscriptions| + 2` iterations without an await) is never what halts a run: the only
    remaining source is the await budget of a `wait` (`waitFuel`: one renewal round per 125 ms of virtual
    time), i.e. a publisher behaviour under which virtual time stops advancing.
    Missing: Zeno-freedom of `waitLoop` — that within the property's domain (granted timeouts > tolerance)
    consecutive rounds are at least `timeout - tolerance` apart, so the budget is never exhausted. -/
theorem yield_trace_partial (n : Nat) (script : List Entry) (dflt : Entry) (ops : List Op)
    (hh : (run genCfg n script dflt ops).halted = false) :
    yieldBad (run genCfg n script dflt ops).trace = [] := by
  have hinv : NoSpinInv (run genCfg n script dflt ops) := by
    clear hh
    unfold run
    suffices H : ∀ st, Core st → TaskOk st → NoSpinInv st → NoSpinInv (ops.foldl (step genCfg n) st) from
      H _ (Core.init script dflt) (by simp [TaskOk, init]) (by intro _ e he; simp [init] at he)
    induction ops with
    | nil => intro st _ _ hi; exact hi
    | cons op r ih =>
      intro st h ht hi
      have hc := step_core genCfg gen_shapes.2.1 n st op h ht
      refine ih _ hc.1 hc.2 ?_
      cases op with
      | sub auto => exact noSpin_doSub genCfg n auto st h hi
      | wait d => exact noSpin_doWait genCfg gen_shapes.1 gen_shapes.2.1 d st hi
      | unsub => exact noSpin_doUnsub genCfg gen_shapes.1 gen_shapes.2.1 st h ht hi
  have hno := hinv hh
  unfold yieldBad
  split
  · rename_i hany
    rw [List.any_eq_true] at hany
    obtain ⟨e, he, hf⟩ := hany
    have he' : e ∈ (run genCfg n script dflt ops).rtrace := by simpa [St.trace] using he
    have := hno e he'
    cases e <;> simp_all [Ev.isSpin]
  · rfl

/-- non-vacuity, and the reason for the hypothesis: with the stale-skip of the unrepaired code a single
    subscription whose deadline is more than the tolerance in the past makes the loop spin (F12a) -/
example :
    let cfg : Cfg := { genCfg with skipStale := true }
    let st : St := { now := 131000, subs := [(1, 62000)], routed := [(1, 0)] }
    (runHead cfg (headFuel st) st).halted = true ∧ (runHead genCfg (headFuel st) st).halted = false := by
  decide

/-! ### clean unsubscribe -/

/-- **clean_unsubscribe**: after `async_unsubscribe_services` returns — at every point it can be
    issued: task not started, sleeping, awaiting a renewal reply, awaiting the fall-back SUBSCRIBE's reply,
    ended — the bookkeeping is empty, no SID at all is routed, the renewal task is gone, and the
    snapshot the model emits satisfies the judge's `cleanSnap` for every set of SIDs ever granted. -/
theorem clean_unsubscribe (cfg : Cfg) (hd : cfg.delEarly = false) (hs : cfg.skipStale = false)
    (st : St) (h : Core st) (ht : TaskOk st) (hh : st.halted = false) :
    (doUnsub cfg st).subs = [] ∧ (doUnsub cfg st).routed = [] ∧ (doUnsub cfg st).task = .none
    ∧ (doUnsub cfg st).halted = false
    ∧ ∃ t av rest, (doUnsub cfg st).rtrace = .snap t [] [] false av :: .ret t .unsub none :: rest
        ∧ ∀ ever, cleanSnap ever [] [] false = true := by
  have hset : (settle cfg (st.emit (.call st.now .unsub))).halted = false := by
    have := settle_halted cfg hs (st.emit (.call st.now .unsub)) h.subsNodup
    rw [this]; exact hh
  have hc := (settle_core cfg hd _ (h.emit (.call st.now .unsub)) (by simpa [TaskOk, St.emit] using ht)).1
  have hu := unsubscribeServices_clean _ hc
  have hhalt : (doUnsub cfg st).halted = false := by
    unfold doUnsub
    simp only [hh, Bool.false_eq_true, if_false, hset]
    show (unsubscribeServices _).halted = false
    rw [hu.2.2.2.1]; exact hset
  have := doUnsub_clean cfg hd st h ht hhalt
  refine ⟨this.1, this.2.1, this.2.2, hhalt, ?_⟩
  unfold doUnsub
  simp only [hh, Bool.false_eq_true, if_false, hset]
  generalize unsubscribeServices (settle cfg (st.emit (.call st.now .unsub))) = U at hu ⊢
  refine ⟨U.now, U.avail, U.rtrace, ?_, fun ever => by simp [cleanSnap]⟩
  simp only [St.snap, St.emit, hu.1, hu.2.1, hu.2.2.1, keys, List.map_nil, sortSids_nil, TaskPc.alive]

theorem clean_unsubscribe_gen (n : Nat) (script : List Entry) (dflt : Entry) (ops : List Op)
    (hh : (run genCfg n script dflt ops).halted = false) :
    (doUnsub genCfg (run genCfg n script dflt ops)).subs = []
    ∧ (doUnsub genCfg (run genCfg n script dflt ops)).routed = []
    ∧ (doUnsub genCfg (run genCfg n script dflt ops)).task = .none :=
  let r := reachable_consistent n script dflt ops
  let c := clean_unsubscribe genCfg gen_shapes.2.1 gen_shapes.1 _ r.1 r.2 hh
  ⟨c.1, c.2.1, c.2.2.1⟩

/-- non-vacuity: unsubscribe while the renewal reply of SID 1 is outstanding (the F12b interleaving);
    with the early delete of the unrepaired code SID 1 stays routed -/
example :
    let script : List Entry := [⟨.ok, .sec 61, 0⟩, ⟨.ok, .sec 61, 50000⟩]
    let ops := [Op.sub true, Op.wait 10125, Op.unsub]
    (run genCfg 1 script ⟨.ok, .sec 1800, 0⟩ ops).routed = []
    ∧ (run { genCfg with delEarly := true } 1 script ⟨.ok, .sec 1800, 0⟩ ops).routed = [(1, 0)] := by
  decide

/-- nothing is subscribed and no task exists -/
def Quiet (st : St) : Prop := st.subs = [] ∧ st.task = .none ∧ st.halted = false

/-- **no further requests**: once unsubscribed, waiting (any duration) and unsubscribing again send
    nothing — the trace grows by events none of which is a request — until the caller subscribes again -/
theorem quiet_after_unsubscribe (cfg : Cfg) (n : Nat) (st : St) (hq : Quiet st) (op : Op)
    (hop : ∀ a, op ≠ .sub a) :
    Quiet (step cfg n st op) ∧ ∃ evs, (step cfg n st op).rtrace = evs ++ st.rtrace ∧ ∀ e ∈ evs, e.isReq = false := by
  obtain ⟨hs, htk, hh⟩ := hq
  cases op with
  | sub a => exact absurd rfl (hop a)
  | wait d =>
    have hk : ∃ k, waitFuel d st = k + 1 := by
      refine ⟨waitFuel d st - 1, ?_⟩
      have : 0 < waitFuel d st := by unfold waitFuel; exact Nat.mul_pos (by omega) (by omega)
      omega
    obtain ⟨k, hk⟩ := hk
    simp only [step, doWait, hh, Bool.false_eq_true, if_false, hk, waitLoop, htk]
    refine ⟨⟨?_, ?_, ?_⟩, [_], rfl, ?_⟩
    · simpa [St.snap, St.emit] using hs
    · simp [St.snap, St.emit]
    · simp [St.snap, St.emit, hh]
    · simp [Ev.isReq]
  | unsub =>
    simp only [step, doUnsub, hh, Bool.false_eq_true, if_false, settle, St.emit, htk, unsubscribeServices, hs, keys,
      List.map_nil, unsubAll, St.snap]
    refine ⟨⟨rfl, rfl, ?_⟩, [_, _, _], rfl, ?_⟩
    · simp [hh]
    · simp [Ev.isReq]

/-- the state after `clean_unsubscribe` is `Quiet`, so both theorems chain: after unsubscribing returns no
    further request is sent for any continuation of waits and unsubscribes -/
theorem quiet_run (cfg : Cfg) (n : Nat) (ops : List Op) (hops : ∀ op ∈ ops, ∀ a, op ≠ .sub a) :
    ∀ st, Quiet st → ∃ evs, (ops.foldl (step cfg n) st).rtrace = evs ++ st.rtrace ∧ ∀ e ∈ evs, e.isReq = false := by
  induction ops with
  | nil => intro st _; exact ⟨[], rfl, by simp⟩
  | cons op r ih =>
    intro st hq
    obtain ⟨hq', e1, h1, h2⟩ := quiet_after_unsubscribe cfg n st hq op (hops op List.mem_cons_self)
    obtain ⟨e2, g1, g2⟩ := ih (fun o ho => hops o (List.mem_cons_of_mem _ ho)) _ hq'
    refine ⟨e2 ++ e1, by simp only [List.foldl_cons]; rw [g1, h1, List.append_assoc], ?_⟩
    intro e he
    rcases List.mem_append.1 he with he | he
    · exact g2 e he
    · exact h2 e he

/-- **clean_trace** (the judge's "cleanly ended" clause, whole-trace form): for every number of services,
    every publisher script and every sequence of caller operations, the clause monitor `cleanMon` of the
    run-time judge, run over the model's complete trace, flags nothing — after every `ret unsub` the
    snapshot satisfies `cleanSnap` for the set of all SIDs granted so far, and no request appears between
    an unsubscribe's return and the next subscribe call. -/
theorem clean_trace (n : Nat) (script : List Entry) (dflt : Entry) (ops : List Op) :
    (cleanMon (run genCfg n script dflt ops).trace).bad = [] := by
  rw [cleanMon_trace]
  suffices H : ∀ st, Core st → TaskOk st → CleanInv st →
      CleanInv (ops.foldl (step genCfg n) st) from
    (H _ (Core.init script dflt) (by simp [TaskOk, init]) (CleanInv.init script dflt)).bad
  induction ops with
  | nil => intro st _ _ hi; exact hi
  | cons op r ih =>
    intro st h ht hi
    have hc := step_core genCfg gen_shapes.2.1 n st op h ht
    refine ih _ hc.1 hc.2 ?_
    cases op with
    | sub auto => exact cleanInv_sub genCfg n auto st h hi
    | wait d => exact cleanInv_wait genCfg d st hi
    | unsub => exact cleanInv_unsub genCfg gen_shapes.2.1 gen_shapes.1 st h ht hi

/-! ### kept alive: renewals are sent before the deadline -/

/-- **wake_margin**: whenever the renewal loop goes to sleep, it will wake a full tolerance before
    every deadline in the bookkeeping (`wait_time = min(deadlines) - now - tolerance`) -/
theorem wake_margin (cfg : Cfg) (hs : cfg.skipStale = false) (hd : cfg.delEarly = false) :
    ∀ (f : Nat) (st : St) (u : Time), (runHead cfg f st).task = .sleeping u →
      ∀ p ∈ (runHead cfg f st).subs, u + ms cfg.tol ≤ p.2 := by
  intro f
  induction f with
  | zero => intro st u h; simp [runHead] at h
  | succ f ih =>
    intro st u
    simp only [runHead]
    split
    · intro h; simp at h
    · rename_i p ps hsubs
      split
      · rename_i hw
        intro h
        simp only [TaskPc.sleeping.injEq] at h
        subst h
        intro q hq
        exact head_sleep_margin cfg st p ps hsubs hw q hq
      · split
        · rename_i haw
          intro h
          obtain ⟨_, _, _, _, _, _, _, _, _, _, _, _, _, _, h9, _⟩ := roundStep_request cfg hs hd st.now st.subs st haw
          rw [h9] at h; cases h
        · exact ih _ u

/-- **renew_round_start**: the loop wakes at `u` (a tolerance before every deadline, `wake_margin`); if
    the publisher's next reactions — one per subscription — accept with latencies adding up to less than
    the tolerance, the first renewal request of the round is sent at `u`, a full tolerance before the
    deadline of its SID, and the calm-round invariant holds -/
theorem renew_round_start (cfg : Cfg) (hs : cfg.skipStale = false) (hd : cfg.delEarly = false) (st : St) (u : Time)
    (hm : ∀ p ∈ st.subs, u + ms cfg.tol ≤ p.2)
    (hc : calmNext st.subs.length st.script st.dflt (ms cfg.tol))
    (haw : (roundStep cfg u st.subs { st with now := u }).2 = true) :
    RoundInv cfg (roundStep cfg u st.subs { st with now := u }).1
    ∧ ∃ (r : Req) (sid : Sid) (rt : Time),
        (roundStep cfg u st.subs { st with now := u }).1.rtrace = .req r :: st.rtrace
        ∧ r.kind = .renew ∧ r.sid = some sid ∧ (sid, rt) ∈ st.subs ∧ r.t = u ∧ r.t + ms cfg.tol ≤ rt := by
  have hc' : calmNext st.subs.length st.script st.dflt (u + ms cfg.tol - u) := by
    have : u + ms cfg.tol - u = ms cfg.tol := by unfold Time at *; omega
    rw [this]; exact hc
  obtain ⟨h1, r, sid, rt, h2, h3, h4, h5, h6, h7⟩ :=
    roundStep_calm cfg hs hd u st.subs { st with now := u } haw hm (Int.le_refl _) hc'
  exact ⟨h1, r, sid, rt, h2, h3, h4, h5, h6, by rw [h6]; exact h7⟩

/-- **renew_round_step** (the inductive step, for rounds of any length): in a calm round, when the reply of
    the in-flight renewal arrives, either the next renewal request is sent at that moment — strictly before
    `round start + tolerance`, hence strictly before the deadline of its SID — and the invariant holds
    again, or the round is over and the loop is back at its head -/
theorem renew_round_step (cfg : Cfg) (hs : cfg.skipStale = false) (hd : cfg.delEarly = false) (st : St)
    (rnow : Time) (queue : List (Sid × Time)) (cur : Sid) (svc : Nat) (fb : Bool) (replyAt : Time) (reac : Reac)
    (tmo : Tmo) (granted : Option Sid)
    (ht : st.task = .inflight rnow queue cur svc fb replyAt reac tmo granted) (hinv : RoundInv cfg st) :
    (∃ (r : Req) (sid : Sid) (rt : Time),
        (deliver cfg { st with now := replyAt }).rtrace = .req r :: st.rtrace
        ∧ r.kind = .renew ∧ r.sid = some sid ∧ (sid, rt) ∈ queue ∧ r.t = replyAt
        ∧ rnow ≤ r.t ∧ r.t < rnow + ms cfg.tol ∧ r.t < rt ∧ RoundInv cfg (deliver cfg { st with now := replyAt }))
    ∨ (∃ X : St, deliver cfg { st with now := replyAt } = runHead cfg (headFuel X) X) := by
  unfold RoundInv at hinv
  rw [ht] at hinv
  obtain ⟨hfb, hacc, hle, hcalm, hmargin⟩ := hinv
  have hpos := calmNext_pos _ _ _ _ hcalm
  unfold deliver
  simp only [ht, hacc, if_true]
  generalize (if (granted.getD cur != cur) = true then erase st.routed cur else st.routed) = R
  split
  · rename_i haw
    left
    obtain ⟨h1, r, sid, rt, h2, h3, h4, h5, h6, h7⟩ := roundStep_calm cfg hs hd rnow queue _ haw hmargin hle hcalm
    refine ⟨r, sid, rt, h2, h3, h4, h5, h6, by rw [h6]; exact hle, ?_, ?_, h1⟩
    · rw [h6]; show replyAt < _; unfold Time at *; omega
    · rw [h6]; show replyAt < _; unfold Time at *; omega
  · right
    exact ⟨_, rfl⟩

/-- **deadline_le_expiry**: the deadline the profile stores when a renewal sent at `r.t` in the round
    started at `rnow ≤ r.t` is accepted (`rnow + granted timeout`) is never later than the expiry the
    publisher holds for it (`arrival + granted timeout`, the judge's `expiryOf`) — so "sent before the
    profile's deadline" implies "arrives before the publisher's expiry" -/
theorem deadline_le_expiry (cfg : Cfg) (rnow : Time) (r : Req) (h : rnow ≤ r.t) (e : Time)
    (he : expiryOf cfg.subTimeout r = some e) : rnow + ms (r.tmo.secs cfg) ≤ e := by
  unfold expiryOf at he
  cases ht : r.tmo with
  | sec k => simp only [ht, Option.some.injEq] at he; simp only [Tmo.secs, ms]; unfold Time at *; omega
  | infinite => simp [ht] at he
  | absent => simp only [ht, Option.some.injEq] at he; simp only [Tmo.secs, ms]; unfold Time at *; omega

/-- the property's lapse-freedom, as far as it is proved.

    Full statement (DESIGN §5 `renew_before_expiry`): while the publisher accepts renewals and the summed
    latency of a renewal round is `< tolerance`, every renewal request for a SID reaches the publisher no
    later than the expiry the publisher holds for it, for every granted timeout `> tolerance`, every number
    of services, unboundedly many rounds.

    Proved (`_partial`): for every round that starts from a sleep (`wake_margin` ∘ `renew_round_start` ∘
    `renew_round_step`, the latter an induction step valid for rounds of any length) every renewal request is
    sent strictly before `round start + tolerance ≤` the deadline the profile holds for that SID.
    `deadline_le_expiry` links the profile's deadline to the publisher's expiry (`renew_round_step` gives
    `rnow ≤ r.t` for every request of a calm round).
    Missing: (a) the composition into one statement over the whole trace with the publisher's table (the
    model does not carry it; the run-time judge `lapse:*` recomputes it and checks every calm timeline);
    (b) rounds that start without sleeping (granted timeout `≤ tolerance + previous round's duration`),
    where the argument needs the publisher's expiry, not the profile's deadline. -/
theorem renew_before_expiry_partial (st : St) (u : Time) (f : Nat) (st0 : St)
    (hst : st = runHead genCfg f st0) (ht : st.task = .sleeping u)
    (hc : calmNext st.subs.length st.script st.dflt (ms genCfg.tol))
    (haw : (roundStep genCfg u st.subs { st with now := u }).2 = true) :
    RoundInv genCfg (roundStep genCfg u st.subs { st with now := u }).1
    ∧ ∃ (r : Req) (sid : Sid) (rt : Time),
        (roundStep genCfg u st.subs { st with now := u }).1.rtrace = .req r :: st.rtrace
        ∧ r.kind = .renew ∧ r.sid = some sid ∧ (sid, rt) ∈ st.subs ∧ r.t + ms genCfg.tol ≤ rt := by
  have hm : ∀ p ∈ st.subs, u + ms genCfg.tol ≤ p.2 := by
    subst hst; exact wake_margin genCfg gen_shapes.1 gen_shapes.2.1 f st0 u ht
  obtain ⟨h1, r, sid, rt, h2, h3, h4, h5, _, h7⟩ := renew_round_start genCfg gen_shapes.1 gen_shapes.2.1 st u hm hc haw
  exact ⟨h1, r, sid, rt, h2, h3, h4, h5, h7⟩

/-- non-vacuity: two subscriptions (61 s and 300 s), the loop wakes at 1 s, both renewals are sent at
    1.0 s and 1.25 s — before 61 s — and again 60 s before the new earliest deadline -/
example :
    ((run genCfg 2 [⟨.ok, .sec 61, 0⟩, ⟨.ok, .sec 300, 0⟩, ⟨.ok, .sec 61, 250⟩] ⟨.ok, .sec 300, 0⟩
        [Op.sub true, Op.wait 70000]).trace.filterMap fun e => match e with
          | .req r => if r.kind == .renew then some (r.t, r.sid) else none
          | _ => none)
      = [(1000, some 1), (1250, some 2), (2000, some 1), (2000, some 2)] := by
  decide

/-! ### a failed renewal is reported exactly once -/

/-- **failure_reported_once**: when the reply of an in-flight renewal is delivered,
    * a renewal that finally failed (unreachable, or refused and the fall-back SUBSCRIBE failed too)
      appends exactly one callback with an empty change list for that service, directly after the
      request log, and `available` is cleared iff the failure was a connection error;
    * an accepted renewal (or accepted fall-back) appends no callback and leaves `available` alone;
    * a refused renewal is followed by the fall-back SUBSCRIBE for the same service, no callback yet. -/
theorem failure_reported_once (cfg : Cfg) (st : St) (rnow : Time) (rest : List (Sid × Time)) (sid : Sid) (svc : Nat)
    (fb : Bool) (at_ : Time) (reac : Reac) (tmo : Tmo) (granted : Option Sid)
    (ht : st.task = .inflight rnow rest sid svc fb at_ reac tmo granted) :
    (reac.accepts = false → (fb = true ∨ reac = .unreach) →
        ∃ more, (deliver cfg st).rtrace = more ++ .cb st.now svc 0 (st.avail && reac != .unreach) :: st.rtrace
          ∧ (∀ e ∈ more, e.isCb = false) ∧ (deliver cfg st).avail = (st.avail && reac != .unreach))
    ∧ (reac.accepts = true →
        ∃ more, (deliver cfg st).rtrace = more ++ st.rtrace ∧ (∀ e ∈ more, e.isCb = false)
          ∧ (deliver cfg st).avail = st.avail)
    ∧ (reac.accepts = false → fb = false → reac ≠ .unreach →
        ∃ r, (deliver cfg st).rtrace = .req r :: st.rtrace ∧ r.kind = .sub ∧ r.svc = svc ∧ r.t = st.now
          ∧ (deliver cfg st).avail = st.avail) := by
  unfold deliver
  simp only [ht]
  refine ⟨?_, ?_, ?_⟩
  · intro hacc hfin
    simp only [hacc, Bool.false_eq_true, if_false]
    rcases hfin with hfb | hun
    · simp only [hfb, if_true]
      obtain ⟨more, h1, h2, h3⟩ := cont_emits cfg rnow rest (failed st sid svc reac)
      exact ⟨more, h1, h2, h3⟩
    · by_cases hfb : fb = true
      · simp only [hfb, if_true]
        obtain ⟨more, h1, h2, h3⟩ := cont_emits cfg rnow rest (failed st sid svc reac)
        exact ⟨more, h1, h2, h3⟩
      · simp only [hfb, Bool.false_eq_true, if_false, hun, beq_self_eq_true, if_true]
        obtain ⟨more, h1, h2, h3⟩ := cont_emits cfg rnow rest
          (failed { st with routed := erase st.routed sid, task := .inflight rnow rest sid svc false at_ .unreach tmo granted } sid svc .unreach)
        exact ⟨more, h1, h2, h3⟩
  · intro hacc
    simp only [hacc, if_true]
    obtain ⟨more, h1, h2, h3⟩ := cont_emits cfg rnow rest
      { st with routed := set (if granted.getD sid != sid then erase st.routed sid else st.routed) (granted.getD sid) svc,
                subs := set (erase st.subs sid) (granted.getD sid) (rnow + ms (tmo.secs cfg)),
                task := .inflight rnow rest sid svc fb at_ reac tmo granted }
    exact ⟨more, h1, h2, h3⟩
  · intro hacc hfb hun
    have hun' : (reac == Reac.unreach) = false := by simp [hun]
    simp only [hacc, Bool.false_eq_true, if_false, hfb, hun']
    exact ⟨_, rfl, rfl, rfl, rfl, rfl⟩

/-- **report_trace** (the judge's "a failed renewal is reported once" clause, whole-trace form): for every
    number of services, publisher script and sequence of caller operations, the clause monitor `repMon` of
    the run-time judge, run over the model's complete trace, flags nothing: every renewal that finally
    fails is followed at its reply time by exactly one empty-list callback for its service with `available`
    cleared iff the failure was a connection error, a refused renewal is followed by the fall-back SUBSCRIBE,
    no empty-list callback occurs without such a cause, a renewal cancelled by an unsubscribe is not
    reported, and every snapshot shows the `available` flag the reports imply. -/
theorem report_trace (n : Nat) (script : List Entry) (dflt : Entry) (ops : List Op) :
    (repMon (run genCfg n script dflt ops).trace).bad = [] := by
  rw [repMon_trace]
  suffices H : ∀ st, Core st → TaskOk st → RepB st → RepB (ops.foldl (step genCfg n) st) from
    (H _ (Core.init script dflt) (by simp [TaskOk, init])
      ⟨RepInv.init script dflt, fun _ => by simp [Strict, init]⟩).1.bad
  induction ops with
  | nil => intro st _ _ hi; exact hi
  | cons op r ih =>
    intro st h ht hi
    have hc := step_core genCfg gen_shapes.2.1 n st op h ht
    refine ih _ hc.1 hc.2 ?_
    cases op with
    | sub auto => exact rep_doSub genCfg n auto st h hi
    | wait d => exact rep_doWait genCfg gen_shapes.1 gen_shapes.2.1 d st hi
    | unsub => exact rep_doUnsub genCfg gen_shapes.1 gen_shapes.2.1 st h ht hi

/-- non-vacuity: an unreachable publisher at the first renewal: one callback, device marked unavailable -/
example :
    let script : List Entry := [⟨.ok, .sec 61, 0⟩, ⟨.unreach, .sec 61, 250⟩]
    (run genCfg 1 script ⟨.ok, .sec 1800, 0⟩ [Op.sub true, Op.wait 10125]).trace.filter Ev.isCb
      = [.cb 1250 0 0 false] := by
  decide

end Upnp.C12
