/-
  C13 — the server answers searches with what it advertises and UDA prescribes, once.

  Property theorems only (helper lemmas are in `Upnp/Lemmas/C13*.lean`).  The model
  (`Upnp/Model/C13Server.lean`, `C13Listener.lean`, `C13Run.lean`) transcribes the SSDP side of
  `server.py` and the acceptance path of the library's listener; `C13.ok` (`Upnp/Spec/C13.lean`) is
  the judge the driver evaluates on the implementation's observations, and `runCase` is the very
  function the driver runs for the correspondence check.

  All theorems are for ALL device trees (any depth, any number of embedded devices and services),
  all search targets (any string), all MX strings, all jitter choices, any number of searches at
  any times and any announcer run.  The domain restriction is `wfTree` (UDNs are `uuid:` names,
  types are `base:version`, UDN / device-type / service-type bases pairwise different), which the
  driver checks on every generated tree; constants and the control shape of `_on_data` come from
  `Gen/C13Server.lean` (regenerated from the source on every run).
-/
import Upnp.Lemmas.C13Announce
import Upnp.Lemmas.C13Loop
import Upnp.Lemmas.C13Wire
import Upnp.Lemmas.C13Build
import Upnp.Model.C13Consts
namespace Upnp.C13

/-! ### the generated tables -/

/-- the model's literals are the source's (`ssdp.py` constants, status line, header names and order
    of `_build_response` / `_build_advertisements`) -/
theorem gen_pins (c : Cfg) (m : Msg) (nts : Str) :
    ssdpAll = Gen.C13Server.stAll ∧ rootDevice = Gen.C13Server.stRootDevice
    ∧ ssdpDiscover = Gen.C13Server.discover ∧ okLine = Gen.C13Server.statusLine
    ∧ (responseHeaders c m).map (·.1) = Gen.C13Server.responseKeys
    ∧ (notifyHeaders c nts m).map (·.1) = Gen.C13Server.notifyKeys
    ∧ maxAgeOf Gen.C13Server.cacheControl = 1800000 := by
  refine ⟨by decide, by decide, by decide, by decide, rfl, rfl, by decide⟩

/-- the source's `_on_data` has the shape the timing theorems need: the delayed send is chosen by
    `delay > 0`, the immediate send is its `else`, `0 ≤ lo`, `0 ≤ off`, `lo + off < 1000`, and the
    announce interval is positive -/
theorem gen_consts_ok : constsOk genConsts = true := by decide

/-! ### instantiating the device tree -/

/-- **nothing is dropped**: `UpnpDevice.__init__` stores a service / embedded device under its type
    and, when that key is taken, under `type#serviceId` / `type#UDN`; whenever the keys so used
    (`slotsFrom`) are pairwise different — e.g. services of one type with different service ids,
    sibling devices of one type with different UDNs — every declared item is kept, in order.  (All
    other theorems are about the instantiated tree, whatever it is.) -/
theorem instantiation_keeps_all {α : Type} (key alt : α → Str) (xs : List α)
    (h : (slotsFrom key alt [] xs).Nodup) : keyedValues key alt xs = xs := by
  have := fold_keeps key alt xs [] (by simpa [PyDict.keys] using h)
  simpa [keyedValues, slot] using this

/-- three services of one type with different ids and two sibling devices of one type are all
    instantiated; a third item with the same type and the same id replaces the second -/
example :
    allDevices (build (.node "uuid:r".toList "d:R:1".toList
      [("s:T:1".toList, "a".toList), ("s:T:1".toList, "b".toList), ("s:T:1".toList, "c".toList)]
      [.node "uuid:x".toList "d:S:1".toList [] [], .node "uuid:y".toList "d:S:1".toList [] []]))
     = [⟨"uuid:r".toList, "d:R:1".toList, ["s:T:1".toList, "s:T:1".toList, "s:T:1".toList]⟩,
        ⟨"uuid:x".toList, "d:S:1".toList, []⟩, ⟨"uuid:y".toList, "d:S:1".toList, []⟩]
    ∧ keyedValues (·.1) (·.2) [("t".toList, "a".toList), ("t".toList, "b".toList), ("t".toList, "b".toList)]
      = [("t".toList, "a".toList), ("t".toList, "b".toList)] := by
  refine ⟨by decide +kernel, by decide +kernel⟩

/-! ### ssdp:all -/

/-- **3 + 2d + k**: `ssdp:all` (any letter case) is answered with one message for the root device,
    two per device and one per service -/
theorem all_count (t : DevTree) (ar : Bool) (st : Str) (h : lower st = ssdpAll) :
    (buildResponses t ar st).length
      = 1 + 2 * (allDevices t).length + (allServices t).length + (if ar then 1 else 0) := by
  cases ar <;>
    simp only [buildResponses, h, if_true, List.length_cons, List.length_append, List.length_map,
      List.length_nil, Bool.false_eq_true, if_false] <;> omega

/-- **answers = advertisements = byebyes**: the (ST, USN) pairs answered to `ssdp:all` are, as a
    multiset, the (NT, USN) pairs of the `ssdp:alive` cycle, which are literally the pairs revoked
    with `ssdp:byebye`; and that list is the UDA table, in order -/
theorem answers_eq_advertisements (t : DevTree) (st : Str) (h : lower st = ssdpAll) :
    (buildResponses t false st).Perm (advertisements t) ∧ byebyes t = advertisements t
    ∧ advertisements t = (expAll t).map toMsg := by
  refine ⟨?_, rfl, advertisements_eq t⟩
  simp only [buildResponses, h, if_true, advertisements, Bool.false_eq_true, if_false, List.append_nil]
  refine List.Perm.cons _ ?_
  refine List.Perm.append ?_ (List.Perm.refl _)
  exact perm_map_map_flatMap respUdn (respDevType none) (allDevices t)

/-- **every USN begins with the UDN of the device it describes** — for EVERY tree (no domain
    hypothesis), every target and either option setting: each entry of the table (and hence, by
    `target_dispatch` / `answers_eq_advertisements` / `advertisements_eq`, each emitted message) has
    USN = UDN or UDN `::` type, of the device it describes (owning device for a service) -/
theorem usn_prefix_all (t : DevTree) (ar : Bool) (st : Str) :
    (∀ e ∈ expAll t, startsWith e.usn e.dev = true) ∧
    (∀ e ∈ (expected t ar st).1, startsWith e.usn e.dev = true) ∧
    (∀ m ∈ advertisements t, ∃ e ∈ expAll t, m = toMsg e ∧ startsWith m.usn e.dev = true) := by
  have hall : ∀ e ∈ expAll t, startsWith e.usn e.dev = true := by
    intro e he
    simp only [expAll, List.mem_cons, List.mem_append, List.mem_flatMap, List.mem_map,
      List.not_mem_nil, or_false] at he
    rcases he with rfl | ⟨d, _, rfl | rfl⟩ | ⟨s, _, rfl⟩
    · simp only [expRoot, List.append_assoc]; exact startsWith_append _ _
    · exact startsWith_self _
    · simp only [expDevType, List.append_assoc]; exact startsWith_append _ _
    · simp only [expSvc, List.append_assoc]; exact startsWith_append _ _
  refine ⟨hall, ?_, ?_⟩
  · intro e he
    simp only [expected, List.mem_append] at he
    rcases he with he | he
    · unfold expectedBase at he
      simp only at he
      split at he
      · exact hall e he
      · split at he
        · simp only [List.mem_singleton] at he; subst he
          simp only [expRoot, List.append_assoc]; exact startsWith_append _ _
        · simp only [List.mem_append, List.mem_map, List.mem_filter] at he
          rcases he with (⟨d, _, rfl⟩ | ⟨d, _, rfl⟩) | ⟨s, _, rfl⟩
          · exact startsWith_self _
          · simp only [expDevType, List.append_assoc]; exact startsWith_append _ _
          · simp only [expSvc, List.append_assoc]; exact startsWith_append _ _
    · cases ar with
      | false => simp at he
      | true =>
        simp only [if_true, List.mem_singleton] at he; subst he
        simp only [expRoot, List.append_assoc]; exact startsWith_append _ _
  · intro m hm
    rw [advertisements_eq] at hm
    obtain ⟨e, he, rfl⟩ := List.mem_map.mp hm
    exact ⟨e, he, rfl, hall e he⟩

/-- … and, on well-formed trees, the library's `udn_from_usn` recovers exactly that UDN (table entries; by
    `target_dispatch` / `answers_eq_advertisements` these are the USNs of every emitted message),
    and the library's `udn_from_usn` recovers exactly that UDN -/
theorem usn_begins_with_udn {t : DevTree} (hw : wfTree t = true) (ar : Bool) (st : Str) :
    (∀ e ∈ expAll t, startsWith e.usn e.dev = true ∧ udnFromUsn e.usn = some e.dev) ∧
    (∀ e ∈ (expected t ar st).1, startsWith e.usn e.dev = true ∧ udnFromUsn e.usn = some e.dev) := by
  have w := WF.of_wfTree hw
  exact ⟨fun e he => ⟨(expAll_ok w e he).usn_prefix, (expAll_ok w e he).udn_of_usn⟩,
         fun e he => ⟨(expected_ok w ar st e he).usn_prefix, (expected_ok w ar st e he).udn_of_usn⟩⟩

/-! ### search-target dispatch -/

/-- **version matching**: for an offered type `base:w` (canonical decimal `w`, ASCII case ignored)
    `_match_type_versions` accepts exactly the targets `base:v` with `v ≤ w`; equivalently it is
    the spec's `typeMatches` -/
theorem version_matching {ty b : Str} {w : Nat} (h : typeParts (lower ty) = some (b, w)) (st : Str) :
    (matchTypeVersions ty st = true ↔ ∃ v, v ≤ w ∧ st = b ++ ':' :: decimal v)
    ∧ matchTypeVersions ty (lower st) = typeMatches ty st :=
  ⟨matchTypeVersions_of_parts h st, matchTypeVersions_eq_typeMatches (by rw [h]; rfl) st⟩

/-- **target dispatch**: for every well-formed tree — devices may share UDNs or types, services may
    repeat, a device type may equal a service type — both settings of the always-root option and
    EVERY string `st`, the answers are, as a multiset of (ST, USN) (ST compared ignoring ASCII case
    where it echoes the request), exactly the table prescribed for `st`: everything for `ssdp:all`,
    the root message for `upnp:rootdevice`, otherwise one UUID message per device whose UDN is `st`
    plus one message (echoing `st`) per device and per service whose type is `st`'s type at an equal
    or higher version, nothing for anything else; plus one root message when the option is on -/
theorem target_dispatch {t : DevTree} (hw : wfTree t = true) (ar : Bool) (st : Str) :
    ((buildResponses t ar st).map (msgKey (expected t ar st).2)).Perm
      ((expected t ar st).1.map (expKey (expected t ar st).2)) :=
  dispatch_perm (WF.of_wfTree hw) ar st

/-- **`upnp:rootdevice`** (any letter case) is answered with exactly the root message — for every
    tree, no hypothesis; with the always-root option the root message comes twice -/
theorem rootdevice_exact (t : DevTree) (ar : Bool) (st : Str) (h : lower st = rootDevice) :
    buildResponses t ar st = respRoot t :: (if ar then [respRoot t] else []) := by
  have h2 : rootDevice ≠ ssdpAll := by decide
  cases ar <;> simp [buildResponses, h, h2]

/-- … in particular (option off) `upnp:rootdevice` gets exactly the root message, a target for
    which the table is empty (foreign UUID, foreign or too-high type version, malformed) gets
    nothing, and the number of answers to a type target is the number of devices plus the number of
    services offering that type at the requested or a higher version (multiset form of "one per
    matching device / service") -/
theorem target_dispatch_cases {t : DevTree} (hw : wfTree t = true) (st : Str) :
    (lower st = rootDevice → buildResponses t false st = [respRoot t]) ∧
    ((expected t false st).1 = [] → buildResponses t false st = []) ∧
    (lower st ≠ ssdpAll → lower st ≠ rootDevice →
      (buildResponses t false st).length
        = ((allDevices t).filter fun d => lower d.udn == lower st).length
          + ((allDevices t).filter fun d => typeMatches d.type st).length
          + ((allServices t).filter fun s => typeMatches s.type st).length) := by
  refine ⟨?_, ?_, ?_⟩
  · intro h
    have h2 : rootDevice ≠ ssdpAll := by decide
    simp [buildResponses, h, h2]
  · intro h
    have := target_dispatch hw false st
    rw [h] at this
    simpa using this.length_eq
  · intro h1 h2
    have := (target_dispatch hw false st).length_eq
    simp [expected, expectedBase, h1, h2] at this
    omega

/-- **options are read by truthiness**: an always-root option that is present but falsy (`False`,
    `None`, `0`, `""`) is the option absent — `target_dispatch` with `ar := o.isSet` then prescribes
    no extra root answer; only a truthy value adds it (the harness generates all three states, `None`
    / empty / filled option dicts and unrelated keys, for responder and announcer) -/
theorem option_by_truthiness (t : DevTree) (st : Str) :
    buildResponses t OptVal.falsy.isSet st = buildResponses t OptVal.absent.isSet st
    ∧ buildResponses t OptVal.truthy.isSet st = buildResponses t OptVal.absent.isSet st ++ [respRoot t] := by
  constructor
  · rfl
  · simp [buildResponses, OptVal.isSet]

/-! ### once, in the window, to the requester -/

/-- **sent once, inside the MX window**: for constants of the shape `gen_consts_ok` establishes, a
    well-formed M-SEARCH received at `now` yields exactly the messages of `_build_responses`, each
    once, all at one instant `now ≤ time ≤ now + MX` (MX read as an integer; `now` itself when MX is
    absent, zero, negative or not a number) — whatever the jitter choice; the handler never raises -/
theorem sent_once_in_window {k : Consts} (hk : constsOk k = true) (t : DevTree) (now : Int) (r : Req)
    (sel : Option Nat) (hr : isMSearch r = true) :
    ∃ sends, answer k t now r sel = some sends ∧
      sends.map (·.msg) = buildResponses t k.alwaysRoot (r.st.getD []) ∧
      ∀ s ∈ sends, now ≤ s.time ∧ s.time ≤ now + windowMs r.mx :=
  answer_spec (ConstsOk.of_bool hk) t now r sel hr

/-- **histories on the event loop**: run the responder as a state machine (`stepLoop`: a reception
    either sends at once or leaves a `call_at` timer; a clock advance fires the due timers) over ANY
    sequence of receptions and clock advances, then let `mxCap` more seconds pass: no timer is left,
    the handler never raised, and the datagrams sent are — as a multiset of (time, destination,
    message) — exactly those `answer` prescribes request by request (`outsFrom`), i.e. by
    `sent_once_in_window` each prescribed answer exactly once, to its requester, inside its window;
    nothing is lost, duplicated or misdirected by the interleaving -/
theorem history_once {k : Consts} (hk : constsOk k = true) (t : DevTree) (evs : List Ev) :
    let s := runLoop k t {} (evs ++ [.advance (k.mxCap * 1000)])
    s.timers = [] ∧ s.raisedAt = [] ∧ s.log.Perm (outsFrom k t 0 evs) := by
  have kk := ConstsOk.of_bool hk
  have g0 : Good k ({} : Loop) := ⟨rfl, by intro tm h; simp at h⟩
  obtain ⟨g1, p1⟩ := runLoop_spec kk t evs {} g0
  obtain ⟨g2, p2, _⟩ := step_spec kk t _ g1 (.advance (k.mxCap * 1000))
  have hf := flush_timers _ g1 t
  simp only [runLoop, List.foldl_append, List.foldl_cons, List.foldl_nil]
  refine ⟨hf, g2.noRaise, ?_⟩
  have e : (stepLoop k t (runLoop k t {} evs) (.advance (k.mxCap * 1000))).all
      = (stepLoop k t (runLoop k t {} evs) (.advance (k.mxCap * 1000))).log := by
    simp [Loop.all, hf]
  rw [e] at p2
  refine p2.trans ?_
  simp only [outsFrom, List.append_nil]
  refine p1.trans ?_
  simp [Loop.all]

/-- **the event-loop run, judge-free and both ways** (clauses 3–8 and 12 without the judge): run
    the responder state machine over ANY sequence of receptions and clock advances and let `mxCap`
    more seconds pass.  Then no timer is left, nothing raised, and the log of sent datagrams is — as
    a multiset — the disjoint union over the receptions of what each one causes (`outsOf`), where a
    reception that is not an M-SEARCH causes nothing, and an M-SEARCH received at `τ` from `r` causes
    exactly the (ST, USN) multiset the table prescribes for its target (ST compared as the target
    demands), every datagram going to `r` at a time in `[τ, τ + MX]`, each realising a table entry
    whose USN it carries and begins with the described device's UDN, and which the listener model —
    for every configuration with a description URL the listener accepts — reports as that device.
    So every datagram in the log has a reception that accounts for it, and every prescribed answer
    of every M-SEARCH is in the log exactly once; no requester is exempt. -/
theorem loop_answers_exact {k : Consts} (hk : constsOk k = true) {t : DevTree} (hw : wfTree t = true)
    (evs : List Ev) :
    let s := runLoop k t {} (evs ++ [.advance (k.mxCap * 1000)])
    s.timers = [] ∧ s.raisedAt = [] ∧
    s.log.Perm ((recvsFrom 0 evs).flatMap fun x => outsOf k t x.1 x.2.1 x.2.2.1 x.2.2.2) ∧
    ∀ x ∈ recvsFrom 0 evs,
      (isMSearch x.2.2.1 = false → outsOf k t x.1 x.2.1 x.2.2.1 x.2.2.2 = []) ∧
      (isMSearch x.2.2.1 = true →
        ((outsOf k t x.1 x.2.1 x.2.2.1 x.2.2.2).map fun o =>
            msgKey (expected t k.alwaysRoot (x.2.2.1.st.getD [])).2 o.msg).Perm
          ((expected t k.alwaysRoot (x.2.2.1.st.getD [])).1.map
            (expKey (expected t k.alwaysRoot (x.2.2.1.st.getD [])).2)) ∧
        ∀ o ∈ outsOf k t x.1 x.2.1 x.2.2.1 x.2.2.2,
          o.dest = x.2.1 ∧ x.1 ≤ o.time ∧ o.time ≤ x.1 + windowMs x.2.2.1.mx ∧
          ∃ e ∈ (expected t k.alwaysRoot (x.2.2.1.st.getD [])).1,
            o.msg.usn = e.usn ∧ startsWith o.msg.usn e.dev = true ∧
            ∀ cfg : Cfg, validLocation cfg.location = true →
              hearResponse cfg o.msg = ⟨true, e.dev, o.msg.st, cfg.location, 0⟩) := by
  intro s
  have kk := ConstsOk.of_bool hk
  have w := WF.of_wfTree hw
  obtain ⟨h1, h2, h3⟩ := history_once hk t evs
  refine ⟨h1, h2, by rw [← outsFrom_eq]; exact h3, ?_⟩
  rintro ⟨τ, r, req, sel⟩ _
  refine ⟨fun hn => by simp [outsOf, answer_not_msearch k t τ req sel hn], fun hm => ?_⟩
  obtain ⟨sends, hans, hmsgs, htime⟩ := answer_spec kk t τ req sel hm
  simp only [outsOf, hans, Option.getD_some]
  constructor
  · have := dispatch_perm w k.alwaysRoot (req.st.getD [])
    rw [← hmsgs, List.map_map] at this
    simpa [List.map_map, Function.comp_def] using this
  · intro o ho
    obtain ⟨sd, hsd, rfl⟩ := List.mem_map.mp ho
    obtain ⟨ht1, ht2⟩ := htime sd hsd
    have hmem : sd.msg ∈ buildResponses t k.alwaysRoot (req.st.getD []) := by
      rw [← hmsgs]; exact List.mem_map.mpr ⟨sd, hsd, rfl⟩
    obtain ⟨e, he, heok, husn, hst, _⟩ := response_entry w k.alwaysRoot (req.st.getD []) hmem
    exact ⟨rfl, ht1, ht2, e, he, husn, by rw [husn]; exact heok.usn_prefix,
      fun cfg hl => hearResponse_ok heok cfg husn hst hl⟩

/-! ### the announcer -/

/-- **announce cycle**: the `i`-th `ssdp:alive` goes out `i` intervals after the start and is the
    `(i mod L)`-th entry of `_build_advertisements` (round-robin, any number of rounds) -/
theorem announce_cycle (k : Consts) (t : DevTree) (n i : Nat) (h : i < n) :
    (alives k t n)[i]? = some ⟨Int.ofNat (i * k.announceMs), aliveAt t i⟩
    ∧ aliveAt t i ∈ advertisements t
    ∧ aliveAt t (i + (advertisements t).length) = aliveAt t i
    ∧ (i < (advertisements t).length → (advertisements t)[i]? = some (aliveAt t i)) := by
  refine ⟨?_, aliveAt_mem t i, aliveAt_add_length t i, aliveAt_lt t⟩
  simp [alives, List.getElem?_map, List.getElem?_range h]

/-! ### the library's own listener -/

/-- **one listener**: the `Str`-level predicates used above are the merged C03/C04 listener
    model's: `udn_from_usn`, and the location test — `validLocation` IS `C03.Parse.locUsable`
    (`ssdp_listener.is_usable_location`: http(s) scheme, decision on the parsed host: no `localhost`,
    no loopback, no IPv4 link-local, nothing unparsable) with the constants generated from
    `ssdp_listener.py` -/
theorem listener_predicates (u l : Str) :
    C03.Parse.udnFromUsn (toS u) = (udnFromUsn u).map toS
    ∧ C03.Parse.locUsable C03.genCfg.searchPrefix C03.genCfg.schemes C03.genCfg.loopbackNames (toS l) = validLocation l :=
  ⟨udnFromUsn_eq u, validLocation_eq l⟩

/-- the hypothesis of `listener_accepts` is about the parsed host of `baseUri ++ deviceUrl`: other
    spellings of an unusable address are refused too, ordinary IPv4 / IPv6 / named hosts are not -/
example :
    (["http://127.0.0.2:8000/device.xml", "http://localhost:8000/device.xml", "http://[::1]:8000/device.xml",
      "http://169.254.7.7/d.xml", "ftp://192.168.1.5/d.xml", "http://LOCALHOST/d"].map fun l => validLocation l.toList)
      = [false, false, false, false, false, false]
    ∧ (["http://192.168.1.5:8000/device.xml", "https://server.example:8443/", "http://[2001:db8::1]:80/device.xml"].map
        fun l => validLocation l.toList) = [true, true, true] := by
  refine ⟨by decide +kernel, by decide +kernel⟩

/-- **listener accepts** (composition with the C03/C04 model): take any message the server emits
    for a well-formed tree — any search answer (either option setting), any `ssdp:alive`, any
    `ssdp:byebye` — as the full header list `build_ssdp_packet` serialises, add what
    `decode_ssdp_packet` adds, and run the merged listener model (`C03.Parse.parseEv`: `_on_data`
    dispatch and the validity predicates `valid_search_headers / valid_advertisement_headers /
    valid_byebye_headers`; `C03.step`: `SsdpDeviceTracker` and the `_on_*` callbacks) on a tracker
    that knows nothing (byebye: that has just processed the alive).  With a description URL the
    listener does not refuse by design (`validLocation`: http(s), parsed host not `localhost` /
    loopback / IPv4 link-local — IPv4, IPv6 or named host alike) the callback fires with the device the message describes, the message's own
    ST/NT, and the description URL as the device's location. -/
theorem listener_accepts {t : DevTree} (hw : wfTree t = true) (c : Cfg) (hl : validLocation c.location = true) :
    (∀ ar st, ∀ m ∈ buildResponses t ar st, ∃ e ∈ (expected t ar st).1, m.usn = e.usn ∧
        hearResponse c m = ⟨true, e.dev, m.st, c.location, 0⟩) ∧
    (∀ m ∈ advertisements t, ∃ e ∈ expAll t, m = toMsg e ∧
        hearAlive c m = ⟨true, e.dev, m.st, c.location, 1⟩ ∧
        hearByebye c m = ⟨true, e.dev, m.st, c.location, 2⟩) := by
  have w := WF.of_wfTree hw
  constructor
  · intro ar st m hm
    obtain ⟨e, he, heok, husn, hst, _⟩ := response_entry w ar st hm
    exact ⟨e, he, husn, hearResponse_ok heok c husn hst hl⟩
  · intro m hm
    rw [advertisements_eq] at hm
    obtain ⟨e, he, rfl⟩ := List.mem_map.mp hm
    have heok := expAll_ok w e he
    exact ⟨e, he, rfl, hearAlive_ok heok c rfl heok.st hl, hearByebye_ok heok c rfl heok.st hl⟩

/-- **listener refuses** — the other half of the dichotomy on the description URL: when the
    listener's own `is_usable_location` refuses `baseUri ++ deviceUrl` (`localhost`, loopback,
    IPv4 link-local, a scheme other than http(s), an unparsable host), EVERY message the server can
    emit (any ST/NT, any USN — no hypothesis on tree or message) is ignored by the listener model:
    no callback, nothing stored, for search answers, `ssdp:alive` and `ssdp:byebye` alike.  Together
    with `listener_accepts` clause 12 is decided for every description URL: "accepted as that device
    at the description URL" holds exactly when the listener accepts that URL at all. -/
theorem listener_refuses (c : Cfg) (m : Msg) (hv : validLocation c.location = false) :
    hearResponse c m = Heard.no ∧ hearAlive c m = Heard.no ∧ hearByebye c m = Heard.no :=
  hear_refused c m hv

/-! ### the wire -/

/-- **wire round trip**: the reader the driver applies to the implementation's datagrams
    (`parsePacket`) inverts `build_ssdp_packet` (`packet`) for CR-free text and colon-free header
    names; so when the correspondence check finds the implementation's bytes equal to the model's,
    the judge sees the model's start line and headers -/
theorem wire_round_trip (line : Str) (hs : List (Str × Str)) (hl : '\r' ∉ line)
    (hh : ∀ h ∈ hs, ':' ∉ h.1 ∧ '\r' ∉ h.1 ∧ '\r' ∉ h.2) :
    parsePacket (packet line hs) = some (line, hs) :=
  parsePacket_packet line hs hl hh

/-- the fields the judge reads from a response / notification are the message's own -/
theorem wire_fields (c : Cfg) (m : Msg) (nts : Str) :
    header (responseHeaders c m) "st".toList = m.st ∧ header (responseHeaders c m) "usn".toList = m.usn
    ∧ header (responseHeaders c m) "location".toList = c.location
    ∧ header (responseHeaders c m) "nts".toList = []
    ∧ header (notifyHeaders c nts m) "nt".toList = m.st ∧ header (notifyHeaders c nts m) "usn".toList = m.usn
    ∧ header (notifyHeaders c nts m) "location".toList = c.location
    ∧ header (notifyHeaders c nts m) "nts".toList = nts := by
  refine ⟨rfl, rfl, rfl, rfl, rfl, rfl, rfl, rfl⟩

/-- **one LOCATION for the whole tree**: every search answer (on behalf of the root, an embedded
    device or a service, for any target and either option setting), every `ssdp:alive` and every
    `ssdp:byebye` of a model run carries, as observed field and as LOCATION header on the wire, the
    ROOT description URL `baseUri ++ deviceUrl` — the model has no other URL to offer: an embedded
    device's own `DeviceInfo.url` does not enter (the harness generates trees where it differs, is
    empty or relative, and the judge compares every datagram's LOCATION with the root description
    URL, which is also where the listener must file the device) -/
theorem location_is_root_description (k : Consts) (cfg : Cfg) (target : Str) (t : DevTree)
    (searches : List SearchIn) (ann : Option AnnIn) :
    (runCase k cfg target t searches ann).location = cfg.baseUri ++ cfg.deviceUrl ∧
    (∀ m ∈ (runCase k cfg target t searches ann).responses ++ (runCase k cfg target t searches ann).alives
          ++ (runCase k cfg target t searches ann).byebyes, m.location = cfg.baseUri ++ cfg.deviceUrl) ∧
    (∀ (m : Msg) (nts : Str), header (responseHeaders cfg m) "location".toList = cfg.baseUri ++ cfg.deviceUrl
        ∧ header (notifyHeaders cfg nts m) "location".toList = cfg.baseUri ++ cfg.deviceUrl) := by
  refine ⟨rfl, ?_, fun m nts => ⟨rfl, rfl⟩⟩
  intro m hm
  simp only [List.mem_append] at hm
  rcases hm with (hm | hm) | hm
  · simp only [runCase, List.mem_flatMap, sendsOf, List.mem_map] at hm
    obtain ⟨i, _, s, _, rfl⟩ := hm
    rfl
  · cases ann with
    | none => simp [runCase] at hm
    | some a =>
      simp only [runCase, List.mem_map] at hm
      obtain ⟨s, _, rfl⟩ := hm
      rfl
  · cases ann with
    | none => simp [runCase] at hm
    | some a =>
      simp only [runCase] at hm
      split at hm
      · obtain ⟨m', _, rfl⟩ := List.mem_map.mp hm
        rfl
      · simp at hm

/-! ### the whole property -/

/-- **C13**: for every well-formed device tree, every list of requests (any request line, MAN, ST,
    MX, reception time, requester, jitter choice) and every announcer run (any start, any duration,
    stopped or not), the observations of the model satisfy the judge `ok`: no M-SEARCH makes the
    handler raise; every datagram on the response socket is accounted for by a search of its
    destination; every requester — however many searches it sends, also while answers to it are
    pending — receives as a multiset exactly what its searches prescribe, distributable over their
    MX windows; the announcements are the table round-robin, not ceasing, none after the stop; the byebyes are the table; every USN begins with the described device's UDN;
    every message is accepted by the listener model as that device at the description URL — for
    EVERY configuration: no hypothesis on the description URL (when the listener refuses it by design
    the listener clause of the judge is void and `listener_refuses` says what happens instead). -/
theorem c13_ok {k : Consts} (hk : constsOk k = true) {t : DevTree} (hw : wfTree t = true) (cfg : Cfg)
    (target : Str) (searches : List SearchIn) (ann : Option AnnIn) :
    ok (runCase k cfg target t searches ann) = true := by
  have kk := ConstsOk.of_bool hk
  have w := WF.of_wfTree hw
  unfold ok
  rw [Bool.and_eq_true, Bool.and_eq_true]
  exact ⟨⟨okResponses_run kk w cfg target searches ann, okAlives_run cfg target kk w searches ann⟩,
    okByebyes_run cfg target w searches ann⟩

/-- **what an accepting verdict means** (judge soundness, declarative form): if `ok c` holds for ANY
    observation `c` (implementation or model) then
    * no M-SEARCH made the handler raise;
    * every datagram on the response socket either went to a requester that also sent something that
      is not an M-SEARCH (unconstrained), or is a `200 OK` without NTS carrying the description URL
      that some M-SEARCH `s` accounts for: sent to `s`'s requester at a time in `[s.time, s.time + MX]`,
      realising an entry `e` of the table prescribed for `s`'s target with the USN beginning with
      `e.dev`, and — when the listener accepts the description URL — reported by the listener as
      device `e.dev`, type = the message's ST, at the description URL;
    * every requester that sent only M-SEARCHes received, as a multiset of (folded ST, USN), exactly
      the union of what its searches prescribe;
    * every advertisement and byebye carries the description URL, and the byebyes (if stopped) are a
      permutation of the table -/
theorem ok_sound (c : CaseObs) (h : ok c = true) :
    (∀ s ∈ c.searches, isMSearch s.req = true → s.raised = false) ∧
    (∀ m ∈ c.responses,
      (∃ s ∈ c.searches, s.requester = m.dest ∧ isMSearch s.req = false) ∨
      (m.startLine = okLine ∧ m.nts = [] ∧ m.location = c.location ∧
       ∃ s ∈ c.searches, isMSearch s.req = true ∧ m.dest = s.requester ∧ s.time ≤ m.time ∧
         m.time ≤ s.time + windowMs s.req.mx ∧
         ∃ e ∈ (expOf c s).1, normKey (expOf c s).2 e.st e.usn = normKey (expOf c s).2 m.st m.usn ∧
           startsWith m.usn e.dev = true ∧
           (validLocation c.location = true →
             m.heard.accepted = true ∧ m.heard.udn = e.dev ∧ m.heard.location = c.location ∧ m.heard.dst = m.st))) ∧
    (∀ s ∈ c.searches, (∀ s' ∈ c.searches, s'.requester = s.requester → isMSearch s'.req = true) →
      ((c.responses.filter (·.dest == s.requester)).map fun m => keyL m.st m.usn).Perm
        ((c.searches.filter (·.requester == s.requester)).flatMap (expKeysL c))) ∧
    (∀ m ∈ c.alives ++ c.byebyes, m.location = c.location) ∧
    (∀ ts, c.stopTime = some ts → (c.byebyes.map keyOf).Perm ((expAll c.tree).map fun e => (e.st, e.usn))) := by
  simp only [ok, Bool.and_eq_true] at h
  obtain ⟨⟨hR, hA⟩, hB⟩ := h
  simp only [okResponses, Bool.and_eq_true, List.all_eq_true] at hR
  obtain ⟨⟨hr1, hr2⟩, hr3⟩ := hR
  refine ⟨?_, ?_, ?_, ?_, ?_⟩
  · intro s hs hm
    have := hr1 s hs
    simpa [hm] using this
  · intro m hm
    have := hr2 m hm
    simp only [Bool.or_eq_true, List.any_eq_true, Bool.and_eq_true, beq_iff_eq, Bool.not_eq_true'] at this
    rcases this with ⟨s, hs, h1, h2⟩ | ⟨⟨⟨h1, h2⟩, h3⟩, s, hs, hacc⟩
    · exact Or.inl ⟨s, hs, h1, h2⟩
    · right
      simp only [accounts, Bool.and_eq_true, beq_iff_eq, decide_eq_true_eq, List.any_eq_true] at hacc
      obtain ⟨⟨⟨⟨a1, a2⟩, a3⟩, a4⟩, e, he, ⟨a5, a6⟩, a7⟩ := hacc
      refine ⟨h1, by simpa using h2, h3, s, hs, a1, a2, a3, a4, e, he, a5, a6, ?_⟩
      intro hv
      simp only [heardOk, hv, Bool.not_true, Bool.false_or, Bool.and_eq_true, beq_iff_eq] at a7
      exact ⟨a7.1.1.1.1, a7.1.1.1.2, a7.1.1.2, a7.1.2⟩
  · intro s hs hall
    have := hr3 s hs
    simp only [Bool.or_eq_true, List.any_eq_true, Bool.and_eq_true, beq_iff_eq, Bool.not_eq_true'] at this
    rcases this with ⟨s', hs', h1, h2⟩ | hq
    · have := hall s' hs' h1; rw [this] at h2; exact absurd h2 (by simp)
    · simp only [okRequester, Bool.and_eq_true] at hq
      have hp := List.isPerm_iff.mp hq.1
      simpa [List.map_map, Function.comp_def, List.flatMap_map] using hp
  · intro m hm
    simp only [okAlives, okByebyes, Bool.and_eq_true, List.all_eq_true] at hA hB
    rcases List.mem_append.mp hm with hm | hm
    · have := hA.1.1.1.2 m hm
      simp only [okNotify, Bool.and_eq_true, beq_iff_eq] at this
      exact this.1.2
    · cases hst : c.stopTime with
      | none => rw [hst] at hB; simp only [List.isEmpty_iff] at hB; rw [hB] at hm; exact absurd hm (by simp)
      | some ts =>
        rw [hst] at hB
        simp only [Bool.and_eq_true, List.all_eq_true] at hB
        have := (hB.2 m hm).1
        simp only [okNotify, Bool.and_eq_true, beq_iff_eq] at this
        exact this.1.2
  · intro ts hst
    simp only [okByebyes, hst, Bool.and_eq_true] at hB
    exact List.isPerm_iff.mp hB.1

/-- C13 for the constants `server.py` has now -/
theorem c13_ok_gen {t : DevTree} (hw : wfTree t = true) (cfg : Cfg)
    (target : Str) (searches : List SearchIn) (ann : Option AnnIn) :
    ok (runCase genConsts cfg target t searches ann) = true :=
  c13_ok gen_consts_ok hw cfg target searches ann

/-! ### non-vacuity -/

section Example
def exLeaf : DevTree := .node "uuid:leaf".toList "urn:schemas-upnp-org:device:Leaf:3".toList
  ["urn:schemas-upnp-org:service:C:2".toList] []
def exEmb : DevTree := .node "uuid:emb".toList "urn:schemas-upnp-org:device:Emb:2".toList
  ["urn:schemas-upnp-org:service:B:1".toList, "urn:schemas-upnp-org:service:C:2".toList] [exLeaf]
def exTree : DevTree := .node "UUID:Root".toList "urn:schemas-upnp-org:device:Root:1".toList
  ["urn:schemas-upnp-org:service:A:3".toList] [exEmb]
def exCfg : Cfg :=
  { baseUri := "http://[2001:db8::1]:8000".toList, deviceUrl := "/device.xml".toList, server := "s".toList,
    cacheControl := Gen.C13Server.cacheControl, date := "d".toList, bootId := "1".toList, configId := "1".toList,
    host := "239.255.255.250:1900".toList }
def exReq (st : String) (mx : Option String) : Req :=
  { line := mSearchLine, man := some ssdpDiscover, st := some st.toList, mx := mx.map String.toList }
def exSearches : List SearchIn :=
  [⟨0, "a".toList, exReq "SSDP:ALL" (some "3"), some 17⟩,
   ⟨500, "a".toList, exReq "URN:schemas-upnp-org:device:leaf:1" (some "10"), none⟩,
   ⟨900, "c".toList, exReq "urn:schemas-upnp-org:service:C:3" none, none⟩,
   ⟨950, "a".toList, exReq "uuid:EMB" (some "-1"), none⟩,
   ⟨960, "e".toList, exReq "urn:schemas-upnp-org:service:c:0" (some "0"), none⟩]

/-- the hypotheses of `c13_ok` hold for a root with an embedded device that itself embeds a device
    (the service type `C:2` occurs in two devices), an IPv6 description URL, and the run is not
    trivial: 11 answers to `ssdp:all` after 117 ms; ONE echoing answer for the nested device's type
    requested at a lower version and in another letter case, at the upper jitter bound (4749 ms,
    MX 10 capped at 5); none for a service type at a higher version; the UUID answer at once for a
    negative MX; TWO answers (two devices) for service type `C` at version 0; 35 announcements =
    three full rounds of 11 and two more, stopped, 11 byebyes.  With the always-root option a foreign
    target is answered with the root message alone. -/
example :
    wfTree exTree = true ∧ validLocation exCfg.location = true ∧ constsOk { genConsts with alwaysRoot := true } = true ∧
    (let c := runCase genConsts exCfg "t".toList exTree exSearches (some ⟨100, 100 + 34 * 30000 + 5, true⟩)
     exSearches.map (fun i => ((sendsOf genConsts exCfg exTree i).length, (sendsOf genConsts exCfg exTree i).map (·.time) |>.head?))
       = [(11, some 117), (1, some 5249), (0, none), (1, some 950), (2, some 960)]
     ∧ c.responses.length = 15
     ∧ c.alives.length = 35 ∧ c.byebyes.length = 11 ∧ c.stopTime = some (100 + 34 * 30000 + 5)
     ∧ (exSearches.map fun i => (sendsOf genConsts exCfg exTree i).map fun m => (String.ofList m.st, String.ofList m.usn))[1]?
         = some [("urn:schemas-upnp-org:device:leaf:1", "uuid:leaf::urn:schemas-upnp-org:device:Leaf:3")]
     ∧ (exSearches.map fun i => (sendsOf genConsts exCfg exTree i).map fun m => String.ofList m.usn)[4]?
         = some ["uuid:emb::urn:schemas-upnp-org:service:C:2", "uuid:leaf::urn:schemas-upnp-org:service:C:2"])
    ∧ (buildResponses exTree true "nothing".toList).map (fun m => String.ofList m.usn) = ["UUID:Root::upnp:rootdevice"] := by
  refine ⟨by decide +kernel, by decide +kernel, by decide +kernel, by decide +kernel, by decide +kernel⟩
/-- non-vacuity of `loop_answers_exact`: a history with two searches from ONE requester (the second
    while the first answer is pending), a datagram that is not an M-SEARCH, and clock advances; the
    log holds 11 + 1 datagrams, none for the NOTIFY -/
example :
    (let evs : List Ev :=
       [.recv "a".toList (exReq "ssdp:all" (some "3")) (some 17), .advance 50,
        .recv "a".toList (exReq "urn:schemas-upnp-org:device:leaf:1" (some "1")) none,
        .recv "z".toList { line := notifyLine, man := none, st := some ssdpAll, mx := none } none, .advance 10]
     let s := runLoop genConsts exTree {} (evs ++ [.advance (genConsts.mxCap * 1000)])
     (recvsFrom 0 evs).map (fun x => (x.1, isMSearch x.2.2.1)) = [(0, true), (50, true), (50, false)]
     ∧ s.log.length = 12 ∧ s.timers.length = 0
     ∧ (s.log.map fun o => (String.ofList o.dest, o.time)).eraseDups = [("a", 117), ("a", 799)]) := by
  decide +kernel

/-- the judge REJECTS: take the model's own observation of one `upnp:rootdevice` search and (1) drop
    the answer, (2) send it twice, (3) send it after the MX window, (4) send it to somebody else,
    (5) give it the embedded device's UDN in the USN — each is refused; the untouched one is accepted -/
example :
    (let t1 : DevTree := .node "uuid:r".toList "urn:x:device:R:1".toList [] []
     let c := runCase genConsts exCfg "t".toList t1 [⟨0, "a".toList, exReq "upnp:rootdevice" (some "1"), some 0⟩] none
     let upd (f : ObsMsg → ObsMsg) : CaseObs := { c with responses := c.responses.map f }
     [ok c, ok { c with responses := [] }, ok { c with responses := c.responses ++ c.responses },
      ok (upd fun m => { m with time := 1001 }), ok (upd fun m => { m with dest := "b".toList }),
      ok (upd fun m => { m with usn := "uuid:emb::upnp:rootdevice".toList })]
      = [true, false, false, false, false, false]) := by
  decide +kernel
end Example

end Upnp.C13
