/-
  C13 — the server answers searches with what it advertises and UDA prescribes, once.
  (first cut: see below; the full list of theorems is being added)
-/
import Upnp.Model.C13Run
namespace Upnp.C13

theorem advertisements_length (t : DevTree) :
    (advertisements t).length = 1 + 2 * (allDevices t).length + (allServices t).length := by
  simp only [advertisements, List.length_cons, List.length_append, List.length_map]
  have : ∀ l : List Dev, (l.flatMap fun d => [(⟨d.udn, d.udn⟩ : Msg), ⟨d.type, d.udn ++ sep ++ d.type⟩]).length = 2 * l.length := by
    intro l; induction l with
    | nil => rfl
    | cons a l ih => simp only [List.flatMap_cons, List.length_append, ih, List.length_cons, List.length_nil]; omega
  rw [this]; omega

end Upnp.C13
