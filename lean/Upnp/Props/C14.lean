/-
  C14 — server description and control interoperate with the library's own client.

  Property theorems only (helper lemmas are in `Upnp/Lemmas/C14*.lean`).  The model
  (`Upnp/Model/C14Server.lean`) transcribes, at the level of parsed XML trees, the HTTP side of
  `server.py` (construction of `UpnpServerService`, `UpnpXmlSerializer`, `_parse_action_body`,
  `action_handler`, `_create_action_response`, `_create_error_action_response`) and the client
  (`client_factory.py` description parsing, `UpnpAction.async_call`).  `serverHandle`, `clientCall`,
  `parseScpd`, `serializeScpd` … are the very functions the correspondence driver runs against the
  real code, and `rawOk` / `callOk` / `svcMatches` (`Upnp/Spec/C14.lean`) are the predicates the
  driver evaluates on the implementation's observations.
-/
import Upnp.Lemmas.C14Ctl
namespace Upnp.C14
open Upnp PyDict

/-- every `out` coercer of `const.STATE_VARIABLE_TYPE_MAPPING` has a shape that does not raise
    (the table is regenerated from the source on every run; F08a: `time.isoformat("T", …)`) -/
theorem gen_types_ok : Gen.C14.typeRows.all (fun r => !r.outRaises) = true := by decide

/-! ### invalid requests: SOAP fault or 4xx, never an unhandled exception -/

/-- what the harness observes of an outcome (status, SOAP fault as the client's `_parse_fault`
    reads it) -/
def obsOf (o : Outcome) : RawObs :=
  match o with
  | .unhandled e => .unhandled e
  | .http s _ => .resp s none none
  | .resp s b => .resp s ((parseFault b).map fun x => match x with | .ok c => c | .error _ => none) none

/-- **For every request** — any SOAPAction header or none, any body tree or a body that is not XML
    at all — and every handler that keeps its contract, no exception escapes `action_handler`. -/
theorem bad_request_never_unhandled (fs : Facts) (stype : Str) (acts : List SAct) (h : Handler) (r : Req)
    (hh : HandlerOk fs acts h) : ∀ e, serverHandle fs stype acts h r ≠ .unhandled e := by
  intro e he
  rcases serverHandle_cases fs stype acts h r hh with ⟨x, hx⟩ | ⟨x, hx⟩ | ⟨x, hx⟩ <;>
    (rw [hx] at he; cases he)

/-- **Every invalid request** (malformed envelope or header, unknown action, unknown / missing /
    unparseable / out-of-range / not-allowed argument — `invalidReq`) is answered with status 400
    or with status 500 carrying a SOAP fault the library's client decodes as UPnP error 402;
    this needs no assumption on the handler (it is never reached). -/
theorem invalid_request_rejected (fs : Facts) (stype : Str) (acts : List SAct) (h : Handler) (r : Req)
    (hinv : invalidReq fs acts r = true) :
    ((∃ reason, serverHandle fs stype acts h r = .http 400 reason)
      ∨ (serverHandle fs stype acts h r = .resp 500 (faultDoc 402)
          ∧ parseFault (faultDoc 402) = some (.ok (some 402))))
    ∧ handlerInput fs acts r = none := by
  refine ⟨?_, ?_⟩
  · rcases invalid_cases fs stype acts h r hinv with h1 | h2
    · exact Or.inl h1
    · exact Or.inr ⟨h2, parseFault_faultDoc 402⟩
  · unfold invalidReq at hinv
    unfold handlerInput
    cases hp : parseActionBody fs acts r with
    | bad reason => rfl
    | ok act kw =>
      rw [hp] at hinv
      simp only at hinv
      simp only
      split
      · rename_i hs; rw [hs] at hinv; cases hinv
      · rfl

/-- the run-time judge accepts the model's answer to every invalid request -/
theorem invalid_request_judged (fs : Facts) (stype : Str) (acts : List SAct) (h : Handler) (r : Req)
    (script : HandlerRes) (seen : Option (List (Str × Val)))
    (hinv : invalidReq fs acts r = true) :
    rawOk fs stype acts r script seen (obsOf (serverHandle fs stype acts h r)) = true := by
  rcases invalid_cases fs stype acts h r hinv with ⟨reason, h1⟩ | h2
  · rw [h1]; simp [obsOf, rawOk, hinv, isClientError]
  · rw [h2]; simp [obsOf, rawOk, hinv, parseFault_faultDoc]

/-! ### handler-raised action errors -/

/-- **A handler-raised action error reaches the caller as an action error with the same UPnP
    code**: whenever the request reaches the handler (`handlerInput`) and the handler raises
    `UpnpActionError(error_code=c)`, `c ≠ 0`, the client's decoding of the server's answer is
    `UpnpActionResponseError(error_code=c, status=500)`. -/
theorem handler_error_propagates (fs : Facts) (stype : Str) (acts : List SAct) (h : Handler) (r : Req)
    (cact : SAct) (n : Str) (kw : PyDict Str Val) (c : Nat)
    (hi : handlerInput fs acts r = some (n, kw)) (he : h n kw = .err (some c)) (hc : c ≠ 0) :
    clientDecode fs stype cact (serverHandle fs stype acts h r) = .actionError (some c) (some 500) := by
  obtain ⟨act, _, _, _, hs⟩ := serverHandle_reached (stype := stype) (h := h) hi
  rw [hs, he]
  simp only [hc, ↓reduceIte]
  exact clientDecode_fault fs stype cact c

/-- an error without a code (or code 0) is reported as 501 "Action Failed" -/
theorem handler_error_default (fs : Facts) (stype : Str) (acts : List SAct) (h : Handler) (r : Req)
    (cact : SAct) (n : Str) (kw : PyDict Str Val)
    (hi : handlerInput fs acts r = some (n, kw)) (he : h n kw = .err none) :
    clientDecode fs stype cact (serverHandle fs stype acts h r) = .actionError (some 501) (some 500) := by
  obtain ⟨act, _, _, _, hs⟩ := serverHandle_reached (stype := stype) (h := h) hi
  rw [hs, he]
  exact clientDecode_fault fs stype cact 501

end Upnp.C14
