/-
  C14 — server description and control interoperate with the library's own client.

  Property theorems only (helper lemmas are in `Upnp/Lemmas/C14*.lean`).  The model
  (`Upnp/Model/C14Server.lean`) transcribes, at the level of parsed XML trees, the HTTP side of
  `server.py` (construction of `UpnpServerService`, `UpnpXmlSerializer`, `_parse_action_body`,
  `action_handler`, `_create_action_response`, `_create_error_action_response`) and the client
  (`client_factory.py` description parsing, `UpnpAction.async_call`).  `serverHandle`, `clientCall`,
  `parseScpd`, `serializeScpd` … are the very functions the correspondence driver runs against the
  real code, and `rawOk` / `callOk` / `svcMatches` (`Upnp/Spec/C14.lean`) are the predicates the
  driver evaluates on the implementation's observations.
-/
import Upnp.Lemmas.C14Ctl
import Upnp.Lemmas.C14Call
import Upnp.Lemmas.C14Desc
import Upnp.Lemmas.C14Svc
import Upnp.Lemmas.C14Dev
import Upnp.Lemmas.C14Schema
import Upnp.Lemmas.C14Invalid
import Upnp.Lemmas.C14Bridge
import Upnp.Lemmas.C14DevBridge
import Upnp.Props.C05
import Upnp.Lemmas.C14Call06
import Upnp.Lemmas.C14Agree
import Upnp.Lemmas.C14Fault07
import Upnp.Props.C06
import Upnp.Gen.C08Types
namespace Upnp.C14
open Upnp PyDict

/-- every `out` coercer of `const.STATE_VARIABLE_TYPE_MAPPING` has a shape that does not raise
    (the table is regenerated from the source on every run; F08a: `time.isoformat("T", …)`) -/
theorem gen_types_ok : Gen.C14.typeRows.all (fun r => !r.outRaises) = true := by decide

/-! ### invalid requests: SOAP fault or 4xx, never an unhandled exception -/

/-- what the harness observes of an outcome (status, SOAP fault as the client's `_parse_fault`
    reads it) -/
def obsOf (o : Outcome) : RawObs :=
  match o with
  | .unhandled e => .unhandled e
  | .http s _ => .resp s none none
  | .resp s b => .resp s ((parseFault b).map fun x => match x with | .ok c => c | .error _ => none) none

/-- **For every request** — any SOAPAction header or none, any body tree or a body that is not XML
    at all — and every handler that keeps its contract, no exception escapes `action_handler`. -/
theorem bad_request_never_unhandled (fs : Facts) (stype : Str) (acts : List SAct) (h : Handler) (r : Req)
    (hh : HandlerOk fs acts h) : ∀ e, serverHandle fs stype acts h r ≠ .unhandled e := by
  intro e he
  rcases serverHandle_cases fs stype acts h r hh with ⟨x, hx⟩ | ⟨x, hx⟩ | ⟨x, hx⟩ <;>
    (rw [hx] at he; cases he)

/-- **Every invalid request** (malformed envelope or header, unknown action, unknown / missing /
    unparseable / out-of-range / not-allowed argument — `invalidReq`) is answered with status 400
    or with status 500 carrying a SOAP fault the library's client decodes as UPnP error 402;
    this needs no assumption on the handler (it is never reached). -/
theorem invalid_request_rejected (fs : Facts) (stype : Str) (acts : List SAct) (h : Handler) (r : Req)
    (hinv : invalidReq fs acts r = true) :
    ((∃ reason, serverHandle fs stype acts h r = .http 400 reason)
      ∨ (serverHandle fs stype acts h r = .resp 500 (faultDoc 402)
          ∧ parseFault (faultDoc 402) = some (.ok (some 402))))
    ∧ handlerInput fs acts r = none := by
  refine ⟨?_, ?_⟩
  · rcases invalid_cases fs stype acts h r hinv with h1 | h2
    · exact Or.inl h1
    · exact Or.inr ⟨h2, parseFault_faultDoc 402⟩
  · unfold invalidReq at hinv
    unfold handlerInput
    cases hp : parseActionBody fs acts r with
    | bad reason => rfl
    | ok act kw =>
      rw [hp] at hinv
      simp only at hinv
      simp only
      split
      · rename_i hs; rw [hs] at hinv; cases hinv
      · rfl

/-- **Which requests are invalid — the classes of the property text, stated one by one** (each then
    falls under `invalid_request_rejected`): a body that is not XML; no SOAP `Body`; an empty `Body`;
    a `SOAPAction` header not of the form `type#action`; a header naming no action of the service;
    a request that parses but carries a value its variable's schema rejects (out of range / not
    allowed).  (Missing / unknown / unparseable argument elements are the `.bad` results of
    `parseArgs`; they are exercised by the `example` below and the correspondence, not yet stated as
    separate lemmas.) -/
theorem invalid_classes (fs : Facts) (acts : List SAct) (r : Req) :
    (r.body = none → invalidReq fs acts r = true)
    ∧ (∀ root, r.body = some root → root.find (soapq "Body") = none → invalidReq fs acts r = true)
    ∧ (∀ root b, r.body = some root → root.find (soapq "Body") = some b → b.kids = [] → invalidReq fs acts r = true)
    ∧ ((∀ a b, splitHash (stripQuotes (r.soapAction.getD [])) ≠ [a, b]) → invalidReq fs acts r = true)
    ∧ (∀ t name, splitHash (stripQuotes (r.soapAction.getD [])) = [t, name] →
        acts.find? (fun a => a.name = name) = none → invalidReq fs acts r = true)
    ∧ (∀ act kw, parseActionBody fs acts r = .ok act kw → ∀ a ∈ act.ins, ∀ v, PyDict.get? kw a.name = some v →
        schemaOk fs a.var v = false → invalidReq fs acts r = true) :=
  ⟨not_xml_invalid fs acts r, no_body_invalid fs acts r, empty_body_invalid fs acts r, bad_header_invalid fs acts r,
   unknown_action_invalid fs acts r, fun act kw hp a ha v hv hs => schema_invalid fs acts r act kw hp a ha v hv hs⟩

/-- the run-time judge accepts the model's answer to every invalid request -/
theorem invalid_request_judged (fs : Facts) (stype : Str) (acts : List SAct) (h : Handler) (r : Req)
    (script : HandlerRes) (seen : Option (List (Str × Val)))
    (hinv : invalidReq fs acts r = true) :
    rawOk fs stype acts r script seen (obsOf (serverHandle fs stype acts h r)) = true := by
  rcases invalid_cases fs stype acts h r hinv with ⟨reason, h1⟩ | h2
  · rw [h1]; cases hm : mustReject fs acts r <;> simp [obsOf, rawOk, hinv, hm, isClientError]
  · rw [h2]; cases hm : mustReject fs acts r <;> simp [obsOf, rawOk, hinv, hm, parseFault_faultDoc]

/-! ### handler-raised action errors -/

/-- **A handler-raised action error reaches the caller as an action error with the same UPnP
    code**: whenever the request reaches the handler (`handlerInput`) and the handler raises
    `UpnpActionError(error_code=c)`, `c ≠ 0`, the client's decoding of the server's answer is
    `UpnpActionResponseError(error_code=c, status=500)`. -/
theorem handler_error_propagates (fs : Facts) (stype : Str) (acts : List SAct) (h : Handler) (r : Req)
    (cact : SAct) (n : Str) (kw : PyDict Str Val) (c : Nat)
    (hi : handlerInput fs acts r = some (n, kw)) (he : h n kw = .err (some c)) (hc : c ≠ 0) :
    clientDecode fs stype cact (serverHandle fs stype acts h r) = .actionError (some c) (some 500) := by
  obtain ⟨act, _, _, _, hs⟩ := serverHandle_reached (stype := stype) (h := h) hi
  rw [hs, he]
  simp only [renderResult, hc, ↓reduceIte]
  exact clientDecode_fault fs stype cact c

/-- an error without a code (or code 0) is reported as 501 "Action Failed" -/
theorem handler_error_default (fs : Facts) (stype : Str) (acts : List SAct) (h : Handler) (r : Req)
    (cact : SAct) (n : Str) (kw : PyDict Str Val)
    (hi : handlerInput fs acts r = some (n, kw)) (he : h n kw = .err none) :
    clientDecode fs stype cact (serverHandle fs stype acts h r) = .actionError (some 501) (some 500) := by
  obtain ⟨act, _, _, _, hs⟩ := serverHandle_reached (stype := stype) (h := h) hi
  rw [hs, he]
  exact clientDecode_fault fs stype cact 501


/-! ### valid calls -/

/-- **Every action invoked through the client model with valid arguments reaches the handler with
    the same typed values and returns the handler's typed results to the caller.**

    `sact` is the server's action (bound to the server's variables); the client calls with *its own*
    action object `cactOf fs sact` — the one `client_sees_definition` shows the factory builds from
    the served SCPD (same argument names, bound to the client's parse `clientVarOf` of each variable).
    For every service type and action name free of `#` and `"`, distinct in-argument names, every
    argument assignment `args` that is **valid for the definition** — each in-argument gets a value
    which passes the schema of the definition's variable (`ArgsOk … sact.ins`); that the client's
    re-parsed variables then accept it too, so the client sends it, is *derived* (`argsOk_cactOf` from
    `schemaOk_clientVarOf`, for well-formed variables `VarAgreeWF`: `VarWF` plus non-empty bound texts) —
    and survives the codec (`pyInt_decOfInt` for the integer types, trivial for strings
    and booleans, recorded facts for float / date / time), and every handler result `vals` of
    out-arguments with valid values (`ValsOk`), returned as plain values or — the library's own idiom —
    as the `UpnpStateVariable` objects holding them (`.retVars`):
    * the request written by the client's `create_request` is accepted by `_parse_action_body`,
      passes `validate_arguments`, and the handler is called with a dictionary holding exactly the
      caller's value for each in-argument and nothing else;
    * the response written by `_create_action_response` is decoded by the client's `parse_response`
      into exactly the handler's dictionary. -/
theorem call_roundtrip (fs : Facts) (stype : Str) (sacts : List SAct) (sact : SAct) (h : Handler)
    (args vals : List (Str × Val))
    (h1 : '#' ∉ stype) (h2 : '"' ∉ stype) (h3 : '#' ∉ sact.name) (h4 : '"' ∉ sact.name)
    (hfind : sacts.find? (fun a => a.name = sact.name) = some sact)
    (hnd : (sact.ins.map (·.name)).Nodup)
    (hw : ∀ a ∈ sact.ins, VarAgreeWF fs a.var) (hokS : ArgsOk fs args sact.ins)
    (hh : h sact.name (kwOf args sact) = .ret vals ∨ ∃ asVar, h sact.name (kwOf args sact) = .retVars vals asVar)
    (hv : ValsOk fs sact vals) :
    createRequest fs stype (cactOf fs sact) args = .ok (reqOf stype sact args)
    ∧ handlerInput fs sacts (reqOf stype sact args) = some (sact.name, kwOf args sact)
    ∧ (∀ a ∈ sact.ins, get? (kwOf args sact) a.name = get? args a.name)
    ∧ (∀ k, k ∉ sact.ins.map (·.name) → get? (kwOf args sact) k = none)
    ∧ clientCall fs stype (cactOf fs sact) (serverHandle fs stype sacts h) args = .ok (PyDict.ofList vals) := by
  obtain ⟨_, hp, hi⟩ := request_reaches_handler (acts := sacts) h1 h2 h3 h4 hfind hnd hokS
  have hokC : ArgsOk fs args (cactOf fs sact).ins := argsOk_cactOf hw hokS
  have hc := createRequest_cactOf (stype := stype) hokC
  refine ⟨hc, hi, ?_, ?_, ?_⟩
  · intro a ha
    obtain ⟨v, hv', _, _⟩ := hokS a ha
    rw [get?_kwOf hnd ha, hv']; simp [argVal, hv']
  · intro k hk
    rw [get?_eq_none_iff]
    unfold kwOf
    rw [mem_keys_ofList]
    simpa [List.map_map, Function.comp_def] using hk
  · obtain ⟨act', _, _, hp', hs⟩ := serverHandle_reached (stype := stype) (h := h) hi
    rw [hp] at hp'
    cases hp'
    unfold clientCall
    rw [hc]
    simp only
    have hr : renderResult fs stype sact (h sact.name (kwOf args sact)) = renderResult fs stype sact (.ret vals) := by
      rcases hh with hh | ⟨asVar, hh⟩
      · rw [hh]
      · rw [hh]; exact renderResult_retVars hv asVar
    rw [hs, hr]
    simp only [renderResult, responseKids_ok hv]
    rw [clientDecode_cactOf]
    exact response_reaches_caller hv

/-- non-vacuity of `call_roundtrip`: a `ui2` argument restricted to 1..10 and a string argument,
    an `i4` and a string result; the hypotheses hold and the call returns the handler's values -/
example :
    let vA : VarDef := ⟨"VarA".toList, "ui2".toList, false, some "1".toList, some "10".toList, none, none⟩
    let vS : VarDef := ⟨"VarS".toList, "string".toList, false, none, none, some ["a".toList, "b<&>".toList], none⟩
    let vE : VarDef := ⟨"VarE".toList, "i4".toList, true, none, none, none, some "5".toList⟩
    let act : SAct := ⟨"Act".toList, [⟨"A".toList, vA⟩, ⟨"S".toList, vS⟩], [⟨"R".toList, vE⟩, ⟨"S2".toList, vS⟩]⟩
    let args : List (Str × Val) := [("S".toList, .str "b<&>".toList), ("A".toList, .int 5)]
    let vals : List (Str × Val) := [("R".toList, .int (-7)), ("S2".toList, .str "a".toList)]
    let stype := "urn:schemas-upnp-org:service:S0:1".toList
    clientCall [] stype (cactOf [] act) (serverHandle [] stype [act] (fun _ _ => .ret vals)) args = .ok vals
    ∧ handlerInput [] [act] (reqOf stype act args)
        = some ("Act".toList, [("A".toList, .int 5), ("S".toList, .str "b<&>".toList)])
    ∧ clientCall [] stype (cactOf [] act) (serverHandle [] stype [act] (fun _ _ => .err (some 714))) args
        = .actionError (some 714) (some 500) := by
  decide +kernel

/-- the hypotheses of `call_roundtrip` are jointly satisfiable on that shape: the variables are
    `VarAgreeWF` (no codec hypothesis: `varAgreeWF_modelled`), the arguments valid for the definition
    (`ArgsOk` on the server's action only), the results valid (`ValsOk`) -/
example :
    let vA : VarDef := ⟨"VarA".toList, "ui2".toList, false, some "1".toList, some "10".toList, none, none⟩
    let vS : VarDef := ⟨"VarS".toList, "string".toList, false, none, none, some ["a".toList, "b<&>".toList], none⟩
    let vE : VarDef := ⟨"VarE".toList, "i4".toList, true, none, none, none, some "5".toList⟩
    let act : SAct := ⟨"Act".toList, [⟨"A".toList, vA⟩, ⟨"S".toList, vS⟩], [⟨"R".toList, vE⟩, ⟨"S2".toList, vS⟩]⟩
    let args : List (Str × Val) := [("S".toList, .str "b<&>".toList), ("A".toList, .int 5)]
    let vals : List (Str × Val) := [("R".toList, .int (-7)), ("S2".toList, .str "a".toList)]
    (∀ a ∈ act.ins, VarAgreeWF [] a.var) ∧ ArgsOk [] args act.ins ∧ ValsOk [] act vals := by
  refine ⟨?_, ?_, ?_⟩
  · intro a ha
    simp only [List.mem_cons, List.not_mem_nil, or_false] at ha
    rcases ha with rfl | rfl
    · apply varAgreeWF_modelled (Or.inl (by decide)) (by decide)
      · intro s h; simp at h; rcases h with rfl | rfl <;> decide
      · intro s h; simp at h; rcases h with rfl | rfl <;> decide
      · intro a ha; simp at ha
    · apply varAgreeWF_modelled (Or.inr (Or.inl (by decide))) (by decide)
      · intro s h; simp at h; rcases h with rfl | rfl <;> decide
      · intro s h; simp at h
      · intro a ha v hv
        simp at ha
        rcases ha with rfl | rfl
        · have e : inp [] "string".toList "a".toList = some (.str "a".toList) := by decide
          have : some v = some (.str "a".toList) := hv.symm.trans e
          cases this; decide
        · have e : inp [] "string".toList "b<&>".toList = some (.str "b<&>".toList) := by decide
          have : some v = some (.str "b<&>".toList) := hv.symm.trans e
          cases this; decide
  · intro a ha
    simp only [List.mem_cons, List.not_mem_nil, or_false] at ha
    rcases ha with rfl | rfl
    · exact ⟨.int 5, by decide, by decide, by decide⟩
    · exact ⟨.str "b<&>".toList, by decide, by decide, by decide⟩
  · intro p hp
    simp only [List.mem_cons, List.not_mem_nil, or_false] at hp
    rcases hp with rfl | rfl
    · exact ⟨⟨"R".toList, ⟨"VarE".toList, "i4".toList, true, none, none, none, some "5".toList⟩⟩, by decide, by decide, by decide⟩
    · exact ⟨⟨"S2".toList, ⟨"VarS".toList, "string".toList, false, none, none, some ["a".toList, "b<&>".toList], none⟩⟩,
        by decide, by decide, by decide⟩

/-- The domain of `call_roundtrip` is "names distinct per action **and direction**": `hnd` speaks of
    the in-arguments only and `ValsOk` looks results up among the out-arguments only, so an action
    may use one name for an in- and an out-argument (`UpnpAction.argument(name, direction)`), bound
    to different variables.  Non-vacuity on exactly that shape: `Volume` goes in as a `ui2` and comes
    out as a string, `Channel` the other way round; the served SCPD is read back with both arguments
    of each name, the handler sees the integer, the caller gets the string. -/
example :
    let vN : VarDef := ⟨"Vol".toList, "ui2".toList, false, some "0".toList, some "100".toList, none, none⟩
    let vS : VarDef := ⟨"Txt".toList, "string".toList, false, none, none, none, none⟩
    let act : SAct := ⟨"SetVolume".toList, [⟨"Volume".toList, vN⟩, ⟨"Channel".toList, vS⟩],
                                            [⟨"Volume".toList, vS⟩, ⟨"Channel".toList, vN⟩]⟩
    let args : List (Str × Val) := [("Volume".toList, .int 7), ("Channel".toList, .str "L".toList)]
    let vals : List (Str × Val) := [("Volume".toList, .str "seven".toList), ("Channel".toList, .int 7)]
    let stype := "urn:schemas-upnp-org:service:S0:1".toList
    (act.ins.map (·.name)).Nodup
    ∧ (parseScpd [] (serializeScpd [] [vN, vS] [act])).map (fun p => (p.1, p.2.map actViewOf))
        = some ([vN, vS].map (clientVarOf []), [actViewOf (cactOf [] act)])
    ∧ handlerInput [] [act] (reqOf stype act args) = some ("SetVolume".toList, args)
    ∧ clientCall [] stype (cactOf [] act) (serverHandle [] stype [act] (fun _ _ => .ret vals)) args = .ok vals := by
  decide +kernel

/-! ### description -/

/-- **The served description of a state variable is parsed by the client into a model equal to the
    definition** (`varMatches`: same name, data type and evented flag; typed minimum, maximum —
    each possibly absent, one-sided ranges included — and default equal; allowed values equal as a
    set of typed values), for every well-formed definition (`VarWF`: blank-free name, supported type,
    texts that coerce to values which survive the type's `out` and `in` coercers — automatic for the
    integer, string and boolean families, see `rtok_modelled`). -/
theorem client_sees_variable (fs : Facts) (vd : VarDef) (h : VarWF fs vd) :
    parseVar (serializeVar fs vd) = some (clientVarOf fs vd)
    ∧ varMatches fs vd (viewOf fs (clientVarOf fs vd)) = true :=
  ⟨parseVar_serializeVar fs vd h.name_ok h.fam_ok, var_roundtrip h⟩

/-- non-vacuity of `client_sees_variable`: an evented `i4` with only a minimum and a default, and a
    boolean with an allowed list written in several spellings -/
example :
    let v1 : VarDef := ⟨"Volume".toList, "i4".toList, true, some " 07 ".toList, none, none, some "+9".toList⟩
    let v2 : VarDef := ⟨"Mute".toList, "boolean".toList, false, none, none, some ["YES".toList, "1".toList], some "true".toList⟩
    (parseVar (serializeVar [] v1)).map (fun c => (c.evented, c.min, c.max, c.default))
        = some (true, some "7".toList, none, some "9".toList)
    ∧ varMatches [] v1 (viewOf [] (clientVarOf [] v1)) = true
    ∧ (parseVar (serializeVar [] v2)).map (·.allowed) = some (some ["1".toList])
    ∧ varMatches [] v2 (viewOf [] (clientVarOf [] v2)) = true := by
  decide +kernel

/-- non-vacuity of `client_sees_variable` with BOTH facets at once (seeded batch 3): an allowed list
    together with a two-sided range (and a default), and a list with a one-sided range; the client reads
    back list *and* bounds, `varMatches` holds, and server and client agree with the definition on a
    value the list admits but the range rejects (50), one the range admits but the list does not (3),
    and a valid one (5) -/
example :
    let v1 : VarDef := ⟨"Lvl".toList, "ui2".toList, false, some "0".toList, some "10".toList,
                        some ["1".toList, "5".toList, "50".toList], some "5".toList⟩
    let v2 : VarDef := ⟨"Word".toList, "string".toList, false, none, some "m".toList,
                        some ["cat".toList, "zebra".toList], none⟩
    let c1 := clientVarOf [] v1
    (parseVar (serializeVar [] v1)).map (fun c => (c.min, c.max, c.allowed))
        = some (some "0".toList, some "10".toList, some ["1".toList, "5".toList, "50".toList])
    ∧ varMatches [] v1 (viewOf [] c1) = true
    ∧ varMatches [] v2 (viewOf [] (clientVarOf [] v2)) = true
    ∧ ([Val.int 50, .int 3, .int 5].map (schemaOk [] v1), [Val.int 50, .int 3, .int 5].map (schemaOk [] c1))
        = ([false, false, true], [false, false, true])
    ∧ ([Val.str "cat".toList, .str "zebra".toList, .str "dog".toList].map (schemaOk [] (clientVarOf [] v2)))
        = [true, false, false] := by
  decide +kernel

/-- **The served service description is parsed by the client into a model equal to the
    definition**: for every list of well-formed variables and every list of action definitions that
    the server can construct (`resolveActs`: each argument names an existing variable), the
    factory's parse of the served SCPD succeeds, yields for every variable its `clientVarOf` (in
    order, the eager schema construction succeeds) and for every action the client action `cactOf`
    — same name, same in- and out-argument names in the same order and directions, each bound to
    the client's variable of the same name — and the judge `svcMatches` holds between the definition
    and that client model. -/
theorem client_sees_definition (fs : Facts) (vars : List VarDef) (adefs : List ActDef) (sacts : List SAct)
    (hw : ∀ vd ∈ vars, VarWF fs vd) (hres : resolveActs vars adefs = some sacts) :
    parseScpd fs (serializeScpd fs vars sacts) = some (vars.map (clientVarOf fs), sacts.map (cactOf fs))
    ∧ svcMatches fs vars adefs ((vars.map (clientVarOf fs)).map (viewOf fs))
        ((sacts.map (cactOf fs)).map actViewOf) = true := by
  obtain ⟨hads, hb⟩ := resolveActs_spec hres
  refine ⟨parseScpd_serializeScpd fs vars sacts hw hb, ?_⟩
  unfold svcMatches
  rw [← hads, allMatch_acts, Bool.and_true]
  clear hres hads hb
  induction vars with
  | nil => rfl
  | cons vd r ih =>
    simp only [List.map_cons, allMatch, Bool.and_eq_true]
    exact ⟨var_roundtrip (hw vd List.mem_cons_self), ih (fun x hx => hw x (List.mem_cons_of_mem _ hx))⟩

/-- **The served device description is parsed into a device tree equal to the definition, whatever
    its depth**: for every device tree whose devices carry the twelve `DeviceInfo` text fields
    (`DevDef.wf`), the client's parse of the served document — run with any fuel `n` not smaller than
    the tree's depth — matches the definition (`devMatches`: text fields with `None` ≃ `""`, the same
    service records in the same order, and recursively the same embedded devices). The driver uses
    fuel 64. -/
theorem client_sees_device_tree (d : DevDef) (hwf : d.wf) (n : Nat) (hn : d.depth ≤ n) :
    parseRoot n (serializeRoot d) = some (parseDevEl n (serializeDev d))
    ∧ devMatches (n + 1) d (parseDevEl n (serializeDev d)) = true := by
  refine ⟨?_, dev_roundtrip n d (fits_le hn d (fits_depth d hwf))⟩
  have hne : dq "specVersion" ≠ dq "device" := by decide
  simp [parseRoot, serializeRoot, Xml.find, specVersion, tag_serializeDev, hne]

/-- non-vacuity of `client_sees_device_tree`: a root with two embedded devices, one of which embeds
    a third (depth 2), services on three levels -/
example :
    let f : Nat → List (Option Str) := fun k =>
      [some "urn:d".toList, some "F<&>".toList, some "M".toList, none, none, some "N".toList, none, none, none,
       some (("uuid:" ++ toString k).toList), none, some [] ]
    let s : Nat → SvcInfo := fun k => ⟨("urn:s" ++ toString k).toList, "id".toList, "/c".toList, "/e".toList, "/s".toList⟩
    let d : DevDef := .mk (f 0) [s 0] [.mk (f 1) [] [.mk (f 2) [s 2, s 3] []], .mk (f 3) [s 1] []]
    d.wf ∧ d.depth = 2 ∧ devMatches 3 d (parseDevEl 2 (serializeDev d)) = true
    ∧ devMatches 2 d (parseDevEl 1 (serializeDev d)) = false := by
  refine ⟨by simp [DevDef.wf, wfL], by decide, by decide +kernel, by decide +kernel⟩

/-- non-vacuity of the invalid-request theorems: an unparseable `ui2` text, an omitted argument and
    an out-of-range value are invalid requests; the model answers 400, 400 and fault 402 -/
example :
    let vA : VarDef := ⟨"VarA".toList, "ui2".toList, false, some "1".toList, some "10".toList, none, none⟩
    let act : SAct := ⟨"Act".toList, [⟨"A".toList, vA⟩], []⟩
    let stype := "urn:schemas-upnp-org:service:S0:1".toList
    let hdr := some ('"' :: stype ++ '#' :: "Act".toList ++ ['"'])
    let req := fun (kids : List Xml) => (⟨hdr, some (envelope [.node ⟨stype, "Act".toList⟩ [] none kids])⟩ : Req)
    let r1 := req [leaf (plain "A".toList) "abc".toList]
    let r2 := req []
    let r3 := req [leaf (plain "A".toList) "11".toList]
    (invalidReq [] [act] r1 && invalidReq [] [act] r2 && invalidReq [] [act] r3) = true
    ∧ (match serverHandle [] stype [act] (fun _ _ => .ret []) r1 with | .http 400 _ => true | _ => false) = true
    ∧ (match serverHandle [] stype [act] (fun _ _ => .ret []) r2 with | .http 400 _ => true | _ => false) = true
    ∧ (match serverHandle [] stype [act] (fun _ _ => .ret []) r3 with
       | .resp 500 b => (match parseFault b with | some (.ok (some 402)) => true | _ => false)
       | _ => false) = true := by
  decide +kernel

/-! ### composition with the merged client models (C05 factory, C08 types) -/

section
variable {F : Type} (fo : C08.FloatOps F)

/-- **Description half composed with C05/C08.**  `x05` re-reads the document the C14 server model
    serves (`serializeScpd`, the tree compared with the real server's output on every run) as the
    symbolic tree of `client_factory`'s merged model; `specOfScpd` is the abstract description
    (`C05.ScpdSpec`) that document denotes — per variable: name, data type, `sendEvents="yes|no"`
    from the evented flag, default / one- or two-sided range / allowed list as the `out` texts of the
    definition's typed values; per action: name and the in- then out-arguments with direction and
    related variable.  For every definition with distinct variable and action names, in strict and
    non-strict mode, C05's `serviceBody` — `_create_state_variables`, `_state_variable_create_schema`
    and the lazily read attributes with **C08's coercers for all 26 types** (table regenerated from
    const.py), `_create_actions` — applied to the served document returns exactly C05's `mirrorBody`
    of that description: the object model `factory_mirror` (C05) demands.  Proof: the factory cannot
    tell the served tree from C05's canonical rendering (`serviceBody_bridge`: child order, the
    `specVersion` element and empty containers are invisible to it), then C05's `body_render`. -/
theorem client_sees_definition_c05 (nonStrict : Bool) (fs : Facts) (vars : List VarDef) (sacts : List SAct)
    (hvn : (vars.map fun v => C05.stripWs v.name).Nodup) (han : (sacts.map (·.name)).Nodup) :
    C05.serviceBody fo Gen.C08Types.table nonStrict (.doc (x05 (serializeScpd fs vars sacts)))
      = C05.mirrorBody fo Gen.C08Types.table nonStrict (.scpd (specOfScpd fs vars sacts)) := by
  rw [serviceBody_bridge]
  apply C05.body_render
  refine ⟨?_, ?_⟩
  · intro l hl
    simp only [specOfScpd, Option.some.injEq] at hl
    subst hl
    simpa [List.map_map, Function.comp_def, specOfVar] using hvn
  · intro lv _ l hl
    simp only [specOfScpd, Option.some.injEq] at hl
    subst hl
    simpa [List.map_map, Function.comp_def, specOfAct] using han

/-- **Device document and tree composed with C05: `createDevice (serve (serialize d)) = mirror (denote d)`.**
    `serve14` is the C14 server as a requester: the device document (`serializeRoot`) at `base`, every
    service's SCPD (`serializeScpd` of its constructed variables and actions, `body`) at its resolved
    URL, 404 elsewhere — all re-read through `x05`.  `denoteDev` is the abstract `C05.DeviceSpec` these
    documents denote (the twelve text fields all present, `None` as an empty element; no icons; each
    service with its five texts and `specOfScpd`; embedded devices recursively).  For **every
    definition tree** (any depth and width; `d.wf`: twelve fields per device) whose denoted description
    lies in C05's domain (`DeviceSpec.wf`: ids / UDNs / names unique per scope, types without `#` and free
    to repeat among siblings, declared texts denote values; `urlsOk`), strict or non-strict:
    C05's `asyncCreateDevice` — the merged model of `client_factory.py` with C08's 26 types — run
    against the C14 server returns exactly `mirror (denote d)`, the object model `factory_mirror`
    demands.  Proof: the factory uses the requester only through `serviceBody` (`createDevice_congr`),
    reads every served SCPD and the device element as it reads C05's canonical rendering
    (`serve_bridge`, `createDevice_bridge`), then C05's `factory_mirror`. -/
theorem client_sees_device_tree_c05 (fs : Facts) (body : SvcBody) (base : Str) (nonStrict : Bool) (fuel : Nat)
    (d : DevDef) (hwf : d.wf)
    (hw : (denoteDev fs body d).wf fo Gen.C08Types.table base = true)
    (hu : C05.urlsOk base (denoteDev fs body d) = true) (hf : (denoteDev fs body d).depth ≤ fuel) :
    C05.asyncCreateDevice fo Gen.C08Types.table (serve14 fs body base d) nonStrict base fuel
      = C05.mirror fo Gen.C08Types.table nonStrict base (denoteDev fs body d) := by
  rw [← C05.factory_mirror fo (denoteDev fs body d) base nonStrict fuel hw hu hf]
  unfold C05.asyncCreateDevice
  have h1 : serve14 fs body base d base = .doc (x05 (serializeRoot d)) := by simp [serve14]
  have h2 : C05.serve base (denoteDev fs body d) base = .doc (C05.renderRoot (denoteDev fs body d)) := by
    simp [C05.serve]
  rw [h1, h2]
  have h3 : (x05 (serializeRoot d)).find .device .device = some (x05 (serializeDev d)) := by
    have := x05_dev_named d
    simp [serializeRoot, specVersion, C05.Xml.find, C05.Xml.children, C05.Xml.isNamed, C05.Xml.ns, C05.Xml.tag, leaf]
      at this ⊢
    exact this
  have h4 : (C05.renderRoot (denoteDev fs body d)).find .device .device
      = some (C05.renderDevice (denoteDev fs body d)) := by
    cases d; simp [C05.renderRoot, C05.Xml.find, C05.Xml.children, denoteDev, C05.renderDevice, C05.Xml.isNamed,
      C05.Xml.ns, C05.Xml.tag]
  simp only [h3, h4]
  rw [createDevice_congr fo _ _ _ nonStrict base (serve_bridge fo _ nonStrict fs body base d) fuel,
    createDevice_bridge fo _ _ nonStrict base fs body fuel d hwf]

end

/-- non-vacuity of `client_sees_device_tree_c05`: a root with an embedded device, a service on each
    level (same service *type* on both, as UPnP allows), the root's service with a ranged `ui2`, an
    evented string and an action using one name for an in- and an out-argument; the denoted
    description is inside C05's domain and the URLs inside its grammar -/
example :
    let fo : C08.FloatOps Unit := ⟨fun _ => [], fun _ => none, fun _ _ => true, fun _ _ => true⟩
    let base := "http://10.0.0.1/a/desc.xml".toList
    let vN : VarDef := ⟨"Vol".toList, "ui2".toList, false, some "0".toList, some "100".toList, none, some "7".toList⟩
    let vS : VarDef := ⟨"Txt".toList, "string".toList, true, none, none, some ["a".toList, "b".toList], none⟩
    let act : SAct := ⟨"SetVolume".toList, [⟨"Volume".toList, vN⟩], [⟨"Volume".toList, vS⟩]⟩
    let s0 : SvcInfo := ⟨"urn:x:service:S:1".toList, "id0".toList, "/c0".toList, "/e0".toList, "/s0.xml".toList⟩
    let s1 : SvcInfo := ⟨"urn:x:service:S:1".toList, "id1".toList, "/c1".toList, "/e1".toList, "/s1.xml".toList⟩
    let body : SvcBody := fun s => if s.sid = "id0".toList then ([vN, vS], [act]) else ([], [])
    let f : Nat → List (Option Str) := fun k =>
      [some "urn:x:device:D:1".toList, some "F".toList, some "M".toList, none, none, some "N".toList, none, none, none,
       some (("uuid:" ++ toString k).toList), none, none]
    let d : DevDef := .mk (f 0) [s0] [.mk (f 1) [s1] []]
    (denoteDev [] body d).wf fo Gen.C08Types.table base = true
    ∧ C05.urlsOk base (denoteDev [] body d) = true ∧ (denoteDev [] body d).depth ≤ 2 := by
  decide +kernel

section
variable {F : Type} (fo : C08.FloatOps F)

/-! ### the C14 judge's view inside the composed statement

The run-time judge (`svcMatches`: `varMatches`, `actMatches`) and the driver's correspondence keep
C14's own minimal client model.  These theorems relate what that judge compares to the objects of
C05's `mirror` in `client_sees_definition_c05` / `client_sees_device_tree_c05`. -/

/-- the variable object in C05's mirror of the served description of `vd` carries the definition's
    name, data type and evented flag (the untyped part of `varMatches`) -/
theorem judge_var_in_mirror (nonStrict : Bool) (fs : Facts) (vd : VarDef) (m : C05.VarM F)
    (h : C05.mirrorVar fo Gen.C08Types.table nonStrict (specOfVar fs vd) = .ok m) :
    m.name = C05.stripWs vd.name ∧ m.dataType = vd.dtype ∧ m.sendEvents = vd.evented :=
  mirror_var_header fo _ nonStrict fs vd m h

/-- … and the action object carries exactly the argument list C14's `actMatches` compares: the
    in-arguments then the out-arguments, each with its direction and related variable's name — the
    name as the factory reads it, i.e. stripped like the variable's own name in `judge_var_in_mirror`
    (F05f; the C14 serializer writes un-padded names, so for blank-free names this is the name itself) -/
theorem judge_action_in_mirror (vars : List (C05.VarM F)) (sa : SAct) (m : C05.ActM)
    (h : C05.mirrorAction vars (specOfAct sa) = .ok m) :
    m.name = sa.name
    ∧ m.args.map (fun g => (g.name, g.direction, g.related))
        = sa.ins.map (fun x => (x.name, "in".toList, C05.stripWs x.var.name))
          ++ sa.outs.map (fun x => (x.name, "out".toList, C05.stripWs x.var.name)) := by
  obtain ⟨h1, _⟩ := C05.args_bound_by_name vars (specOfAct sa) m h
  refine ⟨?_, ?_⟩
  · have := C05.actionOf_name _ _ _ m (by simpa [C05.mirrorAction] using h)
    simpa [specOfAct] using this
  · rw [h1]
    simp [specOfAct, specOfArg, C05.completeArg, List.filterMap_append, List.filterMap_map, Function.comp_def]

end

/-! ### the call half composed with C06 (request construction), codec agreement with C08 -/

theorem rows_out_shapes : ∀ row ∈ Gen.C08Types.rows,
    (row.ty = .int → row.outK = .strInt) ∧ (row.ty = .str → row.outK = .str)
    ∧ (row.ty = .bool → row.outK = .ifElse ['1'] ['0']) := by decide

/-- **Codec agreement with C08 (the coercers C06 / C07 use), for every integer, string and boolean row
    of the generated type table**: the text `C08.coerceUpnp` writes is the text C14's `out` writes —
    integers (within CPython's 4300-digit `str()` limit; C14's decimal writer is proved equal to
    C08's, `decOfInt_eq`), a `bool` given for an integer type (`1`/`0`), strings, booleans.  For the
    float / date / time rows a C14 value carries its canonical text as supplied by the harness; there
    agreement is the per-value statement `ValAgree` (`O.repr f` / the ISO form is that text). -/
theorem codec_agreement (O : C06.Oracles) (row : C06.TypeRow) (hrow : row ∈ Gen.C08Types.rows) :
    (row.ty = .int → (∀ n : Int, (C08.natDigits n.natAbs).length ≤ C08.maxStrDigits → ValAgree O row (.int n) (.int n))
        ∧ ∀ b, ValAgree O row (.bool b) (.bool b))
    ∧ (row.ty = .str → ∀ s, ValAgree O row (.str s) (.str s))
    ∧ (row.ty = .bool → ∀ b, ValAgree O row (.bool b) (.bool b)) := by
  obtain ⟨h1, h2, h3⟩ := rows_out_shapes row hrow
  exact ⟨fun h => ⟨fun n hs => agree_int O row (h1 h) n hs, fun b => agree_bool_as_int O row (h1 h) b⟩,
    fun h s => agree_str O row (h2 h) s, fun h b => agree_bool O row (h3 h) b⟩

/-- **Request half of `call_roundtrip`, with C06's `createRequest` as the client.**  For every
    request the merged model of `UpnpAction.create_request` (C06, now on the C08 type model:
    `validate_arguments` with `C08.mkSchema`, `_format_request_args` with `C08.coerceUpnp`, the escape
    table and `quoteattr` namespace pinned from client.py in `Gen.C06Types`) builds for an action
    whose in-arguments are the server action's (`hins`: same names, C06 declarations `decls`) and
    keyword arguments that agree, argument by argument, with the C14 caller's values (`hval`:
    `ValAgree` — proved for the integer / string / boolean rows by `codec_agreement`): the body reads
    back, by C06's `body_reads_back`, as the envelope `e`; the `SOAPAction` header is the quoted
    `serviceType#action`; and the C14 server model, given that header and the tree of `e`, accepts the
    request, validates it and calls the handler with exactly the caller's typed values (`kwOf`).
    Names are XML names (`xmlNameOk`), the service type contains none of `# " }`.
    (Round 4's hypothesis `hagree` is now derived: `hagree_of_agree`.) -/
theorem call_request_c06 (O : C06.Oracles) (a : C06.ActionDecl) (kw : C06.Kwargs) (req : C06.Request)
    (hreq : C06.createRequest O Gen.C06Types.escapeExtra Gen.C06Types.nsAttrQuoted a kw = .ok req)
    (fs : Facts) (stype : Str) (sacts : List SAct) (sact : SAct) (args : List (Str × Val))
    (decls : SArg → C06.VarDecl)
    (ha : a.name = sact.name) (hst : a.serviceType = stype)
    (hins : a.inArgs = sact.ins.map fun x => ⟨x.name, true, decls x⟩)
    (hval : ∀ x ∈ sact.ins, ∃ w, kw.lookup x.name = some w ∧ ValAgree O (decls x).row (argVal args x) w)
    (hxn : C06.xmlNameOk sact.name = true) (hxa : ∀ x ∈ sact.ins, C06.xmlNameOk x.name = true)
    (hbr : '}' ∉ stype)
    (h1 : '#' ∉ stype) (h2 : '"' ∉ stype) (h3 : '#' ∉ sact.name) (h4 : '"' ∉ sact.name)
    (hfind : sacts.find? (fun x => x.name = sact.name) = some sact)
    (hnd : (sact.ins.map (·.name)).Nodup) (hok : ArgsOk fs args sact.ins) :
    ∃ e, C06.readEnvelope req.body = some e
      ∧ req.headers.lookup "SOAPAction".toList = some ('"' :: stype ++ '#' :: sact.name ++ ['"'])
      ∧ handlerInput fs sacts ⟨some ('"' :: stype ++ '#' :: sact.name ++ ['"']), some (y06 e.tree)⟩
          = some (sact.name, kwOf args sact) := by
  have hagree : C06.coerceArgs O a.inArgs kw = .ok (sact.ins.map fun x => (x.name, out (argVal args x))) := by
    rw [hins]; exact hagree_of_agree O decls kw args sact.ins hval
  exact c06_request_reaches_handler O a kw req _ _
    (fun name st args hn hargs => C06.body_reads_back name st args hn hargs)
    hreq fs stype sacts sact args ha hst hagree hxn hxa hbr h1 h2 h3 h4 hfind hnd hok

/-! ### the call half composed with C07 (response decoding): handler-raised action errors -/

/-- **`handler_error_propagates` with C07's `decode` as the client.**  Whenever the request reaches
    the handler and the handler raises `UpnpActionError(error_code=c)`, `c ≠ 0` (within CPython's
    4300-digit limit), the C14 server model answers status 500 with `faultDoc c`, and C07's `decode`
    — status dispatch, `_parse_fault` with C08's `int()` — given any XML oracle that reads the served
    text as the served tree (`hX`; text ↔ tree is outside every model), raises
    `UpnpActionResponseError(error_code=c, error_desc="Action Failed", status=500)`: the same UPnP
    code reaches the caller. -/
theorem handler_error_propagates_c07 (O : C06.Oracles) (X : C07.XmlOracle) (a : C06.ActionDecl) (text : Str)
    (fs : Facts) (stype : Str) (acts : List SAct) (h : Handler) (r : Req) (n : Str) (kw : PyDict Str Val) (c : Nat)
    (hi : handlerInput fs acts r = some (n, kw)) (he : h n kw = .err (some c)) (hc : c ≠ 0)
    (hs : (C08.natDigits c).length ≤ C08.maxStrDigits)
    (hX : X (C07.stripPad text) = some (some (z06 (faultDoc c)))) :
    serverHandle fs stype acts h r = .resp 500 (faultDoc c)
    ∧ C07.decode O X a 500 (some text)
        = .exc (.actionResponseError (some (Int.ofNat c)) (some "Action Failed".toList) 500) := by
  obtain ⟨act, _, _, _, hsrv⟩ := serverHandle_reached (stype := stype) (h := h) hi
  refine ⟨by rw [hsrv, he]; simp [renderResult, hc], ?_⟩
  have h500 : ((500 : Int) != 200) = true := by decide
  simp only [C07.decode, h500, ↓reduceIte, hX, z06_faultDoc, c07_parseFault_faultDoc c hs 500]

end Upnp.C14
