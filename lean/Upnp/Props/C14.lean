/-
  C14 — server description and control interoperate with the library's own client.
  Property theorems only (helper lemmas are in `Upnp/Lemmas/C14*.lean`).
-/
import Upnp.Spec.C14
namespace Upnp.C14
open Upnp

/-- every `out` coercer of `const.STATE_VARIABLE_TYPE_MAPPING` has a shape that does not raise
    (the table is regenerated from the source on every run) -/
theorem gen_types_ok : Gen.C14.typeRows.all (fun r => !r.outRaises) = true := by decide

end Upnp.C14
