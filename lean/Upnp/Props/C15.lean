/-
  C15 — server eventing is ordered, complete, and bounded by the subscription's life.

  Property theorems only (helper lemmas are in `Upnp/Lemmas/C15*.lean`).  The model
  (`Upnp/Model/C15Server.lean`) transcribes `server.py`'s eventing; `step` is the very function the
  correspondence driver runs.  The judge `C15.ok` (`Upnp/Spec/C15.lean`, clauses J1–J9) is the
  monitor the driver evaluates on the IMPLEMENTATION's traces.

  Full statement (property text): for every history of SUBSCRIBE, renewal, UNSUBSCRIBE, state
  changes, clock advances and NOTIFY completions in any order, a new subscriber is answered with a
  fresh SID and its granted timeout and then receives an initial event with key 0 carrying every
  evented variable; later changes reach every unexpired subscriber in events whose keys increase
  by one per subscriber (2^32-1 -> 1); once changes stop the last event of each subscriber carries
  the current values; at most one event per variable per moderation interval; renewal extends,
  unsubscribed / expired subscribers receive nothing, unknown SIDs are refused.
  `c15_history` proves exactly this reading (J1–J9) for the model, for all histories, unbounded.
-/
import Upnp.Lemmas.C15Burst
import Upnp.Lemmas.C15Handlers
namespace Upnp.C15

/-- The key arithmetic read from `EventSubscriber.get_next_seq` (regenerated from the source on
    every run) is the property's: +1 per event, and 2^32-1 is followed by 1; keys start at 0. -/
theorem seq_wrap (k : Nat) :
    nextKey Gen.C15.seqIncr Gen.C15.seqMax Gen.C15.seqWrapTo k = specNextKey k ∧ Gen.C15.seqStart = 0 :=
  ⟨nextKey_gen k, by decide⟩

example : nextKey Gen.C15.seqIncr Gen.C15.seqMax Gen.C15.seqWrapTo 4294967295 = 1 := by decide
example : nextKey Gen.C15.seqIncr Gen.C15.seqMax Gen.C15.seqWrapTo 7 = 8 := by decide

/-- a TIMEOUT header `Second-n` (1..9 digits) is never answered 400 by the model's handler -/
theorem strict_timeout_understood (s : Str) (h : strictTimeout s = true) : (parseTO (some s)).isSome = true :=
  timeoutOk_parse (some s) h

example : strictTimeout "Second-1800".toList = true := by decide

/-- **One operation** (run to quiescence): every observation the model emits is accepted by the judge's
    monitor and the simulation relation is re-established. -/
theorem step_ok (m : State) (j : Mon) (o : Op) (h : Rel m j) (hn : j.now = m.now) :
    Rel (step m o).1 ((j.beginOp o).obsRun (step m o).2) := by
  cases o with
  | subscribe sid cb to => exact subscribe_ok m j sid cb to h hn
  | unsubscribe sid => exact unsubscribe_ok m j sid h hn
  | set x v => exact setVar_ok m j x v h hn
  | setMany l => exact setMany_ok m j l h hn
  | adv dt =>
    show Rel (advance (m.vars.length + 1) m (m.now + dt)).1
      (({ j with target := j.now + dt } : Mon).obsRun (advance (m.vars.length + 1) m (m.now + dt)).2)
    apply advance_ok
    · exact ⟨h.ok, by show j.now + dt = m.now + dt; rw [hn], h.now, h.awaiting, h.ev, h.rate, h.cur, h.lcLen, h.vars,
        h.subs, h.vals, by omega⟩
    · have := pending_le_length m.vars; omega
  | done k => exact done_ok m j k h
  | setKey sid k => exact setKey_ok m j sid k h

/-- from any related pair of states, the trace of every continuation is accepted -/
theorem run_ok : ∀ (ops : List Op) (m : State) (j : Mon), Rel m j →
    (((run m ops).foldl Mon.step j).close).ok = true := by
  intro ops
  induction ops with
  | nil => intro m j h; exact (Rel.close h).1.ok
  | cons o os ih =>
    intro m j h
    obtain ⟨hc, hcn⟩ := Rel.close h
    show ((((Item.op o :: (step m o).2.map Item.obs) ++ run (step m o).1 os).foldl Mon.step j).close).ok = true
    rw [List.foldl_append]
    show (((run (step m o).1 os).foldl Mon.step (((step m o).2.map Item.obs).foldl Mon.step ((j.close).beginOp o))).close).ok = true
    rw [foldl_obs]
    exact ih _ _ (step_ok m j.close o hc hcn)

/-- the freshly constructed service and the monitor's initial state are related -/
theorem init_rel (c : Cfg) (hb : 0 ≤ c.base) :
    Rel (init c) (Mon.init (c.vars.map (·.evented)) (c.vars.map (·.rate)) (c.vars.map (·.default))) := by
  refine ⟨rfl, rfl, Int.le_refl _, rfl, ?_, ?_, ?_, ?_, ?_, ⟨rfl, by simp [init], ?_, ?_⟩, ?_, Int.le_refl _⟩
  · show c.vars.map _ = (c.vars.map (initVar c.base)).map _
    rw [List.map_map]; rfl
  · show c.vars.map _ = (c.vars.map (initVar c.base)).map _
    rw [List.map_map]; rfl
  · show c.vars.map _ = (c.vars.map (initVar c.base)).map _
    rw [List.map_map]; rfl
  · simp [Mon.init, init]
  · intro i v hv
    have hv' : (c.vars.map (initVar c.base))[i]? = some v := hv
    rw [List.getElem?_map] at hv'
    cases hc : c.vars[i]? with
    | none => rw [hc] at hv'; cases hv'
    | some vc =>
      rw [hc] at hv'
      simp only [Option.map_some, Option.some.injEq] at hv'
      subst hv'
      refine ⟨?_, Or.inl ?_, fun f hf => by cases hf⟩
      · show (if vc.evented && vc.default.isSome then (0 : Int) else -c.base) ≤ 0
        split <;> omega
      · show ((c.vars.map (·.default)).map (fun _ => (none : Option Int)))[i]? = some none
        simp [List.getElem?_map, hc]
  · intro s hs; cases hs
  · intro k sm hk; cases hk
  · intro s hs; cases hs

/-- **C15, for every history.**  For every service configuration (any number of variables, evented or
    not, any moderation intervals, any default values; the service is created after the epoch) and every
    history — SUBSCRIBE with any CALLBACK / TIMEOUT text, renewal and UNSUBSCRIBE of known, unknown or absent
    SIDs, assignments (single, or several without yielding to the loop), clock advances, NOTIFY completions in any
    order, key presets — the trace of the
    model (every operation followed by the responses, NOTIFYs and triggers it caused) is accepted by the
    judge `C15.ok`, i.e. satisfies J1–J9 of `Spec/C15.lean`.  No bound on the length of the history, the
    number of subscribers or the clock. -/
theorem c15_history (c : Cfg) (hb : 0 ≤ c.base) (ops : List Op) :
    ok (c.vars.map (·.evented)) (c.vars.map (·.rate)) (c.vars.map (·.default)) (run (init c) ops) = true :=
  run_ok ops (init c) _ (init_rel c hb)

/-- the fuel of `advance` is never the reason it stops: after any clock advance no timer is overdue -/
theorem no_overdue_timer (m : State) (j : Mon) (dt : Nat) (h : Rel m j) (hn : j.now = m.now) :
    ∀ (i : Nat) (v : Var) (f : Int), (step m (.adv dt)).1.vars[i]? = some v → v.deferred = some f →
      (step m (.adv dt)).1.now < f := by
  intro i v f hv hf
  exact ((step_ok m j (.adv dt) h hn).vars i v hv).dfr f hf |>.2.2.2

/-! ### non-vacuity: a concrete history with a burst inside a moderation interval, a second subscriber whose
    initial delivery is still in flight when a variable changes, an expiry and a timer firing; the theorem's
    hypothesis holds and the trace is the expected, non-trivial one -/

def exCfg : Cfg := { base := 1704067200000000, vars := [⟨true, 200000, some 0⟩, ⟨true, 0, none⟩, ⟨false, 0, some 3⟩] }
def exOps : List Op :=
  [ .subscribe .absent (some "<http://h/a>".toList) (some "Second-1".toList), .set 0 1, .adv 50000, .set 0 2,
    .subscribe .absent (some "<http://h/b>".toList) none, .set 1 5, .done 3, .adv 2000000, .set 1 6,
    .setMany [(0, 7), (0, 8), (1, 9), (0, 9)], .adv 300000,
    .subscribe (.known 0) none none, .unsubscribe (.known 1), .unsubscribe (.known 1) ]

example : ok (exCfg.vars.map (·.evented)) (exCfg.vars.map (·.rate)) (exCfg.vars.map (·.default)) (run (init exCfg) exOps) = true :=
  c15_history exCfg (by decide) exOps

/-! ### the judge is not vacuous: it accepts the good traces below and rejects each kind of bad one
    (one variable, default 0; `J rate trace`) -/

def exCb : Str := ['<', 'a', '>']
def exSub : Item := .op (.subscribe .absent (some exCb) none)
def ex200 (k : Nat) : Item := .obs (.resp 200 (some k) (some 3600))
def exN (sid seq : Nat) (t : Int) (v : Int) : Item := .obs (.notify sid seq t ['a'] [(0, some v)])
def J (rate : Nat) (tr : List Item) : Bool := ok [true] [rate] [some 0] tr

-- accepted: subscribe, initial event, change, trigger, event with the next key
example : J 0 [exSub, ex200 0, exN 0 0 0 0, .op (.set 0 5), .obs (.trig 0 0), exN 0 1 0 5] = true := by decide
-- J1: SID not fresh / well-formed SUBSCRIBE refused
example : J 0 [exSub, ex200 0, exN 0 0 0 0, exSub, ex200 0, exN 0 1 0 0] = false := by decide
example : J 0 [exSub, .obs (.resp 404 none none)] = false := by decide
-- J2: no initial event
example : J 0 [exSub, ex200 0, .op (.set 0 5)] = false := by decide
-- J3: key skipped / stale body / NOTIFY after UNSUBSCRIBE / NOTIFY after expiry (and accepted one µs before)
example : J 0 [exSub, ex200 0, exN 0 0 0 0, .op (.set 0 5), .obs (.trig 0 0), exN 0 2 0 5] = false := by decide
example : J 0 [exSub, ex200 0, exN 0 0 0 0, .op (.set 0 5), .obs (.trig 0 0), exN 0 1 0 0] = false := by decide
example : J 0 [exSub, ex200 0, exN 0 0 0 0, .op (.unsubscribe (.known 0)), .obs (.resp 200 none none),
    .op (.set 0 5), .obs (.trig 0 0), exN 0 1 0 5] = false := by decide
example : J 0 [exSub, ex200 0, exN 0 0 0 0, .op (.adv 3600000000), .op (.set 0 5), .obs (.trig 0 3600000000),
    exN 0 1 3600000000 5] = false := by decide
example : J 0 [exSub, ex200 0, exN 0 0 0 0, .op (.adv 3599999999), .op (.set 0 5), .obs (.trig 0 3599999999),
    exN 0 1 3599999999 5] = true := by decide
-- J3: 2^32-1 is followed by 1, not by 0
example : J 0 [exSub, ex200 0, exN 0 0 0 0, .op (.setKey 0 4294967295), .op (.set 0 5), .obs (.trig 0 0),
    exN 0 4294967295 0 5, .op (.set 0 6), .obs (.trig 0 0), exN 0 1 0 6] = true := by decide
example : J 0 [exSub, ex200 0, exN 0 0 0 0, .op (.setKey 0 4294967295), .op (.set 0 5), .obs (.trig 0 0),
    exN 0 4294967295 0 5, .op (.set 0 6), .obs (.trig 0 0), exN 0 0 0 6] = false := by decide
-- J4: NOTIFY without a trigger
example : J 0 [exSub, ex200 0, exN 0 0 0 0, .op (.set 0 5), exN 0 1 0 5] = false := by decide
-- J5: two triggers of one variable inside its interval
example : J 200000 [exSub, ex200 0, exN 0 0 0 0, .op (.set 0 5), .obs (.trig 0 0), exN 0 1 0 5, .op (.adv 100000),
    .op (.set 0 6), .obs (.trig 0 100000), exN 0 2 100000 6] = false := by decide
-- J6: a deferred change may wait until the interval has passed, but not longer (this is F15a)
example : J 200000 [exSub, ex200 0, exN 0 0 0 0, .op (.set 0 5), .obs (.trig 0 0), exN 0 1 0 5, .op (.adv 100000),
    .op (.set 0 6), .op (.adv 50000)] = true := by decide
example : J 200000 [exSub, ex200 0, exN 0 0 0 0, .op (.set 0 5), .obs (.trig 0 0), exN 0 1 0 5, .op (.adv 100000),
    .op (.set 0 6), .op (.adv 200000)] = false := by decide
example : J 200000 [exSub, ex200 0, exN 0 0 0 0, .op (.set 0 5), .obs (.trig 0 0), exN 0 1 0 5, .op (.adv 100000),
    .op (.set 0 6), .op (.adv 200000), .obs (.trig 0 200000), exN 0 2 200000 6] = true := by decide
-- J7: renewal of a live subscription refused
example : J 0 [exSub, ex200 0, exN 0 0 0 0, .op (.subscribe (.known 0) none none), .obs (.resp 404 none none)] = false := by
  decide
-- J8: unknown SID renewed / unsubscribed successfully
example : J 0 [.op (.subscribe .unknown none none), .obs (.resp 200 (some 0) (some 5))] = false := by decide
example : J 0 [.op (.unsubscribe .unknown), .obs (.resp 200 none none)] = false := by decide

end Upnp.C15
