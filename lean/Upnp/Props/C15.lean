/-
  C15 — server eventing is ordered, complete, and bounded by the subscription's life.

  Property theorems only (helper lemmas are in `Upnp/Lemmas/C15*.lean`).  The model
  (`Upnp/Model/C15Server.lean`) transcribes `server.py`'s eventing; `step` is the very function the
  correspondence driver runs.  The judge `C15.ok` (`Upnp/Spec/C15.lean`, clauses J1–J9) is the
  monitor the driver evaluates on the IMPLEMENTATION's traces.

  Full statement (property text): for every history of SUBSCRIBE, renewal, UNSUBSCRIBE, state
  changes, clock advances and NOTIFY completions in any order, a new subscriber is answered with a
  fresh SID and its granted timeout and then receives an initial event with key 0 carrying every
  evented variable; later changes reach every unexpired subscriber in events whose keys increase
  by one per subscriber (2^32-1 -> 1); once changes stop the last event of each subscriber carries
  the current values; at most one event per variable per moderation interval; renewal extends,
  unsubscribed / expired subscribers receive nothing, unknown SIDs are refused.
  `c15_history` proves exactly this reading (J1–J9) for the model, for all histories, unbounded.
-/
import Upnp.Lemmas.C15Burst
import Upnp.Lemmas.C15Handlers
import Upnp.Lemmas.C15Device
import Upnp.Lemmas.C15Judge
namespace Upnp.C15

/-- The key arithmetic read from `EventSubscriber.get_next_seq` (regenerated from the source on
    every run) is the property's: +1 per event, and 2^32-1 is followed by 1; keys start at 0. -/
theorem seq_wrap (k : Nat) :
    nextKey Gen.C15.seqIncr Gen.C15.seqMax Gen.C15.seqWrapTo k = specNextKey k ∧ Gen.C15.seqStart = 0 :=
  ⟨nextKey_gen k, by decide⟩

example : nextKey Gen.C15.seqIncr Gen.C15.seqMax Gen.C15.seqWrapTo 4294967295 = 1 := by decide
example : nextKey Gen.C15.seqIncr Gen.C15.seqMax Gen.C15.seqWrapTo 7 = 8 := by decide

/-- a TIMEOUT header `Second-n` (1..9 digits) is never answered 400 by the model's handler -/
theorem strict_timeout_understood (s : Str) (h : strictTimeout s = true) : (parseTO (some s)).isSome = true :=
  timeoutOk_parse (some s) h

example : strictTimeout "Second-1800".toList = true := by decide

/-- **One operation** (run to quiescence): every observation the model emits is accepted by the judge's
    monitor and the simulation relation is re-established. -/
theorem step_ok (m : State) (j : Mon) (o : Op) (h : Rel m j) (hn : j.now = m.now) :
    Rel (step m o).1 ((j.beginOp o).obsRun (step m o).2) := by
  cases o with
  | subscribe sid cb to => exact subscribe_ok m j sid cb to h hn
  | unsubscribe sid => exact unsubscribe_ok m j sid h hn
  | set x v => exact setVar_ok m j x v h hn
  | setMany l => exact setMany_ok m j l h hn
  | adv dt =>
    show Rel (advance (m.vars.length + 1) m (m.now + dt)).1
      (({ j with target := j.now + dt } : Mon).obsRun (advance (m.vars.length + 1) m (m.now + dt)).2)
    apply advance_ok
    · exact ⟨h.ok, by show j.now + dt = m.now + dt; rw [hn], h.now, h.awaiting, h.ev, h.rate, h.cur, h.lcLen, h.vars,
        h.subs, h.vals, by omega⟩
    · have := pending_le_length m.vars; omega
  | done k => exact done_ok m j k h
  | fail k => exact fail_ok m j k h
  | setKey sid k => exact setKey_ok m j sid k h

/-- from any related pair of states, the trace of every continuation is accepted -/
theorem run_ok : ∀ (ops : List Op) (m : State) (j : Mon), Rel m j →
    (((run m ops).foldl Mon.step j).close).ok = true := by
  intro ops
  induction ops with
  | nil => intro m j h; exact (Rel.close h).1.ok
  | cons o os ih =>
    intro m j h
    obtain ⟨hc, hcn⟩ := Rel.close h
    show ((((Item.op o :: (step m o).2.map Item.obs) ++ run (step m o).1 os).foldl Mon.step j).close).ok = true
    rw [List.foldl_append]
    show (((run (step m o).1 os).foldl Mon.step (((step m o).2.map Item.obs).foldl Mon.step ((j.close).beginOp o))).close).ok = true
    rw [foldl_obs]
    exact ih _ _ (step_ok m j.close o hc hcn)

/-- the freshly constructed service and the monitor's initial state are related -/
theorem init_rel (c : Cfg) (hb : 0 ≤ c.base) :
    Rel (init c) (Mon.init (c.vars.map (·.evented)) (c.vars.map (·.rate)) (c.vars.map (·.default))) := by
  refine ⟨rfl, rfl, Int.le_refl _, rfl, ?_, ?_, ?_, ?_, ?_, ⟨rfl, by simp [init], ?_, ?_⟩, ?_, Int.le_refl _⟩
  · show c.vars.map _ = (c.vars.map (initVar c.base)).map _
    rw [List.map_map]; rfl
  · show c.vars.map _ = (c.vars.map (initVar c.base)).map _
    rw [List.map_map]; rfl
  · show c.vars.map _ = (c.vars.map (initVar c.base)).map _
    rw [List.map_map]; rfl
  · simp [Mon.init, init]
  · intro i v hv
    have hv' : (c.vars.map (initVar c.base))[i]? = some v := hv
    rw [List.getElem?_map] at hv'
    cases hc : c.vars[i]? with
    | none => rw [hc] at hv'; cases hv'
    | some vc =>
      rw [hc] at hv'
      simp only [Option.map_some, Option.some.injEq] at hv'
      subst hv'
      refine ⟨?_, Or.inl ?_, fun f hf => (by cases hf), ⟨0, ?_, fun hd => absurd rfl hd⟩⟩
      · show (if vc.evented && vc.default.isSome then (0 : Int) else -c.base) ≤ 0
        split <;> omega
      · show ((c.vars.map (·.default)).map (fun _ => (none : Option Int)))[i]? = some none
        simp [List.getElem?_map, hc]
      · show ((c.vars.map (·.default)).map (fun _ => (0 : Nat)))[i]? = some 0
        simp [List.getElem?_map, hc]
  · intro s hs; cases hs
  · intro k sm hk; cases hk
  · intro s hs; cases hs

/-- **C15, for every history.**  For every service configuration (any number of variables, evented or
    not, any moderation intervals, any default values; the service is created after the epoch) and every
    history — SUBSCRIBE with any CALLBACK / TIMEOUT text, renewal and UNSUBSCRIBE of known, unknown or absent
    SIDs, assignments (single, or several without yielding to the loop), clock advances, NOTIFY completions in any
    order, key presets — the trace of the
    model (every operation followed by the responses, NOTIFYs and triggers it caused) is accepted by the
    judge `C15.ok`, i.e. satisfies J1–J9 of `Spec/C15.lean`.  No bound on the length of the history, the
    number of subscribers or the clock. -/
theorem c15_history (c : Cfg) (hb : 0 ≤ c.base) (ops : List Op) :
    ok (c.vars.map (·.evented)) (c.vars.map (·.rate)) (c.vars.map (·.default)) (run (init c) ops) = true :=
  run_ok ops (init c) _ (init_rel c hb)

/-- **Several services on one device.**  For every device (any number of services, each with its own
    configuration) and every device history — operations addressed to any service, interleaved in any way, and
    clock advances — what concerns service k in the device trace is accepted by the judge for service k. -/
theorem c15_device (cs : List Cfg) (hb : ∀ c ∈ cs, 0 ≤ c.base) (ops : List DevOp) (k : Nat) (c : Cfg)
    (hk : cs[k]? = some c) :
    ok (c.vars.map (·.evented)) (c.vars.map (·.rate)) (c.vars.map (·.default))
      (project k (runDev (cs.map init) ops)) = true := by
  rw [project_runDev ops (cs.map init) k (init c) (by rw [List.getElem?_map, hk]; rfl)]
  exact c15_history c (hb c (List.mem_of_getElem? hk)) (opsFor k ops)

/-- **Frame**: a request or an assignment on service k leaves every other service's state (variables,
    subscriber list, keys, timers) untouched and sends nothing on its behalf — in particular no NOTIFY to
    the other service's subscribers. -/
theorem service_frame (d : Device) (k i : Nat) (o : Op) (h : i ≠ k) :
    (stepDev d (.svc k o)).1[i]? = d[i]? ∧ project i (stepDev d (.svc k o)).2 = [] :=
  svc_frame d k i o h

/-- the fuel of `advance` is never the reason it stops: after any clock advance no timer is overdue -/
theorem no_overdue_timer (m : State) (j : Mon) (dt : Nat) (h : Rel m j) (hn : j.now = m.now) :
    ∀ (i : Nat) (v : Var) (f : Int), (step m (.adv dt)).1.vars[i]? = some v → v.deferred = some f →
      (step m (.adv dt)).1.now < f := by
  intro i v f hv hf
  exact ((step_ok m j (.adv dt) h hn).vars i v hv).dfr f hf |>.2.2.2

/-- **What acceptance means for moderation** (any trace, the implementation's included): if the judge accepts
    a trace in which an event is attributed to variable x at t1 and later another at t2, the two are at least
    x's moderation interval apart — "at most one event per variable per moderation interval".  (The `trig`
    items are the attribution the judge verified: see J4/J5 in `Spec/C15.lean`.) -/
theorem accepted_moderation (ev : List Bool) (rate : List Nat) (dflt : List (Option Val))
    (pre mid post : List Item) (x : Nat) (t1 t2 : Int)
    (h : ok ev rate dflt (pre ++ Item.obs (.trig x t1) :: (mid ++ Item.obs (.trig x t2) :: post)) = true) :
    t1 + (rate.getD x 0 : Int) ≤ t2 := by
  unfold ok at h
  have h := close_ok_mono _ h
  rw [List.foldl_append, List.foldl_cons, List.foldl_append, List.foldl_cons] at h
  -- names for the monitor states along the trace
  obtain ⟨jp, hjp⟩ : ∃ j, j = pre.foldl Mon.step (Mon.init ev rate dflt) := ⟨_, rfl⟩
  rw [← hjp] at h
  obtain ⟨jm, hjm⟩ : ∃ j, j = mid.foldl Mon.step (jp.step (.obs (.trig x t1))) := ⟨_, rfl⟩
  rw [← hjm] at h
  have hB : (jm.step (.obs (.trig x t2))).ok = true := foldl_ok_mono post _ h
  have hm : jm.ok = true := step_ok_mono _ _ hB
  have hA : (jp.step (.obs (.trig x t1))).ok = true := by rw [hjm] at hm; exact foldl_ok_mono mid _ hm
  have hp : jp.ok = true := step_ok_mono _ _ hA
  have cp : ClockInv rate jp := by
    rw [hjp]
    exact ClockInv.foldl pre _ ⟨Int.le_refl _, rfl⟩ (by rw [← hjp]; exact hp)
  -- the first trigger
  obtain ⟨_, _, l3, l4, l5⟩ := lapse_frame jp t1
  have hA' : ((jp.lapse t1).trigAt x t1).ok = true := hA
  simp only [Mon.trigAt, Bool.and_eq_true, timeOk, decide_eq_true_eq] at hA'
  obtain ⟨⟨_, _, ht2⟩, _, hmatch⟩ := hA'
  rw [l3] at ht2
  rw [l4] at hmatch
  have hlt : x < jp.lastTrig.length := by
    cases hl : jp.lastTrig[x]? with
    | none => rw [hl] at hmatch; cases hmatch
    | some _ => exact (List.getElem?_eq_some_iff.mp hl).1
  have ia : TrigInv rate x t1 (jp.step (.obs (.trig x t1))) :=
    ⟨by show t1 ≤ (jp.lapse t1).target; rw [l3]; exact ht2, by show (jp.lapse t1).rate = rate; rw [l5]; exact cp.rate,
      ⟨t1, by show ((jp.lapse t1).lastTrig.set x (some t1))[x]? = _; rw [l4, List.getElem?_set_self hlt],
      Int.le_refl _, Int.le_refl _⟩⟩
  have im : TrigInv rate x t1 jm := by
    rw [hjm]; exact TrigInv.foldl mid _ ia (by rw [← hjm]; exact hm)
  obtain ⟨u, hu, hu1, _⟩ := im.last
  -- the second trigger
  obtain ⟨_, _, _, m4, m5⟩ := lapse_frame jm t2
  have hB' : ((jm.lapse t2).trigAt x t2).ok = true := hB
  simp only [Mon.trigAt, Bool.and_eq_true, m4, m5, hu, decide_eq_true_eq, im.rate] at hB'
  have := hB'.2.2
  omega

/-- **What acceptance means for the end of a subscription** (any trace): after an UNSUBSCRIBE of SID k that was
    answered 200, an accepted trace contains no further NOTIFY to k — "unsubscribed subscribers receive nothing
    further" (and no renewal can bring it back: the monitor demands that it be refused). -/
theorem accepted_unsubscribed_silent (ev : List Bool) (rate : List Nat) (dflt : List (Option Val))
    (pre mid : List Item) (k : Nat) (a : Option Nat) (b : Option Int)
    (h : ok ev rate dflt (pre ++ Item.op (.unsubscribe (.known k)) :: Item.obs (.resp 200 a b) :: mid) = true) :
    ∀ seq t url body, Item.obs (.notify k seq t url body) ∉ mid := by
  unfold ok at h
  have h := close_ok_mono _ h
  rw [List.foldl_append, List.foldl_cons, List.foldl_cons] at h
  obtain ⟨jp, hjp⟩ : ∃ j, j = pre.foldl Mon.step (Mon.init ev rate dflt) := ⟨_, rfl⟩
  rw [← hjp] at h
  have h2 : ((jp.step (.op (.unsubscribe (.known k)))).step (.obs (.resp 200 a b))).ok = true := foldl_ok_mono mid _ h
  refine Dead.foldl mid _ ?_ h
  -- the 200 answer marks k dead (any other situation would have been rejected)
  have e : (jp.step (.op (.unsubscribe (.known k)))).step (.obs (.resp 200 a b))
      = { (({ jp.close with awaiting := some (.unsubscribe (.known k)) } : Mon).onResp (.unsubscribe (.known k)) 200 a b)
          with awaiting := none } := rfl
  rw [e] at h2 ⊢
  cases hs : jp.close.subs[k]? with
  | none =>
    have : (({ jp.close with awaiting := some (.unsubscribe (.known k)) } : Mon).onResp (.unsubscribe (.known k)) 200 a b).ok
        = false := by simp [Mon.onResp, hs, check, refused]
    have h2' : (({ jp.close with awaiting := some (.unsubscribe (.known k)) } : Mon).onResp (.unsubscribe (.known k)) 200 a b).ok
        = true := h2
    rw [this] at h2'; cases h2'
  | some s =>
    cases ha : s.alive with
    | false =>
      have : (({ jp.close with awaiting := some (.unsubscribe (.known k)) } : Mon).onResp (.unsubscribe (.known k)) 200 a b).ok
          = false := by simp [Mon.onResp, hs, ha, check, refused]
      have h2' : (({ jp.close with awaiting := some (.unsubscribe (.known k)) } : Mon).onResp (.unsubscribe (.known k)) 200 a b).ok
          = true := h2
      rw [this] at h2'; cases h2'
    | true =>
      have : ({ jp.close with awaiting := some (.unsubscribe (.known k)) } : Mon).onResp (.unsubscribe (.known k)) 200 a b
          = markDead { jp.close with awaiting := some (.unsubscribe (.known k)) } k := by
        simp [Mon.onResp, hs, ha]
      rw [this]
      have hlt : k < jp.close.subs.length := (List.getElem?_eq_some_iff.mp hs).1
      exact ⟨{ s with alive := false }, by
        show (jp.close.subs.modify k _)[k]? = _
        rw [List.getElem?_modify_eq, hs]; rfl, rfl⟩

/-- **What acceptance means for the event keys** (any trace): two consecutive NOTIFYs to SID k (nothing sent to k and no
    key preset of k in between) carry keys s₁ and s₂ = s₁ + 1, with 2^32−1 followed by 1. -/
theorem accepted_keys_consecutive (ev : List Bool) (rate : List Nat) (dflt : List (Option Val))
    (pre mid post : List Item) (k s1 s2 : Nat) (t1 t2 : Int) (u1 u2 : Str) (b1 b2 : List (Nat × Str))
    (hmid : ∀ it ∈ mid, (∀ seq t url body, it ≠ Item.obs (.notify k seq t url body)) ∧ (∀ n, it ≠ Item.op (.setKey k n)))
    (h : ok ev rate dflt (pre ++ Item.obs (.notify k s1 t1 u1 b1) :: (mid ++ Item.obs (.notify k s2 t2 u2 b2) :: post)) = true) :
    s2 = specNextKey s1 := by
  have h0 := ok_prefix h
  rw [List.foldl_cons, List.foldl_append, List.foldl_cons] at h0
  have hB := foldl_ok_mono post _ h0
  have hm := step_ok_mono _ _ hB
  have hA := foldl_ok_mono mid _ hm
  have e1 := (notify_key hA).2
  have e2 := Ent.foldl ⟨fun _ _ hp => hp, fun _ _ hp => hp, fun _ hp => hp⟩ mid _ e1 hmid
  exact (notify_key hB).1 _ e2

example : specNextKey 4294967295 = 1 ∧ specNextKey 0 = 1 ∧ specNextKey 41 = 42 := by decide

/-- **… and for the initial event** (any trace): the first NOTIFY to a SID after the 200 answer that issued it carries key 0. -/
theorem accepted_initial_key (ev : List Bool) (rate : List Nat) (dflt : List (Option Val))
    (pre mid post : List Item) (cb to : Option Str) (k s : Nat) (g : Option Int) (t : Int) (u : Str) (b : List (Nat × Str))
    (hmid : ∀ it ∈ mid, (∀ seq t url body, it ≠ Item.obs (.notify k seq t url body)) ∧ (∀ n, it ≠ Item.op (.setKey k n)))
    (h : ok ev rate dflt (pre ++ Item.op (.subscribe .absent cb to) :: Item.obs (.resp 200 (some k) g)
          :: (mid ++ Item.obs (.notify k s t u b) :: post)) = true) :
    s = 0 := by
  have h0 := ok_prefix h
  rw [List.foldl_cons, List.foldl_cons, List.foldl_append, List.foldl_cons] at h0
  have hB := foldl_ok_mono post _ h0
  have hm := step_ok_mono _ _ hB
  have hA := foldl_ok_mono mid _ hm
  have e1 := (new_sub_accepted hA).2.2
  have e2 := Ent.foldl ⟨fun _ _ hp => hp, fun _ _ hp => hp, fun _ hp => hp⟩ mid _ e1 hmid
  exact (notify_key hB).1 _ e2

/-- **What acceptance means for "a fresh SID"** (any trace): two new subscriptions that were both answered 200 carry
    different SIDs (the later one is larger in the order of issue), whatever happened in between. -/
theorem accepted_fresh_sid (ev : List Bool) (rate : List Nat) (dflt : List (Option Val))
    (pre mid post : List Item) (cb to cb' to' : Option Str) (k k' : Nat) (g g' : Option Int)
    (h : ok ev rate dflt (pre ++ Item.op (.subscribe .absent cb to) :: Item.obs (.resp 200 (some k) g)
          :: (mid ++ Item.op (.subscribe .absent cb' to') :: Item.obs (.resp 200 (some k') g') :: post)) = true) :
    k < k' := by
  have h0 := ok_prefix h
  rw [List.foldl_cons, List.foldl_cons, List.foldl_append, List.foldl_cons, List.foldl_cons] at h0
  have hB := foldl_ok_mono post _ h0
  have hm := step_ok_mono _ _ (step_ok_mono _ _ hB)
  have hA := foldl_ok_mono mid _ hm
  have l1 := (new_sub_accepted hA).2.1
  have l2 := len_foldl mid (((pre.foldl Mon.step (Mon.init ev rate dflt)).step (.op (.subscribe .absent cb to))).step
    (.obs (.resp 200 (some k) g)))
  have l3 := (new_sub_accepted hB).1
  omega

/-- **What acceptance means for unknown SIDs** (any trace): the answer to an UNSUBSCRIBE or a renewal that names a SID
    which was never issued (or to an UNSUBSCRIBE without SID) is a refusal (a status outside 2xx). -/
theorem accepted_unknown_refused (ev : List Bool) (rate : List Nat) (dflt : List (Option Val))
    (pre post : List Item) (o : Op) (st : Nat) (a : Option Nat) (b : Option Int)
    (ho : o = .unsubscribe .unknown ∨ o = .unsubscribe .absent ∨ ∃ cb to, o = .subscribe .unknown cb to)
    (h : ok ev rate dflt (pre ++ Item.op o :: Item.obs (.resp st a b) :: post) = true) :
    refused st = true := by
  have h0 := ok_prefix h
  rw [List.foldl_cons, List.foldl_cons] at h0
  have hB := foldl_ok_mono post _ h0
  obtain ⟨jp, hjp⟩ : ∃ j, j = pre.foldl Mon.step (Mon.init ev rate dflt) := ⟨_, rfl⟩
  rw [← hjp] at hB
  rcases ho with rfl | rfl | ⟨cb, to, rfl⟩
  · have e : ((jp.step (.op (.unsubscribe .unknown))).step (.obs (.resp st a b))).ok
        = (jp.close.ok && refused st) := rfl
    rw [e] at hB; simp only [Bool.and_eq_true] at hB; exact hB.2
  · have e : ((jp.step (.op (.unsubscribe .absent))).step (.obs (.resp st a b))).ok
        = (jp.close.ok && refused st) := rfl
    rw [e] at hB; simp only [Bool.and_eq_true] at hB; exact hB.2
  · have e : ((jp.step (.op (.subscribe .unknown cb to))).step (.obs (.resp st a b))).ok
        = (jp.close.ok && refused st) := rfl
    rw [e] at hB; simp only [Bool.and_eq_true] at hB; exact hB.2

/-- **What acceptance means for the event body** (any trace): the body of every accepted NOTIFY has exactly one entry
    per evented variable — none for the others — and each text carries the value the variable has after the
    assignments made so far (`valuesAfter`: the defaults overwritten by the `set` / `setMany` operations before it). -/
theorem accepted_body (ev : List Bool) (rate : List Nat) (dflt : List (Option Val)) (pre post : List Item)
    (k s : Nat) (t : Int) (u : Str) (body : List (Nat × Str))
    (h : ok ev rate dflt (pre ++ Item.obs (.notify k s t u body) :: post) = true) :
    bodyOk ev (valuesAfter dflt pre) body = true := by
  have h0 := ok_prefix h
  rw [List.foldl_cons] at h0
  have hN := foldl_ok_mono post _ h0
  have hb := notify_body hN
  obtain ⟨c1, c2, _⟩ := foldl_cur pre (Mon.init ev rate dflt)
  rw [c1, c2] at hb
  exact hb

/-- **What acceptance means for expiry and renewal** (any trace): after a renewal of SID k that was answered 200 with
    granted timeout g at virtual time T (= the clock advances so far), every later NOTIFY to k — until the next
    renewal of k — is sent strictly before T + g seconds: "renewal extends the subscription" (the bound moves to the
    new T + g) and "expired subscribers receive nothing further". -/
theorem accepted_renewal_bounds (ev : List Bool) (rate : List Nat) (dflt : List (Option Val))
    (pre mid post : List Item) (k s : Nat) (cb to : Option Str) (a : Option Nat) (g t : Int) (u : Str) (b : List (Nat × Str))
    (hmid : ∀ it ∈ mid, ∀ cb' to', it ≠ Item.op (.subscribe (.known k) cb' to'))
    (h : ok ev rate dflt (pre ++ Item.op (.subscribe (.known k) cb to) :: Item.obs (.resp 200 a (some g))
          :: (mid ++ Item.obs (.notify k s t u b) :: post)) = true) :
    t < elapsed pre + g * usPerS := by
  have h0 := ok_prefix h
  rw [List.foldl_cons, List.foldl_cons, List.foldl_append, List.foldl_cons] at h0
  have hB := foldl_ok_mono post _ h0
  have hm := step_ok_mono _ _ hB
  have hA := foldl_ok_mono mid _ hm
  have e1 := renew_accepted hA
  have e2 := ExpInv.foldl mid _ e1 hmid
  have := notify_before_expiry e2.ent hB
  obtain ⟨_, _, c3⟩ := foldl_cur pre (Mon.init ev rate dflt)
  rw [c3] at this
  have h00 : (Mon.init ev rate dflt).target = 0 := rfl
  rw [h00] at this
  omega

/-! ### non-vacuity: a concrete history with a burst inside a moderation interval, a second subscriber whose
    initial delivery is still in flight when a variable changes, an expiry and a timer firing; the theorem's
    hypothesis holds and the trace is the expected, non-trivial one -/

def exCfg : Cfg := { base := 1704067200000000, vars := [⟨true, 200000, some (.int 0)⟩, ⟨true, 0, none⟩, ⟨false, 0, some (.str ['x'])⟩, ⟨true, 0, some (.bool false)⟩] }
def exOps : List Op :=
  [ .subscribe .absent (some "<http://h/a>".toList) (some "Second-1".toList), .set 0 (.int 1), .adv 50000, .set 0 (.int 2),
    .subscribe .absent (some "<http://h/b>".toList) none, .set 1 (.str ['a', '<', 'b']), .fail 2, .done 3, .adv 2000000, .set 3 (.bool true),
    .setMany [(0, .int 7), (0, .int (-8)), (1, .str []), (2, .str ['y']), (0, .int 9)], .adv 300000,
    .subscribe (.known 0) none none, .unsubscribe (.known 1), .unsubscribe (.known 1) ]

example : ok (exCfg.vars.map (·.evented)) (exCfg.vars.map (·.rate)) (exCfg.vars.map (·.default)) (run (init exCfg) exOps) = true :=
  c15_history exCfg (by decide) exOps

/-! ### the judge is not vacuous: it accepts the good traces below and rejects each kind of bad one
    (one variable, default 0; `J rate trace`) -/

def exCb : Str := ['<', 'a', '>']
def exSub : Item := .op (.subscribe .absent (some exCb) none)
def ex200 (k : Nat) : Item := .obs (.resp 200 (some k) (some 3600))
def exN (sid seq : Nat) (t : Int) (v : Nat) : Item := .obs (.notify sid seq t ['a'] [(0, [digitChar v])])
def J (rate : Nat) (tr : List Item) : Bool := ok [true] [rate] [some (.int 0)] tr

-- accepted: subscribe, initial event, change, trigger, event with the next key
example : J 0 [exSub, ex200 0, exN 0 0 0 0, .op (.set 0 (.int 5)), .obs (.trig 0 0), exN 0 1 0 5] = true := by decide
-- J1: SID not fresh / well-formed SUBSCRIBE refused
example : J 0 [exSub, ex200 0, exN 0 0 0 0, exSub, ex200 0, exN 0 1 0 0] = false := by decide
example : J 0 [exSub, .obs (.resp 404 none none)] = false := by decide
-- J2: no initial event
example : J 0 [exSub, ex200 0, .op (.set 0 (.int 5))] = false := by decide
-- J3: key skipped / stale body / NOTIFY after UNSUBSCRIBE / NOTIFY after expiry (and accepted one µs before)
example : J 0 [exSub, ex200 0, exN 0 0 0 0, .op (.set 0 (.int 5)), .obs (.trig 0 0), exN 0 2 0 5] = false := by decide
example : J 0 [exSub, ex200 0, exN 0 0 0 0, .op (.set 0 (.int 5)), .obs (.trig 0 0), exN 0 1 0 0] = false := by decide
example : J 0 [exSub, ex200 0, exN 0 0 0 0, .op (.unsubscribe (.known 0)), .obs (.resp 200 none none),
    .op (.set 0 (.int 5)), .obs (.trig 0 0), exN 0 1 0 5] = false := by decide
example : J 0 [exSub, ex200 0, exN 0 0 0 0, .op (.adv 3600000000), .op (.set 0 (.int 5)), .obs (.trig 0 3600000000),
    exN 0 1 3600000000 5] = false := by decide
example : J 0 [exSub, ex200 0, exN 0 0 0 0, .op (.adv 3599999999), .op (.set 0 (.int 5)), .obs (.trig 0 3599999999),
    exN 0 1 3599999999 5] = true := by decide
-- J3: 2^32-1 is followed by 1, not by 0
example : J 0 [exSub, ex200 0, exN 0 0 0 0, .op (.setKey 0 4294967295), .op (.set 0 (.int 5)), .obs (.trig 0 0),
    exN 0 4294967295 0 5, .op (.set 0 (.int 6)), .obs (.trig 0 0), exN 0 1 0 6] = true := by decide
example : J 0 [exSub, ex200 0, exN 0 0 0 0, .op (.setKey 0 4294967295), .op (.set 0 (.int 5)), .obs (.trig 0 0),
    exN 0 4294967295 0 5, .op (.set 0 (.int 6)), .obs (.trig 0 0), exN 0 0 0 6] = false := by decide
-- J4: NOTIFY without a trigger
example : J 0 [exSub, ex200 0, exN 0 0 0 0, .op (.set 0 (.int 5)), exN 0 1 0 5] = false := by decide
-- J4: an attribution needs an unanswered change of that variable, and pays only at its own instant
example : J 0 [exSub, ex200 0, exN 0 0 0 0, .obs (.trig 0 0), exN 0 1 0 0] = false := by decide
example : J 0 [exSub, ex200 0, exN 0 0 0 0, .op (.set 0 (.int 5)), .obs (.trig 0 0), exN 0 1 0 5, .obs (.trig 0 0), exN 0 2 0 5]
    = false := by decide
example : J 0 [exSub, ex200 0, exN 0 0 0 0, .op (.set 0 (.int 5)), .op (.adv 7), .obs (.trig 0 0), exN 0 1 7 5] = false := by
  decide
-- J5: two triggers of one variable inside its interval
example : J 200000 [exSub, ex200 0, exN 0 0 0 0, .op (.set 0 (.int 5)), .obs (.trig 0 0), exN 0 1 0 5, .op (.adv 100000),
    .op (.set 0 (.int 6)), .obs (.trig 0 100000), exN 0 2 100000 6] = false := by decide
-- J6: a deferred change may wait until the interval has passed, but not longer (this is F15a)
example : J 200000 [exSub, ex200 0, exN 0 0 0 0, .op (.set 0 (.int 5)), .obs (.trig 0 0), exN 0 1 0 5, .op (.adv 100000),
    .op (.set 0 (.int 6)), .op (.adv 50000)] = true := by decide
example : J 200000 [exSub, ex200 0, exN 0 0 0 0, .op (.set 0 (.int 5)), .obs (.trig 0 0), exN 0 1 0 5, .op (.adv 100000),
    .op (.set 0 (.int 6)), .op (.adv 200000)] = false := by decide
example : J 200000 [exSub, ex200 0, exN 0 0 0 0, .op (.set 0 (.int 5)), .obs (.trig 0 0), exN 0 1 0 5, .op (.adv 100000),
    .op (.set 0 (.int 6)), .op (.adv 200000), .obs (.trig 0 200000), exN 0 2 200000 6] = true := by decide
-- J7: renewal of a live subscription refused
example : J 0 [exSub, ex200 0, exN 0 0 0 0, .op (.subscribe (.known 0) none none), .obs (.resp 404 none none)] = false := by
  decide
-- J8: unknown SID renewed / unsubscribed successfully
example : J 0 [.op (.subscribe .unknown none none), .obs (.resp 200 (some 0) (some 5))] = false := by decide
example : J 0 [.op (.unsubscribe .unknown), .obs (.resp 200 none none)] = false := by decide

-- J3 (body): booleans may travel as 1/true/yes in any case, integers in any `int()` spelling, strings verbatim;
-- a missing, extra (non-evented) or wrong entry is rejected
example : bodyOk [true, false, true, true] [some (.bool true), some (.int 3), some (.int (-12)), some (.str ['a', '&'])]
    [(0, ['T', 'r', 'u', 'e']), (2, ['-', '1', '2']), (3, ['a', '&'])] = true := by decide
example : bodyOk [true, true] [some (.bool true), some (.int 5)] [(0, ['1']), (1, [' ', '+', '0', '5'])] = true := by decide
example : bodyOk [true, true] [some (.bool false), some (.int 5)] [(0, ['T', 'r', 'u', 'e']), (1, ['5'])] = false := by decide
example : bodyOk [true, false] [some (.int 1), some (.int 3)] [(0, ['1']), (1, ['3'])] = false := by decide
example : bodyOk [true, true] [some (.int 1), some (.str ['x'])] [(0, ['1'])] = false := by decide
example : bodyOk [true] [some (.str ['x'])] [(0, ['x', ' '])] = false := by decide

/-- what the model writes into an event (`str(value)`) is read back as the value by every subscriber that
    decodes UPnP integers with `int()`, booleans case-insensitively and strings verbatim -/
theorem wire_text_reads_back (v : Option Val) : textOk v (wireOf v) = true := textOk_wireOf v

/-- the model's event body is accepted by the judge's body test: every evented variable once, with a text that
    carries its value, and no entry for a variable that is not evented -/
theorem body_complete (ev : List Bool) (vals : List (Option Val)) : bodyOk ev vals (bodyOf ev vals) = true :=
  bodyOk_bodyOf ev vals

/-- variables that are not evented never appear in an event of the model -/
theorem non_evented_absent (ev : List Bool) (vals : List (Option Val)) (i : Nat) (t : Str)
    (h : (i, t) ∈ bodyOf ev vals) : ev[i]? = some true := by
  suffices H : ∀ (ev : List Bool) (vals : List (Option Val)) (o : Nat), (i, t) ∈ bodyOf.go o ev vals →
      o ≤ i ∧ ev[i - o]? = some true by
    have := (H ev vals 0 h).2
    simpa using this
  intro ev
  induction ev with
  | nil => intro vals o h; simp [bodyOf.go] at h
  | cons e es ih =>
    intro vals o h
    cases vals with
    | nil => simp [bodyOf.go] at h
    | cons v vs =>
      unfold bodyOf.go at h
      cases e with
      | true =>
        simp only [if_true, List.mem_cons, Prod.mk.injEq] at h
        rcases h with ⟨rfl, _⟩ | h
        · simp
        · obtain ⟨h1, h2⟩ := ih vs (o + 1) h
          refine ⟨by omega, ?_⟩
          have : i - o = (i - (o + 1)) + 1 := by omega
          rw [this]; simpa using h2
      | false =>
        simp only [Bool.false_eq_true, if_false] at h
        obtain ⟨h1, h2⟩ := ih vs (o + 1) h
        refine ⟨by omega, ?_⟩
        have : i - o = (i - (o + 1)) + 1 := by omega
        rw [this]; simpa using h2

-- the hypotheses of the acceptance theorems are met by accepted traces: a renewal granted 5 s, an event before and
-- (rejected) at the new expiry; consecutive keys; a second subscription with the next SID
example : J 0 [exSub, ex200 0, exN 0 0 0 0, .op (.subscribe (.known 0) none none), .obs (.resp 200 (some 0) (some 5)),
    .op (.adv 4999999), .op (.set 0 (.int 5)), .obs (.trig 0 4999999), exN 0 1 4999999 5] = true := by decide
example : J 0 [exSub, ex200 0, exN 0 0 0 0, .op (.subscribe (.known 0) none none), .obs (.resp 200 (some 0) (some 5)),
    .op (.adv 5000000), .op (.set 0 (.int 5)), .obs (.trig 0 5000000), exN 0 1 5000000 5] = false := by decide
example : J 0 [exSub, ex200 0, exN 0 0 0 0, exSub, ex200 1, exN 1 0 0 0, .op (.set 0 (.int 5)), .obs (.trig 0 0),
    exN 0 1 0 5, exN 1 1 0 5] = true := by decide
example : elapsed [exSub, .op (.adv 7), ex200 0, .op (.adv 5)] = 12 := by decide
example : valuesAfter [some (.int 0), none] [.op (.set 1 (.bool true)), .op (.setMany [(0, .int 4), (5, .int 9), (0, .int 6)])]
    = [some (.int 6), some (.bool true)] := by decide

end Upnp.C15
