/-
  C15 — server eventing is ordered, complete, and bounded by the subscription's life.
  Property theorems only.  (work in progress: the history theorem follows)
-/
import Upnp.Model.C15Server
import Upnp.Spec.C15
namespace Upnp.C15

/-- The key arithmetic read from `EventSubscriber.get_next_seq` (regenerated from the source on
    every run) is the property's: +1 per event, and 2^32-1 is followed by 1; keys start at 0. -/
theorem seq_wrap (k : Nat) :
    nextKey Gen.C15.seqIncr Gen.C15.seqMax Gen.C15.seqWrapTo k = specNextKey k ∧ Gen.C15.seqStart = 0 := by
  refine ⟨?_, by decide⟩
  have e1 : Gen.C15.seqIncr = 1 := rfl
  have e2 : Gen.C15.seqMax = 4294967295 := rfl
  have e3 : Gen.C15.seqWrapTo = 1 := rfl
  rw [e1, e2, e3]
  unfold nextKey specNextKey
  by_cases h : 4294967295 ≤ k
  · rw [if_pos h, if_pos (by omega)]
  · rw [if_neg h, if_neg (by omega)]

example : nextKey Gen.C15.seqIncr Gen.C15.seqMax Gen.C15.seqWrapTo 4294967295 = 1 := by decide

end Upnp.C15
