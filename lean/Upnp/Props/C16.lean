/-
  C16 — the case-insensitive header map behaves as a map.

  Property theorems only (helper lemmas are in `Upnp/Lemmas`).  The model
  (`Upnp/Model/CIDict.lean`) transcribes `utils.CaseInsensitiveDict`; `stepM`/`stepS`
  (`Upnp/Model/C16Ops.lean`) are the very functions the correspondence driver runs.
  All theorems are for arbitrary key/value types with decidable key equality and an
  arbitrary folding function `lower`.
-/
import Upnp.Lemmas.C16Obs
import Upnp.Lemmas.C16Heap
namespace Upnp.C16
open Upnp PyDict CIDict
variable {κ ν : Type} [DecidableEq κ] (lower : κ → κ)

/-- well-formed operation: `combine_lower_dict` is given pre-lowered keys (its documented contract) -/
def WF : Op κ ν → Prop
  | .combineLower _ _ l => ∀ p ∈ l, lower p.1 = p.1
  | _ => True

/-- One operation preserves the simulation on every register: the representation invariant
    holds and the header map's abstract content is the abstract map's. -/
theorem step_sim (R : Nat → CIDict κ ν) (S : Nat → SMap κ ν) (op : Op κ ν) (hw : WF lower op)
    (h : ∀ i, Sim lower (R i) (S i)) : ∀ i, Sim lower (stepM lower R op i) (stepS lower S op i) := by
  cases op with
  | newDict r l => exact sim_upd lower h r (sim_ofDict lower l)
  | newCI r a => exact sim_upd lower h r (sim_asDict lower (h a))
  | set r k v => exact sim_upd lower h r (sim_set lower (h r) k v)
  | del r k =>
    simp only [stepM, stepS, delitem]
    cases e : delLower (R r) (lower k) with
    | some d => exact sim_upd lower h r (sim_delLower lower (h r) _ e)
    | none =>
      intro i; unfold upd; split
      · rename_i hi; subst hi; exact delLower_none_remove lower (h i) _ e
      · exact h i
  | delLower r lk =>
    simp only [stepM, stepS]
    cases e : delLower (R r) lk with
    | some d => exact sim_upd lower h r (sim_delLower lower (h r) _ e)
    | none =>
      intro i; unfold upd; split
      · rename_i hi; subst hi; exact delLower_none_remove lower (h i) _ e
      · exact h i
  | copy r a => exact sim_upd lower h r ⟨inv_copy lower (h a).inv, (h a).nodup, (h a).same⟩
  | combine r a b => exact sim_upd lower h r (sim_combine lower (h a) (h b))
  | combineLower r a l => exact sim_upd lower h r (sim_combineLower lower (h a) l hw)
  | replaceDict r l => exact sim_upd lower h r (sim_ofDict lower l)
  | replaceCI r a => exact sim_upd lower h r ⟨(h a).inv, (h a).nodup, (h a).same⟩

/-- **Every operation sequence** (any length, any registers, every constructor form, combination,
    replacement, assignment and deletion) keeps every header map in simulation with the abstract
    map keyed by folded name in which the most recent write wins and keeps its spelling. -/
theorem c16_history (ops : List (Op κ ν)) (hw : ∀ op ∈ ops, WF lower op) :
    ∀ i, Sim lower (ops.foldl (stepM lower) (fun _ => CIDict.empty) i)
                   (ops.foldl (stepS lower) (fun _ => []) i) := by
  suffices H : ∀ (R : Nat → CIDict κ ν) (S : Nat → SMap κ ν), (∀ i, Sim lower (R i) (S i)) →
      ∀ i, Sim lower (ops.foldl (stepM lower) R i) (ops.foldl (stepS lower) S i) from
    H _ _ (fun _ => sim_empty lower)
  induction ops with
  | nil => intro R S h; simpa using h
  | cons op r ih =>
    intro R S h
    simp only [List.foldl_cons]
    exact ih (fun o ho => hw o (List.mem_cons_of_mem _ ho)) _ _
      (step_sim lower R S op (hw op List.mem_cons_self) h)

/-! ### What simulation means for the observations -/

/-- lookup by **any** spelling returns what the abstract map holds for the folded name -/
theorem lookup_spec {d : CIDict κ ν} {m : SMap κ ν} (h : Sim lower d m) (k : κ) :
    getitem lower d k = SMap.lookup lower m k := by
  rw [getitem_abs lower h.inv]; unfold SMap.lookup; rw [h.same]

theorem contains_spec {d : CIDict κ ν} {m : SMap κ ν} (h : Sim lower d m) (k : κ) :
    contains' lower d k = (SMap.lookup lower m k).isSome := by
  unfold contains'; rw [lookup_spec lower h]

theorem getLower_spec {d : CIDict κ ν} {m : SMap κ ν} (h : Sim lower d m) (lk : κ) :
    getLower d lk = (get? m lk).map (·.2) := by
  rw [getLower_abs lower h.inv, h.same]

/-- the stored (folded name, spelling, value) triples are a permutation of the abstract map's:
    hence `len`, iteration, `as_dict`, `as_lower_dict`, `case_map` agree with it up to order -/
theorem content_spec {d : CIDict κ ν} {m : SMap κ ν} (h : Sim lower d m) :
    (abs lower d).Perm m := by
  have hp : ∀ {a : SMap κ ν}, (keys a).Nodup → a.Nodup := fun {a} hn =>
    nodup_of_map' (fun p : κ × κ × ν => p.1) (by simpa [keys] using hn)
  rw [List.perm_ext_iff_of_nodup (hp (h.inv.absNodup lower)) (hp h.nodup)]
  intro p
  obtain ⟨k, v⟩ := p
  constructor
  · intro hm
    have := get?_of_mem_nodup (h.inv.absNodup lower) hm
    rw [h.same] at this; exact mem_of_get? this
  · intro hm
    have := get?_of_mem_nodup h.nodup hm
    rw [← h.same] at this; exact mem_of_get? this

theorem len_spec {d : CIDict κ ν} {m : SMap κ ν} (h : Sim lower d m) : len d = m.length := by
  rw [len_abs lower]; exact (content_spec lower h).length_eq

/-- iteration yields exactly the current spellings, each once -/
theorem iter_spec {d : CIDict κ ν} {m : SMap κ ν} (h : Sim lower d m) :
    (iter d).Perm (m.map (·.2.1)) ∧ (iter d).Nodup := by
  rw [iter_abs lower]
  exact ⟨(content_spec lower h).map _, by
    have := h.inv.dataNodup; simpa [abs, keys, Function.comp_def] using this⟩

/-- deletion raises `KeyError` on the model exactly when the abstract map lacks the name -/
theorem raises_spec (R : Nat → CIDict κ ν) (S : Nat → SMap κ ν) (op : Op κ ν)
    (h : ∀ i, Sim lower (R i) (S i)) : raisesM lower R op = raisesS lower S op := by
  cases op with
  | del r k =>
    simp only [raisesM, raisesS, delitem, SMap.lookup]
    have := delLower_some_iff lower (h r).inv (lower k)
    rw [(h r).same] at this
    cases h1 : delLower (R r) (lower k) <;> cases h2 : get? (S r) (lower k) <;> simp_all
  | delLower r lk =>
    simp only [raisesM, raisesS]
    have := delLower_some_iff lower (h r).inv lk
    rw [(h r).same] at this
    cases h1 : delLower (R r) lk <;> cases h2 : get? (S r) lk <;> simp_all
  | _ => rfl

/-- `==` between two header maps is equality of the abstract maps' (folded name ↦ value) content:
    spelling and order are irrelevant -/
theorem eq_spec [DecidableEq ν] {a b : CIDict κ ν} {m n : SMap κ ν} (ha : Sim lower a m) (hb : Sim lower b n) :
    eqCI lower a b = smapEq m n := by
  unfold eqCI smapEq
  rw [asLowerDict_abs lower ha.inv, asLowerDict_abs lower hb.inv]
  have k1 := keys_mapVal (abs lower a) (fun q : κ × ν => q.2)
  have k2 := keys_mapVal (abs lower b) (fun q : κ × ν => q.2)
  have k3 := keys_mapVal m (fun q : κ × ν => q.2)
  have k4 := keys_mapVal n (fun q : κ × ν => q.2)
  rw [Bool.eq_iff_iff,
    eqv_iff _ _ (k1 ▸ ha.inv.absNodup lower) (k2 ▸ hb.inv.absNodup lower),
    eqv_iff _ _ (k3 ▸ ha.nodup) (k4 ▸ hb.nodup)]
  simp only [get?_mapVal, ha.same, hb.same]

/-- `==` with a plain mapping compares against that mapping written into an empty abstract map -/
theorem eq_dict_spec [DecidableEq ν] {a : CIDict κ ν} {m : SMap κ ν} (ha : Sim lower a m) (l : List (κ × ν)) :
    eqDict lower a (PyDict.ofList l) = smapEq m (SMap.writeAll lower [] (PyDict.ofList l)) := by
  have hb := sim_ofDict lower l
  rw [← eq_spec lower ha hb]
  unfold eqDict eqCI
  rw [asLowerDict_abs lower hb.inv, asLowerDict_abs lower ha.inv]
  have hn := ofDict_inv lower (PyDict.ofList l) (nodup_keys_ofList l)
  apply eqv_congr_right
  · rw [keys_mapVal (f := fun q : κ × ν => q.2)]; exact ha.inv.absNodup lower
  · exact nodup_keys_ofList _
  · rw [keys_mapVal (f := fun q : κ × ν => q.2)]; exact hn.absNodup lower
  · -- both operands have the same lookups: the last value written under each folded name
    intro x
    rw [get?_mapVal, ofDict_abs lower _ (nodup_keys_ofList l), get?_writeAll_nil, get?_ofList,
      ← List.map_reverse, ← List.map_reverse, get?_map_find?, get?_map_find?]
    cases (PyDict.ofList l).reverse.find? (fun p => decide (lower p.1 = x)) <;> rfl

/-- **The run-time judge accepts every observation of the model**: whatever is observed of a header
    map in simulation with `m` (lookups by any probe spellings, membership, length, iteration,
    lower-cased view, `as_dict`, `case_map`) passes `obsOk lower m` — the same predicate the
    correspondence driver evaluates on the implementation's observations. -/
theorem obs_ok [DecidableEq ν] {d : CIDict κ ν} {m : SMap κ ν} (h : Sim lower d m) (probes : List κ) :
    obsOk lower m (observe lower probes d) = true := by
  have hc := content_spec lower h
  unfold obsOk observe
  simp only [Bool.and_eq_true, beq_iff_eq, List.all_eq_true, List.mem_map, forall_exists_index, and_imp]
  refine ⟨⟨⟨⟨⟨⟨⟨?_, ?_⟩, ?_⟩, ?_⟩, ?_⟩, ?_⟩, ?_⟩, ?_⟩
  · exact len_spec lower h
  · rw [iter_abs lower]; exact sameSet_of_perm (hc.map _)
  · rintro _ k _ rfl; exact lookup_spec lower h k
  · rintro _ lk _ rfl; exact getLower_spec lower h lk
  · rintro _ k _ rfl; exact contains_spec lower h k
  · rw [asLowerDict_abs lower h.inv]; exact sameSet_of_perm (hc.map _)
  · rw [asDict_abs lower]; exact sameSet_of_perm (hc.map _)
  · exact sameSet_of_perm ((cmap_perm lower h.inv).trans (hc.map _))

/-- The inherited `Mapping` API needs no separate argument: `items()` (hence `keys()`, `values()`,
    and `get`, which is `__getitem__` with a default) lists exactly the (spelling, value) pairs of
    `as_dict()`, which `obs_ok` relates to the abstract map; the derived mutators `pop`, `popitem`,
    `setdefault`, `update`, `clear` are sequences of `__getitem__`/`__setitem__`/`__delitem__`, i.e.
    histories covered by `c16_history`. -/
theorem mixin_items_spec {d : CIDict κ ν} {m : SMap κ ν} (h : Sim lower d m) :
    mixinItems lower d = asDict d :=
  mixinItems_eq_data lower h.inv

/-- hence: after **any** operation sequence the judge accepts the model's observation of every register -/
theorem c16_judge_accepts_model [DecidableEq ν] (ops : List (Op κ ν)) (hw : ∀ op ∈ ops, WF lower op)
    (probes : List κ) (r : Nat) :
    obsOk lower (ops.foldl (stepS lower) (fun _ => []) r)
      (observe lower probes (ops.foldl (stepM lower) (fun _ => CIDict.empty) r)) = true :=
  obs_ok lower (c16_history lower ops hw r) probes

/-- The most recent write wins and keeps its spelling, whatever happened before. -/
theorem last_write_wins (ops : List (Op κ ν)) (hw : ∀ op ∈ ops, WF lower op) (r : Nat) (k k' : κ) (v : ν)
    (e : lower k' = lower k) :
    let R := (ops ++ [Op.set r k v]).foldl (stepM lower) (fun _ => CIDict.empty)
    getitem lower (R r) k' = some v ∧ k ∈ iter (R r) := by
  intro R
  have hw' : ∀ op ∈ ops ++ [Op.set r k v], WF lower op := by
    intro op ho
    rcases List.mem_append.mp ho with ho | ho
    · exact hw op ho
    · simp only [List.mem_singleton] at ho; subst ho; trivial
  have hs := c16_history lower (ops ++ [Op.set r k v]) hw' r
  have hget : get? ((ops ++ [Op.set r k v]).foldl (stepS lower) (fun _ => []) r) (lower k) = some (k, v) := by
    simp [List.foldl_append, stepS, upd, SMap.write, get?_set_self]
  constructor
  · rw [lookup_spec lower hs]; unfold SMap.lookup; rw [e, hget]; rfl
  · have hp := (iter_spec lower hs).1
    exact hp.mem_iff.mpr (List.mem_map.mpr ⟨_, mem_of_get? hget, rfl⟩)

/-! ### The inherited mutators -/

/-- `pop(key)` returns the abstract map's value (or raises exactly when it has none) and removes the name -/
theorem pop_spec {d : CIDict κ ν} {m : SMap κ ν} (h : Sim lower d m) (k : κ) :
    (popM lower d k).1 = (popS lower m k).1 ∧ Sim lower (popM lower d k).2 (popS lower m k).2 := by
  unfold popM popS
  rw [lookup_spec lower h k]
  cases hl : SMap.lookup lower m k with
  | none => exact ⟨rfl, h⟩
  | some v =>
    refine ⟨rfl, ?_⟩
    simp only [delitem]
    cases e : delLower d (lower k) with
    | some d' => exact sim_delLower lower h _ e
    | none => simpa using delLower_none_remove lower h _ e

/-- `setdefault(key, default)` returns the stored value if there is one, else stores and returns the default -/
theorem setdefault_spec {d : CIDict κ ν} {m : SMap κ ν} (h : Sim lower d m) (k : κ) (v : ν) :
    (setdefaultM lower d k v).1 = (setdefaultS lower m k v).1 ∧
      Sim lower (setdefaultM lower d k v).2 (setdefaultS lower m k v).2 := by
  unfold setdefaultM setdefaultS
  rw [lookup_spec lower h k]
  cases SMap.lookup lower m k with
  | none => exact ⟨rfl, sim_set lower h k v⟩
  | some x => exact ⟨rfl, h⟩

/-- `update(mapping)` is the mapping's items written in order -/
theorem update_spec {d : CIDict κ ν} {m : SMap κ ν} (h : Sim lower d m) (l : List (κ × ν)) :
    Sim lower (updateM lower d l) (updateS lower m l) := by
  unfold updateM updateS SMap.writeAll
  induction l generalizing d m with
  | nil => simpa using h
  | cons p r ih => simp only [List.foldl_cons]; exact ih (sim_set lower h p.1 p.2)

/-- `==` after any history (clause "equality with plain maps and other header maps"): for all operation
    sequences and any two registers, the model's `==` is the abstract maps' equality -/
theorem eq_history [DecidableEq ν] (ops : List (Op κ ν)) (hw : ∀ op ∈ ops, WF lower op) (r r' : Nat) :
    eqCI lower (ops.foldl (stepM lower) (fun _ => CIDict.empty) r) (ops.foldl (stepM lower) (fun _ => CIDict.empty) r')
      = smapEq (ops.foldl (stepS lower) (fun _ => []) r) (ops.foldl (stepS lower) (fun _ => []) r') :=
  eq_spec lower (c16_history lower ops hw r) (c16_history lower ops hw r')

/-! ### Object identity: copies and combinations are independent of their sources

The machine of `Model/C16Heap.lean` runs the operations on VARIABLES: an object owns a cell (its
pair of dicts), `replace(other)` makes the target share the other object's cell, every constructor,
`copy`, `combine`, `combine_lower_dict` and `replace(plain mapping)` allocate a fresh cell, and the
in-place mutators write through the handle.  The driver runs exactly `hstep (stepM lower)` and
`hstep (stepS lower)`. -/

/-- well-formed variable-level operation (pre-lowered keys for `combine_lower_dict`) -/
def HWF : HOp κ ν → Prop
  | .combineLower _ _ l => ∀ p ∈ l, lower p.1 = p.1
  | _ => True

/-- Under any history of operations on variables — sharing through `replace(other)` included — the
    model and the abstract map use the same handle table and every cell stays in simulation: every
    variable always denotes a header map that behaves as the abstract map it denotes on the spec side. -/
theorem c16_object_history (ops : List (HOp κ ν)) (hw : ∀ op ∈ ops, HWF lower op) :
    let m := hrun (stepM lower) (hinit CIDict.empty) ops
    let sp := hrun (stepS lower) (hinit ([] : SMap κ ν)) ops
    m.handle = sp.handle ∧ m.next = sp.next ∧ ∀ c, Sim lower (m.cells c) (sp.cells c) := by
  suffices H : ∀ (m : HSt (CIDict κ ν)) (sp : HSt (SMap κ ν)), m.handle = sp.handle → m.next = sp.next →
      (∀ c, Sim lower (m.cells c) (sp.cells c)) →
      (hrun (stepM lower) m ops).handle = (hrun (stepS lower) sp ops).handle ∧
      (hrun (stepM lower) m ops).next = (hrun (stepS lower) sp ops).next ∧
      ∀ c, Sim lower ((hrun (stepM lower) m ops).cells c) ((hrun (stepS lower) sp ops).cells c) from
    H _ _ rfl rfl (fun _ => sim_empty lower)
  induction ops with
  | nil => intro m sp hh hn hs; exact ⟨hh, hn, hs⟩
  | cons op r ih =>
    intro m sp hh hn hs
    simp only [hrun, List.foldl_cons]
    have hwop := hw op List.mem_cons_self
    obtain ⟨hh', hn'⟩ := hstep_handle_indep (stepM lower) (stepS lower) m sp op hh hn
    refine ih (fun o ho => hw o (List.mem_cons_of_mem _ ho)) _ _ hh' hn' ?_
    cases op with
    | newDict v l => simp only [hstep, hn]; exact step_sim lower _ _ (.newDict _ l) trivial hs
    | newCI v a => simp only [hstep, hn, hh]; exact step_sim lower _ _ (.newCI _ _) trivial hs
    | set v k x => simp only [hstep, hh]; exact step_sim lower _ _ (.set _ k x) trivial hs
    | del v k => simp only [hstep, hh]; exact step_sim lower _ _ (.del _ k) trivial hs
    | delLower v lk => simp only [hstep, hh]; exact step_sim lower _ _ (.delLower _ lk) trivial hs
    | copy v a => simp only [hstep, hn, hh]; exact step_sim lower _ _ (.copy _ _) trivial hs
    | combine v a b => simp only [hstep, hn, hh]; exact step_sim lower _ _ (.combine _ _ _) trivial hs
    | combineLower v a l => simp only [hstep, hn, hh]; exact step_sim lower _ _ (.combineLower _ _ l) hwop hs
    | replaceDict v l => simp only [hstep, hn]; exact step_sim lower _ _ (.replaceDict _ l) trivial hs
    | replaceCI v a => simp only [hstep]; exact hs

/-- **Copies and combinations are independent of their sources.**  Right after an operation that
    builds a header map (any constructor, `copy`, `combine`, `combine_lower_dict`, `replace` with a
    plain mapping), the new map `v` keeps exactly its content through ANY later operations on other
    variables — mutation, deletion, rebinding or replacement of its sources included — as long as
    nobody asks to share it (`x.replace(v)`, the documented sharing). -/
theorem copy_independent (s : HSt (CIDict κ ν)) (hfr : Fresh s) (op : HOp κ ν) (ha : op.allocates = true)
    (later : List (HOp κ ν)) (hl : ∀ o ∈ later, o.target ≠ op.target ∧ o.linksTo op.target = false) :
    (hrun (stepM lower) (hstep (stepM lower) s op) later).val op.target
      = (hstep (stepM lower) s op).val op.target :=
  (private_run (stepM lower) (stepM_frame lower) op.target later _ (fresh_step _ s op hfr)
    (alloc_private (stepM lower) s op hfr ha) hl).1

/-- … and the other way round: what is done to the copy never reaches a source that is not shared. -/
theorem source_independent (s : HSt (CIDict κ ν)) (hfr : Fresh s) (a : Nat) (hp : Private s a) (op : HOp κ ν)
    (hta : op.target ≠ a) (hla : op.linksTo a = false)
    (later : List (HOp κ ν)) (hl : ∀ o ∈ later, o.target ≠ a ∧ o.linksTo a = false) :
    (hrun (stepM lower) (hstep (stepM lower) s op) later).val a = s.val a := by
  obtain ⟨hp', hh, hc⟩ := private_step (stepM lower) (stepM_frame lower) s a op hfr hp hta hla
  have := (private_run (stepM lower) (stepM_frame lower) a later _ (fresh_step _ s op hfr) hp' hl).1
  rw [this]; simp only [HSt.val, hh, hc]

/-- `replace(other)` shares: afterwards both variables denote the same cell, so a write through
    either is seen through both (the code's documented behaviour, "without making a copy") -/
theorem replace_shares (s : HSt (CIDict κ ν)) (v a : Nat) (k : κ) (x : ν) :
    let s1 := hstep (stepM lower) s (.replaceCI v a)
    let s2 := hstep (stepM lower) s1 (.set a k x)
    s2.val v = s2.val a := by
  simp [hstep, HSt.val, upd]

/-- non-vacuity for the object-level theorems: a copy survives the mutation, rebinding and
    replacement of its source (numbers as keys, folded name `k / 10 * 10`) -/
example :
    let lower : Nat → Nat := fun k => k / 10 * 10
    let s0 := hrun (stepM lower) (hinit (CIDict.empty : CIDict Nat Int)) [.newDict 0 [(11, 1), (20, 2)]]
    let later : List (HOp Nat Int) := [.set 0 12 5, .del 0 20, .replaceDict 0 [(30, 3)], .newDict 2 [(11, 9)], .replaceCI 0 2]
    Fresh s0 ∧ (∀ o ∈ later, o.target ≠ 1 ∧ o.linksTo 1 = false) ∧
    CIDict.iter ((hrun (stepM lower) (hstep (stepM lower) s0 (.copy 1 0)) later).val 1) = [11, 20] ∧
    CIDict.iter ((hrun (stepM lower) (hstep (stepM lower) s0 (.copy 1 0)) later).val 0) = [11] := by
  refine ⟨?_, ?_, by decide, by decide⟩
  · simp only [hrun, List.foldl_cons, List.foldl_nil]; exact fresh_step _ _ _ (fresh_init _)
  · intro o ho
    simp only [List.mem_cons, List.not_mem_nil, or_false] at ho
    rcases ho with rfl | rfl | rfl | rfl | rfl <;> simp [HOp.target, HOp.linksTo]

/-- non-vacuity: a concrete history with several spellings of one name (keys are numbers, the
    folded name of `k` is `k / 10 * 10`, so 11, 12, 13 are spellings of 10) reaches a state where
    the hypotheses hold and the conclusions are non-trivial -/
example :
    let lower : Nat → Nat := fun k => k / 10 * 10
    let ops : List (Op Nat Int) :=
      [.newDict 0 [(11, 1), (12, 2), (20, 3)], .set 0 10 5, .copy 1 0, .del 1 13,
       .combineLower 2 0 [(20, 9)]]
    let R := ops.foldl (stepM lower) (fun _ => CIDict.empty)
    (∀ op ∈ ops, WF lower op) ∧
    (len (R 0), getitem lower (R 0) 13, iter (R 0), len (R 1), getitem lower (R 2) 21)
      = (2, some 5, [20, 10], 1, some 9) := by
  refine ⟨?_, by decide⟩
  intro op ho
  simp only [List.mem_cons, List.not_mem_nil, or_false] at ho
  rcases ho with rfl | rfl | rfl | rfl | rfl <;> simp [WF]

end Upnp.C16
