/-
  C16 — the case-insensitive header map behaves as a map.

  Property theorems only (helper lemmas are in `Upnp/Lemmas`).  The model
  (`Upnp/Model/CIDict.lean`) transcribes `utils.CaseInsensitiveDict`; `stepM`/`stepS`
  (`Upnp/Model/C16Ops.lean`) are the very functions the correspondence driver runs.
  All theorems are for arbitrary key/value types with decidable key equality and an
  arbitrary folding function `lower`.
-/
import Upnp.Lemmas.C16Obs
namespace Upnp.C16
open Upnp PyDict CIDict
variable {κ ν : Type} [DecidableEq κ] (lower : κ → κ)

/-- well-formed operation: `combine_lower_dict` is given pre-lowered keys (its documented contract) -/
def WF : Op κ ν → Prop
  | .combineLower _ _ l => ∀ p ∈ l, lower p.1 = p.1
  | _ => True

/-- One operation preserves the simulation on every register: the representation invariant
    holds and the header map's abstract content is the abstract map's. -/
theorem step_sim (R : Nat → CIDict κ ν) (S : Nat → SMap κ ν) (op : Op κ ν) (hw : WF lower op)
    (h : ∀ i, Sim lower (R i) (S i)) : ∀ i, Sim lower (stepM lower R op i) (stepS lower S op i) := by
  cases op with
  | newDict r l => exact sim_upd lower h r (sim_ofDict lower l)
  | newCI r a => exact sim_upd lower h r (sim_asDict lower (h a))
  | set r k v => exact sim_upd lower h r (sim_set lower (h r) k v)
  | del r k =>
    simp only [stepM, stepS, delitem]
    cases e : delLower (R r) (lower k) with
    | some d => exact sim_upd lower h r (sim_delLower lower (h r) _ e)
    | none =>
      intro i; unfold upd; split
      · rename_i hi; subst hi; exact delLower_none_remove lower (h i) _ e
      · exact h i
  | delLower r lk =>
    simp only [stepM, stepS]
    cases e : delLower (R r) lk with
    | some d => exact sim_upd lower h r (sim_delLower lower (h r) _ e)
    | none =>
      intro i; unfold upd; split
      · rename_i hi; subst hi; exact delLower_none_remove lower (h i) _ e
      · exact h i
  | copy r a => exact sim_upd lower h r ⟨inv_copy lower (h a).inv, (h a).nodup, (h a).same⟩
  | combine r a b => exact sim_upd lower h r (sim_combine lower (h a) (h b))
  | combineLower r a l => exact sim_upd lower h r (sim_combineLower lower (h a) l hw)
  | replaceDict r l => exact sim_upd lower h r (sim_ofDict lower l)
  | replaceCI r a => exact sim_upd lower h r ⟨(h a).inv, (h a).nodup, (h a).same⟩

/-- **Every operation sequence** (any length, any registers, every constructor form, combination,
    replacement, assignment and deletion) keeps every header map in simulation with the abstract
    map keyed by folded name in which the most recent write wins and keeps its spelling. -/
theorem c16_history (ops : List (Op κ ν)) (hw : ∀ op ∈ ops, WF lower op) :
    ∀ i, Sim lower (ops.foldl (stepM lower) (fun _ => CIDict.empty) i)
                   (ops.foldl (stepS lower) (fun _ => []) i) := by
  suffices H : ∀ (R : Nat → CIDict κ ν) (S : Nat → SMap κ ν), (∀ i, Sim lower (R i) (S i)) →
      ∀ i, Sim lower (ops.foldl (stepM lower) R i) (ops.foldl (stepS lower) S i) from
    H _ _ (fun _ => sim_empty lower)
  induction ops with
  | nil => intro R S h; simpa using h
  | cons op r ih =>
    intro R S h
    simp only [List.foldl_cons]
    exact ih (fun o ho => hw o (List.mem_cons_of_mem _ ho)) _ _
      (step_sim lower R S op (hw op List.mem_cons_self) h)

/-! ### What simulation means for the observations -/

/-- lookup by **any** spelling returns what the abstract map holds for the folded name -/
theorem lookup_spec {d : CIDict κ ν} {m : SMap κ ν} (h : Sim lower d m) (k : κ) :
    getitem lower d k = SMap.lookup lower m k := by
  rw [getitem_abs lower h.inv]; unfold SMap.lookup; rw [h.same]

theorem contains_spec {d : CIDict κ ν} {m : SMap κ ν} (h : Sim lower d m) (k : κ) :
    contains' lower d k = (SMap.lookup lower m k).isSome := by
  unfold contains'; rw [lookup_spec lower h]

theorem getLower_spec {d : CIDict κ ν} {m : SMap κ ν} (h : Sim lower d m) (lk : κ) :
    getLower d lk = (get? m lk).map (·.2) := by
  rw [getLower_abs lower h.inv, h.same]

/-- the stored (folded name, spelling, value) triples are a permutation of the abstract map's:
    hence `len`, iteration, `as_dict`, `as_lower_dict`, `case_map` agree with it up to order -/
theorem content_spec {d : CIDict κ ν} {m : SMap κ ν} (h : Sim lower d m) :
    (abs lower d).Perm m := by
  have hp : ∀ {a : SMap κ ν}, (keys a).Nodup → a.Nodup := fun {a} hn =>
    nodup_of_map' (fun p : κ × κ × ν => p.1) (by simpa [keys] using hn)
  rw [List.perm_ext_iff_of_nodup (hp (h.inv.absNodup lower)) (hp h.nodup)]
  intro p
  obtain ⟨k, v⟩ := p
  constructor
  · intro hm
    have := get?_of_mem_nodup (h.inv.absNodup lower) hm
    rw [h.same] at this; exact mem_of_get? this
  · intro hm
    have := get?_of_mem_nodup h.nodup hm
    rw [← h.same] at this; exact mem_of_get? this

theorem len_spec {d : CIDict κ ν} {m : SMap κ ν} (h : Sim lower d m) : len d = m.length := by
  rw [len_abs lower]; exact (content_spec lower h).length_eq

/-- iteration yields exactly the current spellings, each once -/
theorem iter_spec {d : CIDict κ ν} {m : SMap κ ν} (h : Sim lower d m) :
    (iter d).Perm (m.map (·.2.1)) ∧ (iter d).Nodup := by
  rw [iter_abs lower]
  exact ⟨(content_spec lower h).map _, by
    have := h.inv.dataNodup; simpa [abs, keys, Function.comp_def] using this⟩

/-- deletion raises `KeyError` on the model exactly when the abstract map lacks the name -/
theorem raises_spec (R : Nat → CIDict κ ν) (S : Nat → SMap κ ν) (op : Op κ ν)
    (h : ∀ i, Sim lower (R i) (S i)) : raisesM lower R op = raisesS lower S op := by
  cases op with
  | del r k =>
    simp only [raisesM, raisesS, delitem, SMap.lookup]
    have := delLower_some_iff lower (h r).inv (lower k)
    rw [(h r).same] at this
    cases h1 : delLower (R r) (lower k) <;> cases h2 : get? (S r) (lower k) <;> simp_all
  | delLower r lk =>
    simp only [raisesM, raisesS]
    have := delLower_some_iff lower (h r).inv lk
    rw [(h r).same] at this
    cases h1 : delLower (R r) lk <;> cases h2 : get? (S r) lk <;> simp_all
  | _ => rfl

/-- `==` between two header maps is equality of the abstract maps' (folded name ↦ value) content:
    spelling and order are irrelevant -/
theorem eq_spec [DecidableEq ν] {a b : CIDict κ ν} {m n : SMap κ ν} (ha : Sim lower a m) (hb : Sim lower b n) :
    eqCI lower a b = smapEq m n := by
  unfold eqCI smapEq
  rw [asLowerDict_abs lower ha.inv, asLowerDict_abs lower hb.inv]
  have k1 := keys_mapVal (abs lower a) (fun q : κ × ν => q.2)
  have k2 := keys_mapVal (abs lower b) (fun q : κ × ν => q.2)
  have k3 := keys_mapVal m (fun q : κ × ν => q.2)
  have k4 := keys_mapVal n (fun q : κ × ν => q.2)
  rw [Bool.eq_iff_iff,
    eqv_iff _ _ (k1 ▸ ha.inv.absNodup lower) (k2 ▸ hb.inv.absNodup lower),
    eqv_iff _ _ (k3 ▸ ha.nodup) (k4 ▸ hb.nodup)]
  simp only [get?_mapVal, ha.same, hb.same]

/-- `==` with a plain mapping compares against that mapping written into an empty abstract map -/
theorem eq_dict_spec [DecidableEq ν] {a : CIDict κ ν} {m : SMap κ ν} (ha : Sim lower a m) (l : List (κ × ν)) :
    eqDict lower a (PyDict.ofList l) = smapEq m (SMap.writeAll lower [] (PyDict.ofList l)) := by
  have hb := sim_ofDict lower l
  rw [← eq_spec lower ha hb]
  unfold eqDict eqCI
  rw [asLowerDict_abs lower hb.inv, asLowerDict_abs lower ha.inv]
  have hn := ofDict_inv lower (PyDict.ofList l) (nodup_keys_ofList l)
  apply eqv_congr_right
  · rw [keys_mapVal (f := fun q : κ × ν => q.2)]; exact ha.inv.absNodup lower
  · exact nodup_keys_ofList _
  · rw [keys_mapVal (f := fun q : κ × ν => q.2)]; exact hn.absNodup lower
  · -- both operands have the same lookups: the last value written under each folded name
    intro x
    rw [get?_mapVal, ofDict_abs lower _ (nodup_keys_ofList l), get?_writeAll_nil, get?_ofList,
      ← List.map_reverse, ← List.map_reverse, get?_map_find?, get?_map_find?]
    cases (PyDict.ofList l).reverse.find? (fun p => decide (lower p.1 = x)) <;> rfl

/-- **The run-time judge accepts every observation of the model**: whatever is observed of a header
    map in simulation with `m` (lookups by any probe spellings, membership, length, iteration,
    lower-cased view, `as_dict`, `case_map`) passes `obsOk lower m` — the same predicate the
    correspondence driver evaluates on the implementation's observations. -/
theorem obs_ok [DecidableEq ν] {d : CIDict κ ν} {m : SMap κ ν} (h : Sim lower d m) (probes : List κ) :
    obsOk lower m (observe lower probes d) = true := by
  have hc := content_spec lower h
  unfold obsOk observe
  simp only [Bool.and_eq_true, beq_iff_eq, List.all_eq_true, List.mem_map, forall_exists_index, and_imp]
  refine ⟨⟨⟨⟨⟨⟨⟨?_, ?_⟩, ?_⟩, ?_⟩, ?_⟩, ?_⟩, ?_⟩, ?_⟩
  · exact len_spec lower h
  · rw [iter_abs lower]; exact sameSet_of_perm (hc.map _)
  · rintro _ k _ rfl; exact lookup_spec lower h k
  · rintro _ lk _ rfl; exact getLower_spec lower h lk
  · rintro _ k _ rfl; exact contains_spec lower h k
  · rw [asLowerDict_abs lower h.inv]; exact sameSet_of_perm (hc.map _)
  · rw [asDict_abs lower]; exact sameSet_of_perm (hc.map _)
  · exact sameSet_of_perm ((cmap_perm lower h.inv).trans (hc.map _))

/-- The inherited `Mapping` API needs no separate argument: `items()` (hence `keys()`, `values()`,
    and `get`, which is `__getitem__` with a default) lists exactly the (spelling, value) pairs of
    `as_dict()`, which `obs_ok` relates to the abstract map; the derived mutators `pop`, `popitem`,
    `setdefault`, `update`, `clear` are sequences of `__getitem__`/`__setitem__`/`__delitem__`, i.e.
    histories covered by `c16_history`. -/
theorem mixin_items_spec {d : CIDict κ ν} {m : SMap κ ν} (h : Sim lower d m) :
    mixinItems lower d = asDict d :=
  mixinItems_eq_data lower h.inv

/-- hence: after **any** operation sequence the judge accepts the model's observation of every register -/
theorem c16_judge_accepts_model [DecidableEq ν] (ops : List (Op κ ν)) (hw : ∀ op ∈ ops, WF lower op)
    (probes : List κ) (r : Nat) :
    obsOk lower (ops.foldl (stepS lower) (fun _ => []) r)
      (observe lower probes (ops.foldl (stepM lower) (fun _ => CIDict.empty) r)) = true :=
  obs_ok lower (c16_history lower ops hw r) probes

/-- The most recent write wins and keeps its spelling, whatever happened before. -/
theorem last_write_wins (ops : List (Op κ ν)) (hw : ∀ op ∈ ops, WF lower op) (r : Nat) (k k' : κ) (v : ν)
    (e : lower k' = lower k) :
    let R := (ops ++ [Op.set r k v]).foldl (stepM lower) (fun _ => CIDict.empty)
    getitem lower (R r) k' = some v ∧ k ∈ iter (R r) := by
  intro R
  have hw' : ∀ op ∈ ops ++ [Op.set r k v], WF lower op := by
    intro op ho
    rcases List.mem_append.mp ho with ho | ho
    · exact hw op ho
    · simp only [List.mem_singleton] at ho; subst ho; trivial
  have hs := c16_history lower (ops ++ [Op.set r k v]) hw' r
  have hget : get? ((ops ++ [Op.set r k v]).foldl (stepS lower) (fun _ => []) r) (lower k) = some (k, v) := by
    simp [List.foldl_append, stepS, upd, SMap.write, get?_set_self]
  constructor
  · rw [lookup_spec lower hs]; unfold SMap.lookup; rw [e, hget]; rfl
  · have hp := (iter_spec lower hs).1
    exact hp.mem_iff.mpr (List.mem_map.mpr ⟨_, mem_of_get? hget, rfl⟩)

/-- non-vacuity: a concrete history with several spellings of one name (keys are numbers, the
    folded name of `k` is `k / 10 * 10`, so 11, 12, 13 are spellings of 10) reaches a state where
    the hypotheses hold and the conclusions are non-trivial -/
example :
    let lower : Nat → Nat := fun k => k / 10 * 10
    let ops : List (Op Nat Int) :=
      [.newDict 0 [(11, 1), (12, 2), (20, 3)], .set 0 10 5, .copy 1 0, .del 1 13,
       .combineLower 2 0 [(20, 9)]]
    let R := ops.foldl (stepM lower) (fun _ => CIDict.empty)
    (∀ op ∈ ops, WF lower op) ∧
    (len (R 0), getitem lower (R 0) 13, iter (R 0), len (R 1), getitem lower (R 2) 21)
      = (2, some 5, [20, 10], 1, some 9) := by
  refine ⟨?_, by decide⟩
  intro op ho
  simp only [List.mem_cons, List.not_mem_nil, or_false] at ho
  rcases ho with rfl | rfl | rfl | rfl | rfl <;> simp [WF]

end Upnp.C16
