/-
  C17 — HTTP requesters map every transport fault and retry within bounds.

  Property theorems only.  The model (`Upnp/Model/C17Ladder.lean`) interprets the tables that
  `tools/gen_c17.py` regenerates from `aiohttp.py` / `exceptions.py` on every run
  (`Upnp/Gen/C17Ladders.lean`); the finite facts about those tables are closed by `decide`, so a
  source change that alters a ladder, the retry count or the class hierarchy re-checks them.
  The lifting to ALL outcome scripts (any length) is by induction (`Upnp/Lemmas/C17.lean`).
  `resultOk` / `hostOk` are the very predicates the run-time judge evaluates on the implementation.
-/
import Upnp.Lemmas.C17
import Upnp.Lemmas.C17Host
import Upnp.Gen.C17Ladders
namespace Upnp.C17
open Upnp PyDict
open Upnp.Gen.C17 (tables)

variable {ρ : Type} [DecidableEq ρ]

/-- The finite part: for every class a session can raise, the plain ladder, the
    inner+retry ladder and the inner+final ladder answer acceptably (a library communication error;
    a connection error for timeouts / connection failures; status kept for response errors;
    silently retried only if connection-level), and `retries + 1 ≤ 3`. -/
theorem tables_good :
    plainGood tables = true ∧ retryGood tables = true ∧ finalGood tables = true
      ∧ tables.retries + 1 ≤ 3 := by decide

/-- **Main theorem.** For every requester, every outcome script of any length whose exceptions are
    of classes a session can raise (and which has an outcome for every attempt made), what the caller
    observes satisfies the property predicate `resultOk`: the response of the first successful
    exchange is returned, or a library communication error is raised (connection error for
    timeouts and connection failures, status preserved for response-level failures); at most three
    attempts; a request is repeated only after connection-level failures. -/
theorem c17_result_ok (session : Bool) (outs : List (Exch ρ)) (hw : WfScript tables outs)
    (hl : (if session then tables.retries else 0) < outs.length) :
    resultOk tables session outs (observe tables (request tables session outs)) = true := by
  obtain ⟨hp, hr, hf, hn⟩ := tables_good
  cases session with
  | true => simpa [request] using session_resultOk tables hr hf hn outs hw (by simpa using hl)
  | false => exact plain_resultOk tables hp outs hw (by simpa using hl)

/-- every statement the translator found inside the `if log_traffic:` blocks of both requesters is of the
    kind that cannot raise (a `debug(fmt, names / header join / x or "")` call) -/
theorem log_blocks_safe : logSafe tables = true := by decide

/-- **Traffic logging is observationally transparent**: with the `async_upnp_client.traffic.upnp` logger
    at DEBUG or not, for every requester, every outcome script and whatever the response bodies are
    (valid UTF-8 or not), result and number of attempts are the same as without the logging blocks. -/
theorem logging_transparent (session log log' : Bool) (utf8 : ρ → Bool) (outs : List (Exch ρ)) :
    requestL tables session log utf8 outs = requestL tables session log' utf8 outs
      ∧ requestL tables session log utf8 outs = request tables session outs := by
  rw [requestL_eq_request tables log_blocks_safe, requestL_eq_request tables log_blocks_safe]
  exact ⟨rfl, rfl⟩

/-- … hence the property predicate holds in every logging configuration -/
theorem c17_result_ok_logging (session log : Bool) (utf8 : ρ → Bool) (outs : List (Exch ρ))
    (hw : WfScript tables outs) (hl : (if session then tables.retries else 0) < outs.length) :
    resultOk tables session outs (observe tables (requestL tables session log utf8 outs)) = true := by
  rw [(logging_transparent session log log utf8 outs).2]
  exact c17_result_ok session outs hw hl

/-- what the model says about a logging block that is NOT safe (so that the theorem above is not vacuous):
    with a strict `resp_body.decode()` among the response-logging arguments, a successful exchange with a
    non-UTF-8 body becomes `UpnpCommunicationError` exactly when logging is on -/
example :
    let T : Tables := { tables with logInner := { pre := [.safe], post := [.decodeStrictBody] } }
    logSafe T = false
    ∧ requestL T true true (fun _ => false) [Exch.ok 7, .ok 8, .ok 9] = (.raised tables.cUpnpComm none, 1)
    ∧ requestL T true false (fun _ => false) [Exch.ok 7, .ok 8, .ok 9] = (.ret 7, 1)
    ∧ requestL T true true (fun _ => true) [Exch.ok 7, .ok 8, .ok 9] = (.ret 7, 1) := by
  decide

/-- non-vacuity of `c17_result_ok`: a concrete script (server disconnect, timeout, then HTTP 404 as
    `ClientResponseError`) is well-formed, long enough, makes the session requester use all three
    attempts and ends in a response error carrying the status. -/
example :
    let outs : List (Exch Nat) := [.exc 14 none, .exc 17 none, .exc 9 (some 404), .ok 7]
    WfScript tables outs ∧ tables.retries < outs.length
      ∧ request tables true outs = (.raised 21 (some 404), 3)
      ∧ request tables true [.exc 14 none, .ok 7, .ok 8] = (.ret 7, 2)
      ∧ request tables false outs = (.raised 23 none, 1) := by
  refine ⟨?_, by decide, by decide, by decide, by decide⟩
  intro c st h
  simp only [List.mem_cons, Exch.exc.injEq, List.not_mem_nil, or_false, reduceCtorEq] at h
  rcases h with ⟨rfl, _⟩ | ⟨rfl, _⟩ | ⟨rfl, _⟩ <;> decide

/-- `never_raw`: the result is the response of the first successful exchange (everything before it
    failed), or an exception whose class is a subclass of `UpnpCommunicationError` — never a raw
    transport exception, never a fall-through. -/
theorem never_raw (session : Bool) (outs : List (Exch ρ)) (hw : WfScript tables outs)
    (hl : (if session then tables.retries else 0) < outs.length) :
    match (request tables session outs).1 with
    | .ret r => ∃ i : Nat, outs[i]? = some (Exch.ok r) ∧ ∀ j : Nat, j < i → ∃ c st, outs[j]? = some (Exch.exc c st)
    | .raised k _ => subclass tables k tables.cUpnpComm = true
    | .swallowed => False := by
  have h := c17_result_ok session outs hw hl
  simp only [resultOk, observe, Bool.and_eq_true] at h
  obtain ⟨⟨⟨h1, _⟩, hall⟩, hlast⟩ := h
  cases hres : (request tables session outs).1 with
  | ret r =>
    simp only [hres] at hlast
    cases ho : outs[(request tables session outs).2 - 1]? with
    | none => simp [ho] at hlast
    | some last =>
      simp only [ho] at hlast
      cases last with
      | exc c st => simp [lastOk] at hlast
      | ok r' =>
        simp only [lastOk, beq_iff_eq] at hlast
        subst hlast
        refine ⟨_, ho, ?_⟩
        intro j hj
        have hjl : j < outs.length := by
          have := (List.getElem?_eq_some_iff.mp ho).1; omega
        have hm := (List.all_eq_true.mp hall) outs[j] (by
          rw [List.mem_take_iff_getElem]
          exact ⟨j, by omega, rfl⟩)
        cases hoj : outs[j] with
        | ok x => simp [hoj, connLevel] at hm
        | exc c st => exact ⟨c, st, by simp [List.getElem?_eq_getElem hjl, hoj]⟩
  | raised k st =>
    simp only [hres] at hlast
    cases ho : outs[(request tables session outs).2 - 1]? with
    | none => simp [ho] at hlast
    | some last =>
      simp only [ho] at hlast
      cases last with
      | ok r' => simp [lastOk] at hlast
      | exc c st' =>
        simp only [lastOk, Bool.and_eq_true] at hlast
        exact hlast.1.1
  | swallowed =>
    simp only [hres] at hlast
    cases ho : outs[(request tables session outs).2 - 1]? with
    | none => simp [ho] at hlast
    | some last => cases last <;> simp [ho, lastOk] at hlast

/-- `class_mapping` (table level, both requesters; for the session requester: an attempt that is
    not silently retried, and the third attempt): timeouts and every `ClientConnectionError`
    subclass ⇒ a subclass of `UpnpConnectionError`; every `ClientResponseError` subclass ⇒
    `UpnpClientResponseError` with the status kept; every other class a session can raise
    (other `ClientError`s, `UnicodeDecodeError`) ⇒ a subclass of `UpnpCommunicationError`. -/
theorem class_mapping :
    ∀ c ∈ tables.transport,
      mapsWell tables c (handle tables tables.plain c) = true
      ∧ mapsWell tables c (attemptH tables tables.final c) = true
      ∧ (attemptH tables tables.retry c = none ↔ isConnCls tables c = true)
      ∧ (isConnCls tables c = false → attemptH tables tables.retry c = attemptH tables tables.final c) := by
  decide

omit [DecidableEq ρ] in
/-- `attempts_bounded`: the session requester never makes more than three `session.request` calls
    and the plain requester exactly one at most — for EVERY script, no hypothesis. -/
theorem attempts_bounded (session : Bool) (outs : List (Exch ρ)) :
    (request tables session outs).2 ≤ maxAttempts session := by
  cases session with
  | true =>
    have := sessionLoop_attempts tables tables.retries outs 0
    have hn := tables_good.2.2.2
    simp only [request, sessionRequest, maxAttempts, if_true] at this ⊢
    omega
  | false => cases outs <;> simp [request, maxAttempts]

/-- … and attempt `i+1` is made only if attempt `i` ended in a connection-level failure. -/
theorem retry_only_after_connection_failure (outs : List (Exch ρ)) (hw : WfScript tables outs)
    (hl : tables.retries < outs.length) :
    ∀ o ∈ outs.take ((request tables true outs).2 - 1), connLevel tables o = true := by
  have h := c17_result_ok true outs hw (by simpa using hl)
  simp only [resultOk, observe, Bool.and_eq_true] at h
  exact List.all_eq_true.mp h.1.2

/-! ### every script length of the quantifier (1..4 and beyond), read as the harness reads it

The property quantifies over outcome sequences of length 1..4.  A session script shorter than the number of
attempts is read as "the last outcome persists" (what the harness' fake session does: it repeats the last
scripted outcome).  `pad outs o` is the script `outs` followed by its last outcome `o` three more times; for
it the length hypothesis of `c17_result_ok` holds by itself, so the theorems below have NO length
hypothesis: they cover every non-empty script literally. -/

/-- `outs ++ [o]` with `o` persisting -/
def pad (outs : List (Exch ρ)) (o : Exch ρ) : List (Exch ρ) := outs ++ o :: List.replicate 3 o

omit [DecidableEq ρ] in
theorem wf_pad (outs : List (Exch ρ)) (o : Exch ρ) (hw : WfScript tables (outs ++ [o])) :
    WfScript tables (pad outs o) := by
  intro c st hm
  apply hw c st
  simp only [pad, List.mem_append, List.mem_cons, List.mem_replicate] at hm
  simp only [List.mem_append, List.mem_singleton]
  rcases hm with h | h | ⟨_, h⟩
  · left; exact h
  · right; exact h
  · right; exact h

omit [DecidableEq ρ] in
theorem len_pad (session : Bool) (outs : List (Exch ρ)) (o : Exch ρ) :
    (if session then tables.retries else 0) < (pad outs o).length := by
  have := tables_good.2.2.2
  cases session <;> simp [pad] <;> omega

/-- **Main theorem without a length hypothesis**: for every requester and every non-empty script
    `outs ++ [o]` over the transport classes — of length 1, 2, 3, 4, … — the property predicate holds. -/
theorem c17_result_ok_all_lengths (session : Bool) (outs : List (Exch ρ)) (o : Exch ρ)
    (hw : WfScript tables (outs ++ [o])) :
    resultOk tables session (pad outs o) (observe tables (request tables session (pad outs o))) = true :=
  c17_result_ok session _ (wf_pad outs o hw) (len_pad session outs o)

theorem never_raw_all_lengths (session : Bool) (outs : List (Exch ρ)) (o : Exch ρ)
    (hw : WfScript tables (outs ++ [o])) :
    match (request tables session (pad outs o)).1 with
    | .ret r => ∃ i : Nat, (pad outs o)[i]? = some (Exch.ok r) ∧ ∀ j : Nat, j < i → ∃ c st, (pad outs o)[j]? = some (Exch.exc c st)
    | .raised k _ => subclass tables k tables.cUpnpComm = true
    | .swallowed => False :=
  never_raw session _ (wf_pad outs o hw) (len_pad session outs o)

theorem retry_only_after_connection_failure_all_lengths (outs : List (Exch ρ)) (o : Exch ρ)
    (hw : WfScript tables (outs ++ [o])) :
    ∀ x ∈ (pad outs o).take ((request tables true (pad outs o)).2 - 1), connLevel tables x = true :=
  retry_only_after_connection_failure _ (wf_pad outs o hw) (by simpa using len_pad true outs o)

/-- non-vacuity: scripts of length 1 and 2 for the session requester (which `c17_result_ok` does not reach) -/
example :
    request tables true (pad ([] : List (Exch Nat)) (.exc 14 none)) = (.raised 23 none, 3)
    ∧ request tables true (pad [Exch.exc 17 none] (.ok 5)) = (.ret 5, 2)
    ∧ WfScript tables ([Exch.exc 17 none] ++ [(.ok 5 : Exch Nat)]) := by
  refine ⟨by decide, by decide, ?_⟩
  intro c st h
  simp only [List.cons_append, List.nil_append, List.mem_cons, Exch.exc.injEq, reduceCtorEq, List.not_mem_nil,
    or_false] at h
  obtain ⟨rfl, _⟩ := h
  decide

/-! ### Host header -/

/-- `host_zone_stripped`: for EVERY URL of the grammar whose host carries a zone identifier
    (address and port free of `%`), and for ALL default and caller-supplied header maps — including
    callers that supply their own `Host` / `HOST` with the zone, as the library's SOAP and GENA code
    does — exactly one Host header is sent, it is the bracketed address (plus port), and it
    contains no `%`. Hence the judge `hostOk` holds. -/
theorem host_zone_stripped (u : Url) (own caller : Headers) (a d z : Str)
    (hu : u.host = .zoned a d z) (ha : '%' ∉ a) (hp : ∀ p, u.port = some p → '%' ∉ p) :
    ∃ v, fixedHost u = some v ∧ '%' ∉ v ∧ hostValues (requestHeaders u own caller) = [v]
      ∧ hostOk u (requestHeaders u own caller) = true := by
  have hla := percent_not_mem_lowerStr a ha
  have hv : ∃ v, fixedHost u = some v ∧ '%' ∉ v := by
    unfold fixedHost
    rw [hu]
    refine ⟨_, rfl, ?_⟩
    cases hpt : u.port with
    | none =>
      simp only
      split <;> simp [hla]
    | some p =>
      have := hp p hpt
      simp only
      split <;> simp [hla, this]
  obtain ⟨v, hf, hnv⟩ := hv
  have hk : hostName ∉ keys ((merge own caller).filter fun p => lowerStr p.1 ≠ hostKey) := by
    intro hm
    simp only [keys, List.mem_map, List.mem_filter, decide_eq_true_eq] at hm
    obtain ⟨p, ⟨_, hne⟩, he⟩ := hm
    apply hne; rw [he]; decide
  have hvals : hostValues (requestHeaders u own caller) = [v] := by
    simp only [requestHeaders, hf]
    rw [set_of_not_mem _ _ _ hk]
    simp only [hostValues, List.filter_append, List.filter_filter, List.map_append]
    have h1 : List.filter (fun p : Str × Str => (decide (lowerStr p.1 ≠ hostKey) && (lowerStr p.1 == hostKey)))
        (merge own caller) = [] := by
      apply List.filter_eq_nil_iff.mpr
      intro p _
      by_cases hh : lowerStr p.1 = hostKey <;> simp [hh]
    have h2 : lowerStr hostName = hostKey := by decide
    simp [h2]
  refine ⟨v, hf, hnv, hvals, ?_⟩
  simp [hostOk, hvals, hnv]

/-- **What is assumed of `urlparse`, made explicit.**  `fixedHostText` transcribes `_fixed_host_header`
    statement by statement at TEXT level (the `"%" not in url` shortcut, the falsy-hostname test,
    `hostname[:hostname.rindex("%")]`, the bracket rule, the port); `urlparseHostname` / `urlparsePort`
    (`Model/C17Ladder.lean`) state the only facts assumed of `urllib.parse.urlparse`: `.hostname` is the
    lower-cased host (bracket content, zone included), `.port` the port.  Under exactly these, for every
    well-formed URL of the grammar the text-level function equals the grammar-level `fixedHost` that
    `host_zone_stripped` is about.  The assumption itself is compared with the real `urlparse` on every
    harness case (driver line `parse`). -/
theorem fixed_host_text (u : Url) (hw : WfUrl u) :
    fixedHostText u.render (some (urlparseHostname u)) (urlparsePort u) = fixedHost u :=
  fixedHostText_eq u hw

/-- non-vacuity of `fixed_host_text` (both zone-delimiter spellings; a `%` in the path only) -/
example :
    fixedHostText "http://[FE80::1%25eth0]:8080/x".toList (some "fe80::1%25eth0".toList) (some "8080".toList)
      = some "[fe80::1]:8080".toList
    ∧ fixedHostText "http://[fe80::1%10]/desc".toList (some "fe80::1%10".toList) none = some "[fe80::1]".toList
    ∧ fixedHostText "http://[fe80::1]:8000/root%desc".toList (some "fe80::1".toList) (some "8000".toList) = none
    ∧ WfUrl { scheme := "http".toList, host := .zoned "FE80::1".toList "%25".toList "eth0".toList,
              port := some "8080".toList, path := "/x".toList } := by
  refine ⟨by decide, by decide, by decide, ?_⟩
  refine ⟨?_, by decide, by decide, by decide, "25".toList, rfl, by decide⟩
  intro p hp; simp only [Option.some.injEq] at hp; subst hp; decide

/-- **End to end, text level** (clause 8 in one statement): for every well-formed URL with a zone identifier and
    ALL default / caller header maps, (i) the text-level transcription of `_fixed_host_header` applied to the
    rendered URL yields exactly `[` lower-cased address `]` + `:port`, (ii) that is the ONE Host header in what
    `_request_headers` hands to `session.request`, and (iii) it contains no `%` and is not empty — whatever the
    zone, its delimiter spelling, and whatever `Host` / `HOST` the caller supplied. -/
theorem host_header_end_to_end (u : Url) (own caller : Headers) (a d z : Str)
    (hu : u.host = .zoned a d z) (hw : WfUrl u) :
    let v := ('[' :: lowerStr a ++ [']']) ++ (match u.port with | some p => ':' :: p | none => [])
    fixedHostText u.render (some (urlparseHostname u)) (urlparsePort u) = some v
      ∧ hostValues (requestHeaders u own caller) = [v] ∧ '%' ∉ v ∧ v ≠ [] := by
  have hw' := hw
  simp only [WfUrl, hu] at hw'
  obtain ⟨hport, ha, hcolon, _, _⟩ := hw'
  have hfix : fixedHost u = some (('[' :: lowerStr a ++ [']']) ++ (match u.port with | some p => ':' :: p | none => [])) := by
    unfold fixedHost
    rw [hu]
    simp only [contains_iff.mpr (colon_mem_lowerStr a hcolon), if_true]
    cases u.port <;> simp
  obtain ⟨v, h1, h2, h3, _⟩ := host_zone_stripped u own caller a d z hu ha
    (fun p hp => percent_not_mem_port p (hport p hp))
  rw [hfix] at h1
  cases h1
  exact ⟨by rw [fixed_host_text u hw, hfix], h3, h2, by simp⟩

/-- **"Repeating THE request"** (clause 7): the retry loop and the final attempt call `_async_http_request`
    with the same argument list `(method, url, headers, body)`, and both requesters hand exactly
    `method, url, headers=req_headers, data=body, timeout=self._timeout` to `session.request` — re-decided on the
    argument lists the translator extracts on every run (the translator also pins
    `req_headers = _request_headers(url, self._http_headers, headers)` and refuses any other statement before the try). -/
theorem request_identity :
    Gen.C17.retryCallArgs = Gen.C17.finalCallArgs
    ∧ Gen.C17.finalCallArgs = ["method".toList, "url".toList, "headers".toList, "body".toList]
    ∧ Gen.C17.plainRequestArgs = Gen.C17.innerRequestArgs
    ∧ Gen.C17.innerRequestArgs = ["method".toList, "url".toList, "headers=req_headers".toList, "data=body".toList,
        "timeout=self._timeout".toList] := by
  decide

/-- without a zone nothing is contributed: the headers are the plain merge `{**own, **caller}` -/
theorem host_untouched_without_zone (u : Url) (own caller : Headers) (h : hasZone u = false) :
    requestHeaders u own caller = merge own caller := by
  unfold requestHeaders fixedHost
  cases hh : u.host with
  | zoned a d z => simp [hasZone, hh] at h
  | plain s => rfl
  | ipv6 a => rfl

/-- non-vacuity of `host_zone_stripped`: `http://[FE80::1%25eth0]:8080/ctl` with the caller's own
    zone-carrying `HOST` header (what `event_handler.py` sends) and a default `host` header -/
example :
    let u : Url := { scheme := "http".toList, host := .zoned "FE80::1".toList "%25".toList "eth0".toList,
                     port := some "8080".toList, path := "/ctl%20x".toList }
    let own : Headers := [("host".toList, "x%y".toList), ("User-Agent".toList, "ua".toList)]
    let caller : Headers := [("HOST".toList, "[fe80::1%25eth0]:8080".toList), ("NT".toList, "upnp:event".toList)]
    requestHeaders u own caller =
      [("User-Agent".toList, "ua".toList), ("NT".toList, "upnp:event".toList), ("Host".toList, "[fe80::1]:8080".toList)]
    ∧ u.render = "http://[FE80::1%25eth0]:8080/ctl%20x".toList := by
  decide

end Upnp.C17
