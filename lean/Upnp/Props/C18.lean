/-
  C18 — the description cache fetches once, shares the result, and cannot deadlock.

  Property theorems only (invariants and their preservation are in `Upnp/Lemmas/C18*.lean`).
  The model (`Upnp/Model/C18Cache.lean`) runs `async_get_description_dict` / `uncache_description` on
  an event loop at the granularity of one ready handle per `step`; `run ops` is the observable trace
  (operations, events, scheduler snapshots) and `judge` (`Upnp/Spec/C18.lean`) is the monitor that
  is also evaluated on the implementation's trace at run time.  All theorems are for EVERY
  operation sequence: any number of lookups, locations, releases with any outcome, cancellations
  at any handle boundary, uncaches, in any interleaving.
-/
import Upnp.Lemmas.C18SafeStep
/-
  FULL-STRENGTH STATEMENT (not yet proved end to end):

      theorem c18_history (ops : List Op) : judge (run ops) = true

  i.e. the monitor accepts every item of every trace: scheduler snapshots (deadlock check), and the
  event checks `okRequest` (single flight / failure cached), `okReturn` (shared outcome),
  `okCancelled`, "never raised".  PROVED below, for all operation sequences: the snapshot part
  (`snapshots_ok`, from the liveness invariant `InvL`, with `no_deadlock`, `no_orphan_marker`) and the
  "never raised" part (`never_raises`).  MISSING: `okRequest` / `okReturn` / `okCancelled` for the events
  emitted inside `step`.  The safety invariant `InvS` they follow from is defined in
  `Lemmas/C18Safe.lean` and proved preserved by lookup / complete / cancel / uncache, by the store of a
  released outcome (`invS_store`) and by the end of a task incl. removal of its own marker (`invS_end`,
  `Lemmas/C18SafeStep.lean`); not yet done: the two remaining `lookupLoop` branches (wait on another
  marker, install a marker) and the assembly.  Until then single-flight / shared-outcome rest on the
  run-time monitor over the exhaustively enumerated schedules (see design/C18.md).
-/
namespace Upnp.C18
open Upnp St

/-- the liveness invariant holds in every reachable state -/
theorem reach_invL (ops : List Op) : InvL (finalState {} ops) := by
  suffices H : ∀ s, InvL s → InvL (finalState s ops) from H _ invL_init
  induction ops with
  | nil => intro s h; exact h
  | cons op rest ih => intro s h; exact ih _ (invL_apply s op h)

/-- `no_orphan_marker`: in every reachable state an in-flight marker in the cache belongs to a
    live lookup of that location which awaits its download, and that lookup is runnable or its
    download is still outstanding (so the marker's event will be set). -/
theorem no_orphan_marker (ops : List Op) (loc : Loc) (e : Nat)
    (h : PyDict.get? (finalState {} ops).cache loc = some (.marker e)) :
    ∃ t d, (finalState {} ops).pcOf t = some (.waitDl d e) ∧ (finalState {} ops).locOf t = loc
      ∧ (t ∈ (finalState {} ops).ready ∨ (finalState {} ops).outstanding d = true) := by
  have inv := reach_invL ops
  obtain ⟨t, d, h1, h2⟩ := inv.mark loc e h
  exact ⟨t, d, h1, h2, inv.lDl t d e h1⟩

/-- `no_deadlock`: in every reachable state, if nothing is runnable and no download is
    outstanding, then no lookup is unfinished — whatever was cancelled or uncached before. -/
theorem no_deadlock (ops : List Op) (hr : (finalState {} ops).ready = [])
    (ho : ∀ d, (finalState {} ops).outstanding d = false) :
    ∀ k ∈ (finalState {} ops).ts, k.pc = .done := by
  have hq := quiet_of_invL _ (reach_invL ops)
  have h0 : (finalState {} ops).outstandingCount = 0 := by
    unfold outstandingCount
    rw [List.length_eq_zero_iff, List.filter_eq_nil_iff]
    intro d _; simp [ho d]
  simp only [quietOk, hr, h0, List.length_nil, beq_self_eq_true, Bool.and_self, Bool.not_true, Bool.false_or,
    beq_iff_eq] at hq
  unfold pendingCount at hq
  rw [List.length_eq_zero_iff, List.filter_eq_nil_iff] at hq
  intro k hk
  have := hq k hk
  simpa using this

/-- every scheduler snapshot of every trace passes the monitor's deadlock check -/
theorem snapshots_ok (ops : List Op) :
    ∀ r o p, Item.snap r o p ∈ run ops → quietOk r o p = true := by
  suffices H : ∀ s, InvL s → ∀ r o p, Item.snap r o p ∈ runFrom s ops → quietOk r o p = true from H _ invL_init
  induction ops with
  | nil => intro s _ r o p hm; simp [runFrom] at hm
  | cons op rest ih =>
    intro s h r o p hm
    have h' := invL_apply s op h
    simp only [runFrom, List.cons_append, List.mem_cons, List.mem_append, List.mem_map, reduceCtorEq, false_or] at hm
    rcases hm with ⟨_, _, hx⟩ | hm | hm
    · cases hx
    · simp only [St.snap, Item.snap.injEq] at hm
      obtain ⟨rfl, rfl, rfl⟩ := hm
      exact quiet_of_invL _ h'
    · exact ih _ h' r o p hm

/-- `never_raises`: no lookup of the model ever ends by raising (no KeyError after an uncache race, no
    parser error): every event of every trace is a request, a return or a cancellation. -/
theorem never_raises (ops : List Op) (t : Nat) : Item.ev (.raised t) ∉ run ops := by
  have hl : ∀ (s : St) (t' : Nat) (loc : Loc), Ev.raised t ∉ (s.lookupLoop t' loc).2 := by
    intro s t' loc
    unfold lookupLoop
    split <;> simp
  have hstep : ∀ (s : St) (op : Op), Ev.raised t ∉ (s.apply op).2 := by
    intro s op
    cases op with
    | lookup loc => simp [apply]
    | complete d v => simp only [apply]; split <;> simp
    | uncache loc => simp [apply]
    | cancel t' =>
      simp only [apply]
      cases s.ts[t']? with
      | none => simp
      | some k =>
        simp only []
        split
        · simp
        · cases k.pc <;> simp only [] <;> (try split) <;> simp
    | step =>
      simp only [apply, stepHead]
      split
      · simp
      · split
        · simp
        · split
          · simp
          · rename_i _ _ k _ _
            unfold stepTask
            simp only []
            split
            · cases k.pc <;> simp
            · cases hpc : k.pc with
              | done => simp
              | init => exact hl _ _ _
              | waitEvt e => exact hl _ _ _
              | waitDl d e =>
                simp only []
                split
                · simp
                · exact hl _ _ _
  suffices H : ∀ s, Item.ev (.raised t) ∉ runFrom s ops from H _
  induction ops with
  | nil => intro s; simp [runFrom]
  | cons op rest ih =>
    intro s hm
    simp only [runFrom, List.cons_append, List.mem_cons, List.mem_append, List.mem_map, reduceCtorEq, false_or,
      Item.ev.injEq] at hm
    rcases hm with ⟨ev, h1, h2⟩ | hm | hm
    · subst h2; exact hstep s op h1
    · simp [St.snap] at hm
    · exact ih _ hm

/-- F18a's witness on the model: lookup A, lookup B, cancel A — B re-fetches, later lookups share B's
    outcome, every lookup ends; the whole trace is accepted by the judge (non-vacuity of the
    theorems above: the trace contains a cancellation of the marker's owner, a re-fetch, a waiter) -/
theorem witness_F18a_ok :
    judge (run [.lookup 0, .lookup 0, .step, .step, .cancel 0, .step, .step, .complete 1 (some 7), .step,
                .lookup 0, .step]) = true := by decide

end Upnp.C18
