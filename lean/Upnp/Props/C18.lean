/-
  C18 — the description cache fetches once, shares the result, and cannot deadlock.

  Property theorems only (invariants and their preservation are in `Upnp/Lemmas/C18*.lean`).
  The model (`Upnp/Model/C18Cache.lean`) runs `async_get_description_dict` / `uncache_description` on
  an event loop at the granularity of one ready handle per `step`; `run ops` is the observable trace
  (operations, events, scheduler snapshots) and `judge` (`Upnp/Spec/C18.lean`) is the monitor that
  is also evaluated on the implementation's trace at run time.  All theorems are for EVERY
  operation sequence: any number of lookups, locations, releases with any outcome, cancellations
  at any handle boundary, uncaches, in any interleaving.
-/
import Upnp.Lemmas.C18History
import Upnp.Lemmas.C18Etree
import Upnp.Lemmas.C18JudgeSound
namespace Upnp.C18
open Upnp St

/-- the liveness invariant holds in every reachable state -/
theorem reach_invL (ops : List Op) : InvL (finalState {} ops) := by
  suffices H : ∀ s, InvL s → InvL (finalState s ops) from H _ invL_init
  induction ops with
  | nil => intro s h; exact h
  | cons op rest ih => intro s h; exact ih _ (invL_apply s op h)

/-- `no_orphan_marker`: in every reachable state an in-flight marker in the cache belongs to a
    live lookup of that location which awaits its download, and that lookup is runnable or its
    download is still outstanding (so the marker's event will be set). -/
theorem no_orphan_marker (ops : List Op) (loc : Loc) (e : Nat)
    (h : PyDict.get? (finalState {} ops).cache loc = some (.marker e)) :
    ∃ t d, (finalState {} ops).pcOf t = some (.waitDl d e) ∧ (finalState {} ops).locOf t = loc
      ∧ (t ∈ (finalState {} ops).ready ∨ (finalState {} ops).outstanding d = true) := by
  have inv := reach_invL ops
  obtain ⟨t, d, h1, h2⟩ := inv.mark loc e h
  exact ⟨t, d, h1, h2, inv.lDl t d e h1⟩

/-- `no_deadlock`: in every reachable state, if nothing is runnable and no download is
    outstanding, then no lookup is unfinished — whatever was cancelled or uncached before. -/
theorem no_deadlock (ops : List Op) (hr : (finalState {} ops).ready = [])
    (ho : ∀ d, (finalState {} ops).outstanding d = false) :
    ∀ k ∈ (finalState {} ops).ts, k.pc = .done := by
  have hq := quiet_of_invL _ (reach_invL ops)
  have h0 : (finalState {} ops).outstandingCount = 0 := by
    unfold outstandingCount
    rw [List.length_eq_zero_iff, List.filter_eq_nil_iff]
    intro d _; simp [ho d]
  simp only [quietOk, hr, h0, List.length_nil, beq_self_eq_true, Bool.and_self, Bool.not_true, Bool.false_or,
    beq_iff_eq] at hq
  unfold pendingCount at hq
  rw [List.length_eq_zero_iff, List.filter_eq_nil_iff] at hq
  intro k hk
  have := hq k hk
  simpa using this

/-- non-vacuity of `no_deadlock`: its hypotheses (nothing runnable, nothing outstanding) are reached after a
    cancellation of the marker's owner with a waiter pending, and then indeed all three lookups have finished -/
example :
    let s := finalState {} [.lookup 0, .lookup 0, .step, .step, .cancel 0, .step, .step, .complete 1 none, .step,
                            .lookup 0, .step]
    s.ready = [] ∧ s.outstandingCount = 0 ∧ s.ts.length = 3 ∧ s.ts.all (fun k => k.pc == .done) = true
      ∧ s.mon.dls.length = 2 := by
  decide

/-- every scheduler snapshot of every trace passes the monitor's deadlock check -/
theorem snapshots_ok (ops : List Op) :
    ∀ r o p, Item.snap r o p ∈ run ops → quietOk r o p = true := by
  suffices H : ∀ s, InvL s → ∀ r o p, Item.snap r o p ∈ runFrom s ops → quietOk r o p = true from H _ invL_init
  induction ops with
  | nil => intro s _ r o p hm; simp [runFrom] at hm
  | cons op rest ih =>
    intro s h r o p hm
    have h' := invL_apply s op h
    simp only [runFrom, List.cons_append, List.mem_cons, List.mem_append, List.mem_map, reduceCtorEq, false_or] at hm
    rcases hm with ⟨_, _, hx⟩ | hm | hm
    · cases hx
    · simp only [St.snap, Item.snap.injEq] at hm
      obtain ⟨rfl, rfl, rfl⟩ := hm
      exact quiet_of_invL _ h'
    · exact ih _ h' r o p hm

/-- `never_raises`: no lookup of the model ever ends by raising (no KeyError after an uncache race, no
    parser error): every event of every trace is a request, a return or a cancellation. -/
theorem never_raises (ops : List Op) (t : Nat) : Item.ev (.raised t) ∉ run ops := by
  have hl : ∀ (s : St) (t' : Nat) (loc : Loc), Ev.raised t ∉ (s.lookupLoop t' loc).2 := by
    intro s t' loc
    unfold lookupLoop
    split <;> simp
  have hstep : ∀ (s : St) (op : Op), Ev.raised t ∉ (s.apply op).2 := by
    intro s op
    cases op with
    | lookup loc => simp [apply]
    | complete d v => simp only [apply]; split <;> simp
    | uncache loc => simp [apply]
    | cancel t' =>
      simp only [apply]
      cases s.ts[t']? with
      | none => simp
      | some k =>
        simp only []
        split
        · simp
        · cases k.pc <;> simp only [] <;> (try split) <;> simp
    | step =>
      simp only [apply, stepHead]
      split
      · simp
      · split
        · simp
        · split
          · simp
          · rename_i _ _ k _ _
            unfold stepTask
            simp only []
            split
            · cases k.pc <;> simp
            · cases hpc : k.pc with
              | done => simp
              | init => exact hl _ _ _
              | waitEvt e => exact hl _ _ _
              | waitDl d e =>
                simp only []
                split
                · simp
                · exact hl _ _ _
  suffices H : ∀ s, Item.ev (.raised t) ∉ runFrom s ops from H _
  induction ops with
  | nil => intro s; simp [runFrom]
  | cons op rest ih =>
    intro s hm
    simp only [runFrom, List.cons_append, List.mem_cons, List.mem_append, List.mem_map, reduceCtorEq, false_or,
      Item.ev.injEq] at hm
    rcases hm with ⟨ev, h1, h2⟩ | hm | hm
    · subst h2; exact hstep s op h1
    · simp [St.snap] at hm
    · exact ih _ hm

/-- **Main theorem** (`c18_history`): the run-time monitor/judge accepts the trace of EVERY operation
    sequence of the model — every request passes `okRequest` (single flight, failure cached), every return
    passes `okReturn` (shared outcome, also for waiters resumed after an uncache), every cancellation passes
    `okCancelled`, nothing raises, every scheduler snapshot passes the deadlock check.  `judge` is the very
    function the driver evaluates on the implementation's trace. -/
theorem c18_history (ops : List Op) : judge (run ops) = true :=
  feedAll_runFrom ops {} invS_init invL_init

/-- every event of every trace was checked against the monitor state reached by the prefix before it -/
theorem event_checked (ops : List Op) (pre post : List Item) (e : Ev) (h : run ops = pre ++ Item.ev e :: post) :
    ∃ m, feedAll {} pre = some m ∧ m.checkEv e = true := by
  have hj := c18_history ops
  unfold judge at hj
  rw [h, feedAll_append] at hj
  cases hm : feedAll {} pre with
  | none => rw [hm] at hj; simp at hj
  | some m =>
    refine ⟨m, rfl, ?_⟩
    rw [hm] at hj
    simp only [Option.bind_some, feedAll, feed] at hj
    by_cases hc : m.checkEv e = true
    · exact hc
    · simp [hc] at hj

/-- `single_flight` (monitor clause `okRequest`): whenever a request for `loc` reaches the requester, every
    earlier download of `loc` requested since `loc` was last uncached had been abandoned by cancellation
    of its lookup — no matter how many lookups overlap. -/
theorem single_flight (ops : List Op) (pre post : List Item) (t : Nat) (loc : Loc)
    (h : run ops = pre ++ Item.ev (.requested t loc) :: post) :
    ∃ m, feedAll {} pre = some m ∧ m.okRequest t loc = true :=
  event_checked ops pre post _ h

/-- `failure_cached`: while a download of `loc` exists that certainly belongs to the current uncache-epoch
    (requested in it, no lookup from before the uncache was unfinished then) and whose lookup was not cancelled
    — in particular one that failed and was answered with absence — no new request for `loc` is issued. -/
theorem failure_cached (ops : List Op) (pre post : List Item) (t : Nat) (loc : Loc)
    (h : run ops = pre ++ Item.ev (.requested t loc) :: post) :
    ∃ m, feedAll {} pre = some m ∧
      ∀ d ∈ m.dls, d.loc = loc → d.epoch = m.epochOf loc → d.minEpoch = d.epoch →
        m.statusOf d.owner = some .cancelled := by
  obtain ⟨m, h1, h2⟩ := single_flight ops pre post t loc h
  refine ⟨m, h1, ?_⟩
  intro d hd hl he hmin
  simp only [Mon.okRequest, Bool.and_eq_true, List.all_eq_true] at h2
  have := h2.2 d hd
  simpa [hl, he, hmin] using this

/-- `shared_outcome` / `uncache_race` (monitor clause `okReturn`): whatever a lookup returns is the released
    outcome of a download of its location, requested after the lookup was created or in the uncache-epoch the
    lookup was created in — also for waiters resumed after an uncache (they re-fetch; they never raise,
    `never_raises`). -/
theorem shared_outcome (ops : List Op) (pre post : List Item) (t : Nat) (v : Out)
    (h : run ops = pre ++ Item.ev (.returned t v) :: post) :
    ∃ m, feedAll {} pre = some m ∧ m.okReturn t v = true :=
  event_checked ops pre post _ h

/-- a lookup ends cancelled only if `cancel` was called on it (monitor clause `okCancelled`) -/
theorem cancelled_only_if_requested (ops : List Op) (pre post : List Item) (t : Nat)
    (h : run ops = pre ++ Item.ev (.cancelled t) :: post) :
    ∃ m, feedAll {} pre = some m ∧ m.okCancelled t = true :=
  event_checked ops pre post _ h

/-- non-vacuity: overlapping lookups A, B of one location share ONE failed download (both get absence), a
    third lookup C is served from the cache without a request, `uncache`, then lookup D fetches anew and gets
    the new outcome; the judge accepts the trace and the trace really contains those events. -/
example :
    let ops : List Op := [.lookup 0, .lookup 0, .step, .step, .complete 0 none, .step, .step, .lookup 0, .step,
                          .uncache 0, .lookup 0, .step, .complete 1 (some 5), .step]
    judge (run ops) = true
    ∧ Item.ev (.requested 0 0) ∈ run ops ∧ Item.ev (.returned 0 none) ∈ run ops
    ∧ Item.ev (.returned 1 none) ∈ run ops ∧ Item.ev (.returned 2 none) ∈ run ops
    ∧ Item.ev (.requested 1 0) ∉ run ops ∧ Item.ev (.requested 2 0) ∉ run ops
    ∧ Item.ev (.requested 3 0) ∈ run ops ∧ Item.ev (.returned 3 (some 5)) ∈ run ops := by
  decide

/-- `uncache_race` witnesses on the model (the F18b and F18c schedules): (1) A downloads, B waits, the
    response is released, A resumes and returns, `uncache` runs BEFORE B resumes — B re-fetches (a second
    request, by B) instead of raising; (2) A downloads, `uncache`, B starts a new download, A's pre-uncache
    response is released — A does not store it, waits for B's download, and a later lookup C gets B's outcome. -/
example :
    let f18b : List Op := [.lookup 0, .lookup 0, .step, .step, .complete 0 (some 1), .step, .uncache 0, .step,
                           .complete 1 (some 2), .step]
    let f18c : List Op := [.lookup 0, .step, .uncache 0, .lookup 0, .step, .complete 0 (some 1), .step,
                           .lookup 0, .step, .complete 1 (some 2), .step, .step, .step]
    judge (run f18b) = true ∧ Item.ev (.returned 0 (some 1)) ∈ run f18b ∧ Item.ev (.requested 1 0) ∈ run f18b
      ∧ Item.ev (.returned 1 (some 2)) ∈ run f18b
    ∧ judge (run f18c) = true ∧ Item.ev (.returned 0 (some 2)) ∈ run f18c ∧ Item.ev (.returned 1 (some 2)) ∈ run f18c
      ∧ Item.ev (.returned 2 (some 2)) ∈ run f18c ∧ Item.ev (.returned 2 (some 1)) ∉ run f18c := by
  decide

/-- F18a's witness on the model: lookup A, lookup B, cancel A — B re-fetches, later lookups share B's
    outcome, every lookup ends; the whole trace is accepted by the judge (non-vacuity of the
    theorems above: the trace contains a cancellation of the marker's owner, a re-fetch, a waiter) -/
theorem witness_F18a_ok :
    judge (run [.lookup 0, .lookup 0, .step, .step, .cancel 0, .step, .step, .complete 1 (some 7), .step,
                .lookup 0, .step]) = true := by decide

/-! ### what the judge's verdict MEANS (declarative statements that follow from `judge … = true`) -/

/-- **Judge soundness, quiet case** (clauses 1–4a in first-order form, for model AND implementation traces): if the
    monitor accepts a trace without cancellation and without uncache, then at most ONE request per location
    reached the requester — however many lookups overlapped or came later, whether the download succeeded or
    failed — and all lookups of one location that returned, returned the SAME value: the released outcome of
    that single download. -/
theorem judge_sound_quiet (items : List Item) (h : judge items = true) (hq : ∀ i ∈ items, i.isQuiet = true) :
    ∃ m, feedAll {} items = some m
      ∧ (∀ loc, reqCount loc items ≤ 1)
      ∧ (∀ k1 ∈ m.tasks, ∀ k2 ∈ m.tasks, ∀ v1 v2, k1.loc = k2.loc → k1.status = .returned v1 →
          k2.status = .returned v2 → v1 = v2)
      ∧ (∀ k ∈ m.tasks, ∀ v, k.status = .returned v → ∃ d ∈ m.dls, d.loc = k.loc ∧ d.outcome = some v) :=
  judge_single_download items h hq

theorem run_quiet (ops : List Op) (hq : ∀ o ∈ ops, (Item.op o).isQuiet = true) :
    ∀ i ∈ run ops, i.isQuiet = true := by
  suffices H : ∀ s, ∀ i ∈ runFrom s ops, i.isQuiet = true from H _
  induction ops with
  | nil => intro s i hi; simp [runFrom] at hi
  | cons op rest ih =>
    intro s i hi
    simp only [runFrom, List.cons_append, List.mem_cons, List.mem_append, List.mem_map] at hi
    rcases hi with rfl | ⟨ev, _, rfl⟩ | rfl | hi
    · exact hq op (by simp)
    · rfl
    · rfl
    · exact ih (fun o ho => hq o (by simp [ho])) _ i hi

/-- … and on the model, for EVERY operation sequence without cancel / uncache (any number of overlapping and later
    lookups of any locations, any release order, any outcomes): one request per location, one shared value. -/
theorem model_single_download (ops : List Op) (hq : ∀ o ∈ ops, (Item.op o).isQuiet = true) :
    ∃ m, feedAll {} (run ops) = some m
      ∧ (∀ loc, reqCount loc (run ops) ≤ 1)
      ∧ (∀ k1 ∈ m.tasks, ∀ k2 ∈ m.tasks, ∀ v1 v2, k1.loc = k2.loc → k1.status = .returned v1 →
          k2.status = .returned v2 → v1 = v2) := by
  obtain ⟨m, h1, h2, h3, _⟩ := judge_sound_quiet (run ops) (c18_history ops) (run_quiet ops hq)
  exact ⟨m, h1, h2, h3⟩

/-- non-vacuity: three overlapping lookups and a later one of location 0, one of location 1, a failed download:
    exactly one request per location in the trace, and the judge's hypothesis is satisfiable -/
example :
    let ops : List Op := [.lookup 0, .lookup 0, .lookup 1, .step, .step, .lookup 0, .step, .step, .complete 0 none,
                          .step, .step, .step, .complete 1 (some 4), .step, .lookup 0, .step]
    (∀ o ∈ ops, (Item.op o).isQuiet = true) ∧ reqCount 0 (run ops) = 1 ∧ reqCount 1 (run ops) = 1
      ∧ Item.ev (.returned 4 none) ∈ run ops ∧ Item.ev (.returned 2 (some 4)) ∈ run ops := by
  decide

/-! ### the XML-tree → dictionary conversion (`utils.etree_to_dict`, `_description_xml_to_dict`) -/

/-- `etree_total` + characterisation: on EVERY element tree (any depth, mixed content, attributes,
    repeated sibling tags, namespaces, empty elements) the statement-by-statement transcription of
    `etree_to_dict` — with `dict_meta` possibly `None` and both `assert dict_meta is not None` —
    never hits an assert and returns exactly `etreeSpec t`: a leaf without attributes is its stripped text
    (or `None` when `.text` is falsy); every other element is a dict of its children grouped by local
    name in first-occurrence order (single ⇒ the value, repeated ⇒ a list), then `@attr` entries, then
    `#text` if the stripped text is non-empty. -/
theorem etree_characterised (t : Elem) : etreePy t = some (etreeSpec t) := etreePy_eq t

theorem etree_total (t : Elem) : (etreePy t).isSome = true := by rw [etreePy_eq]; rfl

/-- hence the conversion of a fetched description never raises: a lookup's outcome is a dictionary
    (value) or absence, and a failed conversion can never escape a lookup as an AssertionError -/
theorem description_never_asserts (t : Elem) : (descriptionOf t).isSome = true := by
  unfold descriptionOf
  rw [etreePy_eq]
  simp only []
  split
  · split <;> rfl
  · rfl

/-- non-vacuity: the tree on which a stale `dict_meta` asserts — an attribute-less `<device>` with
    non-whitespace text BEFORE its children, a repeated sibling tag, an attribute, an empty element -/
example :
    let icon1 := Elem.mk "{urn:x}icon".toList [("a".toList, "1".toList)] (some "t".toList) []
    let icon2 := Elem.mk "{urn:x}icon".toList [] none []
    let dev := Elem.mk "{urn:x}device".toList [] (some " mixed ".toList)
                 [.mk "{urn:x}UDN".toList [] (some "uuid:x".toList) [], icon1, icon2]
    ∃ d l, etreePy dev = some ("device".toList, .dict d) ∧ d.map (·.1) = ["UDN".toList, "icon".toList, "#text".toList]
      ∧ PyDict.get? d "icon".toList = some (.list l) ∧ l.length = 2 := by
  refine ⟨_, _, rfl, by decide, rfl, rfl⟩

end Upnp.C18
