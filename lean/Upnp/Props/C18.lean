/-
  C18 — the description cache fetches once, shares the result, and cannot deadlock.
  Property theorems only.
-/
import Upnp.Model.C18Cache
namespace Upnp.C18

/-- F18a's witness on the model: lookup A, lookup B, cancel A — B re-fetches and every lookup ends -/
theorem witness_F18a_ok :
    judge (run [.lookup 0, .lookup 0, .step, .step, .cancel 0, .step, .step, .complete 1 (some 7), .step,
                .lookup 0, .step]) = true := by decide

end Upnp.C18
