/-
  C19 — DLNA LastChange events expand to exactly instance 0's master-channel variables.

  Property theorems only (helper lemmas: `Upnp/Lemmas/C19.lean`).  The model
  (`Upnp/Model/C19LastChange.lean`) transcribes `DlnaDmrEventContentHandler` (as a fold over the
  SAX events, its one raising primitive — indexing `self.changes[current_instance]` — explicit),
  `dlna_handle_notify_last_change` and the string-typed part of `notify_changed_state_variables`;
  `step`/`run`/`expand` are the functions the correspondence driver runs on the SAX events the
  real parser delivered.  The judge `C19.ok` (`Upnp/Spec/C19.lean`) is the one the driver
  evaluates on the implementation.

  Outside the proof (sampled by the mutation stream): text → SAX events (expat, defusedxml),
  i.e. "never raises on any DTD-free *text*"; here: never raises on any *event list*.
-/
import Upnp.Lemmas.C19
namespace Upnp.C19
open Upnp PyDict

/-- **The content handler never raises**, on every list of SAX events — well nested or not, any
    names, any attributes (this is all a broken document can make the parser deliver). -/
theorem handler_total (evs : List Sax) : ∃ st, run evs = .ok st := runFrom_ok evs {}

/-- … from any state too (a handler re-used in the middle of a stream) -/
theorem handler_total_from (st : HSt) (evs : List Sax) : ∃ st', runFrom st evs = .ok st' :=
  runFrom_ok evs st

/-- **Expansion never raises** on the model, whatever was delivered and whatever the service holds. -/
theorem expand_total (vars : PyDict S S) (emptyValue : Bool) (evs : List Sax) :
    ∃ r, expand vars emptyValue evs = .ok r := by
  unfold expand
  cases emptyValue with
  | true => exact ⟨_, rfl⟩
  | false =>
    obtain ⟨st, hst⟩ := handler_total evs
    simp only [Bool.false_eq_true, if_false, hst]
    cases get? st.changes sZero <;> exact ⟨_, rfl⟩

/-- The handler on **any** well-formed rendered document, loose entries included: what it holds for
    instance `"0"` are the master entries of the loose entries (those directly under `Event`, which
    the code counts for instance 0 — its "safety" fallback) followed by those of the id-0 instances. -/
theorem instance0_general (d : LcDoc) (hw : WF d) :
    ∃ st, run (events d) = .ok st
      ∧ get? st.changes sZero =
        (let es := d.loose ++ entries0 d
         if es.isEmpty then none else some (ofList ((es.filter isMaster).map fun e => (e.name, e.val)))) := by
  refine ⟨_, run_events d hw, ?_⟩
  simp only
  rw [get?_insts]
  have hl : get? (d.loose.foldl (applyEntry sZero) []) sZero = d.loose.foldl upd none := by
    have := get?_applyInst ⟨sZero, d.loose, none⟩ sZero []
    simpa [applyInst] using this
  rw [hl, ← List.foldl_append, foldl_upd_none]
  rfl

/-- **Instance 0, master channel, prefixes ignored.**  For every well-formed abstract document **without loose entries** (`hl`: every entry is a child
    of an `InstanceID` element, as in every document of the property's quantifier; see
    `instance0_general` and the example below for what the code does otherwise) —
    any number of instances (ids repeated or not), any number of entries, any prefixes, channels
    and values — the handler's mapping for instance `"0"` after the rendered event stream is
    exactly: the entries of the instances with id 0 that have no channel or channel `Master`, keyed
    by local name, the last one winning; and there is no mapping for `"0"` iff those instances have
    no entry at all.  Other instances and other channels do not occur in the right-hand side. -/
theorem instance0_master (d : LcDoc) (hw : WF d) (hl : d.loose = []) :
    ∃ st, run (events d) = .ok st
      ∧ get? st.changes sZero = (if (entries0 d).isEmpty then none else some (master0 d)) := by
  obtain ⟨st, hst, hg⟩ := instance0_general d hw
  refine ⟨st, hst, ?_⟩
  rw [hg]
  simp only [hl, List.nil_append]
  rfl

/-- the same for any instance id `k`: what the mapping holds for `k` is determined by the entries
    of the instances with id `k` alone -/
theorem instance_k (d : LcDoc) (hw : WF d) (hl : d.loose = []) (k : S) :
    ∃ st, run (events d) = .ok st
      ∧ get? st.changes k =
        (let es := (d.insts.filter (·.id == k)).flatMap (·.entries)
         if es.isEmpty then none else some (ofList ((es.filter isMaster).map fun e => (e.name, e.val)))) := by
  refine ⟨_, run_events d hw, ?_⟩
  simp only [hl, List.foldl_nil]
  rw [get?_insts]
  have h0 : ∀ k, get? ([] : PyDict S (PyDict S S)) k = none := fun _ => rfl
  rw [h0, foldl_upd_none]

/-- **The expansion's effect**: with instance-0 entries present, the service's variables named
    by the master entries take the given values and exactly one further callback carries exactly
    those variables (in document order of first mention); without any instance-0 entry nothing
    changes and no callback fires. -/
theorem expand_effect (vars : PyDict S S) (d : LcDoc) (hw : WF d) (hl : d.loose = []) :
    expand vars false (events d) = .ok
      (if (entries0 d).isEmpty then (vars, [])
       else (applyAll vars (relevant vars (master0 d)), [(relevant vars (master0 d)).map (·.1)])) := by
  obtain ⟨st, hst, hget⟩ := instance0_master d hw hl
  unfold expand
  simp only [Bool.false_eq_true, if_false, hst, hget]
  by_cases he : (entries0 d).isEmpty = true
  · simp only [he, if_true]
  · simp only [he, Bool.false_eq_true, if_false, notifyChanged_eq]

/-- an empty value changes nothing -/
theorem expand_empty (vars : PyDict S S) (evs : List Sax) : expand vars true evs = .ok (vars, []) := rfl

/-- **The judge holds on the model** for every well-formed document and every service. -/
theorem ok_model (vars : PyDict S S) (d : LcDoc) (hw : WF d) (hl : d.loose = []) :
    ok vars (some d) (observe vars (expand vars false (events d))) = true := by
  rw [expand_effect vars d hw hl]
  by_cases he : (entries0 d).isEmpty = true
  · have hm : master0 d = [] := by
      have : entries0 d = [] := List.isEmpty_iff.mp he
      simp [master0, this, ofList, merge]
    simp [he, ok, observe, hm, relevant, applyAll]
  · simp [he, ok, observe, sameNames_self]

theorem ok_model_empty (vars : PyDict S S) (evs : List Sax) :
    ok vars none (observe vars (expand vars true evs)) = true := by
  simp [expand_empty, ok, observe, applyAll]

/-! ### what the judge means (soundness of `ok`, independent of the model) -/

/-- **Judge soundness, first-order form.**  Whatever produced the observation `o` (the model or the
    implementation): if `ok` accepts it for the well-formed event `d`, then nothing was raised, no
    other service was touched, and
    * every service variable holds the value of the last master-channel entry of instance 0 naming
      it (prefix ignored) if there is one, else its old value; nothing else appears;
    * there is at most one further callback, and it carries exactly the service variables named by
      those entries (none, or an empty one, if there are none);
    * an event without any instance-0 entry leaves all values as they were, with no callback that
      carries a variable. -/
theorem ok_sound (vars : PyDict S S) (d : LcDoc) (o : Obs) (h : ok vars (some d) o = true) :
    o.raised = false ∧ o.othersUnchanged = true
    ∧ (∀ n, get? o.after n = match get? vars n with
        | none => none
        | some old => some ((get? (master0 d) n).getD old))
    ∧ (o.callbacks = [] ∧ relevant vars (master0 d) = []
        ∨ ∃ c, o.callbacks = [c] ∧ sameNames c ((relevant vars (master0 d)).map (·.1)) = true)
    ∧ ((entries0 d).isEmpty = true → o.after = vars ∧ (o.callbacks = [] ∨ o.callbacks = [[]])) := by
  simp only [ok, Bool.and_eq_true, Bool.not_eq_true', beq_iff_eq] at h
  obtain ⟨⟨⟨hr, ho⟩, ha⟩, hc⟩ := h
  have hcb : o.callbacks = [] ∧ relevant vars (master0 d) = []
      ∨ ∃ c, o.callbacks = [c] ∧ sameNames c ((relevant vars (master0 d)).map (·.1)) = true := by
    cases hcs : o.callbacks with
    | nil => left; simp only [hcs] at hc; exact ⟨rfl, List.isEmpty_iff.mp hc⟩
    | cons c r =>
      cases r with
      | nil => right; simp only [hcs] at hc; exact ⟨c, rfl, hc⟩
      | cons _ _ => simp [hcs] at hc
  refine ⟨hr, ho, ?_, hcb, ?_⟩
  · intro n; rw [ha]; exact get?_expected vars d n
  · intro he
    have hm : master0 d = [] := by
      have : entries0 d = [] := List.isEmpty_iff.mp he
      simp [master0, this, ofList, merge]
    have hrel : relevant vars (master0 d) = [] := by simp [hm, relevant]
    refine ⟨by rw [ha, hrel]; rfl, ?_⟩
    rcases hcb with ⟨h1, _⟩ | ⟨c, h1, h2⟩
    · exact Or.inl h1
    · right
      rw [h1]
      simp only [hrel, List.map_nil, sameNames, Bool.and_eq_true, beq_iff_eq] at h2
      have : c = [] := List.eq_nil_of_length_eq_zero (by simpa using h2.1.1)
      rw [this]

/-- **Other instances are ignored** — as a statement about the specification itself: the expected
    assignments do not change when every instance whose id is not `"0"` is deleted from the event. -/
theorem master0_other_instances (d : LcDoc) :
    master0 d = master0 { d with insts := d.insts.filter (·.id == sZero) } := by
  simp [master0, entries0, List.filter_filter]

/-- **Other channels are ignored**: the expected assignments do not change when every entry with a
    channel other than `Master` is deleted from every instance. -/
theorem master0_other_channels (d : LcDoc) :
    master0 d = master0 { d with insts := d.insts.map fun i => { i with entries := i.entries.filter isMaster } } := by
  simp only [master0, entries0]
  congr 2
  induction d.insts with
  | nil => rfl
  | cons i r ih =>
    by_cases hi : (i.id == sZero) = true
    · simp [List.filter_cons, hi, List.filter_append, List.filter_filter, ih]
    · simp [List.filter_cons, hi, ih]

/-- **Attribute order and extra attributes.**  `events d` writes the attributes in one fixed order;
    the handler only ever looks up `val` and `channel`, so the results above hold for **every**
    event stream that agrees with `events d` on element names and on those two attributes —
    whatever the order of the attributes and whatever further (vendor) attributes an element has. -/
theorem expand_effect_any_attrs (vars : PyDict S S) (d : LcDoc) (hw : WF d) (hl : d.loose = [])
    (evs : List Sax) (h : attrEquivL evs (events d)) :
    (∃ st, run evs = .ok st
      ∧ get? st.changes sZero = (if (entries0 d).isEmpty then none else some (master0 d)))
    ∧ expand vars false evs = expand vars false (events d)
    ∧ ok vars (some d) (observe vars (expand vars false evs)) = true := by
  have hrun : run evs = run (events d) := runFrom_congr _ _ h {}
  have hexp : expand vars false evs = expand vars false (events d) := by
    simp only [expand, hrun]
  refine ⟨?_, hexp, ?_⟩
  · rw [hrun]; exact instance0_master d hw hl
  · rw [hexp]; exact ok_model vars d hw hl

/-- non-vacuity: the same entry written `val … channel … x-vendor` instead of `channel … val` -/
example :
    let d : LcDoc := ⟨[], [⟨"0".toList, [⟨none, "Volume".toList, some "Master".toList, "7".toList⟩], none⟩], []⟩
    let evs : List Sax :=
      [.start "Event".toList [("xmlns".toList, "urn:x".toList)],
       .start "InstanceID".toList [("val".toList, "0".toList), ("id".toList, "a".toList)],
       .start "Volume".toList [("val".toList, "7".toList), ("channel".toList, "Master".toList), ("x-vendor".toList, "1".toList)],
       .stop "Volume".toList, .stop "InstanceID".toList, .stop "Event".toList]
    wfB d = true ∧ d.loose = [] ∧ evs ≠ events d ∧ attrEquivL evs (events d) := by
  intro d evs
  refine ⟨by decide, rfl, by decide, ?_⟩
  simp only [attrEquivL, attrEquiv, evs, events, d, instEvents, entryEvents, iname, qname, entryAttrs,
    List.flatMap_cons, List.flatMap_nil, List.append_nil, List.nil_append, List.cons_append]
  decide

/-- non-vacuity: a document with a prefixed entry, three channels, a repeated name, a second
    instance and a second block of instance 0 is well formed; the handler's mapping and the
    expansion on a service holding `Volume`, `Mute` (and not `Bogus`) are as the property says. -/
example :
    let e (p : Option String) (n : String) (c : Option String) (v : String) : Entry :=
      ⟨p.map (·.toList), n.toList, c.map (·.toList), v.toList⟩
    let d : LcDoc := ⟨[("xmlns".toList, "urn:x".toList)],
      [⟨"0".toList, [e none "Volume" (some "Master") "10", e none "Volume" (some "LF") "99",
                     e (some "rcs") "Mute" none "1", e none "Bogus" none "b"], none⟩,
       ⟨"1".toList, [e none "Volume" (some "Master") "77"], some "rcs".toList⟩,
       ⟨"0".toList, [e (some "x") "Volume" none "12"], some "avt".toList⟩], []⟩
    let vars : PyDict S S := [("Volume".toList, "5".toList), ("Mute".toList, "0".toList)]
    wfB d = true
    ∧ (run (events d)).toOption.map (·.changes) = some
        [("0".toList, [("Volume".toList, "12".toList), ("Mute".toList, "1".toList), ("Bogus".toList, "b".toList)]),
         ("1".toList, [("Volume".toList, "77".toList)])]
    ∧ expand vars false (events d) = .ok
        ([("Volume".toList, "12".toList), ("Mute".toList, "1".toList)], [["Volume".toList, "Mute".toList]]) := by
  intro e d vars
  exact ⟨by decide, by decide, by rfl⟩

/-- the hypothesis `d.loose = []` is needed: a well-formed event **without instance 0** whose
    only entry stands directly under `Event` satisfies `WF`, yet the handler files the entry under
    `"0"`, the expansion sets `Volume`, and the judge (which reads the property text: nothing
    changes without instance 0) rejects the observation. -/
example :
    let d : LcDoc := { rootAttrs := [], insts := [⟨"1".toList, [], none⟩],
                       loose := [⟨none, "Volume".toList, none, "4".toList⟩] }
    let vars : PyDict S S := [("Volume".toList, "5".toList)]
    wfB d = true ∧ d.loose ≠ []
    ∧ (run (events d)).toOption.map (·.changes) = some [("0".toList, [("Volume".toList, "4".toList)])]
    ∧ expand vars false (events d) = .ok ([("Volume".toList, "4".toList)], [["Volume".toList]])
    ∧ ok vars (some d) (observe vars (expand vars false (events d))) = false := by
  intro d vars
  exact ⟨by decide, by decide, by decide, by rfl, by decide⟩

end Upnp.C19
