/-
  C19 — property theorems (work in progress).
-/
import Upnp.Spec.C19
namespace Upnp.C19
open Upnp PyDict

theorem step_total_placeholder : run [] = .ok {} := rfl

end Upnp.C19
