/-
  C20 — the IGD facade reaches whichever WAN service exists; totals and rates are sane.

  Property theorems only (helper lemmas: `Upnp/Lemmas/C20Igd.lean`, `C20Counters.lean`).  The model
  (`Upnp/Model/C20Igd.lean`) transcribes `UpnpDevice.find_service`, `UpnpProfileDevice._service`/
  `_action`, `IgdDevice._any_action`, the four `async_get_total_*` getters,
  `_derive_value_per_second` and `async_get_traffic_and_status_data`; the tables it runs on
  (`Gen.C20Igd`) are regenerated from profiles/igd.py on every run.  The judges `callOk`,
  `seriesOk` (`Upnp/Spec/C20.lean`) are the ones the driver evaluates on the implementation.
-/
import Upnp.Lemmas.C20Igd
import Upnp.Lemmas.C20Counters
import Upnp.Lemmas.C20Float
import Upnp.Gen.C20Igd
namespace Upnp.C20
open Upnp PyDict

/-! ## Part 1 — routing -/

/-- `find_service` on a device tree (any shape, any depth) returns the first service registered
    under the type, in the order own services → embedded devices, depth first; in particular it
    finds a service **iff** one of that type occurs anywhere in the tree. -/
theorem find_service_spec (d : Dev) (ty : S) :
    findService d ty = ((allServices d).find? (fun p => p.1 == ty)).map (·.2)
    ∧ ((findService d ty).isSome ↔ ∃ s, (ty, s) ∈ allServices d) := by
  refine ⟨findService_eq d ty, ?_, ?_⟩
  · intro h
    cases hs : findService d ty with
    | none => simp [hs] at h
    | some s => exact ⟨s, findService_mem hs⟩
  · rintro ⟨s, hs⟩
    obtain ⟨s', h'⟩ := findService_isSome_of_mem hs
    simp [h']

/-- Whatever the tables and the gateway: a request only ever goes to a service that the gateway
    offers, whose type is registered under one of the operation's aliases, and which defines the
    action. -/
theorem route_sound (ord : List S → List S) (T : List (S × List S)) (d : Dev) (r : OpRow) (s : Svc)
    (h : route ord T d r = some s) :
    r.action ∈ s.acts ∧ ∃ a ∈ r.aliases, ∃ tys, get? T a = some tys ∧
      ∃ ty ∈ ord tys, (ty, s) ∈ allServices d := by
  obtain ⟨a, ha, hact⟩ := List.exists_of_findSome?_eq_some h
  obtain ⟨hmem, tys, hT, ty, hty, hf⟩ := action_some ord T hact
  exact ⟨hmem, a, ha, tys, hT, ty, hty, findService_mem hf⟩

/-- **"Not available", exactly, without any assumption** on tables, tree or action sets (every
    service has its own, arbitrary action set): the facade answers "not available" iff none of the
    services `find_service` yields for the types of the operation's aliases defines the action. -/
theorem route_none_iff (ord : List S → List S) (hord : ∀ l x, x ∈ ord l ↔ x ∈ l)
    (T : List (S × List S)) (d : Dev) (r : OpRow) :
    route ord T d r = none ↔
      ∀ a ∈ r.aliases, ∀ tys, get? T a = some tys → ∀ ty ∈ tys, ∀ s, findService d ty = some s →
        r.action ∉ s.acts := by
  unfold route anyAction
  rw [List.findSome?_eq_none_iff]
  constructor
  · intro h a ha tys hT ty hty s hs hmem
    have := h a ha
    simp only [action, hT] at this
    have := List.findSome?_eq_none_iff.mp this ty ((hord tys ty).mpr hty)
    simp [hs, hmem] at this
  · intro h a ha
    simp only [action]
    cases hT : get? T a with
    | none => rfl
    | some tys =>
      simp only
      rw [List.findSome?_eq_none_iff]
      intro ty hty
      cases hs : findService d ty with
      | none => rfl
      | some s =>
        have := h a ha tys hT ty ((hord tys ty).mp hty) s hs
        simp [this]

/-- the same in terms of everything the gateway offers, when every service type is offered once
    (`find_service` yields one service per type, so a second service of a type is out of reach):
    "not available" iff no offered service of the alias list's types defines the action. -/
theorem route_none_iff_offered (ord : List S → List S) (hord : ∀ l x, x ∈ ord l ↔ x ∈ l)
    (T : List (S × List S)) (d : Dev) (r : OpRow) (hd : (keys (allServices d)).Nodup) :
    route ord T d r = none ↔
      ∀ a ∈ r.aliases, ∀ tys, get? T a = some tys → ∀ p ∈ allServices d, p.1 ∈ tys →
        r.action ∉ p.2.acts := by
  rw [route_none_iff ord hord]
  constructor
  · intro h a ha tys hT p hp hty
    have hf : findService d p.1 = some p.2 := by
      rw [findService_eq, ← get?_eq_find?]
      exact get?_of_mem_nodup hd hp
    exact h a ha tys hT p.1 hty p.2 hf
  · intro h a ha tys hT ty hty s hs
    exact h a ha tys hT (ty, s) (findService_mem hs) hty

/-- **Routing, generic in the tables.**  Let the alias table cover the action's family
    (`hcov`: every service type of the family is registered under an alias the operation uses).
    Then on every gateway in which the action is defined only by members of its family
    (`stdGateway`; nothing is assumed about which versions of a service are offered together or
    which of them implement an optional action, nor about duplicates), for every iteration order
    of the type sets: the observation of the call satisfies the judge — the request goes to an
    offered service defining the action, and the answer is "not available" iff no offered service
    defines it. -/
theorem routing_spec (ord : List S → List S) (hord : ∀ l x, x ∈ ord l ↔ x ∈ l)
    (T : List (S × List S)) (d : Dev) (r : OpRow)
    (hcov : ∀ ty ∈ specFamily r.action, ∃ a ∈ r.aliases, ∃ tys, get? T a = some tys ∧ ty ∈ tys)
    (hstd : stdGateway d r.action = true) :
    callOk (offered d) r.action (obsOf (route ord T d r)) = true := by
  cases hr : route ord T d r with
  | some s =>
    obtain ⟨hact, a, _, tys, _, ty, _, hmem⟩ := route_sound ord T d r s hr
    simp only [obsOf, callOk, Bool.false_eq_true, if_false, List.any_eq_true]
    refine ⟨s, ?_, by simpa using hact⟩
    exact List.mem_map.mpr ⟨(ty, s), hmem, rfl⟩
  | none =>
    simp only [obsOf, callOk, if_true, List.isEmpty_nil, Bool.true_and, List.all_eq_true]
    intro s hs
    obtain ⟨⟨k, s0⟩, hk, rfl⟩ := List.mem_map.mp hs
    cases hcon : s0.acts.contains r.action with
    | false => simp
    | true =>
    exfalso
    have hdef : r.action ∈ s0.acts := by simpa using hcon
    simp only [stdGateway, Bool.and_eq_true, List.all_eq_true] at hstd
    obtain ⟨hfam, hfirst⟩ := hstd
    have hkfam : k ∈ specFamily r.action := by
      have := hfam (k, s0) hk
      simpa [hdef] using this
    obtain ⟨a, ha, tys, hT, hkt⟩ := hcov k hkfam
    obtain ⟨s1, hs1⟩ := findService_isSome_of_mem hk
    have hdef1 : r.action ∈ s1.acts := by
      have := hfirst (k, s0) hk
      simpa [hdef, hs1] using this
    have hnone := List.findSome?_eq_none_iff.mp hr a ha
    simp only [action, hT] at hnone
    have := List.findSome?_eq_none_iff.mp hnone k ((hord tys k).mpr hkt)
    simp [hs1, hdef1] at this

/-- **Judge soundness (routing), first-order form**: whatever produced the observation, if `callOk`
    accepts it then either it is "not available", nothing was sent and **no** offered service
    defines the action, or exactly one request was sent, to an offered service that defines it. -/
theorem callOk_sound (off : List Svc) (act : S) (o : CallObs) (h : callOk off act o = true) :
    (o.na = true ∧ o.sent = [] ∧ ∀ s ∈ off, act ∉ s.acts)
    ∨ (o.na = false ∧ ∃ s ∈ off, o.sent = [s.cid] ∧ act ∈ s.acts) := by
  unfold callOk at h
  cases hna : o.na with
  | true =>
    left
    simp only [hna, if_true, Bool.and_eq_true, List.all_eq_true] at h
    refine ⟨rfl, List.isEmpty_iff.mp h.1, ?_⟩
    intro s hs hm
    have := h.2 s hs
    simp [hm] at this
  | false =>
    right
    simp only [hna, Bool.false_eq_true, if_false] at h
    refine ⟨rfl, ?_⟩
    cases hs : o.sent with
    | nil => simp [hs] at h
    | cons i r =>
      cases r with
      | cons _ _ => simp [hs] at h
      | nil =>
        simp only [hs, List.any_eq_true, Bool.and_eq_true, beq_iff_eq] at h
        obtain ⟨s, hs', hc, ha⟩ := h
        exact ⟨s, hs', by rw [hc], by simpa using ha⟩

/-! ### the tables of the current source -/

/-- every alias a facade method defaults to is a key of `_SERVICE_TYPES` -/
def aliasesResolvable (T : List (S × List S)) (ops : List OpRow) : Bool :=
  ops.all fun r => r.aliases.all fun a => (get? T a).isSome

/-- every service type that may define an operation's action (standard families, Spec/C20) is
    registered under one of the operation's aliases, and the action is a known one -/
def familiesCovered (T : List (S × List S)) (ops : List OpRow) : Bool :=
  ops.all fun r => !(specFamily r.action).isEmpty &&
    (specFamily r.action).all fun ty => r.aliases.any fun a => ((get? T a).getD []).contains ty

/-- (false on the unrepaired tree: `"WANPPP"` is not a key — F20a) -/
theorem igd_aliases_resolvable :
    aliasesResolvable Gen.C20Igd.igdServiceTypes Gen.C20Igd.igdOps = true := by decide

/-- (false on the unrepaired tree: no alias of the 13 connection-level operations reaches
    `WANPPPConnection:1` — F20a) -/
theorem igd_families_covered :
    familiesCovered Gen.C20Igd.igdServiceTypes Gen.C20Igd.igdOps = true := by decide

/-- every facade operation asks for **its** action: the (method, action) pairs read from the source
    are the hand-written table of `Spec/C20.lean` (swapping `RequestConnection` for
    `ForceTermination` in the source breaks this theorem, and the judge on the posted action) -/
theorem igd_ops_actions :
    Gen.C20Igd.igdOps.map (fun r => (r.method, r.action)) = specOps := by decide

/-- **Routing of the IGD facade as it is in the source now**: for every standard gateway tree,
    every iteration order of the alias sets and every one of the facade's operations. -/
theorem igd_routing_spec (ord : List S → List S) (hord : ∀ l x, x ∈ ord l ↔ x ∈ l) (d : Dev)
    (r : OpRow) (hr : r ∈ Gen.C20Igd.igdOps) (hstd : stdGateway d r.action = true) :
    callOk (offered d) r.action (obsOf (route ord Gen.C20Igd.igdServiceTypes d r)) = true := by
  apply routing_spec ord hord _ d r _ hstd
  intro ty hty
  have h := igd_families_covered
  simp only [familiesCovered, List.all_eq_true, Bool.and_eq_true, List.any_eq_true] at h
  obtain ⟨a, ha, hc⟩ := (h r hr).2 ty hty
  cases hg : get? Gen.C20Igd.igdServiceTypes a with
  | none => simp [hg] at hc
  | some tys => exact ⟨a, ha, tys, hg, by simpa [hg] using hc⟩

/-- **A gateway as the quantifier describes it satisfies `stdGateway`**: every service type is
    offered once (`hd`) and the action is defined only by services of its own family (`hfam`; a
    service may define any subset of its actions — omissions are allowed). -/
theorem stdGateway_of_standard (d : Dev) (act : S)
    (hfam : ∀ p ∈ allServices d, act ∈ p.2.acts → p.1 ∈ specFamily act)
    (hd : (keys (allServices d)).Nodup) : stdGateway d act = true := by
  simp only [stdGateway, Bool.and_eq_true, List.all_eq_true]
  constructor
  · intro p hp
    cases hc : p.2.acts.contains act with
    | false => rfl
    | true => simpa using hfam p hp (by simpa using hc)
  · intro p hp
    cases hc : p.2.acts.contains act with
    | false => rfl
    | true =>
      have hf : findService d p.1 = some p.2 := by
        rw [findService_eq, ← get?_eq_find?]
        exact get?_of_mem_nodup hd hp
      simp [hf]
      simpa using hc

/-- **Routing for every configuration of the quantifier**, without the driver-evaluated predicate:
    every service type offered once, each service defining any subset of the actions of its own
    family; every set order; every facade operation of the current source. -/
theorem igd_routing_standard (ord : List S → List S) (hord : ∀ l x, x ∈ ord l ↔ x ∈ l) (d : Dev)
    (r : OpRow) (hr : r ∈ Gen.C20Igd.igdOps) (hd : (keys (allServices d)).Nodup)
    (hfam : ∀ p ∈ allServices d, r.action ∈ p.2.acts → p.1 ∈ specFamily r.action) :
    callOk (offered d) r.action (obsOf (route ord Gen.C20Igd.igdServiceTypes d r)) = true :=
  igd_routing_spec ord hord d r hr (stdGateway_of_standard d r.action hfam hd)

/-- the five service types of the property's quantifier -/
def fiveTypes : List S := [tyIP1, tyIP2, tyPPP1, tyCIC1, tyL3F1]

/-- **All 32 subsets, everything on one device** (the root itself, or — the tree search being the
    same — one embedded WAN device below a root without services): `types` is any sub-list of the
    five service types, `acts` gives every offered service an arbitrary subset of its family's
    actions (`hacts`).  Every facade operation satisfies the judge. -/
theorem igd_routing_subsets (ord : List S → List S) (hord : ∀ l x, x ∈ ord l ↔ x ∈ l)
    (types : List S) (hsub : types.Sublist fiveTypes) (acts : S → List S) (dty wty : S) (embedded : Bool)
    (r : OpRow) (hr : r ∈ Gen.C20Igd.igdOps)
    (hacts : ∀ t ∈ types, r.action ∈ acts t → t ∈ specFamily r.action) :
    let svcs : List (S × Svc) := types.zipIdx.map fun p => (p.1, ⟨p.1, p.2, acts p.1⟩)
    let d : Dev := if embedded then .mk dty [] [(wty, .mk wty svcs [])] else .mk dty svcs []
    callOk (offered d) r.action (obsOf (route ord Gen.C20Igd.igdServiceTypes d r)) = true := by
  intro svcs d
  have hall : allServices d = svcs := by
    cases embedded <;> simp [d, allServices, allServicesSubs]
  have hkeys : keys svcs = types := by
    simp only [svcs, keys, List.map_map]
    have : ((fun p : S × Svc => p.1) ∘ fun p : S × Nat => (p.1, (⟨p.1, p.2, acts p.1⟩ : Svc))) = fun p => p.1 := rfl
    rw [this]
    exact List.zipIdx_map_fst _ _
  apply igd_routing_standard ord hord d r hr
  · rw [hall, hkeys]
    exact hsub.nodup (by decide)
  · intro p hp hact
    rw [hall] at hp
    obtain ⟨q, hq, rfl⟩ := List.mem_map.mp hp
    have hq1 : q.1 ∈ types := by
      have := List.mem_map_of_mem (f := Prod.fst) hq
      rwa [List.zipIdx_map_fst] at this
    exact hacts q.1 hq1 hact

/-- non-vacuity of `igd_routing_subsets`: a PPP + common-interface gateway whose PPP service
    omits everything but two actions satisfies `hsub` and `hacts` for the address query -/
example :
    let types := [tyPPP1, tyCIC1]
    let acts : S → List S := fun t =>
      if t = tyPPP1 then ["GetExternalIPAddress".toList, "GetStatusInfo".toList] else ["GetTotalBytesSent".toList]
    types.Sublist fiveTypes
    ∧ ∀ t ∈ types, "GetExternalIPAddress".toList ∈ acts t → t ∈ specFamily "GetExternalIPAddress".toList := by
  refine ⟨by decide, by decide⟩

/-- the model's "does the getter ask at all" equals the judge's "some offered service defines the
    action" (used by the driver to turn scripted readings into `Raw.na`) -/
theorem avail_agree (ord : List S → List S) (hord : ∀ l x, x ∈ ord l ↔ x ∈ l) (d : Dev)
    (r : OpRow) (hr : r ∈ Gen.C20Igd.igdOps) (hstd : stdGateway d r.action = true) :
    (route ord Gen.C20Igd.igdServiceTypes d r).isSome = availSpec d r.action := by
  have h := igd_routing_spec ord hord d r hr hstd
  cases hro : route ord Gen.C20Igd.igdServiceTypes d r with
  | none =>
    simp only [hro, obsOf, callOk, if_true, List.isEmpty_nil, Bool.true_and, List.all_eq_true] at h
    simp only [Option.isSome_none, availSpec]
    symm
    rw [Bool.eq_false_iff]
    intro hany
    obtain ⟨s, hs, hc⟩ := List.any_eq_true.mp hany
    have := h s hs
    simp at this
    exact this (by simpa using hc)
  | some s =>
    simp only [hro, obsOf, callOk, Bool.false_eq_true, if_false, List.any_eq_true] at h
    obtain ⟨s', hs', hc⟩ := h
    simp only [Option.isSome_some, availSpec]
    symm
    exact List.any_eq_true.mpr ⟨s', hs', by simp at hc; simpa using hc.2⟩

/-- the order the driver derives from the observed set iteration order is a legal order -/
theorem ordOf_mem (observed l : List S) (x : S) : x ∈ ordOf observed l ↔ x ∈ l := by
  simp only [ordOf, List.mem_append, List.mem_filter, List.contains_iff_mem]
  constructor
  · rintro (⟨_, h⟩ | ⟨h, _⟩) <;> exact h
  · intro h
    by_cases ho : x ∈ observed
    · exact Or.inl ⟨ho, h⟩
    · exact Or.inr ⟨h, by simpa using ho⟩


/-- non-vacuity (routing): a PPP-only gateway in the standard layout (Layer3Forwarding on the
    root, the connection service two levels down) satisfies `stdGateway`; an address query is
    routed to the PPP service (control URL 7) — the F20a situation — and a counter query is
    "not available" because nothing offered defines it. -/
example :
    let ppp : Svc := ⟨tyPPP1, 7, ["GetExternalIPAddress".toList, "GetStatusInfo".toList]⟩
    let l3f : Svc := ⟨tyL3F1, 3, ["GetDefaultConnectionService".toList]⟩
    let d : Dev := .mk "IGD".toList [(tyL3F1, l3f)]
      [("WAN".toList, .mk "WAN".toList [] [("WCD".toList, .mk "WCD".toList [(tyPPP1, ppp)] [])])]
    let ip : OpRow := ⟨"async_get_external_ip_address".toList, ["WANIPC".toList, "WANPPPC".toList],
      "GetExternalIPAddress".toList, true, "str".toList⟩
    let br : OpRow := ⟨"async_get_total_bytes_received".toList, ["WANCIC".toList],
      "GetTotalBytesReceived".toList, false, "int".toList⟩
    ip ∈ Gen.C20Igd.igdOps ∧ br ∈ Gen.C20Igd.igdOps
    ∧ stdGateway d ip.action = true ∧ stdGateway d br.action = true
    ∧ obsOf (route id Gen.C20Igd.igdServiceTypes d ip) = ⟨[7], false⟩
    ∧ obsOf (route id Gen.C20Igd.igdServiceTypes d br) = ⟨[], true⟩ := by decide

/-- non-vacuity (both versions offered, an optional action implemented by one of them only —
    F20b): the gateway satisfies `stdGateway`, and whichever version the set iteration yields first,
    the request reaches the version that defines the action. -/
example :
    let ip1 : Svc := ⟨tyIP1, 1, ["GetExternalIPAddress".toList]⟩
    let ip2 : Svc := ⟨tyIP2, 2, ["GetExternalIPAddress".toList, "RequestTermination".toList]⟩
    let d : Dev := .mk "IGD".toList [] [("WCD".toList, .mk "WCD".toList [(tyIP1, ip1), (tyIP2, ip2)] [])]
    let rt : OpRow := ⟨"async_request_termination".toList, ["WANIPC".toList, "WANPPPC".toList],
      "RequestTermination".toList, true, "None".toList⟩
    rt ∈ Gen.C20Igd.igdOps ∧ stdGateway d rt.action = true
    ∧ obsOf (route id Gen.C20Igd.igdServiceTypes d rt) = ⟨[2], false⟩
    ∧ obsOf (route List.reverse Gen.C20Igd.igdServiceTypes d rt) = ⟨[2], false⟩ := by decide

/-! ## Part 2 — counters -/

/-- **The counter arithmetic of the source is the model's**: each of the four getters tests
    `total < 0`, then sets its offset to the model's `offsetConst` (2³¹) and returns
    `total + offset`; `_derive_value_per_second` returns None on `last_value > current_value`,
    divides by the model's `kibConst` (1024) exactly for the two byte counters and then by
    `delta_time.total_seconds()`; the poll gathers the six getters in the model's order with
    `return_exceptions=True` and its only `raise` sits under `if not non_exceptions`.
    (`2**30`, `/1000`, `return_exceptions=False`, a reordered gather … break this theorem.) -/
theorem igd_counter_pins :
    Gen.C20Igd.igdCounterPins =
      { negTests := [true, true, true, true],
        offsets := [offsetConst, offsetConst, offsetConst, offsetConst],
        wrapTest := true, kib := kibConst,
        kibNames := ["bytes_received".toList, "bytes_sent".toList],
        perSecond := true,
        gatherOrder := ["async_get_total_bytes_received".toList, "async_get_total_bytes_sent".toList,
          "async_get_total_packets_received".toList, "async_get_total_packets_sent".toList,
          "async_get_status_info".toList, "async_get_external_ip_address".toList],
        returnExceptions := true, raiseOnlyWithoutResult := true } := by decide

/-- timestamps of successive samples strictly increase (first one after construction time) -/
def increasing (t0 : Int) : List (Int × Readings) → Prop
  | [] => True
  | (t, _) :: r => t0 < t ∧ increasing t r

theorem series_spec_gen (ins : List (Int × Readings)) : ∀ (st : IgdSt), increasing st.tLast ins →
    offsOk st → (∀ x ∈ ins, inRangeR x.2) →
    seriesOk (prevOf st) ins (runSeries st ins) = true := by
  induction ins with
  | nil => intro st _ _ _; rfl
  | cons x rest ih =>
    intro st hinc ho hr
    obtain ⟨t, r⟩ := x
    obtain ⟨ht, hinc'⟩ := hinc
    obtain ⟨hok, ho', ht'⟩ := sample_ok st t r ht ho (hr (t, r) List.mem_cons_self)
    simp only [runSeries, seriesOk, hok, Bool.true_and]
    apply ih
    · rw [ht']; exact hinc'
    · exact ho'
    · intro y hy; exact hr y (List.mem_cons_of_mem _ hy)

/-- **Every series of readings, of any length** (increasing, equal, wrapped, negative down to
    −2³¹, absent, failing in any combination), taken at strictly increasing times from a freshly
    constructed profile: the model's sequence of results satisfies the judge `seriesOk` — totals
    non-negative, each rate absent (first sample, wrap, missing or failed reading now or before)
    or the non-negative difference over the elapsed time (bytes in KiB), every failure confined
    to its own field, and a raise only when all six readings failed. -/
theorem series_spec (t0 : Int) (ins : List (Int × Readings)) (hinc : increasing t0 ins)
    (hr : ∀ x ∈ ins, inRangeR x.2) :
    seriesOk ⟨t0, .none, .none, .none, .none⟩ ins (runSeries { tLast := t0 } ins) = true :=
  series_spec_gen ins { tLast := t0 } hinc ⟨Int.le_refl 0, Int.le_refl 0, Int.le_refl 0, Int.le_refl 0⟩ hr

/-- what a successful call reports, field by field: each field is a function of its own reading
    and of that counter's own history only -/
theorem sample_fields (st : IgdSt) (t : Int) (r : Readings) (s : Sample)
    (h : (sample st t r).2 = .ok s) :
    s.br = (readTotal st.br.off r.br).2 ∧ s.bs = (readTotal st.bs.off r.bs).2
    ∧ s.pr = (readTotal st.pr.off r.pr).2 ∧ s.ps = (readTotal st.ps.off r.ps).2
    ∧ s.status = plain r.status ∧ s.ip = plain r.ip
    ∧ s.rbr = derive true t s.br st.tLast st.br.last ∧ s.rbs = derive true t s.bs st.tLast st.bs.last
    ∧ s.rpr = derive false t s.pr st.tLast st.pr.last ∧ s.rps = derive false t s.ps st.tLast st.ps.last := by
  simp only [sample] at h
  split at h
  · cases h
  · cases h
    exact ⟨rfl, rfl, rfl, rfl, rfl, rfl, rfl, rfl, rfl, rfl⟩

theorem readTotal_nonneg (off : Int) (r : Raw) (h : 0 ≤ off) (hr : inRange r) :
    nonnegOk (readTotal off r).2 = true := by
  cases r <;> simp [readTotal, nonnegOk, offsetConst]
  simp [inRange] at hr
  split <;> omega

theorem sample_offsOk (st : IgdSt) (t : Int) (r : Readings) (ho : offsOk st) : offsOk (sample st t r).1 :=
  ⟨readTotal_off_nonneg _ _ ho.1, readTotal_off_nonneg _ _ ho.2.1, readTotal_off_nonneg _ _ ho.2.2.1,
   readTotal_off_nonneg _ _ ho.2.2.2⟩

/-- **Reported totals are never negative**, for every series of readings ≥ −2³¹ (no condition on
    the timestamps): the offset rule. -/
theorem totals_nonneg (ins : List (Int × Readings)) : ∀ (st : IgdSt), offsOk st →
    (∀ x ∈ ins, inRangeR x.2) → ∀ o ∈ runSeries st ins, ∀ s, o = .ok s →
    nonnegOk s.br = true ∧ nonnegOk s.bs = true ∧ nonnegOk s.pr = true ∧ nonnegOk s.ps = true := by
  induction ins with
  | nil => intro st _ _ o ho; simp [runSeries] at ho
  | cons x rest ih =>
    intro st ho hr o hmem s hs
    obtain ⟨t, r⟩ := x
    simp only [runSeries, List.mem_cons] at hmem
    rcases hmem with rfl | hmem
    · obtain ⟨h1, h2, h3, h4, _⟩ := sample_fields st t r s hs
      obtain ⟨r1, r2, r3, r4⟩ := hr (t, r) List.mem_cons_self
      rw [h1, h2, h3, h4]
      exact ⟨readTotal_nonneg _ _ ho.1 r1, readTotal_nonneg _ _ ho.2.1 r2,
        readTotal_nonneg _ _ ho.2.2.1 r3, readTotal_nonneg _ _ ho.2.2.2 r4⟩
    · exact ih _ (sample_offsOk st t r ho) (fun y hy => hr y (List.mem_cons_of_mem _ hy)) o hmem s hs

/-- **The rate**: absent exactly when there are no two successive totals or the counter went
    down (wrap); otherwise it is `(current − last) / Δt` per second (`Δt` in µs; bytes divided by
    1024), non-negative, for `Δt > 0`. -/
theorem rate_spec (isBytes : Bool) (tNow tLast : Int) (cur last : Val) :
    (derive isBytes tNow cur tLast last = none ↔ ¬ ∃ c l, cur = .int c ∧ last = .int l ∧ l ≤ c)
    ∧ ∀ c l, cur = .int c → last = .int l → l ≤ c → tLast < tNow →
        ∃ f, derive isBytes tNow cur tLast last = some f
          ∧ f.num = (c - l) * 1000000 ∧ f.den = (if isBytes then 1024 else 1) * (tNow - tLast)
          ∧ 0 ≤ f.num ∧ 0 < f.den := by
  constructor
  · cases cur <;> cases last <;> simp [derive]
  · intro c l hc hl hle ht
    subst hc hl
    have h : ¬ l > c := by omega
    refine ⟨⟨(c - l) * 1000000, (if isBytes then 1024 else 1) * (tNow - tLast)⟩, by simp [derive, h, kibConst], rfl, rfl,
      Int.mul_nonneg (by omega) (by omega), ?_⟩
    cases isBytes <;> simp <;> omega

/-- **The float the code computes is within the judge's tolerance of `rate_spec`'s exact value.**
    `dv = current − last ≥ 0`, `K` = 1024 (bytes) or 1, `mu` = elapsed microseconds.  The code
    evaluates `(dv / K) / total_seconds()`: `dv / K` is exact (`dv < 2^53`, `K` a power of two),
    `total_seconds() = tp/tq` is the correctly rounded `mu / 10^6` (`hT`), the result `rp/rq` is
    the correctly rounded quotient of the two (`hR`); `rounded` = within relative 2^-53, which
    IEEE-754 round-to-nearest guarantees for normal doubles.  Then `approx` (relative 2^-50
    around `dv·10^6 / (K·mu)`, the fraction `rate_spec` gives) accepts the result. -/
theorem float_rate_within_tolerance (dv K mu tp tq rp rq : Int)
    (hdv : 0 ≤ dv) (hK : 0 < K) (hmu : 0 < mu) (htq : 0 < tq) (htp : 0 < tp) (hrq : 0 < rq)
    (hrp : 0 ≤ rp) (hT : rounded tp tq mu 1000000) (hR : rounded rp rq (dv * tq) (K * tp)) :
    approx ⟨rp, rq⟩ (dv * 1000000) (K * mu) = true := by
  obtain ⟨hT1, hT2⟩ := hT
  obtain ⟨hR1, hR2⟩ := hR
  have hKtp : 0 < K * tp := Int.mul_pos hK htp
  have two : ∀ x y : Int, pow2_50 * x ≤ y → pow2_50 * (-x) ≤ y → (x.natAbs : Int) * pow2_50 ≤ y := by
    intro x y h1 h2
    simp only [pow2_50] at *
    omega
  simp only [approx, hrq, hrp, decide_true, Bool.true_and, decide_eq_true_eq]
  apply two
  all_goals
    by_cases h0 : dv = 0
    · subst h0
      have hp : rp * (K * tp) = 0 := by
        simp only [pow2_53] at hR1 hR2
        omega
      have : rp = 0 := by
        rcases Int.mul_eq_zero.mp hp with h | h
        · exact h
        · omega
      subst this
      simp [pow2_50]
  all_goals
    have hdv' : 0 < dv := by omega
    have hu : 0 < tp * 1000000 := by omega
    have hq : 0 < dv * tq * rq := Int.mul_pos (Int.mul_pos hdv' htq) hrq
    have huq : 0 < tp * 1000000 * (dv * tq * rq) := Int.mul_pos hu hq
    have hid : rp * (K * tp) * (dv * 1000000 * rq) * (mu * tq)
        = rp * (K * mu) * (tp * 1000000) * (dv * tq * rq) := by grind
    have key := rel_compose pow2_53 pow2_50 (by decide) (by decide) (by decide)
      (tp * 1000000) (mu * tq) (rp * (K * tp)) (dv * tq * rq) (rp * (K * mu)) (dv * 1000000 * rq)
      (Int.mul_pos hmu htq) (Int.le_of_lt hq)
      (Int.mul_nonneg (Int.mul_nonneg hdv (by decide)) (Int.le_of_lt hrq)) hT1 hT2 hR1 hR2 hid
  · have := Int.le_of_mul_le_mul_right key.1 huq
    grind
  · have := Int.le_of_mul_le_mul_right key.2 huq
    grind

/-- non-vacuity: 1000 bytes in 3.000001 s — `total_seconds()` and the quotient as Python computes
    them (`float.as_integer_ratio`), both inexact, satisfy `rounded`; the result is accepted. -/
example :
    rounded 3377700846427779 1125899906842624 3000001 1000000
    ∧ rounded 2932030030059323 9007199254740992 (1000 * 1125899906842624) (1024 * 3377700846427779)
    ∧ approx ⟨2932030030059323, 9007199254740992⟩ (1000 * 1000000) (1024 * 3000001) = true := by
  refine ⟨by unfold rounded; decide, by unfold rounded; decide, by decide⟩

/-- **the excluded point, visible**: with no time between two samples (`tNow = tLast`) the code
    raises `ZeroDivisionError` out of the whole poll; the model does not reproduce that (it yields a
    fraction with denominator 0) and the judge `rateOk` does not judge there (nor for a clock running
    backwards).  `series_spec` therefore assumes strictly increasing timestamps (`increasing`), a
    hypothesis the written quantifier does not grant — see design/C20.md, "Clause-by-clause". -/
example :
    derive true 5 (.int 10) 5 (.int 3) = some ⟨7000000, 0⟩
    ∧ rateOk true 5 5 (.int 3) (.int 10) none = true
    ∧ rateOk true 10 5 (.int 3) (.int 10) (some ⟨-1, 1⟩) = true := by decide

/-- the first sample of a fresh profile carries no rate -/
theorem first_sample_no_rates (t0 t : Int) (r : Readings) (s : Sample)
    (h : (sample { tLast := t0 } t r).2 = .ok s) :
    s.rbr = none ∧ s.rbs = none ∧ s.rpr = none ∧ s.rps = none := by
  obtain ⟨_, _, _, _, _, _, h1, h2, h3, h4⟩ := sample_fields _ t r s h
  rw [h1, h2, h3, h4]
  refine ⟨?_, ?_, ?_, ?_⟩ <;> (simp only [derive]; split <;> simp_all)

/-- **Failures are isolated**: the call raises exactly when all six readings failed (and then
    raises the first one's error); otherwise a failed reading shows as that error in its own field
    and every other field carries its own reading (`sample_fields`). -/
theorem failures_isolated (st : IgdSt) (t : Int) (r : Readings) :
    (∀ e, (sample st t r).2 = .error e ↔ (allFail r = true ∧ r.br = .fail e))
    ∧ (allFail r = false → ∃ s, (sample st t r).2 = .ok s
        ∧ isoOk r.br s.br = true ∧ isoOk r.bs s.bs = true ∧ isoOk r.pr s.pr = true
        ∧ isoOk r.ps s.ps = true ∧ isoOk r.status s.status = true ∧ isoOk r.ip s.ip = true) := by
  have hall : ((stepCounter true st.tLast t st.br r.br).2.1.isExc && (stepCounter true st.tLast t st.bs r.bs).2.1.isExc
      && (stepCounter false st.tLast t st.pr r.pr).2.1.isExc && (stepCounter false st.tLast t st.ps r.ps).2.1.isExc
      && (plain r.status).isExc && (plain r.ip).isExc) = allFail r := by
    simp only [stepCounter_val, readTotal_isExc, plain_isExc, allFail]
  have hiso : ∀ off raw, isoOk raw (readTotal off raw).2 = true := by
    intro off raw; cases raw <;> simp [isoOk, readTotal, isInt, Val.isExc]
  constructor
  · intro e
    simp only [sample, hall]
    cases hf : allFail r with
    | false =>
      have : raiseOf (stepCounter true st.tLast t st.br r.br).2.1 false = none := by
        cases (stepCounter true st.tLast t st.br r.br).2.1 <;> rfl
      simp [this]
    | true =>
      have f1 : isFail r.br = true := by
        simp only [allFail, Bool.and_eq_true] at hf; exact hf.1.1.1.1.1
      cases hbr : r.br <;> simp [hbr, isFail] at f1
      rename_i e'
      have : (stepCounter true st.tLast t st.br (Raw.fail e')).2.1 = .exc e' := rfl
      simp [this, raiseOf]
  · intro hf
    cases hs : (sample st t r).2 with
    | error e =>
      exfalso
      have hraise : raiseOf (stepCounter true st.tLast t st.br r.br).2.1 false = none := by
        cases (stepCounter true st.tLast t st.br r.br).2.1 <;> rfl
      simp only [sample, hall, hf, hraise] at hs
      cases hs
    | ok s =>
      obtain ⟨h1, h2, h3, h4, h5, h6, _⟩ := sample_fields st t r s hs
      refine ⟨s, rfl, ?_⟩
      rw [h1, h2, h3, h4, h5, h6]
      exact ⟨hiso _ _, hiso _ _, hiso _ _, hiso _ _, isoOk_plain _, isoOk_plain _⟩

/-- non-vacuity (counters): a concrete series — plain growth, a negative 32-bit reading, a
    SOAP fault on one counter, a wrap — satisfies the hypotheses of `series_spec`, and produces
    non-trivial totals and rates: 2048 bytes in 2 s = 1 KiB/s; −5 is reported as 2³¹−5; the
    failed counter shows its error while the others keep their values. -/
example :
    let ins : List (Int × Readings) :=
      [(1000000, ⟨.ok 10, .ok 20, .ok 30, .ok 40, .ok 0, .ok 0⟩),
       (3000000, ⟨.ok 2058, .fail 1, .ok 5, .ok (-5), .ok 0, .fail 2⟩)]
    increasing 0 ins ∧ (∀ x ∈ ins, inRangeR x.2)
    ∧ runSeries { tLast := 0 } ins =
      [.ok ⟨.int 10, .int 20, .int 30, .int 40, .int 0, .int 0, none, none, none, none⟩,
       .ok ⟨.int 2058, .exc 1, .int 5, .int 2147483643, .int 0, .exc 2,
            some ⟨2048000000, 2048000000⟩, none, none, some ⟨2147483603000000, 2000000⟩⟩] := by
  refine ⟨by simp [increasing], ?_, by rfl⟩
  intro x hx
  simp only [List.mem_cons, List.not_mem_nil, or_false] at hx
  rcases hx with rfl | rfl <;> simp [inRangeR, inRange]

end Upnp.C20
