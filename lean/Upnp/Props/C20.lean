/-
  C20 — property theorems (work in progress).
-/
import Upnp.Spec.C20
import Upnp.Gen.C20Igd
namespace Upnp.C20
open Upnp PyDict

/-- every alias a facade method defaults to is a key of `_SERVICE_TYPES` -/
def aliasesResolvable (T : List (S × List S)) (ops : List OpRow) : Bool :=
  ops.all fun r => r.aliases.all fun a => (get? T a).isSome

theorem igd_aliases_resolvable :
    aliasesResolvable Gen.C20Igd.igdServiceTypes Gen.C20Igd.igdOps = true := by decide

end Upnp.C20
