/-
  Line-protocol helpers shared by all property drivers (import-free).
  A line is a list of space-separated tokens.  Arbitrary text travels as lower-case
  hex of its UTF-8 bytes; the empty string is the token `-`.
-/
namespace Upnp.Proto

def tokens (line : String) : List String :=
  ((line.replace "\n" "").replace "\r" "").splitOn " " |>.filter (· ≠ "")

def hexVal (c : Char) : Option Nat :=
  if '0' ≤ c ∧ c ≤ '9' then some (c.toNat - 48)
  else if 'a' ≤ c ∧ c ≤ 'f' then some (c.toNat - 87) else none

def unhexBytes : List Char → Option (List UInt8)
  | [] => some []
  | a :: b :: r => do
      let x ← hexVal a; let y ← hexVal b; let t ← unhexBytes r
      pure (UInt8.ofNat (x*16+y) :: t)
  | _ => none

def hexDigit (n : Nat) : Char := if n < 10 then Char.ofNat (48 + n) else Char.ofNat (87 + n)

def hexBytes (bs : List UInt8) : String :=
  String.ofList (bs.flatMap fun b => [hexDigit (b.toNat / 16), hexDigit (b.toNat % 16)])

/-- decode a hex token to bytes (`-` = empty) -/
def tokBytes (t : String) : Option (List UInt8) :=
  if t = "-" then some [] else unhexBytes t.toList

/-- decode a hex token to a string (must be valid UTF-8) -/
def tokStr (t : String) : Option String := do
  let bs ← tokBytes t
  String.fromUTF8? (ByteArray.mk bs.toArray)

def strTok (s : String) : String :=
  if s.isEmpty then "-" else hexBytes s.toUTF8.toList

def bytesTok (bs : List UInt8) : String :=
  if bs.isEmpty then "-" else hexBytes bs

/-- read all of stdin as lines (without terminators) -/
partial def readLines (h : IO.FS.Stream) (acc : Array String := #[]) : IO (Array String) := do
  let line ← h.getLine
  if line.isEmpty then return acc
  readLines h (acc.push ((line.replace "\n" "").replace "\r" ""))

/-- split `a=b` at the first `=` -/
def splitEq (s : String) : String × String :=
  match s.splitOn "=" with
  | [] => ("", "")
  | [a] => (a, "")
  | a :: rest => (a, "=".intercalate rest)

def commaList (s : String) : List String :=
  if s = "" then [] else s.splitOn ","

end Upnp.Proto
