/-
  C01 — formal reading of "SSDP messages survive the wire and decode independently of history".

  What is judged is an *observation* of a decoded header map as a user sees it: the request
  line, the names it iterates, look-ups by arbitrary spellings.  Three predicates:

  * `roundTripOk`  — the observation of `decode(build(sl, hs), src)` shows the same start line,
                     exactly the sent names (ignoring case) plus metadata names, the sent values,
                     and the metadata derived from the source address (`metaOk`);
  * `sameResult`   — two decodes of equal (datagram, source) are observed equal apart from the
                     time stamp ("decoding is a function of the datagram and its source alone");
  * `unchanged`    — a result re-read later equals its last snapshot unless its owner changed it.

  Import-free apart from the codec model's data types.
-/
import Upnp.Model.C01Ssdp
namespace Upnp.C01
open Upnp

/-- one observation of a header map (`rl` only for the observation taken right after decode) -/
structure Obs where
  iter : List Bytes                    -- names in iteration order
  gets : List (Bytes × Option Val)     -- `headers[k]` for probe spellings (`none` = KeyError)
  data : List (Bytes × Val)            -- `as_dict().items()`
  cmap : List (Bytes × Bytes)          -- `case_map().items()`
deriving DecidableEq, Repr

/-- the observation of a header map through its public interface (what the harness prints for the
    implementation; the driver computes it for the model) -/
def observe (probes : List Bytes) (d : Hdrs) : Obs :=
  { iter := CIDict.iter d
    gets := probes.map fun k => (k, CIDict.getitem lower d k)
    data := CIDict.asDict d
    cmap := CIDict.caseMap d }

/-- hypotheses on a header list under which the round trip is claimed (see `Props/C01.lean`) -/
def validValue (v : Bytes) : Bool :=
  !v.contains CR && !v.contains LF && !v.contains 0
  && v.head? != some SP && v.head? != some HT && v.getLast? != some SP && v.getLast? != some HT
  && v.length ≤ maxField

def distinctCI : List Bytes → Bool
  | [] => true
  | k :: r => !(r.map lower).contains (lower k) && distinctCI r

/-- `location` is among the `LOWER_*` constants but is an ordinary header name -/
def reserved (metaKeys : List Bytes) (lk : Bytes) : Bool := metaKeys.contains lk && lk != kLocation

def wfHeaders (metaKeys : List Bytes) (hs : List (Bytes × Bytes)) : Bool :=
  hs.all (fun p => isToken p.1 && p.1.length ≤ maxField && !reserved metaKeys (lower p.1) && validValue p.2)
  && distinctCI (hs.map (·.1))

/-- look a name up in the observation by ANY probe spelling of it -/
def Obs.lookupCI (o : Obs) (k : Bytes) : Option (Option Val) :=
  (o.gets.find? (fun p => lower p.1 == lower k)).map (·.2)

/-- every probe spelling of one folded name sees the same thing -/
def Obs.coherent (o : Obs) : Bool :=
  o.gets.all fun p => o.gets.all fun q => lower p.1 != lower q.1 || p.2 == q.2

/-- metadata derived from the datagram's source address, and the UDN from a uuid USN -/
def metaOk (o : Obs) (src : Addr) (usn : Option Bytes) : Bool :=
  o.lookupCI kHost == some (some (.str (hostString src)))
  && o.lookupCI kPort == some (some (.int src.port))
  && o.lookupCI kRemote == some (some (.addr src))
  && o.lookupCI kUdn == some ((usn.bind fun u => if u.isEmpty then .none else udnFromUsn u).map Val.str)

/-- sender metadata of ANY decoded datagram is that of its source address, whatever headers it carries -/
def sourceMetaOk (o : Obs) (src : Addr) : Bool :=
  o.lookupCI kHost == some (some (.str (hostString src)))
  && o.lookupCI kPort == some (some (.int src.port))
  && o.lookupCI kRemote == some (some (.addr src))

/-- the value sent under a name comes back as sent.  `location` with text comes back as
    `get_adjusted_url(sent, source)` — the sent URL itself unless the source is a scoped IPv6 address
    and the URL's host a link-local address (`adjust_identity`); outside the modelled URL grammar
    any text is accepted — and the sent text is kept under `_location_original`. -/
def valueOk (o : Obs) (src : Addr) (k v : Bytes) : Bool :=
  if lower k == kLocation then
    if allPyWs v then o.lookupCI k == some (some (.str v))
    else
      o.lookupCI kLocOrig == some (some (.str v))
      && (match adjustUrl v src with
          | some u => o.lookupCI k == some (some (.str u))
          | .none => (match o.lookupCI k with
                      | some (some (.str _)) => true
                      | some (some .unk) => true
                      | _ => false))
  else o.lookupCI k == some (some (.str v))

def roundTripOk (metaKeys : List Bytes) (sl : Bytes) (hs : List (Bytes × Bytes)) (src : Addr)
    (rl : Bytes) (o : Obs) : Bool :=
  rl == sl
  && o.coherent
  && hs.all (fun p => valueOk o src p.1 p.2)
  -- exactly the sent names (ignoring case) plus metadata names — the `LOWER_*` constants or any other name
  -- with the private prefix `_` (the text fixes no closed list of sender metadata) —, each once
  && o.iter.all (fun n => (hs.map fun p => lower p.1).contains (lower n) || metaKeys.contains (lower n) || n.head? == some 95)
  && hs.all (fun p => (o.iter.map lower).contains (lower p.1))
  && distinctCI o.iter
  && metaOk o src ((hs.find? fun p => lower p.1 == ofString "usn").map (·.2))

/-- equality of observations apart from the time stamp value -/
def stripTs (v : Val) : Val := match v with | .ts _ => .ts 0 | x => x
def Obs.noTs (o : Obs) : Obs :=
  { o with gets := o.gets.map (fun p => (p.1, p.2.map stripTs)), data := o.data.map (fun p => (p.1, stripTs p.2)) }

def sameResult (rl₁ : Bytes) (o₁ : Obs) (rl₂ : Bytes) (o₂ : Obs) : Bool :=
  rl₁ == rl₂ && o₁.iter == o₂.iter && o₁.noTs.data == o₂.noTs.data && o₁.cmap == o₂.cmap

def unchanged (snapshot now : Obs) : Bool := snapshot == now

end Upnp.C01
