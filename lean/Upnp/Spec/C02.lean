/-
  C02 — formal reading of "no datagram can make the SSDP receive path raise; a well-formed
  message is dispatched, anything else is dropped; a dropped datagram triggers no user callback,
  sends nothing, and leaves the set of known devices unchanged".

  `wellFormed` says which datagrams an endpoint dispatches (it does not depend on the tracker
  state; the clock value only travels into the `_timestamp` metadata, which no test reads); `ok` judges one observation of the implementation handling one datagram.
  Import-free apart from the receive-path model's data types and pure classifiers.
-/
import Upnp.Model.C02Recv
namespace Upnp.C02
open Upnp Upnp.C01

def firesSearch (cfg : Cfg) (h : Hdrs) : Bool :=
  match searchClassify cfg.targetHost h with | .ok b => b | .error _ => false

/-- Is this datagram, from this sender, a well-formed message for the endpoint?
    gate ∧ decodable ∧ the endpoint's own validity test (and, for the responder, a matching target). -/
def wellFormed (cfg : Cfg) (ep : Endpoint) (data : Bytes) (loc : Option Addr) (src : Addr) (now : Int) : Bool :=
  match protocolRecv Fixes.all cfg.prefixes data loc src now with
  | .ok (some (rl, h)) =>
    (match ep with
     | .adv => (advClassify h).isSome
     | .search => firesSearch cfg h
     | .listenerAdv =>
       (match advClassify h with
        | some .byebye => validByebye h && (usnUdn h).isSome
        | some _ => validAdv h && (usnUdn h).isSome
        | none => false)
     | .listenerSearch => firesSearch cfg h && validSearch h && (usnUdn h).isSome
     | .responder => isSearch rl h && responseCount cfg h != 0)
  | _ => false

/-- what is observed of the implementation handling one datagram -/
structure Obs where
  raised : Option String          -- exception class that escaped `datagram_received`
  callbacks : Nat                 -- user callbacks fired (sync + async)
  sends : Nat                     -- datagrams handed to a socket / transport
  timers : Nat                    -- timers scheduled
  devsBefore : List (List Nat)    -- sorted keys of the known-device map before …
  devsAfter : List (List Nat)     -- … and after
deriving DecidableEq, Repr

def Obs.inert (o : Obs) : Bool :=
  o.callbacks == 0 && o.sends == 0 && o.timers == 0 && o.devsBefore == o.devsAfter

/-- the property, for one datagram: nothing raised, and a dropped datagram is inert -/
def ok (wf : Bool) (o : Obs) : Bool := o.raised.isNone && (wf || o.inert)

/-- the model's outcome rendered as an observation (used for the correspondence and in the theorems) -/
def obsOf (before : Tracker) (r : Except Exn (Tracker × Eff)) (sortKeys : List Bytes → List Bytes) : Option Obs :=
  match r with
  | .error _ => none
  | .ok (t, e) => some { raised := none, callbacks := e.cbMin, sends := e.sends, timers := e.timers,
                         devsBefore := sortKeys (PyDict.keys before.devices), devsAfter := sortKeys (PyDict.keys t.devices) }

end Upnp.C02
