/-
  C02 — formal reading of "no datagram can make the SSDP receive path raise; a well-formed
  message is dispatched, anything else is dropped; a dropped datagram triggers no user callback,
  sends nothing, and leaves the set of known devices unchanged".

  `wellFormed` says which datagrams an endpoint dispatches (it does not depend on the tracker
  state; the clock value only travels into the `_timestamp` metadata, which no test reads); `ok` judges one observation of the implementation handling one datagram.
  Import-free apart from the receive-path model's data types and pure classifiers.
-/
import Upnp.Model.C02Recv
namespace Upnp.C02
open Upnp Upnp.C01

def firesSearch (cfg : Cfg) (h : Hdrs) : Bool :=
  match searchClassify cfg.targetHost h with | .ok b => b | .error _ => false

/-- what a well-formed message makes the endpoint do -/
inductive Dispatch
  | notify                 -- the user callback of a plain listener fires
  | see (udn : Bytes)      -- the tracker records / refreshes this device
  | unsee (udn : Bytes)    -- the tracker forgets this device
  | respond                -- the responder answers (now or deferred)
deriving DecidableEq, Repr

/-- Is this datagram, from this sender, a well-formed message for the endpoint, and what does it ask for?
    gate ∧ decodable ∧ the endpoint's own validity test (a uuid USN for the tracker, a matching target
    for the responder).  `none` = the datagram is to be dropped. -/
def classify (cfg : Cfg) (ep : Endpoint) (data : Bytes) (loc : Option Addr) (src : Addr) (now : Int) : Option Dispatch :=
  match protocolRecv Fixes.all cfg.prefixes data loc src now with
  | .ok (some (rl, h)) =>
    (match ep with
     | .adv => if (advClassify h).isSome then some .notify else none
     | .search => if firesSearch cfg h then some .notify else none
     | .listenerAdv =>
       (match advClassify h with
        | some .byebye => if validByebye h then (usnUdn h).map .unsee else none
        | some _ => if validAdv h then (usnUdn h).map .see else none
        | none => none)
     | .listenerSearch => if firesSearch cfg h && validSearch h then (usnUdn h).map .see else none
     | .responder => if isSearch rl h && responseCount cfg h != 0 then some .respond else none)
  | _ => none

def wellFormed (cfg : Cfg) (ep : Endpoint) (data : Bytes) (loc : Option Addr) (src : Addr) (now : Int) : Bool :=
  (classify cfg ep data loc src now).isSome

/-- what is observed of the implementation handling one datagram -/
structure Obs where
  raised : Option String          -- exception class that escaped `datagram_received`
  callbacks : Nat                 -- user callbacks fired (sync + async)
  sends : Nat                     -- datagrams handed to a socket / transport
  timers : Nat                    -- timers scheduled
  devsBefore : List (List Nat)    -- sorted keys of the known-device map before …
  devsAfter : List (List Nat)     -- … and after
deriving DecidableEq, Repr

def Obs.inert (o : Obs) : Bool :=
  o.callbacks == 0 && o.sends == 0 && o.timers == 0 && o.devsBefore == o.devsAfter

/-- a well-formed message is dispatched: the least every such message must visibly cause -/
def Obs.dispatched (o : Obs) : Dispatch → Bool
  | .notify => o.callbacks ≥ 1
  | .see u => o.devsAfter.contains u
  | .unsee u => !o.devsAfter.contains u
  | .respond => o.sends + o.timers ≥ 1

/-- the property, for one datagram: nothing raised; a well-formed message is dispatched, anything
    else is dropped, and a dropped datagram is inert -/
def ok (c : Option Dispatch) (o : Obs) : Bool :=
  o.raised.isNone && (match c with | none => o.inert | some d => o.dispatched d)

/-- the model's outcome rendered as an observation (used for the correspondence and in the theorems) -/
def obsOf (before : Tracker) (r : Except Exn (Tracker × Eff)) (sortKeys : List Bytes → List Bytes) : Option Obs :=
  match r with
  | .error _ => none
  | .ok (t, e) => some { raised := none, callbacks := e.cbMin, sends := e.sends, timers := e.timers,
                         devsBefore := sortKeys (PyDict.keys before.devices), devsAfter := sortKeys (PyDict.keys t.devices) }

end Upnp.C02
