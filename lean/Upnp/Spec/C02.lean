/-
  C02 — formal reading of "no datagram can make the SSDP receive path raise; a well-formed
  message is dispatched, anything else is dropped; a dropped datagram triggers no user callback,
  sends nothing, and leaves the set of known devices unchanged".

  `wellFormed` says which datagrams an endpoint dispatches (it does not depend on the tracker
  state; the clock value only travels into the `_timestamp` metadata, which no test reads); `ok` judges one observation of the implementation handling one datagram.
  Import-free apart from the receive-path model's data types and pure classifiers.
-/
import Upnp.Model.C02Recv
import Upnp.Spec.C03
namespace Upnp.C02
open Upnp Upnp.C01

def firesSearch (cfg : Cfg) (h : Hdrs) : Bool :=
  match searchClassify cfg.targetHost h with | .ok b => b | .error _ => false

/-- the interface between the decoder model and the tracker model, as a test on one header map:
    whenever the USN yields a udn, `_udn` is that udn (`C03.Parse.RawOp.decoded`) -/
def udnGuaranteeB (h : Hdrs) : Bool :=
  let hs : C03.Hdrs String := C16.SMap.writeAll C03.Parse.lower [] (pairsOf h)
  match (C03.Parse.truthy (PyDict.get? hs "usn")).bind C03.Parse.udnFromUsn with
  | some u => C03.Parse.truthy (PyDict.get? hs "_udn") == some u
  | none => true

/-- what a well-formed message makes the endpoint do -/
inductive Dispatch
  | notify                 -- the user callback of a plain listener fires
  | see (udn : String)     -- the tracker records / refreshes this device
  | unsee (udn : String)   -- the tracker forgets this device
  | respond                -- the responder answers (now or deferred)
deriving DecidableEq, Repr

/-- the combined listener: the property text's reading of C03 — a valid sighting (uuid USN, a type, an
    acceptable location; `Msg.sighting?`) is recorded, a byebye naming a device (`Msg.byebye?`) is
    obeyed, everything else is to be dropped -/
def classifyEv (e : C03.Ev String) : Option Dispatch :=
  match e with
  | .msg m => if m.kind = .byebye then m.byebye?.map .unsee else m.sighting?.map fun p => .see p.1
  | _ => none

/-- Is this datagram, from this sender, a well-formed message for the endpoint, and what does it ask for?
    gate ∧ decodable ∧ the endpoint's own validity test (a uuid USN for the tracker, a matching target
    for the responder).  `none` = the datagram is to be dropped. -/
def classify (cfg : Cfg) (ep : Endpoint) (data : Bytes) (loc : Option Addr) (src : Addr) (now : Int) : Option Dispatch :=
  match protocolRecv Fixes.all cfg.prefixes data loc src now with
  | .ok (some (rl, h)) =>
    (match ep with
     | .adv => if (advClassify h).isSome then some .notify else none
     | .search => if firesSearch cfg h then some .notify else none
     | .listenerAdv => classifyEv (C03.Parse.parseEv cfg.trk true (pairsOf h))
     | .listenerSearch => if firesSearch cfg h then classifyEv (C03.Parse.parseEv cfg.trk false (pairsOf h)) else none
     | .responder => if isSearch rl h && responseCount cfg h != 0 then some .respond else none)
  | _ => none

def wellFormed (cfg : Cfg) (ep : Endpoint) (data : Bytes) (loc : Option Addr) (src : Addr) (now : Int) : Bool :=
  (classify cfg ep data loc src now).isSome

/-- what is observed of the implementation handling one datagram -/
structure Obs where
  raised : Option String          -- exception class that escaped `datagram_received`
  callbacks : Nat                 -- user callbacks fired (sync + async)
  sends : Nat                     -- datagrams handed to a socket / transport
  timers : Nat                    -- timers scheduled
  devsBefore : List String        -- sorted keys of the known-device map before …
  devsAfter : List String         -- … and after
deriving DecidableEq, Repr

def Obs.inert (o : Obs) : Bool :=
  o.callbacks == 0 && o.sends == 0 && o.timers == 0 && o.devsBefore == o.devsAfter

/-- a well-formed message is dispatched: the least every such message must visibly cause -/
def Obs.dispatched (o : Obs) : Dispatch → Bool
  | .notify => o.callbacks ≥ 1
  | .see u => o.devsAfter.contains u
  | .unsee u => !o.devsAfter.contains u
  | .respond => o.sends + o.timers ≥ 1

/-- the property, for one datagram: nothing raised; a well-formed message is dispatched, anything
    else is dropped, and a dropped datagram is inert.  `may`: the message is accepted by today's
    code but lacks a header UDA requires (see `mayDrop`) — the text does not say it is well-formed,
    so either outcome is accepted: dispatched, or dropped and inert. -/
def ok (c : Option Dispatch) (o : Obs) (may : Bool := false) : Bool :=
  o.raised.isNone && (match c with | none => o.inert | some d => o.dispatched d || (may && o.inert))

/-- the plain listeners notify on very little (advertisement: an NTS; search: no NTS).  A message
    without the identifying headers UDA makes REQUIRED (advertisement: NT and USN; search response:
    ST and USN) may as well be dropped by a stricter library. -/
def mayDrop (cfg : Cfg) (ep : Endpoint) (data : Bytes) (loc : Option Addr) (src : Addr) (now : Int) : Bool :=
  match protocolRecv Fixes.all cfg.prefixes data loc src now with
  | .ok (some (_, h)) =>
    (match ep with
     | .adv => !(truthy (getL h "nt") && truthy (getL h "usn"))
     | .search => !(truthy (getL h "st") && truthy (getL h "usn"))
     | _ => false)
  | _ => false

/-- the model's outcome rendered as an observation (used for the correspondence and in the theorems) -/
def obsOf (before : Tracker) (r : Except Exn (Tracker × Eff)) (sortKeys : List String → List String) : Option Obs :=
  match r with
  | .error _ => none
  | .ok (t, e) => some { raised := none, callbacks := e.cbMin, sends := e.sends, timers := e.timers,
                         devsBefore := sortKeys (PyDict.keys before.devices), devsAfter := sortKeys (PyDict.keys t.devices) }

end Upnp.C02
