/-
  C03 — formal reading of "known devices live exactly as long as max-age and byebye allow".

  The judge `ok` reads a trace: one entry per processed event = the event (what the message says, in
  the reading of the property text) and the public device map observed right after it
  (`SsdpListener.devices`: keys, `valid_to`, `_locations`, `location`).  It never looks at model state.

  Reading of the text, clause by clause (`stepOk`):
  * `presentOk`   — a device whose last valid sighting (t, max-age a) has not been followed by a byebye,
                    and since which no processed event carried a clock reading > t + a, is in the map and
                    has a location.  (Clock readings may repeat or go backwards; a reading beyond t + a
                    ends the obligation for good.)
  * `expiredGoneOk` — after a valid sighting or an explicit purge at time t every device still in the map
                    has a recorded last valid sighting whose validity t' + a' is ≥ t (validity is computed
                    from the messages, not read from the implementation).
  * `byebyeOk`    — after a valid byebye for u: u is absent, every other device is there, unchanged, no new one.
  * `inertOk`     — any other message (no uuid USN, no type, no acceptable location, or dropped by the
                    listener) and an explicit purge create no device and refresh none
                    (`valid_to` unchanged, no location added).
  Import-free apart from the model's data types (linked into the driver).
-/
import Upnp.Model.C03Tracker
namespace Upnp.C03
open Upnp PyDict

/-- what is observed of one device -/
structure DevObs (σ : Type) where
  udn : σ
  validTo : Int
  locs : List (σ × Int)
  location : Option σ
deriving Repr

abbrev Snap (σ : Type) := List (DevObs σ)

/-- spec state: udn ↦ (validity of the last valid sighting, "no clock reading beyond it since") -/
abbrev Sp (σ : Type) := PyDict σ (Int × Bool)

section
variable {σ : Type} [DecidableEq σ]

/-- the property text's valid sighting: uuid USN, a type, an acceptable location (not a byebye) -/
def Msg.sighting? (m : Msg σ) : Option (σ × σ) :=
  if m.kind = .byebye then none else
  match m.udn, m.ty, m.loc with
  | some u, some _, some l => if m.locOk then some (u, l) else none
  | _, _, _ => none

/-- the property text's byebye naming a device -/
def Msg.byebye? (m : Msg σ) : Option σ :=
  if m.kind = .byebye then
    (match m.udn, m.ty with
     | some u, some _ => some u
     | _, _ => none)
  else none

/-- what the receive path guarantees about a message (`decode_ssdp_packet` / `_on_data`): `_udn` is the udn of
    a uuid USN whenever there is one; an advertisement has an NTS; `\d+` is not negative -/
def Msg.wf (m : Msg σ) : Bool :=
  (m.udn.isNone || decide (m.udnHdr = m.udn)) && (decide (m.kind = .search) || m.ntsOk) && decide (0 ≤ m.maxAge)

def Ev.wf : Ev σ → Bool
  | .msg m => m.wf
  | _ => true

def Ev.time : Ev σ → Int
  | .msg m => m.ts
  | .purge now => now
  | .noise ts => ts

def tick (t : Int) (sp : Sp σ) : Sp σ :=
  sp.map fun p => (p.1, (p.2.1, p.2.2 && decide (t ≤ p.2.1)))

def specStep (sp : Sp σ) (e : Ev σ) : Sp σ :=
  let sp1 := tick e.time sp
  match e with
  | .msg m =>
    (match m.sighting? with
     | some (u, _) => set sp1 u (m.ts + m.maxAge, true)
     | none =>
       (match m.byebye? with
        | some u => erase sp1 u
        | none => sp1))
  | _ => sp1

def findDev (s : Snap σ) (u : σ) : Option (DevObs σ) := s.find? fun d => decide (d.udn = u)

def presentOk (sp : Sp σ) (after : Snap σ) : Bool :=
  (keys sp).all fun u =>
    match get? sp u with
    | some (_, true) =>
      (match findDev after u with
       | some d => d.location.isSome
       | none => false)
    | _ => true

def expiredGoneOk (sp : Sp σ) (t : Int) (after : Snap σ) : Bool :=
  after.all fun d =>
    match get? sp d.udn with
    | some (e, _) => decide (t ≤ e)
    | none => false

def sameDev (a b : DevObs σ) : Bool := decide (a.validTo = b.validTo) && decide (a.locs = b.locs)

def byebyeOk (u : σ) (before after : Snap σ) : Bool :=
  (findDev after u).isNone
  && (before.all fun d => decide (d.udn = u) ||
        (match findDev after d.udn with
         | some a => sameDev d a
         | none => false))
  && (after.all fun d => (findDev before d.udn).isSome)

def inertOk (before after : Snap σ) : Bool :=
  after.all fun d =>
    match findDev before d.udn with
    | some b => decide (d.validTo = b.validTo) && d.locs.all fun l => b.locs.contains l
    | none => false

def stepOk (sp' : Sp σ) (e : Ev σ) (before after : Snap σ) : Bool :=
  presentOk sp' after &&
  (match e with
   | .msg m =>
     (match m.sighting? with
      | some _ => expiredGoneOk sp' m.ts after
      | none =>
        (match m.byebye? with
         | some u => byebyeOk u before after
         | none => inertOk before after))
   | .purge t => expiredGoneOk sp' t after && inertOk before after
   | .noise _ => inertOk before after)

def okFrom (sp : Sp σ) (before : Snap σ) : List (Ev σ × Snap σ) → Bool
  | [] => true
  | (e, after) :: r => stepOk (specStep sp e) e before after && okFrom (specStep sp e) after r

/-- the judge: the whole trace, from the empty listener -/
def ok (tr : List (Ev σ × Snap σ)) : Bool := okFrom [] [] tr

/-- index of the first failing step and the failing clause (diagnostics for the driver) -/
def firstFail (sp : Sp σ) (before : Snap σ) : List (Ev σ × Snap σ) → Nat → Option (Nat × String)
  | [], _ => none
  | (e, after) :: r, i =>
    let sp' := specStep sp e
    if stepOk sp' e before after then firstFail sp' after r (i + 1)
    else some (i,
      if !presentOk sp' after then "present"
      else match e with
        | .msg m => (match m.sighting? with
            | some _ => "expired-remains"
            | none => (match m.byebye? with
                | some _ => "byebye"
                | none => "invalid-not-inert"))
        | .purge t => if !expiredGoneOk sp' t after then "expired-remains" else "purge-not-inert"
        | .noise _ => "noise-not-inert")

/-- the model's observable device map -/
def snapOf (le : σ → σ → Bool) (s : Tracker σ) : Snap σ :=
  s.devices.map fun p => ⟨p.1, p.2.validTo, p.2.locs, location le p.2⟩

end
end Upnp.C03
