/-
  The constants of the C03/C04 model in two readings: `specCfg` is fixed from the property text
  (900 s default max-age; http(s) location whose host is neither loopback nor IPv4 link-local — `Parse.locUsable`;
  the volatile headers date, cache-control, server, host, location), `genCfg` is what the source says
  now (`Gen/C03Tracker.lean`, regenerated on every run).  The driver runs the model with `genCfg` and
  the judges with `specCfg`; `Props/C03.lean` pins `genCfg = specCfg`.
-/
import Upnp.Model.C03Parse
import Upnp.Gen.C03Tracker
namespace Upnp.C03

def specCfg : Cfg :=
  { defaultMaxAgeSec := 900
    ignored := ["cache-control", "date", "host", "location", "server"]
    privatePrefix := "_"
    searchPrefix := "http"
    searchNeedles := []
    advPrefix := "http"
    advNeedles := []
    tMax := 251824463999999999          -- datetime.max - datetime(2020, 1, 1) (the harness' epoch), µs
    tdMaxUs := 86399999999999999999     -- timedelta.max, µs
    tdLimitSec := 86400000000000        -- 1000000000 days
    intMaxDigits := 4300 }

def genCfg : Cfg :=
  { defaultMaxAgeSec := Gen.C03Tracker.defaultMaxAgeSec
    ignored := Gen.C03Tracker.ignoredHeaders
    privatePrefix := Gen.C03Tracker.privatePrefix
    searchPrefix := Gen.C03Tracker.usablePrefix
    searchNeedles := []
    advPrefix := Gen.C03Tracker.usablePrefix
    advNeedles := []
    schemes := Gen.C03Tracker.usableSchemes
    loopbackNames := Gen.C03Tracker.usableLoopbackNames
    -- CPython constants (datetime / timedelta / int digit limit), not in the library source:
    tMax := 251824463999999999
    tdMaxUs := 86399999999999999999
    tdLimitSec := 86400000000000
    intMaxDigits := 4300 }

end Upnp.C03
