/-
  C04 — formal reading of "change notifications fire exactly when something changed, with its snapshot".

  The judge `ok` reads, per processed event: the event (property-text reading, `Msg.sighting?` /
  `Msg.byebye?` of Spec/C03), the public device map before it, the sender's stored state before and
  after (`Look`: known types, the search / advertisement headers stored for the message's type) and
  the user callbacks with `combined_headers(type)` read inside them.  It never looks at model state.

  `stepOk`, clause by clause:
  * at most one notification per message and per callback flavour, both flavours identical, for the
    sender's UDN and the message's type (`flavours`);
  * the device map *at the time of the message* is the observed map minus devices whose validity ended
    before the message's timestamp (C03: a valid sighting purges first) — `known`;
  * search response: `search_changed` iff new device ∨ new type ∨ new location in a known address family ∨
    a non-volatile header differs from the previous search response of that type; `search_alive` otherwise;
  * ssdp:alive: notification iff the same disjunction relative to the previous advertisement of that type;
  * ssdp:update: always; ssdp:byebye: iff the device is in the map; anything else: never;
  * "new location": `locChanged` over the device's locations.  The text does not say whether a location whose
    own validity has lapsed still counts as known, so both readings are accepted (all stored locations /
    only those still valid at the message's timestamp);
  * after the message the headers stored for the message's side equal the message, the other side is what
    it was; at notification time combined = search overlaid by advertisement (names folded, `_source` apart).
-/
import Upnp.Spec.C03
import Upnp.Model.C03Obs
namespace Upnp.C04
open Upnp PyDict Upnp.C03 Upnp.C16

/-- everything observed around one event -/
structure Obs (σ : Type) where
  target : Option σ × Option σ
  pre : Look σ
  cbs : List (Cb σ)
  post : Look σ
deriving Repr

section
variable {σ : Type} [DecidableEq σ]

def val (h : Hdrs σ) (k : σ) : Option σ := (get? h k).map (·.2)

/-- equal as maps folded name ↦ value -/
def mapEq (a b : Hdrs σ) : Bool := (keys a ++ keys b).all fun k => decide (val a k = val b k)

def optMapEq : Option (Hdrs σ) → Option (Hdrs σ) → Bool
  | some a, some b => mapEq a b
  | none, none => true
  | _, _ => false

/-- equal as maps, the entry `src` (`_source`) apart -/
def mapEqBut (src : σ) (a b : Hdrs σ) : Bool :=
  (keys a ++ keys b).all fun k => decide (k = src) || decide (val a k = val b k)

/-- some header of `cur`, not skipped (private `_…` or volatile), is present in `new` with a different value -/
def differs (skip : σ → Bool) (cur new : Hdrs σ) : Bool :=
  cur.any fun p => !(skip p.1) &&
    (match get? new p.1 with
     | some q => decide (p.2.2 ≠ q.2)
     | none => false)

/-- latest search headers overlaid by latest advertisement headers -/
def overlaid (sh ah : Option (Hdrs σ)) : Hdrs σ :=
  match sh, ah with
  | some a, some b => SMap.overlay a b
  | some a, none => a
  | none, some b => b
  | none, none => []

/-- `none` = malformed; `some none` = no notification; `some (some c)` = one notification: exactly one call per
    registered callback flavour (`mode`), identical when both are registered -/
def flavours (mode : CbMode) (cbs : List (Cb σ)) : Option (Option (Cb σ)) :=
  match mode, cbs with
  | _, [] => some none
  | .both, [a, b] =>
    if !a.isAsync && b.isAsync && decide (a.udn = b.udn) && decide (a.ty = b.ty) && decide (a.source = b.source)
       && decide (a.comb = b.comb) then some (some { a with isAsync := false }) else none
  | .sync, [a] => if !a.isAsync then some (some { a with isAsync := false }) else none
  | .async, [a] => if a.isAsync then some (some { a with isAsync := false }) else none
  | _, _ => none

/-- the sender as known at the time of the message: in the map and not expired at `t` (C03: a valid sighting
    purges first) -/
def knownAt (before : Snap σ) (u : σ) (t : Int) : Option (DevObs σ) :=
  (findDev before u).filter fun d => decide (t ≤ d.validTo)

/-- the previous message of the same kind (search / advertisement) and type, if the device is known -/
def prevSame (m : Msg σ) (dB : Option (DevObs σ)) (pre : Look σ) : Option (Hdrs σ) :=
  if dB.isSome then (if m.kind = .search then pre.sh else pre.ah) else none

def prevOther (m : Msg σ) (dB : Option (DevObs σ)) (pre : Look σ) : Option (Hdrs σ) :=
  if dB.isSome then (if m.kind = .search then pre.ah else pre.sh) else none

/-- new device ∨ new type for the device ∨ a non-volatile header differs from the previous message of that kind and type -/
def baseChange (skip : σ → Bool) (m : Msg σ) (ty : σ) (dB : Option (DevObs σ)) (pre : Look σ) : Bool :=
  !dB.isSome || (!(pre.st.contains ty) && !(pre.adv.contains ty)) ||
  (match prevSame m dB pre with
   | some cur => differs skip cur m.hdrs
   | none => false)

def locsAll (dB : Option (DevObs σ)) : List (σ × Int) :=
  match dB with
  | some d => d.locs
  | none => []

/-- the notification is the one the text prescribes; `cA` / `cL` are the "changed" condition under the two
    readings of "known location" -/
def notifOk (m : Msg σ) (u ty : σ) (n : Option (Cb σ)) (cA cL : Bool) : Bool :=
  match m.kind, n with
  | .search, some c => decide (c.udn = u) && decide (c.ty = ty) &&
      ((decide (c.source = .searchChanged) && (cA || cL)) || (decide (c.source = .searchAlive) && (!cA || !cL)))
  | .search, none => false
  | .alive, some c => decide (c.udn = u) && decide (c.ty = ty) && decide (c.source = .advAlive) && (cA || cL)
  | .alive, none => !cA || !cL
  | .update, some c => decide (c.udn = u) && decide (c.ty = ty) && decide (c.source = .advUpdate)
  | .update, none => false
  | .byebye, _ => false

/-- after the message the headers stored for the message's side equal the message, the other side is what it was -/
def storedOk (m : Msg σ) (post : Look σ) (other : Option (Hdrs σ)) : Bool :=
  (match (if m.kind = .search then post.sh else post.ah) with
   | some h => mapEq h m.hdrs
   | none => false) && optMapEq (if m.kind = .search then post.ah else post.sh) other

def combOk (src : σ) (n : Option (Cb σ)) (post : Look σ) : Bool :=
  match n with
  | some c => mapEqBut src c.comb (overlaid post.sh post.ah)
  | none => true

def sightingOk (ipv : σ → Option Nat) (skip : σ → Bool) (src : σ) (m : Msg σ) (u loc ty : σ)
    (before : Snap σ) (o : Obs σ) (n : Option (Cb σ)) : Bool :=
  decide (o.target = (some u, some ty)) &&
  notifOk m u ty n
    (baseChange skip m ty (knownAt before u m.ts) o.pre || locChanged ipv (locsAll (knownAt before u m.ts)) loc)
    (baseChange skip m ty (knownAt before u m.ts) o.pre ||
      locChanged ipv ((locsAll (knownAt before u m.ts)).filter fun p => decide (m.ts ≤ p.2)) loc) &&
  storedOk m o.post (prevOther m (knownAt before u m.ts) o.pre) &&
  combOk src n o.post

def byebyeOk4 (src : σ) (m : Msg σ) (u ty : σ) (before : Snap σ) (o : Obs σ) (n : Option (Cb σ)) : Bool :=
  let known := (findDev before u).isSome
  match n with
  | some c => known && decide (o.target = (some u, some ty)) && decide (c.udn = u) && decide (c.ty = ty)
      && decide (c.source = .advByebye) && mapEqBut src c.comb (overlaid o.pre.sh (some m.hdrs))
  | none => !known

def stepOk (ipv : σ → Option Nat) (skip : σ → Bool) (src : σ) (mode : CbMode) (e : Ev σ) (before : Snap σ) (o : Obs σ) : Bool :=
  match flavours mode o.cbs with
  | none => false
  | some n =>
    (match e with
     | .msg m =>
       (match m.sighting?, m.ty with
        | some (u, loc), some ty => sightingOk ipv skip src m u loc ty before o n
        | some _, none => false
        | none, _ =>
          (match m.byebye?, m.ty with
           | some u, some ty => byebyeOk4 src m u ty before o n
           | some _, none => false
           | none, _ => n.isNone))
     | .purge _ => n.isNone
     | .noise _ => n.isNone)

/-- the judge: every step of the trace (event, device map before it, observations) -/
def ok (ipv : σ → Option Nat) (skip : σ → Bool) (src : σ) (mode : CbMode) (tr : List (Ev σ × Snap σ × Obs σ)) : Bool :=
  tr.all fun x => stepOk ipv skip src mode x.1 x.2.1 x.2.2

def firstFail (ipv : σ → Option Nat) (skip : σ → Bool) (src : σ) (mode : CbMode) : List (Ev σ × Snap σ × Obs σ) → Nat → Option Nat
  | [], _ => none
  | x :: r, i => if stepOk ipv skip src mode x.1 x.2.1 x.2.2 then firstFail ipv skip src mode r (i + 1) else some i

end
end Upnp.C04
