/-
  C04 — formal reading of "change notifications fire exactly when something changed, with its snapshot".

  The judge `ok` reads, per processed event: the event (property-text reading, `Msg.sighting?` /
  `Msg.byebye?` of Spec/C03), the public device map before it, the sender's stored state before and
  after (`Look`: known types, the search / advertisement headers stored for the message's type) and
  the user callbacks with `combined_headers(type)` read inside them.  It never looks at model state.

  `stepOk`, clause by clause:
  * at most one notification per message and per callback flavour, both flavours identical, for the
    sender's UDN and the message's type (`flavours`);
  * the device map *at the time of the message* is the observed map minus devices whose validity ended
    before the message's timestamp (C03: a valid sighting purges first) — `known`;
  * search response: `search_changed` iff new device ∨ new type ∨ new location in a known address family ∨
    a non-volatile header differs from the previous search response of that type; `search_alive` otherwise;
  * ssdp:alive: notification iff the same disjunction relative to the previous advertisement of that type;
  * ssdp:update: always; ssdp:byebye: iff the device is in the map; anything else: never;
  * "new location": `locChanged` over the device's locations.  The text does not say whether a location whose
    own validity has lapsed still counts as known, so both readings are accepted (all stored locations /
    only those still valid at the message's timestamp);
  * after the message the headers stored for the message's side equal the message, the other side is what
    it was; at notification time combined = search overlaid by advertisement (names folded, `_source` apart).
-/
import Upnp.Spec.C03
import Upnp.Model.C03Obs
namespace Upnp.C04
open Upnp PyDict Upnp.C03 Upnp.C16

/-- everything observed around one event -/
structure Obs (σ : Type) where
  target : Option σ × Option σ
  pre : Look σ
  cbs : List (Cb σ)
  post : Look σ
deriving Repr

section
variable {σ : Type} [DecidableEq σ]

def val (h : Hdrs σ) (k : σ) : Option σ := (get? h k).map (·.2)

/-- equal as maps folded name ↦ value -/
def mapEq (a b : Hdrs σ) : Bool := (keys a ++ keys b).all fun k => decide (val a k = val b k)

def optMapEq : Option (Hdrs σ) → Option (Hdrs σ) → Bool
  | some a, some b => mapEq a b
  | none, none => true
  | _, _ => false

/-- equal as maps, the entry `src` (`_source`) apart -/
def mapEqBut (src : σ) (a b : Hdrs σ) : Bool :=
  (keys a ++ keys b).all fun k => decide (k = src) || decide (val a k = val b k)

/-- a header present in both maps, not skipped (private `_…` or volatile), has different values -/
def differs (skip : σ → Bool) (cur new : Hdrs σ) : Bool :=
  (keys cur).any fun k => !(skip k) &&
    (match val cur k, val new k with
     | some a, some b => decide (a ≠ b)
     | _, _ => false)

/-- latest search headers overlaid by latest advertisement headers -/
def overlaid (sh ah : Option (Hdrs σ)) : Hdrs σ :=
  match sh, ah with
  | some a, some b => SMap.overlay a b
  | some a, none => a
  | none, some b => b
  | none, none => []

/-- `none` = malformed; `some none` = no notification; `some (some c)` = one notification (both flavours equal) -/
def flavours (cbs : List (Cb σ)) : Option (Option (Cb σ)) :=
  match cbs with
  | [] => some none
  | [a, b] =>
    if !a.isAsync && b.isAsync && decide (a.udn = b.udn) && decide (a.ty = b.ty) && decide (a.source = b.source)
       && decide (a.comb = b.comb) then some (some a) else none
  | _ => none

def sightingOk (ipv : σ → Option Nat) (skip : σ → Bool) (src : σ) (m : Msg σ) (u loc ty : σ)
    (before : Snap σ) (o : Obs σ) (n : Option (Cb σ)) : Bool :=
  let dB := (findDev before u).filter fun d => decide (m.ts ≤ d.validTo)
  let known := dB.isSome
  let isSearch := decide (m.kind = .search)
  let newType := !known || (!(o.pre.st.contains ty) && !(o.pre.adv.contains ty))
  let locsAll : List (σ × Int) := match dB with
    | some d => d.locs
    | none => []
  let locsLive := locsAll.filter fun p => decide (m.ts ≤ p.2)
  let prevSame := if known then (if isSearch then o.pre.sh else o.pre.ah) else none
  let prevOther := if known then (if isSearch then o.pre.ah else o.pre.sh) else none
  let diff := match prevSame with
    | some cur => differs skip cur m.hdrs
    | none => false
  let base := !known || newType || diff
  let cA := base || locChanged ipv locsAll loc
  let cL := base || locChanged ipv locsLive loc
  let notifOk := match m.kind, n with
    | .search, some c => decide (c.udn = u) && decide (c.ty = ty) &&
        ((decide (c.source = .searchChanged) && (cA || cL)) || (decide (c.source = .searchAlive) && (!cA || !cL)))
    | .search, none => false
    | .alive, some c => decide (c.udn = u) && decide (c.ty = ty) && decide (c.source = .advAlive) && (cA || cL)
    | .alive, none => !cA || !cL
    | .update, some c => decide (c.udn = u) && decide (c.ty = ty) && decide (c.source = .advUpdate)
    | .update, none => false
    | .byebye, _ => false
  let postSame := if isSearch then o.post.sh else o.post.ah
  let postOther := if isSearch then o.post.ah else o.post.sh
  let storedOk := (match postSame with
      | some h => mapEq h m.hdrs
      | none => false) && optMapEq postOther prevOther
  let combOk := match n with
    | some c => mapEqBut src c.comb (overlaid o.post.sh o.post.ah)
    | none => true
  decide (o.target = (some u, some ty)) && notifOk && storedOk && combOk

def byebyeOk4 (src : σ) (m : Msg σ) (u ty : σ) (before : Snap σ) (o : Obs σ) (n : Option (Cb σ)) : Bool :=
  let known := (findDev before u).isSome
  match n with
  | some c => known && decide (o.target = (some u, some ty)) && decide (c.udn = u) && decide (c.ty = ty)
      && decide (c.source = .advByebye) && mapEqBut src c.comb (overlaid o.pre.sh (some m.hdrs))
  | none => !known

def stepOk (ipv : σ → Option Nat) (skip : σ → Bool) (src : σ) (e : Ev σ) (before : Snap σ) (o : Obs σ) : Bool :=
  match flavours o.cbs with
  | none => false
  | some n =>
    (match e with
     | .msg m =>
       (match m.sighting?, m.ty with
        | some (u, loc), some ty => sightingOk ipv skip src m u loc ty before o n
        | some _, none => false
        | none, _ =>
          (match m.byebye?, m.ty with
           | some u, some ty => byebyeOk4 src m u ty before o n
           | some _, none => false
           | none, _ => n.isNone))
     | .purge _ => n.isNone
     | .noise _ => n.isNone)

/-- the judge: every step of the trace (event, device map before it, observations) -/
def ok (ipv : σ → Option Nat) (skip : σ → Bool) (src : σ) (tr : List (Ev σ × Snap σ × Obs σ)) : Bool :=
  tr.all fun x => stepOk ipv skip src x.1 x.2.1 x.2.2

def firstFail (ipv : σ → Option Nat) (skip : σ → Bool) (src : σ) : List (Ev σ × Snap σ × Obs σ) → Nat → Option Nat
  | [], _ => none
  | x :: r, i => if stepOk ipv skip src x.1 x.2.1 x.2.2 then firstFail ipv skip src r (i + 1) else some i

end
end Upnp.C04
