/-
  C05 — formal reading of "description documents produce a faithful device model".

  `DeviceSpec` is an abstract description (any tree of embedded devices, services with their SCPD
  documents, state variables, actions, icons; every optional element present or absent).
  `renderDevice` / `renderDoc` turn it into the XML trees a device would serve; `mirror` is the
  object model the property demands for it: the same devices, services, actions, arguments bound
  to the *named* related variable, the same type / range / allowed / default / evented metadata
  (texts read with the type's own converter) and URLs resolved against the description URL; in
  strict mode a foreign root / missing state table / unparsable SCPD is an error of the library's
  type, in non-strict mode such a service is empty.  `judge` compares what the implementation
  produced with `mirror`.  Import-free (core only).
-/
import Upnp.Model.C05Factory
namespace Upnp.C05
open Upnp Upnp.C08

structure IconSpec where
  mimetype : Option Str := none
  width : Option Str := none
  height : Option Str := none
  depth : Option Str := none
  url : Option Str := none
deriving DecidableEq, Repr

structure ArgSpec where
  name : Option Str
  direction : Option Str
  related : Option Str
deriving DecidableEq, Repr

structure ActionSpec where
  name : Option Str
  args : List ArgSpec
deriving DecidableEq, Repr

structure VarSpec where
  name : Option Str
  dataType : Option Str
  seAttr : Option Str := none          -- sendEvents="…" attribute
  seElem : Option Str := none          -- <sendEventsAttribute>…</sendEventsAttribute>
  default : Option Str := none
  range : Option (Option Str × Option Str × Option Str) := none   -- minimum, maximum, step
  allowed : Option (List Str) := none  -- allowedValue texts (an empty text is an element without text)
deriving DecidableEq, Repr

structure ScpdSpec where
  vars : Option (List VarSpec)         -- `none`: no serviceStateTable
  actions : Option (List ActionSpec)   -- `none`: no actionList
deriving DecidableEq, Repr

inductive DocSpec
  | scpd (s : ScpdSpec)
  | foreign (ns : Ns) (tag : Tag)      -- some other document (root element given), nothing of an SCPD inside
  | unparsable
  | status (n : Nat)
deriving DecidableEq, Repr

structure ServiceSpec where
  serviceId : Option Str
  serviceType : Option Str
  controlURL : Option Str
  eventSubURL : Option Str
  scpdURL : Option Str
  doc : DocSpec
deriving DecidableEq, Repr

inductive DeviceSpec
  | mk (info : List (Option Str)) (icons : List IconSpec) (services : List ServiceSpec) (embedded : List DeviceSpec)
deriving Repr

/-! ### rendering to XML trees -/

def optLeaf (n : Ns) (t : Tag) : Option Str → List Xml
  | none => []
  | some s => [leaf n t s]

def wrap (n : Ns) (t : Tag) (c : List Xml) : List Xml := if c.isEmpty then [] else [.node n t none none c]

def renderIcon (i : IconSpec) : Xml :=
  .node .device .icon none none
    (optLeaf .device .mimetype i.mimetype ++ optLeaf .device .width i.width ++ optLeaf .device .height i.height
      ++ optLeaf .device .depth i.depth ++ optLeaf .device .url i.url)

def renderService (s : ServiceSpec) : Xml :=
  .node .device .service none none
    (optLeaf .device .serviceType s.serviceType ++ optLeaf .device .serviceId s.serviceId
      ++ optLeaf .device .SCPDURL s.scpdURL ++ optLeaf .device .controlURL s.controlURL
      ++ optLeaf .device .eventSubURL s.eventSubURL)

def renderArg (a : ArgSpec) : Xml :=
  .node .service .argument none none
    (optLeaf .service .name a.name ++ optLeaf .service .direction a.direction
      ++ optLeaf .service .relatedStateVariable a.related)

def renderAction (a : ActionSpec) : Xml :=
  .node .service .action none none
    (optLeaf .service .name a.name ++ wrap .service .argumentList (a.args.map renderArg))

def renderVar (v : VarSpec) : Xml :=
  .node .service .stateVariable v.seAttr none
    (optLeaf .service .name v.name ++ optLeaf .service .dataType v.dataType
      ++ optLeaf .service .sendEventsAttribute v.seElem ++ optLeaf .service .defaultValue v.default
      ++ (match v.range with
          | none => []
          | some (mn, mx, st) => [.node .service .allowedValueRange none none
              (optLeaf .service .minimum mn ++ optLeaf .service .maximum mx ++ optLeaf .service .step st)])
      ++ (match v.allowed with
          | none => []
          | some l => [.node .service .allowedValueList none none (l.map (leaf .service .allowedValue))]))

def renderScpd (s : ScpdSpec) : Xml :=
  .node .service .scpd none none
    ((match s.vars with
      | none => []
      | some l => [.node .service .serviceStateTable none none (l.map renderVar)])
     ++ (match s.actions with
      | none => []
      | some l => [.node .service .actionList none none (l.map renderAction)]))

def renderDoc : DocSpec → Fetch
  | .scpd s => .doc (renderScpd s)
  | .foreign n t => .doc (.node n t none none [])
  | .unparsable => .unparsable
  | .status n => .status n

def infoLeaves : List Tag → List (Option Str) → List Xml
  | t :: ts, o :: os => optLeaf .device t o ++ infoLeaves ts os
  | _, _ => []

mutual
def renderDevice : DeviceSpec → Xml
  | .mk info icons svcs emb =>
      .node .device .device none none
        (infoLeaves infoTags info ++ wrap .device .iconList (icons.map renderIcon)
          ++ wrap .device .serviceList (svcs.map renderService) ++ wrap .device .deviceList (renderDevices emb))
def renderDevices : List DeviceSpec → List Xml
  | [] => []
  | d :: r => renderDevice d :: renderDevices r
end

def renderRoot (d : DeviceSpec) : Xml := .node .device .root none none [renderDevice d]

mutual
def DeviceSpec.depth : DeviceSpec → Nat
  | .mk _ _ _ emb => 1 + depths emb
def depths : List DeviceSpec → Nat
  | [] => 0
  | d :: r => max d.depth (depths r)
end

mutual
def DeviceSpec.allServices : DeviceSpec → List ServiceSpec
  | .mk _ _ svcs emb => svcs ++ allServicesL emb
def allServicesL : List DeviceSpec → List ServiceSpec
  | [] => []
  | d :: r => d.allServices ++ allServicesL r
end

/-- the requester serves the description at `base` and every service's document at its resolved SCPD URL -/
def serve (base : Str) (d : DeviceSpec) (u : Str) : Fetch :=
  if u == base then .doc (renderRoot d)
  else match d.allServices.find? (fun s => joinOpt base s.scpdURL == some u) with
    | some s => renderDoc s.doc
    | none => .status 404

/-! ### the object model the property demands -/

section
variable {F : Type} (fo : FloatOps F) (tb : Table)

def mirrorIcon (base : Str) (i : IconSpec) : Except FErr IconM :=
  iconOf base i.mimetype i.width i.height i.depth i.url

/-- evented: the attribute wins over the element; only the literal `yes` is true -/
def sendEventsOf (v : VarSpec) : Bool :=
  match v.seAttr with
  | some a => a == ['y', 'e', 's']
  | none => match v.seElem with
      | some e => e == ['y', 'e', 's']
      | none => false

/-- the variable the description declares: name (stripped), type, evented flag, and minimum /
    maximum / allowed values / default read with the type's own converter (`varOf`) -/
def mirrorVar (nonStrict : Bool) (v : VarSpec) : Except FErr (VarM F) :=
  varOf fo tb nonStrict v.seAttr v.seElem v.dataType v.default v.name
    (v.range.map fun r => (r.1, r.2.1)) (v.allowed.map fun l => l.map (fun s => if s.isEmpty then none else some s))

/-- arguments are bound by the NAME of their related state variable -/
def mirrorAction (vars : List (VarM F)) (a : ActionSpec) : Except FErr ActM :=
  actionOf (fun r => vars.find? (·.name == r)) a.name
    (a.args.filterMap fun g => completeArg g.name g.direction (g.related.map stripWs))

/-- variables and actions the service document declares; a corrupted document is refused in strict
    mode and gives an empty service in non-strict mode -/
def mirrorBody (nonStrict : Bool) (doc : DocSpec) : Except FErr (List (VarM F) × List ActM) :=
  match doc with
  | .status _ => .error .response
  | .unparsable => if nonStrict then .ok ([], []) else .error .xmlParse
  | .foreign _ _ => if nonStrict then .ok ([], []) else .error .xmlContent
  | .scpd sp =>
      match sp.vars with
      | none => if nonStrict then .ok ([], []) else .error .xmlContent   -- incomplete: empty service
      | some l => degrade nonStrict (match mapE (mirrorVar fo tb nonStrict) l with
        | .error e => .error e
        | .ok vars => match (match sp.actions with
            | none => Except.ok []
            | some l => mapE (mirrorAction vars) l) with
          | .error e => .error e
          | .ok acts => .ok (vars, acts))   -- non-strict: an incomplete description gives an empty service

def mirrorService (nonStrict : Bool) (base : Str) (s : ServiceSpec) : Except FErr (SvcM F) :=
  svcOf base s.serviceId s.serviceType s.controlURL s.eventSubURL s.scpdURL (mirrorBody fo tb nonStrict s.doc)

def mirrorInfo : List Tag → List (Option Str) → List (Option Str)
  | t :: ts, o :: os => (match o with | some s => some s | none => infoDefault t) :: mirrorInfo ts os
  | t :: ts, [] => infoDefault t :: mirrorInfo ts []
  | [], _ => []

mutual
def mirror (nonStrict : Bool) (base : Str) : DeviceSpec → Except FErr (DevM F)
  | .mk info icons svcs emb =>
    match mapE (mirrorIcon base) icons with
    | .error e => .error e
    | .ok ic => match mapE (mirrorService fo tb nonStrict base) svcs with
      | .error e => .error e
      | .ok sv => match mirrors nonStrict base emb with
        | .error e => .error e
        | .ok em => .ok (.mk (mirrorInfo infoTags info) base ic sv em)
def mirrors (nonStrict : Bool) (base : Str) : List DeviceSpec → Except FErr (List (DevM F))
  | [] => .ok []
  | d :: r => match mirror nonStrict base d with
    | .error e => .error e
    | .ok m => match mirrors nonStrict base r with
      | .error e => .error e
      | .ok ms => .ok (m :: ms)
end

/-! ### well-formed descriptions (the domain of the property) -/

def allDistinct (l : List Str) : Bool :=
  match l with
  | [] => true
  | a :: r => !r.contains a && allDistinct r

def distinctPairs (l : List (Str × Str)) : Bool :=
  match l with
  | [] => true
  | a :: r => !r.contains a && distinctPairs r

def isOk {α : Type} : Except Err α → Bool
  | .ok _ => true
  | .error _ => false

/-- the evented flag is written in one of the two UDA notations with the UDA values `yes` / `no`
    (both notations only if they agree); other spellings, conflicts and a missing flag are outside
    what the property settles -/
def VarSpec.seOk (v : VarSpec) : Bool :=
  let yn (s : Str) : Bool := s == ['y', 'e', 's'] || s == ['n', 'o']
  match v.seAttr, v.seElem with
  | some a, none => yn a
  | none, some e => yn e
  | some a, some e => yn a && a == e
  | none, none => false

/-- the variable declares a supported data type -/
def VarSpec.typed (v : VarSpec) : Bool :=
  match v.dataType with
  | some dt => (tb.row? dt).isSome
  | none => false

/-- a well-formed state variable: named, of a supported type, and every declared text (minimum,
    maximum, allowed values, default) is non-empty and denotes a value of that type -/
def VarSpec.wf (v : VarSpec) : Bool :=
  v.name.isSome && !(stripWs (v.name.getD [])).isEmpty
  && (match v.dataType with
      | some dt => match tb.row? dt with
          | some row =>
              let den (o : Option Str) : Bool := match o with
                | some s => isOk (coercePython fo tb row s)
                | none => true
              den v.default && (v.allowed.getD []).all (fun s => den (some s) && (!s.isEmpty || row.ty == .str))
              && (match v.range with | some (mn, mx, _) => den mn && den mx | none => true)
          | none => true       -- unsupported type: an incomplete variable (see `VarSpec.typed`)
      | none => true)          -- no data type: an incomplete variable
  && (match v.allowed with | some l => !l.isEmpty | none => true)
  && (match v.range with
      | some (mn, mx, _) => (mn.isSome || mx.isSome) && mn != some [] && mx != some []
      | none => true)
  && v.default != some []
  && VarSpec.seOk v

def ScpdSpec.wf (s : ScpdSpec) : Bool :=
  match s.vars with
  | none => true
  | some vars =>
      vars.all (VarSpec.wf fo tb) && allDistinct (vars.map fun v => stripWs (v.name.getD []))
      && (match s.actions with
          | none => true
          | some acts =>
              allDistinct (acts.map fun a => a.name.getD [])
              && acts.all fun a => a.name.isSome
                  -- argument names are unique per action AND direction (an in- and an out-argument may share a name)
                  && distinctPairs (a.args.map fun g => (g.name.getD [], g.direction.getD []))
                  && a.args.all fun g => g.name.isSome && g.direction.isSome && g.related.isSome)

/-- a COMPLETE service description: every variable has a supported type and every argument's related
    state variable (name compared after stripping, like variable names) is declared -/
def ScpdSpec.complete (s : ScpdSpec) : Bool :=
  match s.vars with
  | none => true
  | some vars =>
      vars.all (VarSpec.typed tb)
      && (match s.actions with
          | none => true
          | some acts => acts.all fun a => a.args.all fun g =>
              match g.related with
              | some r => vars.any (fun v => stripWs (v.name.getD []) == stripWs r)
              | none => false)

def ServiceSpec.complete (s : ServiceSpec) : Bool :=
  match s.doc with
  | .scpd sp => ScpdSpec.complete tb sp
  | _ => true

def ServiceSpec.wf (s : ServiceSpec) : Bool :=
  s.serviceId.isSome && s.serviceType.isSome && s.controlURL.isSome && s.eventSubURL.isSome && s.scpdURL.isSome
  && (match s.doc with
      | .scpd sp => ScpdSpec.wf fo tb sp
      | .foreign n t => !(n == .service && t == .scpd)
      | .unparsable => true
      | .status _ => false)

def IconSpec.wf (i : IconSpec) : Bool :=
  let isInt (o : Option Str) : Bool := match o with | some s => (pyInt? s).isSome | none => true
  isInt i.width && isInt i.height && isInt i.depth

end

/-- the device types of a list of (embedded) devices -/
def deviceTypes : List DeviceSpec → List Str
  | [] => []
  | .mk info _ _ _ :: r => (info.head?.getD none).getD [] :: deviceTypes r

/-- the UDNs of a list of (embedded) devices -/
def udns : List DeviceSpec → List Str
  | [] => []
  | .mk info _ _ _ :: r => (info.getD 9 none).getD [] :: udns r

/-- device and service types are URNs: they contain no `#` -/
def noHash (s : Str) : Bool := !s.contains '#'

section
variable {F : Type} (fo : FloatOps F) (tb : Table)

mutual
def DeviceSpec.wf (base : Str) : DeviceSpec → Bool
  | .mk info icons svcs emb =>
      info.length == 12 && (info.head?.getD none).isSome
      && icons.all IconSpec.wf
      && svcs.all (ServiceSpec.wf fo tb)
      && allDistinct (svcs.map fun s => s.serviceId.getD [])          -- service ids are unique within a device
      && svcs.all (fun s => noHash (s.serviceType.getD []))
      && wfs base emb
      && allDistinct (udns emb)                                        -- UDNs are unique
      && (deviceTypes emb).all noHash
def wfs (base : Str) : List DeviceSpec → Bool
  | [] => true
  | d :: r => d.wf base && wfs base r
end

/-- every SCPD URL is inside the URL grammar and is not the description itself, and services whose
    SCPD URLs resolve to the same URL are described by the same document (a URL has one content) -/
def urlsOk (base : Str) (d : DeviceSpec) : Bool :=
  let ss := d.allServices
  ss.all (fun s => (joinOpt base s.scpdURL).isSome && joinOpt base s.scpdURL != some base)
  && ss.all (fun s => ss.all fun s' => joinOpt base s.scpdURL != joinOpt base s'.scpdURL || s.doc == s'.doc)

/-! ### judging an observed model -/

/-- the lookup accessors of one `UpnpService`: the keys of `state_variables` / `actions` and, for every
    variable / action, what `state_variable(name)` / `action(name)` return for its own name (position in
    `.values()`, by object identity; `none` = KeyError) -/
structure SvcLook where
  varKeys : List Str
  actKeys : List Str
  varByName : List (Option Nat)
  actByName : List (Option Nat)
deriving DecidableEq, Repr

/-- one device of the flattened graph (pre-order, with its nesting depth), with what its lookup
    accessors return: the keys of `services` / `embedded_devices`, `service(type)` and `service_id(id)` for
    every service's own type / id (positions in `services.values()`), and the accessors of each service -/
structure DevRow (F : Type) where
  depth : Nat
  info : List (Option Str)
  url : Str
  icons : List IconM
  services : List (SvcM F)
  svcKeys : List Str
  embKeys : List Str
  svcByType : List (Option Nat)
  svcById : List (Option Nat)
  svcLooks : List SvcLook
deriving DecidableEq, Repr

/-- `service.state_variable(name)` / `service.action(name)` on the dicts keyed by name -/
def lookOf (s : SvcM F) : SvcLook :=
  { varKeys := s.vars.map (·.name), actKeys := s.actions.map (·.name)
    varByName := s.vars.map fun v => findIdxFrom (fun x => x.name == v.name) s.vars 0
    actByName := s.actions.map fun a => findIdxFrom (fun (x : ActM) => x.name == a.name) s.actions 0 }

/-- the row of one device: `device.service(type)` is the dict lookup by the plain type (the first
    service of that type), `device.service_id(id)` the first service with that id -/
def rowOf (depth : Nat) (info : List (Option Str)) (url : Str) (icons : List IconM) (svcs : List (SvcM F))
    (emb : List (DevM F)) : DevRow F :=
  let keys := keyedKeys (·.serviceType) (·.serviceId) svcs
  { depth := depth, info := info, url := url, icons := icons, services := svcs
    svcKeys := keys
    embKeys := keyedKeys DevM.deviceType DevM.udn emb
    svcByType := svcs.map fun s => findIdxFrom (fun k => k == s.serviceType) keys 0
    svcById := svcs.map fun s => findIdxFrom (fun (x : SvcM F) => x.serviceId == s.serviceId) svcs 0
    svcLooks := svcs.map lookOf }

mutual
def flatten (depth : Nat) : DevM F → List (DevRow F)
  | .mk info url icons svcs emb => rowOf depth info url icons svcs emb :: flattens (depth + 1) emb
def flattens (depth : Nat) : List (DevM F) → List (DevRow F)
  | [] => []
  | d :: r => flatten depth d ++ flattens depth r
end

/-- what was observed: the created graph, or the class of the exception -/
inductive Observed (F : Type)
  | created (rows : List (DevRow F)) (linked : Bool)   -- `linked`: every back-pointer of the graph holds
        -- (service.device, action.service, state_variable.service, embedded.parent_device, argument bound
        --  to the service's own variable object)
  | libraryError        -- UpnpXmlContentError / UpnpXmlParseError (the library's error type)
  | otherError

/-- exceptions of the library's own type (`UpnpError` and its subclasses) -/
def FErr.isLibrary : FErr → Bool
  | .xmlContent => true
  | .xmlParse => true
  | .response => true
  | .upnpError => true
  | .library => true
  | _ => false

/-- what a result of `async_create_device` looks like to the judge: the flattened graph, or whether
    the exception is of the library's error type -/
def observedOf (r : Except FErr (List (DevRow F))) : Observed F :=
  match r with
  | .ok rows => .created rows true
  | .error e => if e.isLibrary then .libraryError else .otherError

/-- the text does not say how an ABSENT optional device element reads (`None` or `""`): the judge
    does not distinguish them -/
def normInfo (o : Option Str) : Option Str :=
  match o with
  | some [] => none
  | x => x

def DevRow.forget (r : DevRow F) : DevRow F := { r with info := r.info.map normInfo }

/-- every service description of the tree is complete -/
def DeviceSpec.complete (d : DeviceSpec) : Bool := d.allServices.all (ServiceSpec.complete tb)

/-- the domain the property settles: a well-formed description; in strict mode moreover complete
    service descriptions (for a corrupted document — foreign root, no state table, unparsable — the
    text demands the library's error; for other incomplete documents it demands nothing in strict mode) -/
def judged (nonStrict : Bool) (base : Str) (d : DeviceSpec) : Bool :=
  d.wf fo tb base && urlsOk base d && (nonStrict || d.complete tb)

/-- the property: a well-formed description yields exactly `mirror` (`norm` forgets what is not
    observable: `allowed_values` is a Python set, so its order and multiplicity); when `mirror` refuses (strict
    mode, bad service document) the library's error type is raised -/
def judge [DecidableEq F] (norm : DevRow F → DevRow F) (nonStrict : Bool) (base : Str) (d : DeviceSpec)
    (o : Observed F) : Bool :=
  if judged fo tb nonStrict base d then
    match mirror fo tb nonStrict base d, o with
    | .ok m, .created rows linked =>
        linked && rows.map (fun r => norm r.forget) == (flatten 0 m).map (fun r => norm r.forget)
    | .ok _, _ => false
    | .error _, .libraryError => true
    | .error _, _ => false
  else true

end
end Upnp.C05
