/-
  C06 — formal reading of "SOAP requests say exactly what the caller asked".
  `ok` judges one call: the declared action, the caller's assignment, and what was observed
  (requests received by the requester, the exception raised, the body as an XML parser reads it).
  Written from the property text; it does not look at the model's request builder.
  Import-free (linked into the driver).
-/
import Upnp.Model.C06Soap
import Upnp.Spec.C08
namespace Upnp.C06

/-- an exception as observed: class name and the names of the library classes in its MRO -/
structure ExcInfo where
  cls : String
  mro : List String
deriving Repr, DecidableEq

def ExcInfo.isLibraryError (e : ExcInfo) : Bool := e.mro.contains "UpnpError"

/-- what is observed of one `async_call` at the requester -/
structure Obs where
  sent : Nat                       -- number of requests the requester received
  err : Option ExcInfo             -- exception raised by the call (none = it returned)
  method : Str := []
  url : Str := []
  headers : List (Str × Str) := []
  tree : Option Xml := none        -- the body as parsed by an XML parser (none = not well-formed)
deriving Repr

/-- "accepted by the declared type, range and allowed values": **C08's acceptance predicate**
    `C08.accept` (declared Python class with `bool ⊑ int`, `datetime ⊑ date`; an aware value for the
    `.tz` types; member of the allowed list by Python `==`; within minimum / maximum by Python `<=`
    — characterised by `C08.accept_iff`) applied to what the declaration's texts denote under the
    row's own `in` coercer (`C08.mkSchema`; in non-strict mode the factory declares no list / range).
    `none` = a declaration the factory itself refuses. -/
def accepts (O : Oracles) (strict : Bool) (d : VarDecl) (v : PyVal) : Option Bool :=
  (schemaOf O strict d).map fun sc =>
    Upnp.C08.accept O d.row.ty d.row.requireTz { min := sc.min, max := sc.max, allowed := sc.allowed } v

/-- every in-argument is supplied and accepted -/
def allAccepted (O : Oracles) (strict : Bool) : List ArgDecl → Kwargs → Option Bool
  | [], _ => some true
  | d :: r, kw =>
    match kw.lookup d.name with
    | none => some false
    | some v =>
      match accepts O strict d.var v with
      | none => none
      | some false => some false
      | some true => allAccepted O strict r kw

/-- the text decodes (declared `in` coercion, C08's `coercePython`) to the supplied value — the
    value itself, or for a `bool` given under an integer type the integer Python considers equal
    to it (`C08.expectBack`) -/
def decodesTo (O : Oracles) (row : TypeRow) (text : Str) (v : PyVal) : Bool :=
  match coercePython O row text with
  | .ok w => w == Upnp.C08.expectBack row.ty v
  | .error _ => false

/-- the children of the action element are exactly the in-arguments, in declared order, each
    a leaf whose text decodes to the supplied value -/
def argsOk (O : Oracles) : List ArgDecl → Kwargs → List Xml → Bool
  | [], _, [] => true
  | d :: r, kw, c :: cs =>
    c.tag == d.name && c.children.isEmpty
    && (match kw.lookup d.name with
        | some v => decodesTo O d.var.row (c.text.getD []) v
        | none => false)
    && argsOk O r kw cs
  | _, _, _ => false

/-- header lookup, names compared case-insensitively; the header must occur exactly once -/
def header? (hs : List (Str × Str)) (k : Str) : Option Str :=
  match hs.filter (fun p => lowerStr p.1 == lowerStr k) with
  | [p] => some p.2
  | _ => none

/-- `text/xml` with `charset` utf-8 (quotes, spaces and case are not significant) -/
def contentTypeOk (v : Str) : Bool :=
  (lowerStr v).filter (fun c => c != ' ' && c != '"') == "text/xml;charset=utf-8".toList

/-- a SOAP envelope whose Body holds exactly one element: `{serviceType}action` with the
    in-arguments -/
def envelopeOk (O : Oracles) (a : ActionDecl) (kw : Kwargs) (t : Xml) : Bool :=
  t.tag == Xml.clark soapEnvNs "Envelope".toList
  && (match t.children.filter (·.tag == Xml.clark soapEnvNs "Body".toList) with
      | [b] => (match b.children with
          | [act] => act.tag == Xml.clark a.serviceType a.name && argsOk O a.inArgs kw act.children
          | _ => false)
      | _ => false)

/-- refused with the library's error before anything is sent -/
def refusedOk (o : Obs) : Bool :=
  o.sent == 0 && (match o.err with | some e => e.isLibraryError | none => false)

/-- exactly one request, and it says exactly what the caller asked -/
def sentOk (O : Oracles) (a : ActionDecl) (kw : Kwargs) (o : Obs) : Bool :=
  o.sent == 1
  && o.method == "POST".toList
  && (match urljoin a.deviceUrl a.controlUrl with | some u => o.url == u | none => true)
  && header? o.headers "SOAPAction".toList == some ('"' :: a.serviceType ++ '#' :: a.name ++ ['"'])
  && (match header? o.headers "Content-Type".toList with | some v => contentTypeOk v | none => false)
  && header? o.headers "Host".toList == some (netloc o.url)
  && (match o.tree with | some t => envelopeOk O a kw t | none => false)

/-- the two clauses of the text, with Python's class relation settling every case -/
def okCore (O : Oracles) (a : ActionDecl) (kw : Kwargs) (o : Obs) : Bool :=
  match allAccepted O a.strict a.inArgs kw with
  | none => true                                   -- declaration outside the modelled domain
  | some false => refusedOk o
  | some true => sentOk O a kw o

/-- the assignment names something that is not an in-argument of the action: the text speaks of
    omitted and of violating in-arguments only — whether extras are ignored or refused is not judged -/
def hasExtras (a : ActionDecl) (kw : Kwargs) : Bool :=
  kw.any fun p => !(a.inArgs.any fun d => d.name == p.1)

/-- a supplied value whose class is a proper subclass of the declared one (`bool` for an integer
    type, `datetime` for `date`): "has the declared type" is not settled by the text, so the
    library may refuse it — but if it accepts it, everything about the request is demanded -/
def unsettled (a : ActionDecl) (kw : Kwargs) : Bool :=
  a.inArgs.any fun d =>
    match kw.lookup d.name with
    | some v => v.isInstance d.var.row.ty && !v.exactType d.var.row.ty
    | none => false

/-- the property, for one call -/
def ok (O : Oracles) (a : ActionDecl) (kw : Kwargs) (o : Obs) : Bool :=
  if hasExtras a kw then true
  else okCore O a kw o || (unsettled a kw && refusedOk o)

/-- the observable form of an exception the model raises (`anc` = library ancestors by class name) -/
def excInfo (anc : String → List String) (e : Exc) : ExcInfo := { cls := e.tok, mro := anc e.tok }

/-- what is observed of a model run: the request as the requester receives it, the body as read
    back by `readEnvelope` -/
def modelObs (anc : String → List String) (res : List Request × Option Exc) : Obs :=
  match res with
  | ([r], _) => { sent := 1, err := none, method := r.method, url := r.url, headers := r.headers,
                  tree := (readEnvelope r.body).map Envelope.tree }
  | (_, e) => { sent := 0, err := e.map (excInfo anc) }

end Upnp.C06
