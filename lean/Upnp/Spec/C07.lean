/-
  C07 — formal reading of "SOAP responses and faults are decoded faithfully".
  `ok` judges one answered call: the declared action, the response (status, body text, and — via
  the XML oracle — the document the body is), and the observed outcome of `async_call`.
  Written from the property text.  Situations the text is silent about (a childless or misplaced
  `Fault`, several faults / response elements, a non-numeric `errorCode`, out-argument text the
  declared type cannot convert, a 200 answer with neither fault nor response element, no body)
  are *not judged* (`ok = true`); the correspondence check still compares them with the model.
  Import-free (linked into the driver).
-/
import Upnp.Model.C07Decode
import Upnp.Spec.C06
namespace Upnp.C07
open Upnp.C06

/-- an observed exception: class / library ancestors and the attributes callers branch on -/
structure ExcObs where
  info : ExcInfo
  code : Option Int := none          -- `error_code`
  desc : Option Str := none          -- `error_desc`
  status : Option Int := none        -- `status`
  /-- the attributes have the types callers compare against: `error_code` / `status` are `None` or a
      genuine `int` (not a `str`, `float` or `bool` that prints the same), `error_desc` is `None` or a `str` -/
  typed : Bool := true
deriving Repr, DecidableEq

inductive OutObs
  | ret (items : List (Str × PyVal))
  | exc (e : ExcObs)
deriving Repr

def ExcObs.isA (e : ExcObs) (cls : String) : Bool := e.info.mro.contains cls

def isExcOf (o : OutObs) (cls : String) : Bool :=
  match o with
  | .exc e => e.isA cls
  | .ret _ => false

/-- "raises the response error carrying the status" -/
def isResponseError (o : OutObs) (status : Int) : Bool :=
  match o with
  | .exc e => e.isA "UpnpResponseError" && e.status == some status && e.typed
  | .ret _ => false

/-- direct children of the envelope's `Body` elements (the standard place of a fault / response) -/
def bodyChildren (x : Xml) : List Xml :=
  (x.children.filter (·.tag == bodyTag)).flatMap (·.children)

/-- exactly one element satisfying `p` sits directly in the envelope's `Body` (used together with
    "exactly one such element in the whole document": then that element is at the standard place) -/
def atBody (x : Xml) (p : Xml → Bool) : Bool := ((bodyChildren x).filter p).length == 1

/-- text of the unique descendant with the tag: `none` = no such element, `some none` = several -/
def uniqueText (f : Xml) (tag : Str) : Option (Option Str) :=
  match f.descendants.filter (·.tag == tag) with
  | [] => some none
  | [e] => some (some (e.text.getD []))
  | _ => none

/-- the fault case: action error with code and description (and status when not 200) -/
def faultOk (f : Xml) (status : Int) (o : OutObs) : Bool :=
  match uniqueText f errorCodeTag, uniqueText f errorDescTag with
  | some codeStr, some desc =>
    let code : Option (Option Int) := faultCode codeStr
    (match code with
     | none => true                                 -- non-numeric errorCode: not judged
     | some c =>
       match o with
       | .exc e => e.isA "UpnpActionError" && e.code == c && e.desc == desc && e.typed
                   && (status == 200 || (e.isA "UpnpResponseError" && e.status == some status))
       | .ret _ => false)
  | _, _ => true                                    -- several code / description elements: not judged

def isOutName (a : ActionDecl) (n : Str) : Bool := (outArg? a n).isSome

/-- the returned mapping is exactly the declared out-arguments present, each converted by its
    declared coercion (of one of its occurrences) -/
def retOk (O : Oracles) (a : ActionDecl) (cs : List Xml) (items : List (Str × PyVal)) : Bool :=
  (items.map (·.1)).Nodup
  && items.all (fun p => cs.any fun c => c.tag == p.1 &&
        (match outArg? a c.tag with
         | some d => (match coercePython O d.var.row (c.text.getD []) with
                      | .ok v => v == p.2
                      | .error _ => false)
         | none => false))
  && cs.all (fun c => !isOutName a c.tag || (items.map (·.1)).contains c.tag)

/-- every present declared out-argument has convertible text -/
def convertible (O : Oracles) (a : ActionDecl) (cs : List Xml) : Bool :=
  cs.all fun c =>
    match outArg? a c.tag with
    | some d => (match coercePython O d.var.row (c.text.getD []) with | .ok _ => true | .error _ => false)
    | none => true

/-- the success case on the response element `r` -/
def responseOk (O : Oracles) (a : ActionDecl) (r : Xml) (o : OutObs) : Bool :=
  let cs := r.children
  let unknown := cs.any fun c => !isOutName a c.tag
  if !convertible O a cs then true                            -- unconvertible text: not judged
  else if unknown && a.strict then isExcOf o "UpnpError"     -- unknown out-argument, strict
  else match o with
    | .ret items => retOk O a cs items
    | .exc _ => false

/-- the judgement once it is settled which document the body is (`res` = the parser's answer) -/
def okDoc (O : Oracles) (a : ActionDecl) (status : Int) (res : Option (Option Xml)) (o : OutObs) : Bool :=
    match res with
    | none => true
    | some none =>
        -- the body is not XML
        if status == 200 then isExcOf o "UpnpXmlParseError" else isResponseError o status
    | some (some doc) =>
      match faults doc with
      | _ :: _ :: _ => true                                   -- several faults: not judged
      | [f] =>
          if !(atBody doc (·.tag == faultTag)) || f.children.isEmpty then true   -- misplaced / childless
          else faultOk f status o
      | [] =>
        if status != 200 then isResponseError o status
        else
          match doc.descendants.filter (·.tag == responseTag a) with
          | [r] => if atBody doc (·.tag == responseTag a) then responseOk O a r o else true
          | _ :: _ :: _ => true
          | [] =>
            match doc.descendants.filter (fun e => Xml.localOf e.tag == a.name ++ "Response".toList) with
            | [] => true                                      -- neither fault nor response: not judged
            | [r] =>
                if a.strict then isExcOf o "UpnpError"        -- foreign namespace, strict
                else if atBody doc (fun e => Xml.localOf e.tag == a.name ++ "Response".toList) then responseOk O a r o else true
            | _ => if a.strict then isExcOf o "UpnpError" else true

/-- The document the body is: padding (`" \t\r\n\0"`) AFTER it is never significant ("regardless of
    … trailing NUL padding").  Padding BEFORE it is not mentioned by the text: a 200 answer is read
    as it stands; for an error answer (status ≠ 200) both readings are accepted — leading padding
    ignored (what the library does today) or not (then a padded body may simply not be XML). -/
def ok (O : Oracles) (X : XmlOracle) (a : ActionDecl) (status : Int) (body : Option Str) (o : OutObs) : Bool :=
  match body with
  | none => true
  | some text =>
    if status == 200 then okDoc O a status (X (rstripPad text)) o
    else okDoc O a status (X (rstripPad text)) o || okDoc O a status (X (stripPad text)) o

/-- the observable form of a model outcome (`anc` = library ancestors by class name) -/
def observe (anc : String → List String) : Outcome → OutObs
  | .ret items => .ret items
  | .exc e =>
    let info : ExcInfo := { cls := e.cls, mro := anc e.cls }
    match e with
    | .actionError c d => .exc { info := info, code := c, desc := d }
    | .actionResponseError c d s => .exc { info := info, code := c, desc := d, status := some s }
    | .responseError s => .exc { info := info, status := some s }
    | _ => .exc { info := info }

end Upnp.C07
