/-
  C08 — formal reading of "UPnP data types: lossless round trip and exact validation".

  * `specTypes`   the 26 type names with the Python class each denotes and whether it demands a
                  timezone (written from the property / UDA, NOT from the source table);
  * `wire`        the wire form the property prescribes (booleans 1/0, integers decimal,
                  dates/times ISO 8601);
  * `rtOk`        round trip: value -> wire string -> value;
  * `spell`/`spellOk`  every accepted input spelling of booleans and ISO timestamps;
  * `accept`      strict-mode acceptance: declared type ∧ range ∧ allowed list ∧ timezone;
  * `setOk`, `setUpnpOk`   a rejected value never becomes the variable's value.

  The judge predicates are evaluated by the driver on the IMPLEMENTATION's observations and are
  the predicates the theorems of `Props/C08.lean` are about.  Import-free (core only).
-/
import Upnp.Model.C08Types
namespace Upnp.C08

/-- the UPnP data types: name, Python class, timezone demanded -/
def specTypes : List (Str × PyType × Bool) := [
  (['u','i','1'], .int, false), (['u','i','2'], .int, false), (['u','i','4'], .int, false),
  (['u','i','8'], .int, false), (['i','1'], .int, false), (['i','2'], .int, false),
  (['i','4'], .int, false), (['i','8'], .int, false), (['i','n','t'], .int, false),
  (['r','4'], .float, false), (['r','8'], .float, false), (['n','u','m','b','e','r'], .float, false),
  (['f','i','x','e','d','.','1','4','.','4'], .float, false), (['f','l','o','a','t'], .float, false),
  (['c','h','a','r'], .str, false), (['s','t','r','i','n','g'], .str, false),
  (['b','o','o','l','e','a','n'], .bool, false),
  (['b','i','n','.','b','a','s','e','6','4'], .str, false), (['b','i','n','.','h','e','x'], .str, false),
  (['u','r','i'], .str, false), (['u','u','i','d'], .str, false),
  (['d','a','t','e'], .date, false),
  (['d','a','t','e','T','i','m','e'], .datetime, false),
  (['d','a','t','e','T','i','m','e','.','t','z'], .datetime, true),
  (['t','i','m','e'], .time, false),
  (['t','i','m','e','.','t','z'], .time, true)]

def specType? (name : Str) : Option (PyType × Bool) :=
  (specTypes.find? (·.1 == name)).map (·.2)

section
variable {F : Type} [DecidableEq F] (fo : FloatOps F)

/-- the wire form the property prescribes -/
def wire : Val F → Str
  | .bool b => [if b then '1' else '0']
  | .int i => decInt i
  | .float f => fo.repr f
  | .str s => s
  | .date d => isoDate d
  | .datetime d t o => isoDate d ++ 'T' :: isoTime .seconds t ++ isoOff o
  | .time t o => isoTime .seconds t ++ isoOff o
  | .none => []

/-- in-domain values: a real calendar date / clock time / offset, and (CPython) an integer `str()` can print -/
def valueOk (v : Val F) : Bool :=
  v.wellFormed &&
  (match v with
   | .int i => (natDigits i.natAbs).length ≤ maxStrDigits
   | _ => true)

/-- a `bool` given for an integer type (Python: `bool` is a subclass of `int`, `True == 1`) -/
def boolAsInt (ty : PyType) (v : Val F) : Bool :=
  ty == .int && (match v with | .bool _ => true | _ => false)

/-- the values the round-trip clause quantifies over: every in-domain value of the declared class
    — exactly that class, or a `bool` under an integer type -/
def rtDomain (ty : PyType) (v : Val F) : Bool :=
  (v.exactType ty || boolAsInt ty v) && valueOk v

/-- the value the round trip must give back: the value itself; a `bool` sent under an integer
    type comes back as the integer equal to it (`True == 1`, `False == 0`) -/
def expectBack (ty : PyType) (v : Val F) : Val F :=
  match ty, v with
  | .int, .bool b => .int (if b then 1 else 0)
  | _, _ => v

/-- round trip as observed: `w` = what `coerce_upnp v` gave, `back` = what `coerce_python` gave for it -/
def rtOk (ty : PyType) (v : Val F) (w : Except Err Str) (back : Except Err (Val F)) : Bool :=
  !rtDomain ty v ||
  (match w, back with
   | .ok s, .ok v' => s == wire fo v && v' == expectBack ty v
   | _, _ => false)

/-! ### accepted input spellings -/

inductive Spelling
  | canon                       -- the wire form itself
  | dtSpace                     -- naive date-time with a space instead of `T`
  | offPlain                    -- offset as ±HHMM
  | offSpacePlain               -- offset as ` ±HHMM`
  | offSpaceColon               -- offset as ` ±HH:MM`
  | zulu (upper : Bool)         -- UTC date-time ending in `Z` / `z`
  | boolWord (k : Nat) (mask : Nat)  -- 1/true/yes (0/false/no), letter `i` upper-cased iff bit `i` of `mask`
deriving DecidableEq, Repr

def asciiUpper (c : Char) : Char := if 97 ≤ c.toNat && c.toNat ≤ 122 then Char.ofNat (c.toNat - 32) else c

def applyMask : Str → Nat → Str
  | [], _ => []
  | c :: s, m => (if m % 2 == 1 then asciiUpper c else c) :: applyMask s (m / 2)

def offPlainStr (o : Int) : Str :=
  (if o < 0 then '-' else '+') :: pad2 (o.natAbs / 60) ++ pad2 (o.natAbs % 60)

def spell : Spelling → Val F → Option Str
  | .canon, v => some (wire fo v)
  | .dtSpace, .datetime d t none => some (isoDate d ++ ' ' :: isoTime .seconds t)
  | .offPlain, .datetime d t (some o) => some (isoDate d ++ 'T' :: isoTime .seconds t ++ offPlainStr o)
  | .offPlain, .time t (some o) => some (isoTime .seconds t ++ offPlainStr o)
  | .offSpacePlain, .datetime d t (some o) => some (isoDate d ++ 'T' :: isoTime .seconds t ++ ' ' :: offPlainStr o)
  | .offSpacePlain, .time t (some o) => some (isoTime .seconds t ++ ' ' :: offPlainStr o)
  | .offSpaceColon, .datetime d t (some o) => some (isoDate d ++ 'T' :: isoTime .seconds t ++ ' ' :: isoOff (some o))
  | .offSpaceColon, .time t (some o) => some (isoTime .seconds t ++ ' ' :: isoOff (some o))
  | .zulu up, .datetime d t (some o) =>
      if o == 0 then some (isoDate d ++ 'T' :: isoTime .seconds t ++ [if up then 'Z' else 'z']) else none
  | .boolWord k m, .bool true =>
      match k with
      | 0 => some ['1']
      | 1 => some (applyMask ['t','r','u','e'] m)
      | 2 => some (applyMask ['y','e','s'] m)
      | _ => none
  | .boolWord k m, .bool false =>
      match k with
      | 0 => some ['0']
      | 1 => some (applyMask ['f','a','l','s','e'] m)
      | 2 => some (applyMask ['n','o'] m)
      | _ => none
  | _, _ => none

/-- the values a spelling clause is about: the wire form for all of `rtDomain`, the alternative
    spellings for values of exactly the declared class -/
def spellDomain (ty : PyType) (sp : Spelling) (v : Val F) : Bool :=
  rtDomain ty v && (sp == .canon || v.exactType ty)

/-- an accepted spelling of an in-domain value must be read back as that value -/
def spellOk (ty : PyType) (sp : Spelling) (v : Val F) (s : Str) (got : Except Err (Val F)) : Bool :=
  !(spellDomain ty sp v && spell fo sp v == some s) ||
  (match got with
   | .ok v' => v' == expectBack ty v
   | _ => false)

/-- any string: the converter answers with a value or with ValueError, nothing else -/
def inOk (got : Except Err (Val F)) : Bool :=
  match got with
  | .ok _ => true
  | .error e => e == .valueError

/-! ### validation -/

/-- the declaration as values (what the declared texts denote) -/
structure DeclVals (F : Type) where
  min : Option (Val F) := none
  max : Option (Val F) := none
  allowed : Option (List (Val F)) := none
deriving Repr

/-- strict mode: accepted iff declared class ∧ timezone where demanded ∧ in the allowed list ∧ within range -/
def accept (ty : PyType) (needTz : Bool) (d : DeclVals F) (v : Val F) : Bool :=
  v.isInstance ty
  && (!needTz || v.hasTz == some true)
  && (match d.allowed with
      | some l => l.any (fun a => pyEq fo v a)
      | none => true)
  && (match d.min with
      | some m => pyLe fo m v == some true
      | none => true)
  && (match d.max with
      | some m => pyLe fo v m == some true
      | none => true)

/-- `validate_value v` observed as `r` -/
def validateOk (ty : PyType) (needTz : Bool) (d : DeclVals F) (v : Val F) (r : SetRes) : Bool :=
  if accept fo ty needTz d v then r == .ok else r == .upnpValueError

/-- `sv.value = v` observed as result `r`, with `.value` reading `before` / `after` around it -/
def setOk (ty : PyType) (needTz : Bool) (d : DeclVals F) (v : Val F) (r : SetRes) (before after : Val F) : Bool :=
  if accept fo ty needTz d v then r == .ok && after == v
  else r == .upnpValueError && after == before

/-- non-strict mode: the property only demands that a rejected value is not stored -/
def setKeeps (v : Val F) (r : SetRes) (before after : Val F) : Bool :=
  if r == .ok then after == v else after == before

/-- `sv.upnp_value = s` where `coerce_python s` was observed as `conv` -/
def setUpnpOk (ty : PyType) (needTz : Bool) (d : DeclVals F) (conv : Except Err (Val F)) (r : SetRes)
    (before after : Val F) : Bool :=
  match conv with
  | .ok v => setOk fo ty needTz d v r before after
  | .error _ => r != .upnpValueError && (after == before || after == .none)

/-! ### the judges as the driver applies them (strict and non-strict factories) -/

/-- a declaration whose texts all denote values must yield a state variable -/
def declOk (r : Except Err Unit) : Bool :=
  match r with
  | .ok _ => true
  | .error _ => false

/-- a spelling must be read as its value, and no conversion may raise anything but ValueError -/
def spellJ (ty : PyType) (sp : Spelling) (v : Val F) (s : Str) (got : Except Err (Val F)) : Bool :=
  spellOk fo ty sp v s got && inOk got

/-- values of a SUBCLASS of the declared class: a `bool` for an integer type, a `datetime` for `date`.
    "Has the declared Python type" does not settle whether these are accepted (Python's `isinstance`
    says yes, a library refusing them reads the text just as well), so acceptance of such a value is
    not judged — only that, if it is refused, it is not stored -/
def unsettled (ty : PyType) (v : Val F) : Bool :=
  !v.exactType ty && v.isInstance ty

/-- `validate_value`: exact acceptance is demanded in strict mode only, and not for `unsettled` values -/
def validateJ (strict : Bool) (ty : PyType) (needTz : Bool) (d : DeclVals F) (v : Val F) (r : SetRes) : Bool :=
  !strict || (if unsettled ty v then r == .ok || r == .upnpValueError else validateOk fo ty needTz d v r)

/-- `x.value = v` (state variable or argument): strict — `setOk`; non-strict or `unsettled` — a rejected
    value is not stored -/
def setJ (strict : Bool) (ty : PyType) (needTz : Bool) (d : DeclVals F) (v : Val F) (r : SetRes)
    (before after : Val F) : Bool :=
  if strict && !unsettled ty v then setOk fo ty needTz d v r before after else setKeeps v r before after

/-- `sv.upnp_value = s`: strict — `setUpnpOk`; non-strict (or a converted value that is `unsettled`) — a
    rejected / unconvertible value is not stored -/
def setUpnpJ (strict : Bool) (ty : PyType) (needTz : Bool) (d : DeclVals F) (conv : Except Err (Val F)) (r : SetRes)
    (before after : Val F) : Bool :=
  match conv with
  | .ok v => if strict && !unsettled ty v then setUpnpOk fo ty needTz d conv r before after
             else setKeeps v r before after
  | .error _ => if strict then setUpnpOk fo ty needTz d conv r before after
                else after == before || after == .none

end
end Upnp.C08
