/-
  C09 — formal reading of "the subscription registry mirrors the publisher, with valid GENA requests".

  The judge looks at a history the way an outside observer does: the calls made, every request the
  (fake) publisher received together with what it answered, the value / exception each call ended
  with, and — after each call — `service_for_sid` for every SID ever seen and `sid_for_service` for
  every service.  Nothing here refers to the handler's code or internals.

  * `foldExch` computes, from the publisher's side alone, the map  SID ↦ service  that is currently
    granted and neither unsubscribed nor lost;   `stepOk` demands that the observed routing equals it;
  * a call that ended with a grant returns that SID and the granted timeout (`grantedTimeout`);
  * within a call, per service: fresh SUBSCRIBEs = refused renewals (+1 for a subscribe call) — a refused
    renewal falls back to a fresh subscription, an unreachable one does not (`fallbackOk`);
  * every request is valid GENA (`validReq`).
  A 200 whose TIMEOUT header mentions `Second-` but is neither `Second-<digits>` (representable) nor
  `Second-infinite` still grants the SID: the registry, the returned SID, fallback and validity clauses are
  judged as always; only the *timeout value* the call returns is then left open (`grantedTimeout = none`).
  Import-free (linked into the driver).
-/
import Upnp.Model.C09Gena
namespace Upnp.C09
open Upnp PyDict

def kSID : Str := ['S','I','D']
def kNT : Str := ['N','T']
def kCALLBACK : Str := ['C','A','L','L','B','A','C','K']
def kTIMEOUT : Str := ['T','I','M','E','O','U','T']
def mSUBSCRIBE : Str := ['S','U','B','S','C','R','I','B','E']
def mUNSUBSCRIBE : Str := ['U','N','S','U','B','S','C','R','I','B','E']
def upnpEvent : Str := ['u','p','n','p',':','e','v','e','n','t']

def hdr (r : Request) (k : Str) : Option Str := get? r.headers k

/-! ### valid GENA -/

/-- `Second-N`, N a non-empty string of decimal digits -/
def validTimeoutText (t : Str) : Bool :=
  secondPrefix.isPrefixOf t && !(t.drop 7).isEmpty && (t.drop 7).all Char.isDigit

/-- `<…>` -/
def validCallbackText (t : Str) : Bool :=
  match t with
  | '<' :: r => r.getLast? == some '>'
  | _ => false

def validReq (r : Request) : Bool :=
  if r.method = mSUBSCRIBE then
    match hdr r kSID with
    | none =>      -- initial: NT, CALLBACK, integer TIMEOUT, no SID
      hdr r kNT == some upnpEvent
      && (match hdr r kCALLBACK with | some c => validCallbackText c | none => false)
      && (match hdr r kTIMEOUT with | some t => validTimeoutText t | none => false)
    | some _ =>    -- renewal: SID, integer TIMEOUT, neither NT nor CALLBACK
      (match hdr r kTIMEOUT with | some t => validTimeoutText t | none => false)
      && (hdr r kNT).isNone && (hdr r kCALLBACK).isNone
  else if r.method = mUNSUBSCRIBE then (hdr r kSID).isSome
  else false

def isInitial (r : Request) : Bool := r.method = mSUBSCRIBE && (hdr r kSID).isNone
def isRenewal (r : Request) : Bool := r.method = mSUBSCRIBE && (hdr r kSID).isSome

/-- every initial SUBSCRIBE of the call carries the notify server's CURRENT callback URL `cb` (the URL at the time of the
    call, not one remembered from an earlier call) -/
def callbackOk (cb : Str) (exch : List Exch) : Bool :=
  exch.all fun e => !isInitial e.req || hdr e.req kCALLBACK == some ('<' :: cb ++ ['>'])

/-! ### what the publisher granted -/

/-- largest number of seconds a `timedelta` can hold -/
def maxTd : Nat := 86399999999999

/-- The timeout a 200 response grants: `Second-N` if present and finite, else the requested one.
    `none`: the header mentions `Second-` but is no (representable) `Second-N` — no demand on the returned
    timeout (the subscription itself is granted all the same). -/
def grantedTimeout (th : Option Str) (requested : Int) : Option Int :=
  match th with
  | none => some requested
  | some v =>
    if v = secondInfinite then some requested
    else if !isInfixB secondPrefix v then some requested
    else if validTimeoutText v && decide (digitsVal (v.drop 7) ≤ maxTd) then some (Int.ofNat (digitsVal (v.drop 7)))
    else none

/-- the TIMEOUT value the publisher was asked for: what stands on the wire in the request -/
def wireTimeout (r : Request) : Option Int :=
  match hdr r kTIMEOUT with
  | some t => if validTimeoutText t then some (Int.ofNat (digitsVal (t.drop 7))) else none
  | none => none

/-- a 200 whose SID header is EMPTY: the property's reactions are "200 with / with new / without SID"; whether an
    empty value grants a subscription named "" or counts as "without SID" is not stated — outside the domain -/
def emptySidGrant (e : Exch) : Bool :=
  match e.react with
  | .resp status (some s) _ => decide (status = 200) && s.isEmpty && e.req.method == mSUBSCRIBE
  | _ => false

/-- the exchange states its granted timeout canonically (otherwise the timeout a call returns is not judged;
    everything else is) -/
def exchInScope (e : Exch) : Bool :=
  match e.react with
  | .resp status _ th => if status = 200 ∧ e.req.method = mSUBSCRIBE then (grantedTimeout th 0).isSome else true
  | _ => true

/-- the publisher-side bookkeeping: SID ↦ service granted and neither unsubscribed nor lost -/
def foldExch (exp : PyDict Str Nat) (e : Exch) : PyDict Str Nat :=
  if e.req.method = mSUBSCRIBE then
    match hdr e.req kSID with
    | none =>              -- initial SUBSCRIBE: a 200 carrying a SID grants it
      (match e.react with
       | .resp status (some s) _ => if status = 200 then set exp s e.req.svc else exp
       | _ => exp)
    | some s0 =>           -- renewal of s0
      (match e.react with
       | .resp status sid' _ =>
         if status = 200 then
           -- accepted; answered with another SID: that one replaces s0
           let s2 := renewedSid s0 sid'
           set (if s2 ≠ s0 then erase exp s0 else exp) s2 e.req.svc
         else erase exp s0      -- refused: lost
       | _ => erase exp s0)     -- unreachable: lost
  else if e.req.method = mUNSUBSCRIBE then
    match hdr e.req kSID with
    | some s0 => erase exp s0   -- issued: gone whether or not confirmed
    | none => exp
  else exp

/-- what the last exchange of a call granted: (SID, TIMEOUT header of the answer, TIMEOUT asked for on the wire) -/
def lastGrant : List Exch → Option (Str × Option Str × Option Int)
  | [] => none
  | [e] =>
    if e.req.method = mSUBSCRIBE then
      match e.react with
      | .resp status sid th =>
        if status = 200 then
          match hdr e.req kSID with
          | none => sid.map fun s => (s, th, wireTimeout e.req)
          | some s0 => some (renewedSid s0 sid, th, wireTimeout e.req)
        else none
      | _ => none
    else none
  | _ :: r => lastGrant r

/-- (sequential form, used for the non-suspending model only) refused renewal ⇒ the next request is a
    fresh SUBSCRIBE for the same service; unreachable ⇒ it is not -/
def fallbackAdjacent : List Exch → Bool
  | [] => true
  | e :: rest =>
    (if isRenewal e.req then
      match e.react with
      | .resp status _ _ =>
        if status = 200 then true
        else (match rest with | n :: _ => isInitial n.req && n.req.svc == e.req.svc | [] => false)
      | _ => (match rest with | n :: _ => !(isInitial n.req && n.req.svc == e.req.svc) | [] => true)
    else true) && fallbackAdjacent rest

def refusedRenewalFor (j : Nat) (e : Exch) : Bool :=
  isRenewal e.req && e.req.svc == j && (match e.react with | .resp st _ _ => st != 200 | _ => false)
def initialFor (j : Nat) (e : Exch) : Bool := isInitial e.req && e.req.svc == j

/-! ### one observed step -/

structure Step where
  call : Call
  exch : List Exch
  res : Result
  routed : List (Str × Option Nat)   -- service_for_sid(s) for the probe SIDs
  sidFor : List (Nat × Option Str)   -- sid_for_service(i) for every service
deriving Repr

/-- the call returned SID `sid` and — where the publisher stated one canonically — the granted timeout -/
def subResOk (res : Result) (sid : Str) (g : Option Int) : Bool :=
  match res with
  | .sub s' t' => s' == sid && (match g with | some x => t' == x | none => true)
  | _ => false

/-- the timeout a grant stands for: the answer's `Second-N`, else the one ASKED FOR ON THE WIRE (what the
    publisher agreed to), not the caller's argument; `none` = no demand -/
def grantOf (th : Option Str) (wire : Option Int) : Option Int :=
  match wire with
  | some w => grantedTimeout th w
  | none => none      -- the request carried no valid TIMEOUT: rejected by the validity clause

def resultOk (s : Step) : Bool :=
  match s.call with
  | .subscribe _ _ | .resubscribe _ _ =>
    (match lastGrant s.exch with
     | some (sid, th, wire) => subResOk s.res sid (grantOf th wire)
     | none => (excOf s.res).isSome)
  | .unsubscribe _ =>
    -- "a successful call returns the SID"; what an unconfirmed unsubscribe returns or raises is not stated
    (match s.exch.getLast? with
     | some e => (match e.react with
        | .resp status _ _ => if status = 200 then (match hdr e.req kSID with | some sid => s.res == .unsub sid | none => true) else true
        | _ => true)
     | none => true)
  | _ => true

/-- the first request of a by-SID / by-service call is about that SID / service -/
def targetOk (s : Step) : Bool :=
  match s.exch with
  | [] => true
  | e :: _ =>
    match s.call with
    | .subscribe i _ => e.req.svc == i && isInitial e.req
    | .resubscribe (.sid x) _ => hdr e.req kSID == some x && isRenewal e.req
    | .resubscribe (.svc i) _ => e.req.svc == i && isRenewal e.req
    | .unsubscribe (.sid x) => hdr e.req kSID == some x && e.req.method == mUNSUBSCRIBE
    | .unsubscribe (.svc i) => e.req.svc == i && e.req.method == mUNSUBSCRIBE
    | _ => true

def callBonus (c : Call) (j : Nat) : Nat :=
  match c with
  | .subscribe i _ => if i = j then 1 else 0
  | _ => 0

/-- for service `j`, within one call: the fresh SUBSCRIBEs are exactly one per refused renewal (plus the
    one a subscribe call makes) — a refused renewal falls back, an unreachable one does not, nothing else
    subscribes.  Independent of the order in which concurrent requests of a `*_all` call go out. -/
def fallbackAt (c : Call) (l : List Exch) (j : Nat) : Bool :=
  l.countP (initialFor j) == l.countP (refusedRenewalFor j) + callBonus c j

def fallbackOk (c : Call) (l : List Exch) : Bool :=
  (l.map (·.req.svc) ++ (match c with | .subscribe i _ => [i] | _ => [])).all (fallbackAt c l)

def routedOk (exp : PyDict Str Nat) (s : Step) : Bool :=
  s.routed.all (fun p => p.2 == get? exp p.1)
  && s.sidFor.all (fun p => match p.2 with
      | none => exp.all (fun q => q.2 != p.1)
      | some sid => get? exp sid == some p.1)

def stepInScope (s : Step) : Bool := s.exch.all exchInScope

/-- "once an unsubscribe has been issued its SID is no longer routed": observed at the moment the UNSUBSCRIBE
    arrives at the publisher, i.e. while the request is still in flight -/
def unsubIssuedOk (l : List Exch) : Bool := l.all fun e => e.req.method != mUNSUBSCRIBE || e.req.routed.isNone

/-- no answer of the step is outside the property's reactions -/
def stepInDomain (s : Step) : Bool := s.exch.all fun e => !emptySidGrant e

def stepOk (exp : PyDict Str Nat) (s : Step) : Bool :=
  routedOk (s.exch.foldl foldExch exp) s
  && resultOk s && targetOk s && fallbackOk s.call s.exch && s.exch.all (fun e => validReq e.req)
  && unsubIssuedOk s.exch

/-- **C09.ok** — judge of a whole history, starting from an empty registry -/
def okFrom : PyDict Str Nat → List Step → Bool
  | _, [] => true
  | exp, s :: rest =>
    if stepInDomain s then stepOk exp s && okFrom (s.exch.foldl foldExch exp) rest
    else true     -- an answer outside the property's reactions (empty SID): compared with the model only from here on

def ok (h : List Step) : Bool := okFrom [] h

/-- diagnostics: index of the first rejected step and the expected map before it (`ok` ⇔ there is none:
    `Props/C09.ok_iff_no_first_bad`) -/
def firstBadFrom : PyDict Str Nat → List Step → Nat → Option (Nat × PyDict Str Nat)
  | _, [], _ => none
  | exp, s :: rest, i =>
    if stepInDomain s then
      if stepOk exp s then firstBadFrom (s.exch.foldl foldExch exp) rest (i + 1) else some (i, exp)
    else none

end Upnp.C09

namespace Upnp.C09
open Upnp PyDict

/-- the step record of the MODEL for one call (what the driver compares the implementation's with) -/
def modelStepS (cfg : Cfg) (susp : Bool) (probes : List Str) (nsvc : Nat) (rt : Routing) (c : Call) (rs : List Reaction) : Step :=
  let o := runCallS cfg susp rt c rs
  { call := c, exch := o.exch, res := o.res,
    routed := probes.map fun s => (s, get? o.rt s),
    sidFor := (List.range nsvc).map fun i => (i, sidForService o.rt i) }

/-- … with a suspending / non-suspending requester -/
def modelTraceS (cfg : Cfg) (susp : Bool) (probes : List Str) (nsvc : Nat) : Routing → List (Call × List Reaction) → List Step
  | _, [] => []
  | rt, (c, rs) :: h => modelStepS cfg susp probes nsvc rt c rs :: modelTraceS cfg susp probes nsvc (runCallS cfg susp rt c rs).rt h

def modelStep (cfg : Cfg) (probes : List Str) (nsvc : Nat) (rt : Routing) (c : Call) (rs : List Reaction) : Step :=
  let o := runCall cfg rt c rs
  { call := c, exch := o.exch, res := o.res,
    routed := probes.map fun s => (s, get? o.rt s),
    sidFor := (List.range nsvc).map fun i => (i, sidForService o.rt i) }

/-- the model's trace of a history of calls, each with the publisher's reaction script -/
def modelTrace (cfg : Cfg) (probes : List Str) (nsvc : Nat) : Routing → List (Call × List Reaction) → List Step
  | _, [] => []
  | rt, (c, rs) :: h => modelStep cfg probes nsvc rt c rs :: modelTrace cfg probes nsvc (runCall cfg rt c rs).rt h

end Upnp.C09
