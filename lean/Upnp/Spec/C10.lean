/-
  C10 — formal reading of "NOTIFY requests are routed by SID and applied completely".

  The judge sees, for one NOTIFY request: the three relevant headers, the property set, the service the
  SID was routed to just before the call (`service_for_sid`), the answer, and — for every service — every
  variable's `value` and `updated_at` before and after plus the `on_event` invocations made during the call.
  It is written per variable from the property text and does not follow the code's loop:

  * status: missing NT or NTS → 400; wrong NT / NTS or missing SID → 412; everything else → 200;
  * not 200, or SID not routed: no variable of any service changes and no callback runs;
  * routed: for every declared variable `x` of that service —
      not named by the property set           → untouched, not listed;
      named, text converts and validates      → holds the converted value, stamped now, listed;
      named, text does not convert            → reads back as absent, listed (its stored value was replaced);
      named, converts but out of range / list → untouched, not listed;
    each independently of the other properties; unknown names are skipped (never listed); the service's
    callback runs exactly once and lists exactly the replaced variables; other services: nothing.
  "Well-formed property set" is read as: names free of braces and, for every variable, one qualified tag
  (`bodyWF`; `{ns}x` and `x` name the same variable but are not mixed within one event; a repeated element
  assigns its last text).  Outside that the routed service's variables are
  compared with the model but not judged (status and the other services still are).  Conversion / validation are C08's `coercePython` /
  `Schema.check` for the variable's row of the generated type table (all 26 data types), whose correctness
  against the UPnP wire formats is C08's theorems.
  Import-free (linked into the driver).
-/
import Upnp.Model.C10Notify
namespace Upnp.C10
open Upnp PyDict Upnp.C09

def ntEvent : Str := ['u','p','n','p',':','e','v','e','n','t']
def ntsPropchange : Str := ['u','p','n','p',':','p','r','o','p','c','h','a','n','g','e']

/-- the status the property prescribes -/
def specStatus (h : NHeaders) : Nat :=
  if h.nt.isNone || h.nts.isNone then 400
  else if h.nt != some ntEvent || h.nts != some ntsPropchange || h.sid.isNone then 412
  else 200

/-- the child elements of the `e:property` elements, in document order -/
def kids (b : Body) : List Child := (b.filter (·.isProperty)).flatMap (·.children)

def braceFree (s : Str) : Bool := s.all fun c => c != '{' && c != '}'
def childWF (c : Child) : Bool := braceFree c.ns && braceFree c.name

def nodupB : List Str → Bool
  | [] => true
  | a :: r => !r.contains a && nodupB r

/-- well-formed property set: brace-free names, and the elements naming one variable all carry the same
    qualified tag (`x` and `{ns}x` are not mixed for the same `x`).  A tag may repeat: like every XML-to-map
    reading of an event, the last occurrence is the value the event assigns. -/
def bodyWF (b : Body) : Bool :=
  (kids b).all childWF && (kids b).all fun c => (kids b).all fun c' => c.name != c'.name || c.ns == c'.ns

/-- the text the property set carries for variable `x`: that of the last element naming it -/
def carried (x : Str) (b : Body) : Option Str := ((kids b).reverse.find? (·.name == x)).map (·.text)

/-- observation of one variable: (name, value (`.none` = absent), updated_at tick) -/
abbrev VarObs := Str × Val × Option Nat

section
variable [FloatOracle]

structure NObs where
  n : Notify
  tick : Nat
  routedTo : Option Nat
  res : NRes
  before : List (List VarObs)
  after : List (List VarObs)
  events : List (List (List Str))     -- per service: the name lists of the callbacks made during the call
deriving Repr

/-- what the property prescribes for one variable of the routed service:
    (value after, updated after, listed in the callback) -/
def specVar (d : Var) (b : Body) (tick : Nat) (v0 : Val) (u0 : Option Nat) : Val × Option Nat × Bool :=
  match carried d.decl.name b with
  | none => (v0, u0, false)
  | some text =>
    match convert d text with
    | .error _ => (.none, u0, true)
    | .ok v => if validate d v then (v, some tick, true) else (v0, u0, false)

/-- the property set carries a text for the variable that cannot be converted -/
def unconvertible (d : Var) (b : Body) : Bool :=
  match carried d.decl.name b with
  | some text => (match convert d text with | .error _ => true | .ok _ => false)
  | none => false

/-- value and listing always as `specVar` says; `updated_at` too, except for an unconvertible text: the property
    says such a value "reads back as absent" and nothing about its time stamp (audit C10-2) -/
def varOk (d : Var) (b : Body) (tick : Nat) (listed : List Str) (o0 o1 : VarObs) : Bool :=
  o0.1 == d.decl.name && o1.1 == d.decl.name
  && o1.2.1 == (specVar d b tick o0.2.1 o0.2.2).1
  && listed.contains d.decl.name == (specVar d b tick o0.2.1 o0.2.2).2.2
  && (unconvertible d b || o1.2.2 == (specVar d b tick o0.2.1 o0.2.2).2.1)

def zip3 {α β γ : Type} : List α → List β → List γ → List (α × β × γ)
  | a :: as, b :: bs, c :: cs => (a, b, c) :: zip3 as bs cs
  | _, _, _ => []

/-- the routed service: exactly one callback; its list has no repeats and only declared names -/
def routedSvcOk (ds : List Var) (b : Body) (tick : Nat) (o0 o1 : List VarObs) (evs : List (List Str)) : Bool :=
  match evs with
  | [listed] =>
    nodupB listed && listed.all (fun x => (ds.map (·.decl.name)).contains x)
    && o0.length == ds.length && o1.length == ds.length
    && (zip3 ds o0 o1).all (fun t => varOk t.1 b tick listed t.2.1 t.2.2)
  | _ => false

def untouched (o0 o1 : List VarObs) (evs : List (List Str)) : Bool := o0 == o1 && evs.isEmpty

/-- all services, by index: the `target` service (if any) against `routedSvcOk`, every other one untouched -/
def svcsOkAux (b : Body) (tick : Nat) (target : Option Nat) :
    Nat → List (List Var) → List (List VarObs) → List (List VarObs) → List (List (List Str)) → Bool
  | _, [], [], [], [] => true
  | i, ds :: dr, o0 :: r0, o1 :: r1, ev :: re =>
    (if target == some i then (!bodyWF b || routedSvcOk ds b tick o0 o1 ev) else untouched o0 o1 ev)
    && svcsOkAux b tick target (i + 1) dr r0 r1 re
  | _, _, _, _, _ => false

def svcsOk (decls : List (List Var)) (o : NObs) (target : Option Nat) : Bool :=
  svcsOkAux o.n.body o.tick target 0 decls o.before o.after o.events

/-- **C10.stepOk** — judge of one NOTIFY request -/
def stepOk (decls : List (List Var)) (o : NObs) : Bool :=
  o.n.malformed ||      -- a body that is not XML is outside "well-formed property set": compared, not judged
  o.res == .status (specStatus o.n.hdrs)
  && svcsOk decls o (if specStatus o.n.hdrs == 200 then o.routedTo else none)

def ok (decls : List (List Var)) (h : List NObs) : Bool := h.all (stepOk decls)

end

section
variable [FloatOracle]

/-- a variable as declared: its state blanked -/
def Var.blank (v : Var) : Var := { v with st := {} }

/-- the declared variables of a service -/
def declsOf (s : Svc) : List Var := s.vars.map Var.blank

/-! ### the model's observations -/

def svcObs (s : Svc) : List VarObs := s.vars.map fun v => (v.decl.name, Stored.read v.st.stored, v.st.updated)

/-- what the driver compares the implementation's observations with -/
def modelObs (h : Handler) (n : Notify) (tick : Nat) : NObs :=
  let r := handleNotify h n tick
  { n := n, tick := tick, routedTo := n.hdrs.sid.bind (get? h.rt), res := r.2,
    before := h.svcs.map svcObs, after := r.1.svcs.map svcObs,
    events := (h.svcs.zip r.1.svcs).map fun p => p.2.events.drop p.1.events.length }

/-- a sequence of NOTIFY requests; request number `k` arrives at tick `k` -/
def modelTrace : Handler → List Notify → Nat → List NObs
  | _, [], _ => []
  | h, n :: r, k => modelObs h n k :: modelTrace (handleNotify h n k).1 r (k + 1)

end
end Upnp.C10
