/-
  C11 — formal reading of "events that race the SUBSCRIBE response are not lost".

  The judge walks a schedule of external events (subscribe call started / NOTIFY arrived / SUBSCRIBE
  response arrived) with, after each event, what an observer sees: the status answered to the NOTIFY or the
  value the subscribe call returned, and every variable's `value` of every service.  From the events alone
  it keeps: which services have a parked subscribe, which SID the publisher granted to which service
  (a 200 response carrying a SID to a parked subscribe) and the NOTIFYs seen so far (valid headers).

  * every NOTIFY with valid headers is answered 200 (early ones included);
  * after every event, for every service and every variable `x`: take the NOTIFYs received so far for the
    SID granted to that service (none if no SID has been granted), in arrival order; if none carries `x` the
    variable is still absent — in particular NOTIFYs for SIDs never granted affect no service (and the number
    of `on_event` callbacks of a service equals the number of those NOTIFYs: none without a grant) —; otherwise, if
    the text carried by the LATEST one converts and validates, `x` holds exactly that value.  At the event
    "response arrived" this is the property's "once the subscribe call has returned, every variable carried by
    any early NOTIFY holds the value from the latest NOTIFY that carried it".
  Domain (`evInScope`): one subscribe call at a time per service and none after a grant (a call that failed
  may be repeated), distinct SIDs, granted TIMEOUT inside C09's domain,
  well-formed property sets (`C10.bodyWF`).  Judging stops at the first event outside the domain.
  Import-free (linked into the driver).
-/
import Upnp.Model.C11Race
import Upnp.Spec.C10
import Upnp.Spec.C09
namespace Upnp.C11
open Upnp PyDict Upnp.C09 Upnp.C10
variable [FloatOracle]

def hdrsOk (h : NHeaders) : Bool :=
  h.nt == some ntEvent && h.nts == some ntsPropchange && h.sid.isSome

structure Obs where
  ev : Ev
  out : Out
  vals : List (List (Str × Val))   -- after the event: per service, per variable, `.value`
  cbs : List Nat := []                    -- after the event: per service, number of `on_event` invocations so far
deriving Repr

/-- what the judge remembers of the schedule so far -/
structure JS where
  started : List Nat := []
  pend : List Nat := []
  granted : List (Nat × Str) := []     -- service ↦ SID granted
  seen : List Notify := []             -- NOTIFYs with valid headers, arrival order
deriving Repr

def grantedSid (js : JS) (i : Nat) : Option Str := (js.granted.find? (·.1 == i)).map (·.2)

def evInScope (js : JS) : Ev → Bool
  | .start svc _ => !js.pend.contains svc && (grantedSid js svc).isNone
  | .notify n => !hdrsOk n.hdrs || (!n.malformed && bodyWF n.body)
  | .respond svc r =>
    !js.pend.contains svc ||
    (match r with
     | .resp status (some s) th =>
       if status = 200 then !(js.granted.map (·.2)).contains s && (grantedTimeout th 0).isSome else true
     | _ => true)

def advance (js : JS) : Ev → JS
  | .start svc _ => { js with started := svc :: js.started, pend := svc :: js.pend }
  | .notify n => if hdrsOk n.hdrs then { js with seen := js.seen ++ [n] } else js
  | .respond svc r =>
    if js.pend.contains svc then
      let js' := { js with pend := js.pend.filter (· != svc) }
      match r with
      | .resp status (some s) _ => if status = 200 then { js' with granted := js'.granted ++ [(svc, s)] } else js'
      | _ => js'
    else js

/-- the NOTIFYs (valid headers) received so far for the SID granted to service `k`, in arrival order -/
def notifiesFor (js : JS) (k : Nat) : List Notify :=
  match grantedSid js k with
  | some s => js.seen.filter (fun n => n.hdrs.sid == some s)
  | none => []

/-- callbacks ("affect no service"): a service has seen NO callback unless NOTIFYs arrived for the SID granted to
    it, and never more callbacks than such NOTIFYs; how many callbacks report a replayed backlog (one per NOTIFY
    or one for all) is not stated by the text and left to the model comparison (audit C11-2) -/
def cbCountOk (c n : Nat) : Bool := decide (c ≤ n) && (n == 0 || decide (1 ≤ c))

def cbsOkAux (js : JS) : Nat → List Nat → Bool
  | _, [] => true
  | k, c :: r => cbCountOk c (notifiesFor js k).length && cbsOkAux js (k + 1) r

/-- the text of `x` in the latest NOTIFY for `sid` that carried it -/
def latestText (x : Str) (sid : Str) (seen : List Notify) : Option Str :=
  ((seen.filter (fun n => n.hdrs.sid == some sid)).filterMap (fun n => carried x n.body)).getLast?

/-- what the variable must read; `none` = no demand (the latest text is not a valid value) -/
def expectedVal (d : Var) (sid : Option Str) (seen : List Notify) : Option Val :=
  match sid with
  | none => some .none
  | some s =>
    match latestText d.decl.name s seen with
    | none => some .none
    | some text =>
      match convert d text with
      | .ok v => if validate d v then some v else none
      | .error _ => none

def svcValsOk (ds : List Var) (sid : Option Str) (seen : List Notify) (vs : List (Str × Val)) : Bool :=
  vs.length == ds.length &&
  (ds.zip vs).all fun p => p.2.1 == p.1.decl.name &&
    (match expectedVal p.1 sid seen with | some e => p.2.2 == e | none => true)

/-- every service, by index -/
def valsOkAux (js : JS) : Nat → List (List Var) → List (List (Str × Val)) → Bool
  | _, [], [] => true
  | k, ds :: dr, vs :: vr => svcValsOk ds (grantedSid js k) js.seen vs && valsOkAux js (k + 1) dr vr
  | _, _, _ => false

def valsOk (decls : List (List Var)) (js : JS) (vals : List (List (Str × Val))) : Bool :=
  valsOkAux js 0 decls vals

def cbsOk (decls : List (List Var)) (js : JS) (cbs : List Nat) : Bool :=
  cbs.length == decls.length && cbsOkAux js 0 cbs

def outOk (o : Obs) : Bool :=
  match o.ev with
  | .notify n => if hdrsOk n.hdrs then (match o.out with | .notified (.status 200) => true | _ => false) else true
  | _ => true

def okFrom (decls : List (List Var)) : JS → List Obs → Bool
  | _, [] => true
  | js, o :: rest =>
    if evInScope js o.ev then
      outOk o && valsOk decls (advance js o.ev) o.vals && cbsOk decls (advance js o.ev) o.cbs
        && okFrom decls (advance js o.ev) rest
    else true

/-- diagnostics: index of the first rejected observation with the judge's bookkeeping at that point
    (`okFrom` accepts ⇔ there is none: `Props/C11.ok_iff_no_first_bad`) -/
def firstBadFrom (decls : List (List Var)) : JS → List Obs → Nat → Option (Nat × JS)
  | _, [], _ => none
  | js, o :: rest, i =>
    if evInScope js o.ev then
      if outOk o && valsOk decls (advance js o.ev) o.vals && cbsOk decls (advance js o.ev) o.cbs then
        firstBadFrom decls (advance js o.ev) rest (i + 1)
      else some (i, advance js o.ev)
    else none

/-- **C11.ok** -/
def ok (decls : List (List Var)) (h : List Obs) : Bool := okFrom decls {} h

/-- the whole schedule is inside the domain -/
def allInScope : JS → List Ev → Bool
  | _, [] => true
  | js, e :: r => evInScope js e && allInScope (advance js e) r

/-! ### the model's observations -/

def initSvc (ds : List Var) : Svc := { vars := ds.map Var.blank }
def initSt (decls : List (List Var)) : St := { h := { svcs := decls.map initSvc } }

def readVals (s : St) : List (List (Str × Val)) :=
  s.h.svcs.map fun sv => sv.vars.map fun v => (v.decl.name, Stored.read v.st.stored)

def readCbs (s : St) : List Nat := s.h.svcs.map (·.events.length)

def modelTrace (cfg : Cfg) : St → List Ev → Nat → List Obs
  | _, [], _ => []
  | s, e :: r, k =>
    let p := step cfg s e k
    { ev := e, out := p.2, vals := readVals p.1, cbs := readCbs p.1 } :: modelTrace cfg p.1 r (k + 1)

end Upnp.C11
