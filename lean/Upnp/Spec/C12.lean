/-
  C12 — formal reading of "profile subscriptions are all-or-nothing, kept alive, and cleanly ended"
  as a monitor over the observable trace (`List Ev`, oldest first): request log of the publisher with
  virtual timestamps and its reactions, on_event callbacks, caller operations and their results,
  snapshots (profile bookkeeping, handler routing table, renewal task, device.available).

  The monitor is evaluated by the driver on the IMPLEMENTATION's trace; the theorems of
  `Props/C12.lean` are about the same predicates (`subOkPost`, `subFailPost`, `cleanSnap`, `lapseFree…`,
  `Mon`) applied to what the model emits.  Import-free apart from the model vocabulary.
-/
import Upnp.Model.PyDict
import Upnp.Model.C12Types
namespace Upnp.C12
open Upnp PyDict

/-! ### clause predicates -/

def subReqs (reqs : List Req) : List Req := reqs.filter (·.kind == .sub)
def unsubReqs (reqs : List Req) : List Req := reqs.filter (·.kind == .unsub)
def grantedSids (reqs : List Req) : List Sid := reqs.filterMap (·.granted)

def nodupB : List Nat → Bool
  | [] => true
  | a :: r => !r.contains a && nodupB r

/-- "all and only its profile's services", each at most once -/
def onlyProfileServices (n : Nat) (reqs : List Req) : Bool :=
  (subReqs reqs).all (·.svc < n) && nodupB ((subReqs reqs).map (·.svc))

/-- `async_subscribe_services` returned normally: every profile service was subscribed exactly once,
    all were granted, the bookkeeping holds exactly the granted SIDs and they are routed -/
def subOkPost (n : Nat) (reqs : List Req) (subs routed : List Sid) : Bool :=
  onlyProfileServices n reqs
  && (subReqs reqs).length == n
  && (subReqs reqs).all (·.reac.accepts)
  && (unsubReqs reqs).isEmpty
  && subs.length == n
  && (grantedSids (subReqs reqs)).all (subs.contains ·)
  && subs.all ((grantedSids (subReqs reqs)).contains ·)
  && (grantedSids (subReqs reqs)).all (routed.contains ·)

/-- `async_subscribe_services` raised: some SUBSCRIBE failed, nothing is left subscribed (bookkeeping
    empty, no renewal task, none of the SIDs granted during the call routed, an UNSUBSCRIBE issued for
    each of them) -/
def subFailPost (n : Nat) (reqs : List Req) (subs routed : List Sid) (task : Bool) : Bool :=
  onlyProfileServices n reqs
  && (subReqs reqs).any (!·.reac.accepts)
  && subs.isEmpty && !task
  && (grantedSids (subReqs reqs)).all (fun g => !routed.contains g)
  && (grantedSids (subReqs reqs)).all (fun g => (unsubReqs reqs).any (·.sid == some g))

/-- after `async_unsubscribe_services` returned: no SID ever granted to this profile is routed,
    the bookkeeping is empty, the renewal task has ended -/
def cleanSnap (ever subs routed : List Sid) (task : Bool) : Bool :=
  subs.isEmpty && !task && routed.all (fun s => !ever.contains s)

/-- when the publisher would expire a subscription granted/renewed by `r` (arrival + granted timeout;
    an absent TIMEOUT header means the requested one) -/
def expiryOf (subTimeout : Nat) (r : Req) : Option Time :=
  match r.tmo with
  | .sec k => some (r.t + (k : Int) * 1000)
  | .infinite => none
  | .absent => some (r.t + (subTimeout : Int) * 1000)

/-! ### the monitor -/

inductive Pend where
  | none
  | snapAfterUnsub
  | snapAfterSub (res : Res) (auto : Bool)
  | cbFor (svc : Nat) (avail : Bool) (due : Time)     -- a failed renewal must be reported
  | fallbackFor (svc : Nat) (due : Time)              -- (C09) refused renewal is followed by a SUBSCRIBE
deriving DecidableEq, Repr, Inhabited

structure Mon where
  n : Nat
  tolMs : Int
  subTimeout : Nat
  ever : List Sid := []
  expiry : PyDict Sid (Option Time) := []
  avail : Bool := true
  inCall : Option CallK := none
  callReqs : List Req := []          -- requests of the current call, newest first
  quiet : Bool := false
  auto : Bool := false
  calm : Bool := true
  window : List Nat := []
  pend : Pend := .none
  bad : List String := []            -- violated clauses, newest first
deriving Repr, Inhabited

def Mon.flag (m : Mon) (c : Bool) (what : String) : Mon := if c then m else { m with bad := what :: m.bad }

def Ev.time : Ev → Time
  | .req r => r.t
  | .cb t .. | .call t _ | .ret t .. | .snap t .. | .spin t => t

/-- the publisher's bookkeeping after request `r` -/
def pubUpdate (subTimeout : Nat) (ex : PyDict Sid (Option Time)) (r : Req) : PyDict Sid (Option Time) :=
  if !r.reac.accepts then ex else
  match r.kind, r.granted with
  | .unsub, _ => (match r.sid with | some s => erase ex s | none => ex)
  | .renew, some g =>
      let ex := (match r.sid with | some s => if s != g then erase ex s else ex | none => ex)
      set ex g (expiryOf subTimeout r)
  | _, some g => set ex g (expiryOf subTimeout r)
  | _, none => ex

def lapsed (ex : PyDict Sid (Option Time)) (s : Sid) (t : Time) : Bool :=
  match get? ex s with
  | some (some e) => decide (e < t)
  | _ => false

/-- no subscription the publisher holds (for this session) has passed its expiry at time `t` -/
def noneExpired (ex : PyDict Sid (Option Time)) (t : Time) : Bool :=
  ex.all fun p => match p.2 with
    | some e => decide (t ≤ e)
    | none => true

def sumNat (l : List Nat) : Nat := l.foldl (· + ·) 0

/-- phase 1: an obligation on the next event -/
def pendStep (m : Mon) (e : Ev) : Mon :=
  match m.pend with
  | .none => m
  | .snapAfterUnsub =>
    (match e with
     | .snap _ subs routed task _ => { m with pend := .none }.flag (cleanSnap m.ever subs routed task) "clean:state-after-unsubscribe"
     | _ => { m with pend := .none }.flag false "clean:no-snapshot")
  | .snapAfterSub res auto =>
    (match e with
     | .snap _ subs routed task _ =>
        let reqs := m.callReqs.reverse
        (match res with
         | none => { m with pend := .none }.flag (subOkPost m.n reqs subs routed) "allornothing:after-success"
         | some _ => { m with pend := .none }.flag (subFailPost m.n reqs subs routed task) "allornothing:after-failure")
     | _ => { m with pend := .none }.flag false "allornothing:no-snapshot")
  | .cbFor svc av due =>
    if e.time < due then
      (match e with
       | .call _ .unsub => { m with pend := .none }   -- the renewal is cancelled before its reply
       | .snap .. => m
       | _ => { m with pend := .none }.flag false "report:event-before-reply")
    else
      (match e with
       | .cb _ svc' 0 av' => { m with pend := .none, avail := av }.flag (svc' == svc && av' == av) "report:wrong-callback"
       | _ => { m with pend := .none }.flag false "report:failed-renewal-not-reported")
  | .fallbackFor svc due =>
    if e.time < due then
      (match e with
       | .call _ .unsub => { m with pend := .none }
       | .snap .. => m
       | _ => { m with pend := .none }.flag false "report:event-before-reply")
    else
      (match e with
       | .req r => { m with pend := .none }.flag (r.kind == Kind.sub && r.svc == svc) "report:no-fallback-subscribe"
       | _ => { m with pend := .none }.flag false "report:no-fallback-subscribe")

/-- phase 2: the event itself -/
def evStep (m0 : Mon) (m : Mon) (e : Ev) : Mon :=
  match e with
  | .req r =>
    let m := m.flag (!m.quiet) "clean:request-after-unsubscribe"
    -- kept alive: a renewal must arrive before the publisher's expiry
    let m := m.flag (!(r.kind == .renew && m.auto && m.calm && (match r.sid with | some s => lapsed m.expiry s r.t | none => false)))
                    "lapse:renewal-after-expiry"
    let isSubscribe := r.kind != .unsub
    let window := if isSubscribe then (r.lat :: m.window).take m.n else m.window
    let tmoOk := match r.tmo with | .sec k => decide (m.tolMs ≤ (k : Int) * 1000) | _ => true
    let calm := m.calm && (!isSubscribe || (r.reac.accepts && tmoOk && decide ((sumNat window : Int) < m.tolMs)))
    let pend : Pend :=
      if m.inCall.isSome then m.pend
      else match r.kind with
        | .renew => if r.reac.accepts then m.pend
                    else if r.reac == .unreach then .cbFor r.svc false (r.t + r.lat)
                    else .fallbackFor r.svc (r.t + r.lat)
        | .sub => if r.reac.accepts then m.pend else .cbFor r.svc (m.avail && r.reac != .unreach) (r.t + r.lat)
        | .unsub => m.pend
    { m with ever := (match r.granted with | some g => g :: m.ever | none => m.ever),
             expiry := pubUpdate m.subTimeout m.expiry r,
             window, calm, pend,
             callReqs := if m.inCall.isSome then r :: m.callReqs else m.callReqs }
  | .cb _ _ nv _ =>
    -- a callback with an empty change list is legitimate only as the report of a failed renewal
    (match m0.pend with
     | .cbFor .. => m
     | _ => m.flag (nv != 0) "report:spurious-empty-callback")
  | .call _ (.sub _) =>
    { m with inCall := some (.sub false), callReqs := [], quiet := false, calm := true, window := [], auto := false,
             expiry := [] }
  | .call _ .unsub => { m with inCall := some .unsub, callReqs := [], auto := false }
  | .ret _ (.sub a) res =>
    { m with inCall := none, pend := .snapAfterSub res a, auto := a && res.isNone }
  | .ret _ .unsub _ => { m with inCall := none, pend := .snapAfterUnsub, quiet := true }
  | .snap t _ _ _ av =>
    let m := m.flag (av == m.avail) "report:available-flag"
    -- kept alive: with auto-renewal and a well-behaved publisher nothing the publisher holds for this
    -- session has passed its expiry (it was renewed in time)
    if m.auto && m.calm then m.flag (noneExpired m.expiry t) "lapse:expired-at-publisher" else m
  | .spin _ => m.flag false "yield:renewal-loop-does-not-yield"

def mstep (m : Mon) (e : Ev) : Mon := evStep m (pendStep m e) e

def Mon.init (n : Nat) (tolSecs subTimeout : Nat) : Mon := { n, tolMs := (tolSecs : Int) * 1000, subTimeout }

def monitor (n tolSecs subTimeout : Nat) (tr : List Ev) : Mon := tr.foldl mstep (Mon.init n tolSecs subTimeout)

/-- **the judge**: no clause of the property is violated on the trace -/
def ok (n tolSecs subTimeout : Nat) (tr : List Ev) : Bool := (monitor n tolSecs subTimeout tr).bad.isEmpty

end Upnp.C12
