/-
  C12 — formal reading of "profile subscriptions are all-or-nothing, kept alive, and cleanly ended"
  as a monitor over the observable trace (`List Ev`, oldest first): request log of the publisher with
  virtual timestamps and its reactions, on_event callbacks, caller operations and their results,
  snapshots (profile bookkeeping, handler routing table, renewal task, device.available).

  The monitor is evaluated by the driver on the IMPLEMENTATION's trace; the theorems of
  `Props/C12.lean` are about the same predicates and clause monitors (`subOkPost`, `subFailPost`,
  `cleanSnap`, `cleanMon`, `aonMon`, …) applied to what the model emits.  Import-free apart from the model vocabulary.
-/
import Upnp.Model.PyDict
import Upnp.Model.C12Types
namespace Upnp.C12
open Upnp PyDict

/-! ### clause predicates -/

def subReqs (reqs : List Req) : List Req := reqs.filter (·.kind == .sub)
def unsubReqs (reqs : List Req) : List Req := reqs.filter (·.kind == .unsub)
def grantedSids (reqs : List Req) : List Sid := reqs.filterMap (·.granted)

def nodupB : List Nat → Bool
  | [] => true
  | a :: r => !r.contains a && nodupB r

/-- "all and only its profile's services", each at most once -/
def onlyProfileServices (n : Nat) (reqs : List Req) : Bool :=
  (subReqs reqs).all (·.svc < n) && nodupB ((subReqs reqs).map (·.svc))

/-- `async_subscribe_services` returned normally: every profile service was subscribed exactly once,
    all were granted, the bookkeeping holds exactly the granted SIDs and they are routed -/
def subOkPost (n : Nat) (reqs : List Req) (subs routed : List Sid) : Bool :=
  onlyProfileServices n reqs
  && (subReqs reqs).length == n
  && (subReqs reqs).all (·.reac.accepts)
  && (unsubReqs reqs).isEmpty
  && subs.length == n
  && (grantedSids (subReqs reqs)).all (subs.contains ·)
  && subs.all ((grantedSids (subReqs reqs)).contains ·)
  && (grantedSids (subReqs reqs)).all (routed.contains ·)

/-- `async_subscribe_services` raised: some SUBSCRIBE failed, nothing is left subscribed (bookkeeping
    empty, no renewal task, none of the SIDs granted during the call routed, an UNSUBSCRIBE issued for
    each of them) -/
def subFailPost (n : Nat) (reqs : List Req) (subs routed : List Sid) (task : Bool) : Bool :=
  onlyProfileServices n reqs
  && (subReqs reqs).any (!·.reac.accepts)
  && subs.isEmpty && !task
  && (grantedSids (subReqs reqs)).all (fun g => !routed.contains g)
  && (grantedSids (subReqs reqs)).all (fun g => (unsubReqs reqs).any (·.sid == some g))

/-- after `async_unsubscribe_services` returned: no SID ever granted to this profile is routed,
    the bookkeeping is empty, the renewal task has ended -/
def cleanSnap (ever subs routed : List Sid) (task : Bool) : Bool :=
  subs.isEmpty && !task && routed.all (fun s => !ever.contains s)

/-- when the publisher would expire a subscription granted/renewed by `r` (arrival + granted timeout;
    an absent TIMEOUT header means the requested one) -/
def expiryOf (subTimeout : Nat) (r : Req) : Option Time :=
  match r.tmo with
  | .sec k => some (r.t + (k : Int) * 1000)
  | .infinite => none
  | .absent => some (r.t + (subTimeout : Int) * 1000)

/-! ### clause monitors

Each clause of the property is a small state machine folded over the trace (oldest event first);
`bad` collects the violated sub-clauses.  The machines are independent, so each can be reasoned about
(and is proved for the model, `Props/C12.lean`) on its own. -/

def flagged (bad : List String) (c : Bool) (what : String) : List String := if c then bad else what :: bad

def Ev.time : Ev → Time
  | .req r => r.t
  | .cb t .. | .call t _ | .ret t .. | .snap t .. | .spin t => t

/-! #### cleanly ended -/

structure CleanMon where
  ever : List Sid := []        -- every SID granted so far
  quiet : Bool := false        -- after `ret unsub`, before the next `call sub`
  pend : Bool := false         -- the next event must be the snapshot after `ret unsub`
  bad : List String := []
deriving Repr, Inhabited

def cleanStep (m : CleanMon) (e : Ev) : CleanMon :=
  let m : CleanMon :=
    if m.pend then
      (match e with
       | .snap _ subs routed task _ =>
          { m with pend := false, bad := flagged m.bad (cleanSnap m.ever subs routed task) "clean:state-after-unsubscribe" }
       | _ => { m with pend := false, bad := flagged m.bad false "clean:no-snapshot" })
    else m
  match e with
  | .req r => { m with bad := flagged m.bad (!m.quiet) "clean:request-after-unsubscribe",
                       ever := (match r.granted with | some g => g :: m.ever | none => m.ever) }
  | .ret _ .unsub _ => { m with pend := true, quiet := true }
  | .call _ (.sub _) => { m with quiet := false }
  | _ => m

def cleanMon (tr : List Ev) : CleanMon := tr.foldl cleanStep {}

/-! #### all or nothing -/

structure AonMon where
  n : Nat
  inSub : Bool := false
  reqs : List Req := []               -- requests of the current subscribe call, newest first
  pend : Option Res := none           -- the next event must be the snapshot after `ret sub res`
  bad : List String := []
deriving Repr, Inhabited

def aonStep (m : AonMon) (e : Ev) : AonMon :=
  let m : AonMon :=
    match m.pend with
    | none => m
    | some res =>
      (match e with
       | .snap _ subs routed task _ =>
          (match res with
           | none => { m with pend := none, bad := flagged m.bad (subOkPost m.n m.reqs.reverse subs routed) "allornothing:after-success" }
           | some _ => { m with pend := none, bad := flagged m.bad (subFailPost m.n m.reqs.reverse subs routed task) "allornothing:after-failure" })
       | _ => { m with pend := none, bad := flagged m.bad false "allornothing:no-snapshot" })
  match e with
  | .call _ (.sub _) => { m with inSub := true, reqs := [] }
  | .req r => if m.inSub then { m with reqs := r :: m.reqs } else m
  | .ret _ (.sub _) res => { m with inSub := false, pend := some res }
  | _ => m

def aonMon (n : Nat) (tr : List Ev) : AonMon := tr.foldl aonStep { n }

/-! #### a failed renewal is reported once -/

inductive RPend where
  | none
  | cbFor (svc : Nat) (avail : Bool) (due : Time)     -- a failed renewal must be reported at `due`
  | fallbackFor (svc : Nat) (due : Time)              -- (C09) a refused renewal is followed by a SUBSCRIBE
deriving DecidableEq, Repr, Inhabited

structure RepMon where
  avail : Bool := true
  inCall : Bool := false
  pend : RPend := .none
  bad : List String := []
deriving Repr, Inhabited

/-- phase 1 of `repStep`: an obligation that is pending when event `e` arrives (`spin` is the watchdog's
    marker, not an event of the code, and is handled before) -/
def repDue (m0 : RepMon) (e : Ev) : RepMon :=
  match m0.pend with
  | .none => m0
  | .cbFor svc av due =>
    if e.time < due then
      (match e with
       | .call _ .unsub => { m0 with pend := .none }   -- the renewal is cancelled before its reply
       | .snap .. => m0
       | _ => { m0 with pend := .none, bad := flagged m0.bad false "report:event-before-reply" })
    else
      (match e with
       | .cb _ svc' 0 av' => { m0 with pend := .none, avail := av, bad := flagged m0.bad (svc' == svc && av' == av) "report:wrong-callback" }
       | _ => { m0 with pend := .none, bad := flagged m0.bad false "report:failed-renewal-not-reported" })
  | .fallbackFor svc due =>
    if e.time < due then
      (match e with
       | .call _ .unsub => { m0 with pend := .none }
       | .snap .. => m0
       | _ => { m0 with pend := .none, bad := flagged m0.bad false "report:event-before-reply" })
    else
      (match e with
       | .req r => { m0 with pend := .none, bad := flagged m0.bad (r.kind == Kind.sub && r.svc == svc) "report:no-fallback-subscribe" }
       | _ => { m0 with pend := .none, bad := flagged m0.bad false "report:no-fallback-subscribe" })

def repStep (m0 : RepMon) (e : Ev) : RepMon :=
  match e with
  | .spin _ => m0
  | .req r =>
    let m := repDue m0 e
    if m.inCall then m
    else
      (match r.kind with
       | .renew => if r.reac.accepts then m
                   else if r.reac == .unreach then { m with pend := .cbFor r.svc false (r.t + r.lat) }
                   else { m with pend := .fallbackFor r.svc (r.t + r.lat) }
       | .sub => if r.reac.accepts then m
                 else { m with pend := .cbFor r.svc (m.avail && r.reac != .unreach) (r.t + r.lat) }
       | .unsub => m)
  | .cb _ _ nv _ =>
    let m := repDue m0 e
    -- a callback with an empty change list is legitimate only as the report of a failed renewal
    (match m0.pend with
     | .cbFor .. => m
     | _ => { m with bad := flagged m.bad (nv != 0) "report:spurious-empty-callback" })
  | .call .. => { repDue m0 e with inCall := true }
  | .ret .. => { repDue m0 e with inCall := false }
  | .snap _ _ _ _ av => let m := repDue m0 e; { m with bad := flagged m.bad (av == m.avail) "report:available-flag" }

def repMon (tr : List Ev) : RepMon := tr.foldl repStep {}

/-! #### kept alive -/

/-- **the latency margin of the property**, in seconds: the property's "for as long as the publisher accepts
    renewals" is judged while every window of `n` consecutive reply latencies stays below this margin and every
    granted timeout is at least this margin (the quantifier's timeouts start at 61 s).  It is a constant of the
    property, NOT read from the code's `RESUBSCRIBE_TOLERANCE`: a library that renews later than 60 s before the
    expiry is judged against the same 60 s. -/
def marginSecs : Nat := 60


/-- the publisher's bookkeeping after request `r` -/
def pubUpdate (subTimeout : Nat) (ex : PyDict Sid (Option Time)) (r : Req) : PyDict Sid (Option Time) :=
  if !r.reac.accepts then ex else
  match r.kind, r.granted with
  | .unsub, _ => (match r.sid with | some s => erase ex s | none => ex)
  | .renew, some g =>
      let ex := (match r.sid with | some s => if s != g then erase ex s else ex | none => ex)
      set ex g (expiryOf subTimeout r)
  | _, some g => set ex g (expiryOf subTimeout r)
  | _, none => ex

def lapsed (ex : PyDict Sid (Option Time)) (s : Sid) (t : Time) : Bool :=
  match get? ex s with
  | some (some e) => decide (e < t)
  | _ => false

/-- no subscription the publisher holds (for this session) has passed its expiry at time `t` -/
def noneExpired (ex : PyDict Sid (Option Time)) (t : Time) : Bool :=
  ex.all fun p => match p.2 with
    | some e => decide (t ≤ e)
    | none => true

def sumNat (l : List Nat) : Nat := l.foldl (· + ·) 0

structure LapseMon where
  n : Nat
  tolMs : Int
  subTimeout : Nat
  expiry : PyDict Sid (Option Time) := []   -- the publisher's view of this session's subscriptions
  auto : Bool := false                      -- auto-renewal in force (`sub auto` returned, no unsubscribe since)
  calm : Bool := true                       -- the latency / acceptance hypothesis holds so far in this session
  window : List Nat := []                   -- latencies of the last `n` SUBSCRIBE requests
  bad : List String := []
deriving Repr, Inhabited

def lapseStep (m : LapseMon) (e : Ev) : LapseMon :=
  match e with
  | .req r =>
    -- a renewal must arrive before the publisher's expiry
    let bad := flagged m.bad
      (!(r.kind == .renew && m.auto && m.calm && (match r.sid with | some s => lapsed m.expiry s r.t | none => false)))
      "lapse:renewal-after-expiry"
    let isSubscribe := r.kind != .unsub
    let window := if isSubscribe then (r.lat :: m.window).take m.n else m.window
    let tmoOk := match r.tmo with | .sec k => decide (m.tolMs ≤ (k : Int) * 1000) | _ => true
    let calm := m.calm && (!isSubscribe || (r.reac.accepts && tmoOk && decide ((sumNat window : Int) < m.tolMs)))
    { m with bad, window, calm, expiry := pubUpdate m.subTimeout m.expiry r }
  | .call _ (.sub _) => { m with calm := true, window := [], auto := false, expiry := [] }
  | .call _ .unsub => { m with auto := false }
  | .ret _ (.sub a) res => { m with auto := a && res.isNone }
  | .snap t _ _ _ _ =>
    -- with auto-renewal and a well-behaved publisher nothing the publisher holds for this session has
    -- passed its expiry (it was renewed in time)
    if m.auto && m.calm then { m with bad := flagged m.bad (noneExpired m.expiry t) "lapse:expired-at-publisher" } else m
  | _ => m

def lapseMon (n tolSecs subTimeout : Nat) (tr : List Ev) : LapseMon :=
  tr.foldl lapseStep { n, tolMs := (tolSecs : Int) * 1000, subTimeout }

/-! #### the loop yields -/

def yieldBad (tr : List Ev) : List String :=
  if tr.any (fun e => match e with | .spin _ => true | _ => false) then ["yield:renewal-loop-does-not-yield"] else []

/-! ### the judge -/

/-- violated sub-clauses, by clause -/
def violations (n tolSecs subTimeout : Nat) (tr : List Ev) : List String :=
  (aonMon n tr).bad.reverse ++ (lapseMon n tolSecs subTimeout tr).bad.reverse ++ (repMon tr).bad.reverse
    ++ (cleanMon tr).bad.reverse ++ yieldBad tr

/-- **the judge**: no clause of the property is violated on the trace -/
def ok (n tolSecs subTimeout : Nat) (tr : List Ev) : Bool := (violations n tolSecs subTimeout tr).isEmpty

end Upnp.C12
