/-
  C13 — formal reading of the property text: which messages a server with a given device tree
  must emit (the UDA table: one for the root device, two per device, one per service; the subsets
  selected by a search target; nothing otherwise), once, inside the MX window, to the requester;
  the same (type, USN) pairs advertised round-robin and revoked on stop; every message accepted by
  the library's listener as the described device at the description URL.
  `ok` judges a whole observed case (implementation or model).  Import-free.
-/
import Upnp.Model.C13Server
import Upnp.Model.C13Listener
namespace Upnp.C13

/-! ### the table -/

/-- one prescribed message: ST/NT, USN and the UDN of the device it describes -/
structure Exp where
  st : Str
  usn : Str
  dev : Str
deriving Repr, BEq, DecidableEq

def expRoot (t : DevTree) : Exp := ⟨rootDevice, t.udn ++ sep ++ rootDevice, t.udn⟩
def expUuid (d : Dev) : Exp := ⟨d.udn, d.udn, d.udn⟩
def expDevType (st : Str) (d : Dev) : Exp := ⟨st, d.udn ++ sep ++ d.type, d.udn⟩
def expSvc (st : Str) (s : Svc) : Exp := ⟨st, s.owner ++ sep ++ s.type, s.owner⟩

/-- 1 for the root device + 2 per device + 1 per service -/
def expAll (t : DevTree) : List Exp :=
  expRoot t :: (((allDevices t).flatMap fun d => [expUuid d, expDevType d.type d])
    ++ (allServices t).map fun s => expSvc s.type s)

/-- `base:version` with a canonical decimal version -/
def typeParts (s : Str) : Option (Str × Nat) :=
  match rsplitColon s with
  | some (b, v) => (canonNat? v).map fun n => (b, n)
  | none => none

/-- the requested type is the same type at an equal or lower version (ASCII case ignored) -/
def typeMatches (ty st : Str) : Bool :=
  match typeParts (lower ty), typeParts (lower st) with
  | some (b, w), some (b', v) => b == b' && v ≤ w
  | _, _ => false

/-- the messages prescribed for search target `st`; the flag says that ST is compared ignoring
    ASCII case (everything but `ssdp:all` / `upnp:rootdevice`, whose answers carry the advertised
    types verbatim) -/
def expectedBase (t : DevTree) (st : Str) : List Exp × Bool :=
  let l := lower st
  if l = ssdpAll then (expAll t, false)
  else if l = rootDevice then ([expRoot t], false)
  else
    (((allDevices t).filter fun d => lower d.udn == l).map expUuid
      ++ ((allDevices t).filter fun d => typeMatches d.type st).map (expDevType st)
      ++ ((allServices t).filter fun s => typeMatches s.type st).map (expSvc st), true)

/-- … plus, when the responder runs with `ssdp_search_responder_always_rootdevice`, one more root
    device message on every search (that is what the option is for; the default is off) -/
def expected (t : DevTree) (alwaysRoot : Bool) (st : Str) : List Exp × Bool :=
  ((expectedBase t st).1 ++ (if alwaysRoot then [expRoot t] else []), (expectedBase t st).2)

def normKey (ci : Bool) (st usn : Str) : Str × Str := (if ci then lower st else st, usn)

/-! ### observations -/

/-- one emitted datagram as observed, with what the library's listener made of it -/
structure ObsMsg where
  time : Int            -- virtual send time, ms
  dest : Str            -- destination address token
  startLine : Str
  st : Str              -- ST (response) / NT (advertisement)
  usn : Str
  nts : Str             -- `[]` for responses
  location : Str
  heard : Heard
deriving Repr, BEq, DecidableEq

structure SearchObs where
  time : Int
  requester : Str
  req : Req
  raised : Bool             -- the datagram handler raised instead of completing
deriving Repr

structure CaseObs where
  tree : DevTree            -- the instantiated device tree
  alwaysRoot : Bool         -- responder option `ssdp_search_responder_always_rootdevice`
  location : Str            -- the server's description URL
  target : Str              -- where advertisements go
  searches : List SearchObs
  responses : List ObsMsg   -- every datagram on the response socket, in send order (several
                            -- searches may come from one requester: they are not pre-attributed)
  alives : List ObsMsg
  stopTime : Option Int     -- when the announcer was stopped
  annUpto : Option Int      -- until when the announcer was observed (stop time, or the end of the case)
  annStart : Option Int     -- when the announcer was started
  maxAgeMs : Int            -- the max-age the server states in its own messages (CACHE-CONTROL), in ms
  byebyes : List ObsMsg
deriving Repr

/-! ### the judge -/

def okLine : Str := "HTTP/1.1 200 OK".toList
def notifyLine : Str := "NOTIFY * HTTP/1.1".toList

/-- MX window in ms: the requester's MX read as an integer, 0 when absent / negative / not a number -/
def windowMs (mx : Option Str) : Int :=
  match mx with
  | none => 0
  | some s => match pyInt? s with
    | some v => if v > 0 then v * 1000 else 0
    | none => 0

/-- the listener accepted `m` as device `e.dev` at the description URL.  The clause presupposes a
    description URL the listener does not refuse by design (`validLocation` = the listener's own
    `is_usable_location`: a server on `localhost` / loopback / IPv4 link-local is ignored on
    purpose — that is the tracker properties' business); for such a URL nothing is demanded here. -/
def heardOk (loc : Str) (kind : Nat) (m : ObsMsg) (e : Exp) : Bool :=
  !validLocation loc
  || (m.heard.accepted && m.heard.udn == e.dev && m.heard.location == loc && m.heard.dst == m.st
      && m.heard.kind == kind)

def isMSearch (r : Req) : Bool := r.line == mSearchLine && r.man == some ssdpDiscover

def expOf (c : CaseObs) (s : SearchObs) : List Exp × Bool :=
  expected c.tree c.alwaysRoot (s.req.st.getD [])

/-- grouping key of a (ST, USN) pair: ST folded (exact spelling is checked by `accounts`) -/
def keyL (st usn : Str) : Str × Str := (lower st, usn)

def expKeysL (c : CaseObs) (s : SearchObs) : List (Str × Str) := (expOf c s).1.map fun e => keyL e.st e.usn

/-- search `s` can account for datagram `m`: `m` went to `s`'s requester inside `s`'s MX window and
    is one of the messages prescribed for `s`'s target (ST compared as that target demands), its
    USN begins with the described device's UDN, and the listener accepted it as that device -/
def accounts (c : CaseObs) (s : SearchObs) (m : ObsMsg) : Bool :=
  isMSearch s.req && m.dest == s.requester && s.time ≤ m.time && m.time ≤ s.time + windowMs s.req.mx
  && (expOf c s).1.any fun e => normKey (expOf c s).2 e.st e.usn == normKey (expOf c s).2 m.st m.usn
                              && startsWith m.usn e.dev && heardOk c.location 0 m e

def windowEnd (s : SearchObs) : Int := s.time + windowMs s.req.mx

/-- "each answer exactly once, within the MX window, to the requester" for ONE requester `r` all of
    whose requests are M-SEARCHes: the datagrams sent to `r` are, as a multiset of (ST, USN), the
    union of what its searches prescribe, and they can be distributed over those searches' windows:
    for every time span `[a, b]` delimited by a reception and a window end, at least as many
    datagrams with a given (ST, USN) lie in the span as the searches whose whole window lies in the
    span prescribe (the condition for points to be matchable to intervals). -/
def okRequester (c : CaseObs) (r : Str) : Bool :=
  -- per search of `r`: reception time, end of its window, prescribed (ST, USN) keys
  let es := (c.searches.filter (·.requester == r)).map fun s => (s.time, windowEnd s, expKeysL c s)
  -- per datagram to `r`: its key and send time
  let ms := (c.responses.filter (·.dest == r)).map fun m => (keyL m.st m.usn, m.time)
  (ms.map (·.1)).isPerm (es.flatMap (·.2.2))
  && es.all fun ei => es.all fun ej => (ms.map (·.1)).eraseDups.all fun k =>
       decide (((es.filter fun e => ei.1 ≤ e.1 && e.2.1 ≤ ej.2.1).map fun e => e.2.2.count k).sum
               ≤ ms.countP fun m => m.1 == k && ei.1 ≤ m.2 && m.2 ≤ ej.2.1)

/-- the searches and the response socket: no M-SEARCH makes the handler raise; every datagram is a
    well-formed answer accounted for by some search of its destination; and every requester that
    sent only M-SEARCHes got each prescribed answer exactly once inside the windows.  (Requests that
    are not M-SEARCHes, and what is sent to a requester of such a request, are not constrained.) -/
def okResponses (c : CaseObs) : Bool :=
  c.searches.all (fun s => !isMSearch s.req || !s.raised)
  && c.responses.all (fun m =>
        c.searches.any (fun s => s.requester == m.dest && !isMSearch s.req)
        || (m.startLine == okLine && m.nts.isEmpty && m.location == c.location
            && c.searches.any fun s => accounts c s m))
  && c.searches.all fun s =>
        c.searches.any (fun s' => s'.requester == s.requester && !isMSearch s'.req) || okRequester c s.requester

/-- `c` is a sub-multiset of `e` -/
def subMulti {α : Type} [BEq α] : List α → List α → Bool
  | [], _ => true
  | x :: c, e => e.contains x && subMulti c (e.erase x)

def okNotify (c : CaseObs) (nts : Str) (kind : Nat) (m : ObsMsg) : Bool :=
  m.dest == c.target && m.startLine == notifyLine && m.nts == nts && m.location == c.location
  && (expAll c.tree).any fun e => e.st == m.st && e.usn == m.usn && startsWith m.usn e.dev
                                  && heardOk c.location kind m e

def keyOf (m : ObsMsg) : Str × Str := (m.st, m.usn)

/-- round-robin: the announcements repeat with the period of the table, the first round is (a
    prefix of) the table in some order, none after the stop, and they do not cease while the
    announcer is observed -/
def okAlives (c : CaseObs) : Bool :=
  let e := (expAll c.tree).map fun e => (e.st, e.usn)
  let a := c.alives.map keyOf
  subMulti (a.take e.length) e
  && (List.range (a.length - e.length)).all (fun i => a[i]? == a[i + e.length]?)
  && c.alives.all (okNotify c ntsAlive 1)
  && (match c.stopTime with
      | some ts => c.alives.all fun m => m.time ≤ ts
      | none => true)
  -- "periodically": the announcements do not cease while the announcer is observed — the silence
  -- at the end of the observation is not longer than some gap between two announcements seen before.
  -- (No particular spacing is demanded: the text fixes neither the interval nor a send per tick.)
  && (match c.annUpto with
      | some u =>
        let ts := c.alives.map (·.time)
        -- (only a burst at one instant seen so far: no gap is known yet, nothing can be said)
        ((List.range (ts.length - 1)).all fun i => ts.getD (i + 1) 0 - ts.getD i 0 ≤ 0)
        || (List.range (ts.length - 1)).any fun i => u - ts.getD (ts.length - 1) 0 ≤ ts.getD (i + 1) 0 - ts.getD i 0
      | none => true)
  -- it does advertise: an announcer observed for as long as the max-age it states itself (after which
  -- every listener has forgotten the device) has sent at least one announcement
  && (match c.annStart, c.annUpto with
      | some s, some u => decide (c.maxAgeMs ≤ 0) || decide (u - s < c.maxAgeMs) || !c.alives.isEmpty
      | _, _ => true)

/-- `max-age=N` → N·1000 -/
def maxAgeOf (cacheControl : Str) : Int :=
  Int.ofNat (natOfDigits (((cacheControl.dropWhile (· != '=')).drop 1).takeWhile isDigit)) * 1000

def okByebyes (c : CaseObs) : Bool :=
  match c.stopTime with
  | none => c.byebyes.isEmpty
  | some ts =>
    (c.byebyes.map keyOf).isPerm ((expAll c.tree).map fun e => (e.st, e.usn))
    && c.byebyes.all fun m => okNotify c ntsByebye 2 m && m.time == ts

/-- **the judge** -/
def ok (c : CaseObs) : Bool :=
  okResponses c && okAlives c && okByebyes c

/-! ### well-formed trees (the domain of the theorems; checked on every generated tree) -/

def baseOf (s : Str) : Option Str := (typeParts (lower s)).map (·.1)

def wfUdn (u : Str) : Bool := startsWith (lower u) "uuid:".toList && noSep u

/-- UDNs are `uuid:` names (any letter case) without `::` that do not end in `:`; every device and
    service type is `base:version` with a canonical decimal version.  Nothing else: devices may share
    UDNs or types, services may repeat across devices, a device type may equal a service type. -/
def wfTree (t : DevTree) : Bool :=
  (allDevices t).all (fun d => wfUdn d.udn && (baseOf d.type).isSome)
  && (allServices t).all (fun s => (baseOf s.type).isSome)
  && wfUdn t.udn

end Upnp.C13
