/-
  C13 — formal reading of the property text: which messages a server with a given device tree
  must emit (the UDA table: one for the root device, two per device, one per service; the subsets
  selected by a search target; nothing otherwise), once, inside the MX window, to the requester;
  the same (type, USN) pairs advertised round-robin and revoked on stop; every message accepted by
  the library's listener as the described device at the description URL.
  `ok` judges a whole observed case (implementation or model).  Import-free.
-/
import Upnp.Model.C13Server
import Upnp.Model.C13Listener
namespace Upnp.C13

/-! ### the table -/

/-- one prescribed message: ST/NT, USN and the UDN of the device it describes -/
structure Exp where
  st : Str
  usn : Str
  dev : Str
deriving Repr, BEq, DecidableEq

def expRoot (t : DevTree) : Exp := ⟨rootDevice, t.udn ++ sep ++ rootDevice, t.udn⟩
def expUuid (d : Dev) : Exp := ⟨d.udn, d.udn, d.udn⟩
def expDevType (st : Str) (d : Dev) : Exp := ⟨st, d.udn ++ sep ++ d.type, d.udn⟩
def expSvc (st : Str) (s : Svc) : Exp := ⟨st, s.owner ++ sep ++ s.type, s.owner⟩

/-- 1 for the root device + 2 per device + 1 per service -/
def expAll (t : DevTree) : List Exp :=
  expRoot t :: (((allDevices t).flatMap fun d => [expUuid d, expDevType d.type d])
    ++ (allServices t).map fun s => expSvc s.type s)

/-- `base:version` with a canonical decimal version -/
def typeParts (s : Str) : Option (Str × Nat) :=
  match rsplitColon s with
  | some (b, v) => (canonNat? v).map fun n => (b, n)
  | none => none

/-- the requested type is the same type at an equal or lower version (ASCII case ignored) -/
def typeMatches (ty st : Str) : Bool :=
  match typeParts (lower ty), typeParts (lower st) with
  | some (b, w), some (b', v) => b == b' && v ≤ w
  | _, _ => false

/-- the messages prescribed for search target `st`; the flag says that ST is compared ignoring
    ASCII case (everything but `ssdp:all` / `upnp:rootdevice`, whose answers carry the advertised
    types verbatim) -/
def expectedBase (t : DevTree) (st : Str) : List Exp × Bool :=
  let l := lower st
  if l = ssdpAll then (expAll t, false)
  else if l = rootDevice then ([expRoot t], false)
  else
    (((allDevices t).filter fun d => lower d.udn == l).map expUuid
      ++ ((allDevices t).filter fun d => typeMatches d.type st).map (expDevType st)
      ++ ((allServices t).filter fun s => typeMatches s.type st).map (expSvc st), true)

/-- … plus, when the responder runs with `ssdp_search_responder_always_rootdevice`, one more root
    device message on every search (that is what the option is for; the default is off) -/
def expected (t : DevTree) (alwaysRoot : Bool) (st : Str) : List Exp × Bool :=
  ((expectedBase t st).1 ++ (if alwaysRoot then [expRoot t] else []), (expectedBase t st).2)

def normKey (ci : Bool) (st usn : Str) : Str × Str := (if ci then lower st else st, usn)

/-! ### observations -/

/-- one emitted datagram as observed, with what the library's listener made of it -/
structure ObsMsg where
  time : Int            -- virtual send time, ms
  dest : Str            -- destination address token
  startLine : Str
  st : Str              -- ST (response) / NT (advertisement)
  usn : Str
  nts : Str             -- `[]` for responses
  location : Str
  heard : Heard
deriving Repr, BEq, DecidableEq

structure SearchObs where
  time : Int
  requester : Str
  req : Req
  raised : Bool             -- the datagram handler raised instead of completing
  sends : List ObsMsg
deriving Repr

structure CaseObs where
  tree : DevTree            -- the instantiated device tree
  alwaysRoot : Bool         -- responder option `ssdp_search_responder_always_rootdevice`
  location : Str            -- the server's description URL
  target : Str              -- where advertisements go
  searches : List SearchObs
  alives : List ObsMsg
  stopTime : Option Int     -- when the announcer was stopped
  annUpto : Option Int      -- until when the announcer was observed (stop time, or the end of the case)
  byebyes : List ObsMsg
deriving Repr

/-! ### the judge -/

def okLine : Str := "HTTP/1.1 200 OK".toList
def notifyLine : Str := "NOTIFY * HTTP/1.1".toList

/-- MX window in ms: the requester's MX read as an integer, 0 when absent / negative / not a number -/
def windowMs (mx : Option Str) : Int :=
  match mx with
  | none => 0
  | some s => match pyInt? s with
    | some v => if v > 0 then v * 1000 else 0
    | none => 0

/-- the listener accepted `m` as device `e.dev` at the description URL -/
def heardOk (loc : Str) (kind : Nat) (m : ObsMsg) (e : Exp) : Bool :=
  m.heard.accepted && m.heard.udn == e.dev && m.heard.location == loc && m.heard.dst == m.st
  && m.heard.kind == kind

def isMSearch (r : Req) : Bool := r.line == mSearchLine && r.man == some ssdpDiscover

def okSearch (c : CaseObs) (s : SearchObs) : Bool :=
  !isMSearch s.req ||
  (let (exp, ci) := expected c.tree c.alwaysRoot (s.req.st.getD [])
   !s.raised
   && (s.sends.map fun m => normKey ci m.st m.usn).isPerm (exp.map fun e => normKey ci e.st e.usn)
   && s.sends.all fun m =>
        m.dest == s.requester && s.time ≤ m.time && m.time ≤ s.time + windowMs s.req.mx
        && m.startLine == okLine && m.nts.isEmpty && m.location == c.location
        && exp.any fun e => normKey ci e.st e.usn == normKey ci m.st m.usn
                            && startsWith m.usn e.dev && heardOk c.location 0 m e)

/-- `c` is a sub-multiset of `e` -/
def subMulti {α : Type} [BEq α] : List α → List α → Bool
  | [], _ => true
  | x :: c, e => e.contains x && subMulti c (e.erase x)

def okNotify (c : CaseObs) (nts : Str) (kind : Nat) (m : ObsMsg) : Bool :=
  m.dest == c.target && m.startLine == notifyLine && m.nts == nts && m.location == c.location
  && (expAll c.tree).any fun e => e.st == m.st && e.usn == m.usn && startsWith m.usn e.dev
                                  && heardOk c.location kind m e

def keyOf (m : ObsMsg) : Str × Str := (m.st, m.usn)

/-- round-robin: the announcements repeat with the period of the table, the first round is (a
    prefix of) the table in some order, none after the stop, and they do not cease while the
    announcer is observed -/
def okAlives (c : CaseObs) : Bool :=
  let e := (expAll c.tree).map fun e => (e.st, e.usn)
  let a := c.alives.map keyOf
  subMulti (a.take e.length) e
  && (List.range (a.length - e.length)).all (fun i => a[i]? == a[i + e.length]?)
  && c.alives.all (okNotify c ntsAlive 1)
  && (match c.stopTime with
      | some ts => c.alives.all fun m => m.time ≤ ts
      | none => true)
  -- "periodically": the announcements do not cease while the announcer is observed — the silence
  -- at the end of the observation is not longer than some gap between two announcements seen before.
  -- (No particular spacing is demanded: the text fixes neither the interval nor a send per tick.)
  && (match c.annUpto with
      | some u =>
        let ts := c.alives.map (·.time)
        -- (only a burst at one instant seen so far: no gap is known yet, nothing can be said)
        ((List.range (ts.length - 1)).all fun i => ts.getD (i + 1) 0 - ts.getD i 0 ≤ 0)
        || (List.range (ts.length - 1)).any fun i => u - ts.getD (ts.length - 1) 0 ≤ ts.getD (i + 1) 0 - ts.getD i 0
      | none => true)

def okByebyes (c : CaseObs) : Bool :=
  match c.stopTime with
  | none => c.byebyes.isEmpty
  | some ts =>
    (c.byebyes.map keyOf).isPerm ((expAll c.tree).map fun e => (e.st, e.usn))
    && c.byebyes.all fun m => okNotify c ntsByebye 2 m && m.time == ts

/-- **the judge** -/
def ok (c : CaseObs) : Bool :=
  c.searches.all (okSearch c) && okAlives c && okByebyes c

/-! ### well-formed trees (the domain of the theorems; checked on every generated tree) -/

def baseOf (s : Str) : Option Str := (typeParts (lower s)).map (·.1)

def wfUdn (u : Str) : Bool := startsWith (lower u) "uuid:".toList && noSep u

/-- UDNs are `uuid:` names (any letter case) without `::` that do not end in `:`; every device and
    service type is `base:version` with a canonical decimal version.  Nothing else: devices may share
    UDNs or types, services may repeat across devices, a device type may equal a service type. -/
def wfTree (t : DevTree) : Bool :=
  (allDevices t).all (fun d => wfUdn d.udn && (baseOf d.type).isSome)
  && (allServices t).all (fun s => (baseOf s.type).isSome)
  && wfUdn t.udn

end Upnp.C13
