/-
  C14 — formal reading of "server description and control interoperate with the library's own
  client".  These predicates judge what is *observed* (from the implementation by the harness, or
  from the model in the theorems of `Props/C14.lean`):

  * `varMatches` / `actMatches` / `svcMatches` / `devMatches`: the client-side model equals the
    definition (typed view: data type, evented flag, typed bounds, allowed *set*, typed default;
    actions with their in/out argument bindings in order; device tree with services).
  * `callOk`: a call with valid arguments reached the handler with exactly those typed values and
    returned exactly the handler's typed results; a handler-raised action error arrives as an action
    error with the same UPnP code.
  * `rawOk`: whatever the request, no unhandled server exception; an invalid request (malformed
    envelope, unknown action, unknown / missing / unparseable / out-of-range / not-allowed argument)
    is answered with a SOAP fault or a 4xx status; a clean valid request is served.
  Import-free apart from the model (linked into the driver).
-/
import Upnp.Model.C14Server
namespace Upnp.C14
open Upnp

/-! ### description -/

/-- typed reading of an optional text under a data type -/
inductive TV
  | none
  | val (v : Val)
  | raises
deriving DecidableEq, Repr

def tvOf (fs : Facts) (dt : Str) : Option Str → TV
  | .none => .none
  | .some s => match inp fs dt s with
    | some v => .val v
    | none => .raises

def tvEq : TV → TV → Bool
  | .none, .none => true
  | .val a, .val b => eqPy a b
  | _, _ => false

/-- the public, typed view of a state variable (`UpnpStateVariable` properties) -/
structure VarView where
  name : Str
  dtype : Str
  evented : Bool
  tmin : TV
  tmax : TV
  tdefault : TV
  tallowed : Option (List Val)    -- `none` = the property raises
deriving Repr

def allowedView (fs : Facts) (vd : VarDef) : Option (List Val) :=
  let l := (vd.allowed.getD []).map (inp fs vd.dtype)
  if l.all (·.isSome) then some (l.filterMap id) else none

def viewOf (fs : Facts) (vd : VarDef) : VarView :=
  { name := vd.name, dtype := vd.dtype, evented := vd.evented
    tmin := tvOf fs vd.dtype vd.min, tmax := tvOf fs vd.dtype vd.max
    tdefault := tvOf fs vd.dtype vd.default, tallowed := allowedView fs vd }

def sameVals (a b : List Val) : Bool :=
  a.all (fun x => b.any (eqPy x)) && b.all (fun x => a.any (eqPy x))

/-- the client's view `o` of a variable equals the definition `vd` -/
def varMatches (fs : Facts) (vd : VarDef) (o : VarView) : Bool :=
  let d := viewOf fs vd
  o.name = d.name && o.dtype = d.dtype && o.evented = d.evented
  && tvEq o.tmin d.tmin && tvEq o.tmax d.tmax && tvEq o.tdefault d.tdefault
  && (match o.tallowed, d.tallowed with
      | some a, some b => sameVals a b
      | _, _ => false)

/-- observed action: name, in-arguments and out-arguments as (argument, related variable) in order -/
structure ActView where
  name : Str
  ins : List (Str × Str)
  outs : List (Str × Str)
deriving DecidableEq, Repr

def actViewOf (a : SAct) : ActView :=
  { name := a.name, ins := a.ins.map (fun x => (x.name, x.var.name)), outs := a.outs.map (fun x => (x.name, x.var.name)) }

def actMatches (ad : ActDef) (o : ActView) : Bool :=
  o.name = ad.name && o.ins = ad.ins.map (fun x => (x.name, x.var)) && o.outs = ad.outs.map (fun x => (x.name, x.var))

def allMatch {α β : Type} (f : α → β → Bool) : List α → List β → Bool
  | [], [] => true
  | a :: r, b :: s => f a b && allMatch f r s
  | _, _ => false

/-- the client's service model equals the definition: same variables (in order), same actions -/
def svcMatches (fs : Facts) (vars : List VarDef) (acts : List ActDef)
    (ovars : List VarView) (oacts : List ActView) : Bool :=
  allMatch (varMatches fs) vars ovars && allMatch actMatches acts oacts

def optEq (a b : Option Str) : Bool := a.getD [] = b.getD []

/-- device trees agree: text fields (Python `None` and the empty text are identified, the
    description format cannot tell them apart), services, embedded devices -/
def devMatches : Nat → DevDef → DevDef → Bool
  | 0, _, _ => false
  | n + 1, .mk f s e, .mk f' s' e' =>
    allMatch optEq f f' && s = s' && allMatch (devMatches n) e e'

/-! ### control -/

def dictEq (a b : List (Str × Val)) : Bool :=
  a.length = b.length && a.all (fun p => PyDict.get? b p.1 = some p.2)
  && b.all (fun p => PyDict.get? a p.1 = some p.2)

/-- values as the argument's type sees them: a `bool` given for an integer-typed argument is the
    integer 1 / 0 (Python `True == 1`); everything else is itself -/
def normDict (l : List SArg) (d : List (Str × Val)) : List (Str × Val) :=
  d.map fun p => match l.find? (fun a => a.name = p.1) with
    | some a => (p.1, normTy (famOf a.var.dtype) p.2)
    | none => p

/-- the call is one the property speaks about: exactly the in-arguments, each valid for its variable -/
def validArgs (fs : Facts) (act : SAct) (args : List (Str × Val)) : Bool :=
  args.length = act.ins.length
  && act.ins.all (fun a => match PyDict.get? args a.name with
                            | some v => schemaOk fs a.var v
                            | none => false)

/-- the handler keeps its side of the contract: results are out-arguments with valid values -/
def validResults (fs : Facts) (act : SAct) (vals : List (Str × Val)) : Bool :=
  vals.all (fun p => match act.outs.find? (fun a => a.name = p.1) with
                      | some a => schemaOk fs a.var p.2
                      | none => false)
  && (vals.map (·.1)).eraseDups.length = vals.length

/-- what was observed of one call made through the client -/
structure CallObs where
  seen : Option (List (Str × Val))   -- kwargs the handler received (`none` = not reached)
  res : CallRes

/-- valid call: handler saw the same typed values; caller got the handler's typed results, or an
    action error with the handler's code -/
def callOk (fs : Facts) (act : SAct) (args : List (Str × Val)) (script : HandlerRes) (o : CallObs) : Bool :=
  -- an argument assignment the definition rejects (not listed, out of range, missing …) never reaches the handler
  if !validArgs fs act args then o.seen.isNone else
  (match o.seen with | some s => dictEq s (normDict act.ins args) | none => false)
  && (match script with
      | .ret vals | .retVars vals _ =>
        -- plain values or the variables holding them: the caller gets the handler's typed results
        if !validResults fs act vals then true else
        (match o.res with | .ok r => dictEq r (normDict act.outs vals) | _ => false)
      | .err (some c) =>
        if c = 0 then (match o.res with | .actionError _ _ => true | _ => false)
        else (match o.res with | .actionError (some c') _ => c' = c | _ => false)
      | .err none => (match o.res with | .actionError _ _ => true | _ => false))

/-- observed answer to a raw request -/
inductive RawObs
  | resp (status : Nat) (fault : Option (Option Nat)) (rets : Option (List (Str × Val)))
      -- status; `some code?` if the body is a SOAP fault; decoded out-arguments of a 200 response
  | unhandled (exc : Str)

/-- is the request one of the invalid classes of the property? -/
def invalidReq (fs : Facts) (acts : List SAct) (r : Req) : Bool :=
  match parseActionBody fs acts r with
  | .bad _ => true
  | .ok act kw => !argsValid fs act kw

/-- a request exactly as the library's client would have written it (no duplicate elements, the
    call element named after the action in the service's namespace, the header quoted) -/
def cleanReq (stype : Str) (r : Req) : Option (Str × List Xml) :=
  match r.body with
  | some (.node t _ _ [.node b _ _ [.node rpc _ _ args]]) =>
    if t = soapq "Envelope" ∧ b = soapq "Body" ∧ rpc.ns = stype
       ∧ r.soapAction = some ('"' :: stype ++ '#' :: rpc.name ++ ['"'])
       ∧ '#' ∉ stype ∧ '#' ∉ rpc.name ∧ '"' ∉ stype ∧ '"' ∉ rpc.name
       ∧ (args.map (·.tag)).eraseDups.length = args.length
    then some (rpc.name, args) else none
  | _ => none

/-- the call element carries two argument elements of one name -/
def dupArgs (r : Req) : Bool :=
  match r.body with
  | some root =>
    (match root.find (soapq "Body") with
     | some b => (match b.kids with
        | rpc :: _ => (rpc.kids.map (·.tag)).eraseDups.length != rpc.kids.length
        | [] => false)
     | none => false)
  | none => false

/-- the request MUST be rejected: it is invalid (`invalidReq`, read with the last of several
    duplicate argument elements as the code does) and the verdict does not hinge on that reading —
    the property text does not say which of two duplicate elements counts, so a request with
    duplicates must be rejected only when it is invalid before any argument is looked at (malformed
    envelope / header, unknown action); otherwise it merely must not raise (audit C14-2) -/
def mustReject (fs : Facts) (acts : List SAct) (r : Req) : Bool :=
  invalidReq fs acts r
  && (!dupArgs r
      || (match parseActionBody fs acts r with
          | .bad reason => reason == "InvalidSoap" || reason == "InvalidAction"
          | .ok _ _ => false))

/-- the action the `SOAPAction` header names -/
def headerAct (acts : List SAct) (r : Req) : Option SAct :=
  match splitHash (stripQuotes (r.soapAction.getD [])) with
  | [_, name] => acts.find? (fun a => a.name = name)
  | _ => none

def isClientError (s : Nat) : Bool := 400 ≤ s && s < 500

def rawOk (fs : Facts) (stype : Str) (acts : List SAct) (r : Req) (script : HandlerRes)
    (seen : Option (List (Str × Val))) (o : RawObs) : Bool :=
  match o with
  | .unhandled _ =>
    -- an exception may escape only when the *handler* broke its contract on a request that reached it
    -- (observed: the handler was called), whatever reading of duplicate elements led there
    (match script, seen with
     | .ret vals, some _ | .retVars vals _, some _ =>
       (match headerAct acts r with
        | some act => !validResults fs act vals
        | none => false)
     | _, _ => false)
  | .resp status fault rets =>
    if mustReject fs acts r then
      isClientError status || (status = 500 && fault.isSome)
    else if invalidReq fs acts r then true   -- duplicate argument elements: the text leaves the reading open
    else
      match cleanReq stype r, parseActionBody fs acts r with
      | some _, .ok act kw =>
        (match seen with | some s => dictEq s kw | none => false)
        && (match script with
            | .ret vals | .retVars vals _ =>
              if !validResults fs act vals then true else
              status = 200 && (match rets with | some rv => dictEq rv (normDict act.outs vals) | none => false)
            | .err (some c) =>
              status = 500 && (if c = 0 then fault.isSome else fault = some (some c))
            | .err none => status = 500 && fault.isSome)
      | _, _ => true

end Upnp.C14
