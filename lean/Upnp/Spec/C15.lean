/-
  C15 — formal reading of "server eventing is ordered, complete, and bounded by the
  subscription's life" as a monitor (`Mon`) over the observable trace: operations
  (SUBSCRIBE / renewal / UNSUBSCRIBE requests, variable assignments, clock advances) interleaved
  with what the server did (HTTP responses, NOTIFY requests with SID, SEQ, body and virtual
  time, and which variable triggered an event).  `ok cfg trace` is the judge: it is evaluated on
  the IMPLEMENTATION's trace at run time and `Props/C15.lean` proves it for every trace of the model.

  Clauses (numbered as in design/C15.md):
   J1  a well-formed new SUBSCRIBE (CALLBACK `<url>`, TIMEOUT absent or `Second-n`) is answered 200 with a
       SID never issued before and a granted timeout;
   J2  before the next operation the new subscriber is sent an event with key 0;
   J3  every NOTIFY goes to a SID that is subscribed (and, after the initial event, unexpired), to
       its callback URL, carries every evented variable with its current value, and has the next key
       of that SID: +1, and 2^32-1 is followed by 1;
   J4  after the initial event every NOTIFY is attributed to a variable (`trig x t` items, at the NOTIFY's own instant; one
       attribution pays for one NOTIFY per subscriber) one of whose changes has not been answered yet;
   J5  events attributed to one variable are at least its moderation interval apart.
       The `trig` items are an ATTRIBUTION, not an observation: on the implementation's trace the harness searches
       for one (all possibilities) from the HTTP-level observations alone and the monitor verifies it; the trace is
       rejected only if no attribution exists.  On the model's trace the attribution is the model's own triggers;
   J6  whenever the server is idle, every subscribed, unexpired subscriber's last event carries the
       current value of every evented variable whose last change is at least its interval old
       (so with interval 0: every change has been delivered when the operation ends);
   J7  renewal of a live subscription with a good TIMEOUT is answered 200, same SID, and moves the
       expiry to now + granted; UNSUBSCRIBE of a live subscription is answered 200 and ends it;
   J8  renewing or unsubscribing a SID that was never issued, or was unsubscribed / refused before, is refused;
   J9  time stamps are the virtual clock (never before the operation, never after its end).
  An expired subscription that is renewed successfully is live again (the property leaves this open).
  Import-free (linked into the driver).
-/
import Upnp.Model.C15Base
namespace Upnp.C15

structure SubMon where
  alive : Bool
  url : Option Str            -- `none`: the CALLBACK was not of the form `<url>`, NOTIFY url unconstrained
  nextSeq : Nat
  expires : Int
  gotInitial : Bool
  credit : Nat                -- triggers since the start of the operation not yet answered by a NOTIFY
  lastVals : List (Option Val)  -- values carried by the last event sent to it
deriving Repr, DecidableEq

structure Mon where
  ok : Bool
  now : Int
  target : Int                 -- end of the current operation in virtual time
  evented : List Bool
  rate : List Nat
  cur : List (Option Val)      -- current value of every variable
  lastChange : List Int
  lastTrig : List (Option Int)
  pendingChg : List Nat        -- per variable: changes not yet answered by an attributed trigger
  subs : List SubMon           -- indexed by SID number
  awaiting : Option Op         -- request whose response has not been seen yet
deriving Repr

def Mon.init (evented : List Bool) (rate : List Nat) (defaults : List (Option Val)) : Mon :=
  { ok := true, now := 0, target := 0, evented := evented, rate := rate, cur := defaults,
    lastChange := defaults.map (fun _ => 0), lastTrig := defaults.map (fun _ => none),
    pendingChg := defaults.map (fun _ => 0),
    subs := [], awaiting := none }

/-- J6 for one subscriber -/
def dueOk (j : Mon) (s : SubMon) : Bool :=
  (List.range j.cur.length).all fun i =>
    !(j.evented.getD i false)
    || decide (j.now < j.lastChange.getD i 0 + (j.rate.getD i 0 : Int))
    || s.lastVals[i]? == j.cur[i]?

/-- what must hold whenever the server is idle (between operations) -/
def quiescentOk (j : Mon) : Bool :=
  j.awaiting.isNone
  && j.subs.all fun s => !s.alive || (s.gotInitial && (decide (s.expires ≤ j.now) || dueOk j s))

def timeoutOk (to : Option Str) : Bool := (to.map strictTimeout).getD true
def mustAccept (cb : Option Str) (to : Option Str) : Bool :=
  (cb.map strictCallback).getD false && timeoutOk to

def callbackUrl (cb : Option Str) : Option Str :=
  match cb with
  | some c => if strictCallback c then some (stripBrackets c) else none
  | none => none

def fail (j : Mon) : Mon := { j with ok := false }
def check (j : Mon) (c : Bool) : Mon := { j with ok := j.ok && c }

/-- the end of an operation: the clock reaches the operation's end, J2/J6 are checked, trigger credits lapse -/
def Mon.close (j : Mon) : Mon :=
  let j1 := { j with now := j.target }
  { j1 with ok := j1.ok && quiescentOk j1, subs := j1.subs.map (fun s => { s with credit := 0 }) }

/-- an assignment: the current value and the time of the last change -/
def Mon.assign (j : Mon) (x : Nat) (v : Val) : Mon :=
  if j.cur[x]? = some (some v) then j
  else if x < j.cur.length then
    { j with cur := j.cur.set x (some v), lastChange := j.lastChange.set x j.now,
             pendingChg := j.pendingChg.modify x (· + 1) }
  else j

def Mon.beginOp (j : Mon) : Op → Mon
  | .adv dt => { j with target := j.now + dt }
  | .set x v => j.assign x v
  | .setMany l => l.foldl (fun j p => j.assign p.1 p.2) j
  | .subscribe sid cb to => { j with awaiting := some (.subscribe sid cb to) }
  | .unsubscribe sid => { j with awaiting := some (.unsubscribe sid) }
  | .done _ => j
  | .fail _ => j
  | .setKey sid k => { j with subs := j.subs.modify sid (fun s => { s with nextSeq := k }) }

def markDead (j : Mon) (k : Nat) : Mon :=
  { j with subs := j.subs.modify k (fun s => { s with alive := false }) }

/-- a response to the request `o` -/
def Mon.onResp (j : Mon) (o : Op) (st : Nat) (sid : Option Nat) (g : Option Int) : Mon :=
  match o with
  | .subscribe .absent cb to =>
    if st = 200 then
      match sid, g with
      | some k, some gr =>
        if k = j.subs.length then
          { j with subs := j.subs ++ [{ alive := true, url := callbackUrl cb, nextSeq := 0,
                                        expires := j.now + gr * usPerS, gotInitial := false, credit := 0,
                                        lastVals := [] }] }
        else fail j     -- J1: SID not fresh
      | _, _ => fail j  -- J1: no SID / no granted timeout
    else check j (!mustAccept cb to)
  | .subscribe (.known k) _ to =>
    (match j.subs[k]? with
     | some s =>
       if s.alive then
         if st = 200 then
           match sid, g with
           | some k', some gr =>
             if k' = k then { j with subs := j.subs.modify k (fun s => { s with expires := j.now + gr * usPerS }) }
             else fail j
           | _, _ => fail j
         else if decide (j.now < s.expires) && timeoutOk to then fail j   -- J7
         else if timeoutOk to then markDead j k   -- refused after expiry: the subscription is gone
         else j
       else check j (refused st)                  -- J8
     | none => check j (refused st))              -- J8
  | .subscribe .unknown _ _ => check j (refused st)   -- J8
  | .unsubscribe (.known k) =>
    (match j.subs[k]? with
     | some s =>
       if s.alive then
         if st = 200 then markDead j k
         else if decide (j.now < s.expires) then fail j   -- J7
         else markDead j k
       else check j (refused st)                  -- J8
     | none => check j (refused st))
  | .unsubscribe _ => check j (refused st)        -- J8
  | _ => fail j

def timeOk (j : Mon) (t : Int) : Bool := decide (j.now ≤ t) && decide (t ≤ j.target)

/-- trigger credits are only good at the instant of the trigger: when the clock moves they lapse -/
def Mon.lapse (j : Mon) (t : Int) : Mon :=
  if j.now < t then { j with subs := j.subs.map (fun s => { s with credit := 0 }) } else j

def Mon.notifyAt (j : Mon) (sid seq : Nat) (t : Int) (url : Str) (body : List (Nat × Str)) : Mon :=
  match j.subs[sid]? with
  | none => fail j
  | some s =>
    let c := s.alive && seq == s.nextSeq
             && (s.url.isNone || s.url == some url)
             && bodyOk j.evented j.cur body
             && (!s.gotInitial || (decide (t < s.expires) && decide (0 < s.credit)))
    { j with ok := j.ok && timeOk j t && c, now := t,
             subs := j.subs.set sid { s with nextSeq := specNextKey seq, gotInitial := true,
                                             credit := if s.gotInitial then s.credit - 1 else s.credit,
                                             lastVals := j.cur } }

/-- an event is attributed to variable x at time t (J4/J5): x is evented, one of its changes has not been answered
    yet, the previous event attributed to x is at least x's interval old; it pays for one NOTIFY per subscriber -/
def Mon.trigAt (j : Mon) (x : Nat) (t : Int) : Mon :=
  let c := (j.evented.getD x false)
           && decide (0 < j.pendingChg.getD x 0)
           && (match j.lastTrig[x]? with
               | some (some u) => decide (u + (j.rate.getD x 0 : Int) ≤ t)
               | some none => true
               | none => false)
  { j with ok := j.ok && timeOk j t && c, now := t,
           lastTrig := j.lastTrig.set x (some t),
           pendingChg := j.pendingChg.modify x (· - 1),
           subs := j.subs.map (fun s => { s with credit := s.credit + 1 }) }

def Mon.onObs (j : Mon) : Obs → Mon
  | .resp st sid g =>
    (match j.awaiting with
     | some o => { (j.onResp o st sid g) with awaiting := none }
     | none => fail j)
  | .notify sid seq t url body => (j.lapse t).notifyAt sid seq t url body
  | .trig x t => (j.lapse t).trigAt x t
  | .ret _ => j
  | .exc _ => j

def Mon.step (j : Mon) : Item → Mon
  | .op o => (j.close).beginOp o
  | .obs o => j.onObs o

/-- the judge: the whole trace is accepted -/
def ok (evented : List Bool) (rate : List Nat) (defaults : List (Option Val)) (trace : List Item) : Bool :=
  ((trace.foldl Mon.step (Mon.init evented rate defaults)).close).ok

end Upnp.C15
