/-
  C16 — formal reading of "the header map behaves as a map keyed by case-folded
  name in which the most recent write wins and keeps its spelling".
  `SMap` is the abstract map; `obsOk` judges one observation of a header map
  (taken from the implementation or from the model) against it.
  Import-free (linked into the driver).
-/
import Upnp.Model.PyDict
namespace Upnp.C16
open Upnp PyDict

/-- abstract map: folded name ↦ (current spelling, value) -/
abbrev SMap (κ ν : Type) := PyDict κ (κ × ν)

namespace SMap
variable {κ ν : Type} [DecidableEq κ] (lower : κ → κ)

def write (m : SMap κ ν) (k : κ) (v : ν) : SMap κ ν := set m (lower k) (k, v)
def remove (m : SMap κ ν) (lk : κ) : SMap κ ν := erase m lk
def lookup (m : SMap κ ν) (k : κ) : Option ν := (get? m (lower k)).map (·.2)
/-- writes of a plain mapping, oldest first -/
def writeAll (m : SMap κ ν) (l : List (κ × ν)) : SMap κ ν :=
  l.foldl (fun acc p => write lower acc p.1 p.2) m
/-- overlay: every entry of `b` is written over `a` -/
def overlay (a b : SMap κ ν) : SMap κ ν :=
  b.foldl (fun acc p => set acc p.1 p.2) a
end SMap

/-- What is observed of one header map after an operation. -/
structure Obs (κ ν : Type) where
  len     : Nat
  iter    : List κ                 -- iteration order as observed
  gets    : List (κ × Option ν)    -- `d[k]` for probe spellings (`none` = KeyError)
  getLow  : List (κ × Option ν)    -- `get_lower(lk)` for probe folded names
  member  : List (κ × Bool)        -- `k in d`
  lowered : List (κ × ν)           -- `as_lower_dict()` items
  data    : List (κ × ν)           -- `as_dict()` items
  cmap    : List (κ × κ)           -- `case_map()` items
deriving Repr

section
variable {κ ν : Type} [DecidableEq κ] [DecidableEq ν] (lower : κ → κ)

def sameSet {α : Type} [DecidableEq α] (a b : List α) : Bool :=
  a.length == b.length && a.all (b.contains ·) && b.all (a.contains ·)

/-- the observation agrees with the abstract map -/
def obsOk (m : SMap κ ν) (o : Obs κ ν) : Bool :=
  o.len == m.length
  && sameSet o.iter (m.map (·.2.1))
  && o.gets.all (fun p => p.2 == SMap.lookup lower m p.1)
  && o.getLow.all (fun p => p.2 == (get? m p.1).map (·.2))
  && o.member.all (fun p => p.2 == (SMap.lookup lower m p.1).isSome)
  && sameSet o.lowered (m.map fun p => (p.1, p.2.2))
  && sameSet o.data (m.map fun p => (p.2.1, p.2.2))
  && sameSet o.cmap (m.map fun p => (p.1, p.2.1))

/-- abstract equality of two header maps / a header map and a plain mapping:
    same folded names with equal values (spelling is irrelevant) -/
def smapEq (a b : SMap κ ν) : Bool :=
  eqv (a.map fun p => (p.1, p.2.2)) (b.map fun p => (p.1, p.2.2))

end
end Upnp.C16
