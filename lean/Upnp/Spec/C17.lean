/-
  C17 — formal reading of the property text, as a decidable predicate over what a caller (and the
  scripted session) can observe.  Import-free.

  Inputs of a request: which requester, the outcome script (one `Exch` per exchange the transport is
  asked for), the URL and the header maps.  Observation: the result (`ret r` / an exception with the
  three `isinstance` facts a caller can test and its `status` attribute), the number of
  `session.request` calls, and the headers of every such call.

  The classification of the *transport* classes (timeout / connection failure / response-level) is
  by the aiohttp hierarchy, read from the generated `issubclass` matrix.
-/
import Upnp.Model.C17Ladder
namespace Upnp.C17

/-- what the caller sees -/
inductive ORes (ρ : Type) where
  | ret (r : ρ)
  | err (isComm isConn : Bool) (status : Option Nat)   -- isinstance(e, UpnpCommunicationError / UpnpConnectionError), e.status
  | other                                              -- returned something that is not a response / script exhausted
deriving DecidableEq, Repr

structure Obs (ρ : Type) where
  result : ORes ρ
  attempts : Nat
deriving DecidableEq, Repr

/-- timeout or connection failure (incl. server disconnect): the "connection-level" failures -/
def connLevel {ρ : Type} (T : Tables) : Exch ρ → Bool
  | .exc c _ => subclass T c T.cTimeout || subclass T c T.cClientConn
  | .ok _ => false

/-- HTTP-level failure that carries a status -/
def respLevel {ρ : Type} (T : Tables) : Exch ρ → Bool
  | .exc c _ => subclass T c T.cClientResp
  | .ok _ => false

/-- the largest number of attempts the property allows -/
def maxAttempts (session : Bool) : Nat := if session then 3 else 1

/-- **The property** (result and retry part).  With `a` attempts observed:
    * `1 ≤ a ≤ 3` (session requester) resp. `a = 1` (plain requester);
    * every exchange before the last one ended in a connection-level failure (a request is repeated
      only after those — hence the last exchange is the first that is not such a failure);
    * if the last exchange succeeded, exactly its response is returned (status, headers, decoded
      body): it is the first successful exchange of the script;
    * if it failed, the caller sees a communication error; a connection error if the failure was a
      timeout or a connection failure; carrying the status if it was a response-level failure. -/
def lastOk {ρ : Type} [DecidableEq ρ] (T : Tables) (last : Exch ρ) (res : ORes ρ) : Bool :=
  match last, res with
  | .ok r, .ret r' => r == r'
  | .exc c st, .err isComm isConn status =>
      isComm
      && (!connLevel T (.exc c st : Exch ρ) || isConn)
      && (!respLevel T (.exc c st : Exch ρ) || status == st)
  | _, _ => false

def resultOk {ρ : Type} [DecidableEq ρ] (T : Tables) (session : Bool) (outs : List (Exch ρ)) (o : Obs ρ) : Bool :=
  1 ≤ o.attempts && o.attempts ≤ maxAttempts session
  && (outs.take (o.attempts - 1)).all (connLevel T)
  && match outs[o.attempts - 1]? with
     | some last => lastOk T last o.result
     | none => false

/-- model result → what a caller would observe of it -/
def observe {ρ : Type} (T : Tables) (r : LRes ρ × Nat) : Obs ρ :=
  { attempts := r.2
    result := match r.1 with
      | .ret x => .ret x
      | .raised c st => .err (subclass T c T.cUpnpComm) (subclass T c T.cUpnpConn) st
      | .swallowed => .other }

/-! ### Host header -/

def hasZone (u : Url) : Bool := match u.host with | .zoned .. => true | _ => false

/-- the `Host` headers (any spelling) among the headers given to `session.request` -/
def hostValues (h : Headers) : List Str := (h.filter fun p => lowerStr p.1 == hostKey).map (·.2)

/-- **The property** (Host part): for a URL with a zone identifier a Host header is sent and no
    Host header sent contains a `%` (the zone delimiter). -/
def hostOk (u : Url) (sent : Headers) : Bool :=
  !hasZone u || (!(hostValues sent).isEmpty && (hostValues sent).all fun v => !v.contains '%')

end Upnp.C17
