/-
  C18 — formal reading of "the description cache fetches once, shares the result, and cannot
  deadlock" as a MONITOR over what can be observed from outside:

    * the operations the environment performs: a lookup task is created, the (fake) requester's
      response for download `d` is released with parsed outcome `v` (`none` = absence: HTTP error,
      transport error, malformed / refused XML, empty body), `cancel` of a lookup task,
      `uncache_description(loc)`, one scheduler step (one ready handle of the event loop runs);
    * the events seen: a request reaches the requester (issued by lookup task `t`), a lookup
      returns `v`, a lookup ends cancelled, a lookup raises;
    * scheduler snapshots: number of ready handles, of outstanding downloads, of unfinished lookups.

  `feed` returns `none` as soon as the property is violated.  `judge` runs it over a whole trace.
  Import-free.  Locations and parsed values are numbers (ids).
-/
namespace Upnp.C18

abbrev Loc := Nat
abbrev Val := Nat
/-- parsed outcome of a download: a device dictionary (id) or absence -/
abbrev Out := Option Val

inductive Status where
  | pending | returned (v : Out) | cancelled | raised
deriving DecidableEq, Repr

/-- what the monitor remembers of a lookup -/
structure MTask where
  loc : Loc
  startEpoch : Nat      -- how often `loc` had been uncached when the lookup was created
  startDl : Nat         -- how many downloads had been requested when the lookup was created
  cancelReq : Bool      -- `cancel` was called on it
  status : Status
deriving DecidableEq, Repr

/-- what the monitor remembers of a download (one request seen by the requester) -/
structure MDl where
  loc : Loc
  owner : Nat           -- the lookup task that issued the request
  epoch : Nat           -- how often `loc` had been uncached when the request was issued
  minEpoch : Nat        -- the oldest uncache-epoch this download may have been CAUSED in: the smallest creation
                        -- epoch among the lookups of `loc` unfinished when the request was issued (what causes a
                        -- download — installing a marker, spawning a task — is not observable, only the request is)
  outcome : Option Out  -- `some v` once the response was released
deriving DecidableEq, Repr

structure Mon where
  tasks : List MTask := []
  dls : List MDl := []
  uncaches : List Loc := []
deriving Repr

inductive Op where
  | lookup (loc : Loc)
  | complete (d : Nat) (v : Out)
  | cancel (t : Nat)
  | uncache (loc : Loc)
  | step
deriving DecidableEq, Repr

inductive Ev where
  | requested (t : Nat) (loc : Loc)
  | returned (t : Nat) (v : Out)
  | cancelled (t : Nat)
  | raised (t : Nat)
deriving DecidableEq, Repr

inductive Item where
  | op (o : Op)
  | ev (e : Ev)
  | snap (ready outstanding pending : Nat)
deriving DecidableEq, Repr

namespace Mon

def epochOf (m : Mon) (loc : Loc) : Nat := m.uncaches.count loc

/-- smallest creation epoch among the unfinished lookups of `loc` (the current epoch if there is none) -/
def minEpochOf (m : Mon) (loc : Loc) : Nat :=
  (m.tasks.filter fun k => k.loc == loc && k.status == .pending).foldl (fun a k => min a k.startEpoch) (m.epochOf loc)

def setStatus (m : Mon) (t : Nat) (s : Status) : Mon :=
  { m with tasks := m.tasks.modify t fun k => { k with status := s } }

def statusOf (m : Mon) (t : Nat) : Option Status := (m.tasks[t]?).map (·.status)

def applyOp (m : Mon) : Op → Mon
  | .lookup loc =>
      { m with tasks := m.tasks ++ [{ loc := loc, startEpoch := m.epochOf loc, startDl := m.dls.length,
                                      cancelReq := false, status := .pending }] }
  | .complete d v =>   -- the first release of a response counts
      { m with dls := m.dls.modify d fun k => if k.outcome.isNone then { k with outcome := some v } else k }
  | .cancel t => { m with tasks := m.tasks.modify t fun k => { k with cancelReq := true } }
  | .uncache loc => { m with uncaches := loc :: m.uncaches }
  | .step => m

def applyEv (m : Mon) : Ev → Mon
  | .requested t loc =>
      { m with dls := m.dls ++ [{ loc := loc, owner := t, epoch := m.epochOf loc, minEpoch := m.minEpochOf loc, outcome := none }] }
  | .returned t v => m.setStatus t (.returned v)
  | .cancelled t => m.setStatus t .cancelled
  | .raised t => m.setStatus t .raised

/-- **single flight**: a request for `loc` is acceptable only if every earlier download of `loc` that
    certainly belongs to the current uncache-epoch (requested since the last uncache AND not possibly caused
    before it: `minEpoch = epoch`) was abandoned: the lookup that issued it ended cancelled.
    (Covers "one download for concurrent lookups" and "a failed download is remembered, not
    retried on every lookup".)  The text does not say WHO issues the download: if the request comes from
    a lookup task it must be an unfinished lookup of that location; a request issued from elsewhere (e.g.
    a download task of its own — `t` is then no lookup) is judged by location only, and such a download
    is never "abandoned" by a lookup's cancellation. -/
def okRequest (m : Mon) (t : Nat) (loc : Loc) : Bool :=
  (match m.tasks[t]? with
   | some k => k.loc == loc && k.status == .pending
   | none => true)
  && m.dls.all fun d =>
      !(d.loc == loc && d.epoch == m.epochOf loc && d.minEpoch == d.epoch) || m.statusOf d.owner == some .cancelled

/-- **shared outcome**: a lookup may only return the released outcome of a download of its
    location that was requested after the lookup was created, or in the same uncache-epoch in which
    the lookup was created (never the outcome of a download from before an uncache that preceded the
    lookup). -/
def okReturn (m : Mon) (t : Nat) (v : Out) : Bool :=
  match m.tasks[t]? with
  | none => false
  | some k =>
    k.status == .pending
    && (List.range m.dls.length).any fun i =>
        match m.dls[i]? with
        | none => false
        | some d => d.loc == k.loc && d.outcome == some v && (d.epoch == k.startEpoch || k.startDl ≤ i)

/-- a lookup ends cancelled only if it was cancelled -/
def okCancelled (m : Mon) (t : Nat) : Bool :=
  match m.tasks[t]? with
  | some k => k.cancelReq && k.status == .pending
  | none => false

def checkEv (m : Mon) : Ev → Bool
  | .requested t loc => m.okRequest t loc
  | .returned t v => m.okReturn t v
  | .cancelled t => m.okCancelled t
  | .raised _ => false            -- a lookup never raises (KeyError, parser errors, …)

end Mon

/-- **no deadlock**: when nothing is runnable and no download is outstanding, no lookup is unfinished -/
def quietOk (ready outstanding pending : Nat) : Bool :=
  !(ready == 0 && outstanding == 0) || pending == 0

def feed (m : Mon) : Item → Option Mon
  | .op o => some (m.applyOp o)
  | .ev e => if m.checkEv e then some (m.applyEv e) else none
  | .snap r o p => if quietOk r o p then some m else none

def feedAll (m : Mon) : List Item → Option Mon
  | [] => some m
  | i :: rest => match feed m i with
    | some m' => feedAll m' rest
    | none => none

/-- the run-time judge and the predicate of the theorems -/
def judge (items : List Item) : Bool := (feedAll {} items).isSome

end Upnp.C18
