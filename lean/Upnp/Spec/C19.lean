/-
  C19 — formal reading of the property (judge).  Import-free apart from the model types.

  For a well-formed event (an `LcDoc`): the service's variables named by the children of
  instance 0 — entries without a channel or with channel Master, prefix ignored — take the given
  values (last one wins), through one further callback carrying exactly those variables; other
  instances and channels are ignored; without instance 0 (or with an empty value) nothing
  changes.  For every value: expansion does not raise.
-/
import Upnp.Model.C19LastChange
namespace Upnp.C19
open Upnp PyDict

def isMaster (e : Entry) : Bool :=
  match e.chan with
  | none => true
  | some c => c == sMaster

/-- all entries of instance 0, in document order -/
def entries0 (d : LcDoc) : List Entry := (d.insts.filter (·.id == sZero)).flatMap (·.entries)

/-- the assignments the event makes: master entries of instance 0, by local name, last wins -/
def master0 (d : LcDoc) : PyDict S S :=
  ofList (((entries0 d).filter isMaster).map fun e => (e.name, e.val))

/-- what is observed of one expansion -/
structure Obs where
  raised : Bool
  after : PyDict S S           -- the service's variables afterwards
  callbacks : List (List S)    -- further callbacks (names carried), before the one for LastChange itself
  othersUnchanged : Bool := true   -- the variables of the device's other services kept their values
deriving DecidableEq, Repr

/-- the assignments that concern variables the service has -/
def relevant (vars : PyDict S S) (m : PyDict S S) : PyDict S S := m.filter fun p => contains vars p.1

def applyAll (vars : PyDict S S) (m : PyDict S S) : PyDict S S := m.foldl (fun acc p => set acc p.1 p.2) vars

/-- the same names, in any order ("carrying exactly those variables") -/
def sameNames (a b : List S) : Bool :=
  a.length == b.length && a.all (b.contains ·) && b.all (a.contains ·)

/-- well-formed event `d` (`none` = empty value) against the observation -/
def ok (vars : PyDict S S) (d : Option LcDoc) (o : Obs) : Bool :=
  let m := match d with
    | none => []
    | some d => relevant vars (master0 d)
  !o.raised && o.othersUnchanged
  && o.after == applyAll vars m
  && (match o.callbacks with
      | [c] => sameNames c (m.map (·.1))
      | [] => m.isEmpty
      | _ => false)

/-- any value (well-formed or not): expansion never raises -/
def okAny (o : Obs) : Bool := !o.raised

/-- the shape the renderer guarantees (decidable form of `WF`, Lemmas/C19): no `val` on the root,
    colon-free prefixes and local names, no entry called InstanceID -/
def wfEntryB (e : Entry) : Bool :=
  !e.name.contains ':' && e.name != sInstanceID
    && (match e.pfx with | some p => !p.contains ':' | none => true)

def wfB (d : LcDoc) : Bool :=
  (get? d.rootAttrs sVal).isNone && d.loose.all wfEntryB
    && d.insts.all fun i => i.entries.all wfEntryB && (match i.ipfx with | some p => !p.contains ':' | none => true)

def observe (vars : PyDict S S) : Except PyErr (PyDict S S × List (List S)) → Obs
  | .error _ => ⟨true, vars, [], true⟩
  | .ok r => ⟨false, r.1, r.2, true⟩

end Upnp.C19
