/-
  C20 — formal reading of the property (judge).  Import-free apart from the model types.

  Routing: a facade call is observed as (control URLs requested, "not available"?, result type).
  `callOk` demands what the text states: the request goes to a service the gateway offers and
  which defines the action; "not available" only when no offered service defines the action;
  the result has the declared type.

  Counters: `seriesOk` walks a series of observed `IgdState`s: totals non-negative, rates absent
  (first sample, wrap, failed reading) or the non-negative difference over the elapsed time
  (bytes in KiB), failures isolated.
-/
import Upnp.Model.C20Igd
namespace Upnp.C20
open Upnp PyDict

/-! ## routing -/

structure CallObs where
  sent : List Nat          -- `cid` of every control URL a request went to during the call
  na   : Bool              -- returned None without sending anything
deriving DecidableEq, Repr

def obsOf : Option Svc → CallObs
  | none => ⟨[], true⟩
  | some s => ⟨[s.cid], false⟩

/-- the services the gateway actually offers to the profile -/
def offered (d : Dev) : List Svc := (allServices d).map (·.2)

def callOk (off : List Svc) (act : S) (o : CallObs) : Bool :=
  if o.na then o.sent.isEmpty && off.all (fun s => !s.acts.contains act)
  else match o.sent with
    | [i] => off.any (fun s => s.cid == i && s.acts.contains act)
    | _ => false

/-- "typed results": the run-time type token of a result against the declared annotation.
    `tok` is `T` for scalars and `T(f1,f2,…)` for NamedTuples (field run-time types). -/
def fieldOk (decl tok : S) : Bool :=
  tok == decl || decl == "Optional[".toList ++ tok ++ "]".toList
    || (("Optional[".toList).isPrefixOf decl && tok == "NoneType".toList)

def splitOnChar (c : Char) : S → List S
  | [] => [[]]
  | x :: r =>
    match splitOnChar c r with
    | [] => [[]]      -- unreachable
    | h :: t => if x = c then [] :: h :: t else (x :: h) :: t

def typeOk (tuples : List (S × List (S × S))) (ret tok : S) : Bool :=
  match get? tuples ret with
  | none => tok == ret
  | some fields =>
    let pre := ret ++ ['(']
    pre.isPrefixOf tok && tok.getLast? == some ')' &&
      (let inner := (tok.drop pre.length).dropLast
       let toks := splitOnChar ',' inner
       toks.length == fields.length && (List.zip fields toks).all fun p => fieldOk p.1.2 p.2)

/-! ### the standard: which service types define which (facade-relevant) actions
    (UPnP IGD:1 / IGD:2 service templates; `GetPortMappingNumberOfEntries` is a vendor extension of
    the connection services) -/

def tyIP1 : S := "urn:schemas-upnp-org:service:WANIPConnection:1".toList
def tyIP2 : S := "urn:schemas-upnp-org:service:WANIPConnection:2".toList
def tyPPP1 : S := "urn:schemas-upnp-org:service:WANPPPConnection:1".toList
def tyCIC1 : S := "urn:schemas-upnp-org:service:WANCommonInterfaceConfig:1".toList
def tyL3F1 : S := "urn:schemas-upnp-org:service:Layer3Forwarding:1".toList

def specTable : List (List S × List S) := [
  ([tyIP1, tyIP2, tyPPP1],
   ["SetConnectionType".toList, "GetConnectionTypeInfo".toList, "RequestConnection".toList,
    "RequestTermination".toList, "ForceTermination".toList, "GetStatusInfo".toList,
    "GetNATRSIPStatus".toList, "GetGenericPortMappingEntry".toList,
    "GetSpecificPortMappingEntry".toList, "AddPortMapping".toList, "DeletePortMapping".toList,
    "GetExternalIPAddress".toList, "GetPortMappingNumberOfEntries".toList]),
  ([tyCIC1],
   ["SetEnabledForInternet".toList, "GetEnabledForInternet".toList, "GetCommonLinkProperties".toList,
    "GetTotalBytesSent".toList, "GetTotalBytesReceived".toList, "GetTotalPacketsSent".toList,
    "GetTotalPacketsReceived".toList]),
  ([tyL3F1], ["SetDefaultConnectionService".toList, "GetDefaultConnectionService".toList])]

/-- which UPnP action each facade operation stands for (hand-written from the operations' names
    and the IGD service templates — NOT read from the source) -/
def specOps : List (S × S) := [
  ("async_get_total_bytes_received".toList, "GetTotalBytesReceived".toList),
  ("async_get_total_bytes_sent".toList, "GetTotalBytesSent".toList),
  ("async_get_total_packets_received".toList, "GetTotalPacketsReceived".toList),
  ("async_get_total_packets_sent".toList, "GetTotalPacketsSent".toList),
  ("async_get_enabled_for_internet".toList, "GetEnabledForInternet".toList),
  ("async_set_enabled_for_internet".toList, "SetEnabledForInternet".toList),
  ("async_get_common_link_properties".toList, "GetCommonLinkProperties".toList),
  ("async_get_external_ip_address".toList, "GetExternalIPAddress".toList),
  ("async_get_generic_port_mapping_entry".toList, "GetGenericPortMappingEntry".toList),
  ("async_get_specific_port_mapping_entry".toList, "GetSpecificPortMappingEntry".toList),
  ("async_add_port_mapping".toList, "AddPortMapping".toList),
  ("async_delete_port_mapping".toList, "DeletePortMapping".toList),
  ("async_get_connection_type_info".toList, "GetConnectionTypeInfo".toList),
  ("async_set_connection_type".toList, "SetConnectionType".toList),
  ("async_request_connection".toList, "RequestConnection".toList),
  ("async_request_termination".toList, "RequestTermination".toList),
  ("async_force_termination".toList, "ForceTermination".toList),
  ("async_get_status_info".toList, "GetStatusInfo".toList),
  ("async_get_port_mapping_number_of_entries".toList, "GetPortMappingNumberOfEntries".toList),
  ("async_get_nat_rsip_status".toList, "GetNATRSIPStatus".toList),
  ("async_get_default_connection_service".toList, "GetDefaultConnectionService".toList),
  ("async_set_default_connection_service".toList, "SetDefaultConnectionService".toList)]

/-- the action an operation must invoke (`[]` for an operation the table does not know) -/
def specAction (method : S) : S := (get? specOps method).getD []

/-- everything posted during a call is the operation's own action -/
def actionsOk (method : S) (posted : List S) : Bool := posted.all (· == specAction method)

/-- the service types that may define `act` -/
def specFamily (act : S) : List S :=
  match specTable.find? (fun p => p.2.contains act) with
  | some p => p.1
  | none => []

/-- hypothesis on a gateway, for one action: (1) only members of the action's family define it
    (a Layer3Forwarding service does not define GetExternalIPAddress, …); (2) a service defining
    it is not shadowed by an earlier service *of the same type* lacking it (`find_service` returns
    one service per type; trivially true when every type is offered once, as in every subset of
    the five service types).  Nothing is assumed about which versions of a service are offered
    together or which of them implement an optional action. -/
def stdGateway (d : Dev) (act : S) : Bool :=
  (allServices d).all (fun p => !p.2.acts.contains act || (specFamily act).contains p.1)
  && (allServices d).all (fun p => !p.2.acts.contains act ||
        match findService d p.1 with
        | some s' => s'.acts.contains act
        | none => false)

/-- is the action available at all: does some offered service define it (the judge's reading of
    "not available only when no offered service defines the action") -/
def availSpec (d : Dev) (act : S) : Bool := (offered d).any fun s => s.acts.contains act

/-- a call with the caller's own alias list is judged for soundness only (the caller restricted
    the families himself): whatever was sent went to an offered service defining the action -/
def callSoundOk (off : List Svc) (act : S) (o : CallObs) : Bool := o.na || callOk off act o

/-! ## counters -/

def pow2_50 : Int := 1125899906842624

/-- observed rate `f` (exact value of the float) against the exact quotient `num/den`
    (`num ≥ 0`, `den > 0`): non-negative and equal up to the rounding of two float divisions -/
def approx (f : Frac) (num den : Int) : Bool :=
  decide (0 < f.den) && decide (0 ≤ f.num) &&
    decide ((f.num * den - num * f.den).natAbs * pow2_50 ≤ num * f.den)

def isInt : Val → Bool | .int _ => true | _ => false

/-- totals are non-negative -/
def nonnegOk : Val → Bool
  | .int n => decide (0 ≤ n)
  | _ => true

/-- a failure shows as that failure, a successful reading as a number (failures are isolated) -/
def isoOk (raw : Raw) (v : Val) : Bool :=
  match raw with
  | .fail e => v == .exc e || v == .none   -- shown as that failure, or as "no value"; never as a number
  | .ok _ => isInt v
  | _ => !v.isExc

/-- the rate: absent without two successive totals or on a wrap, else the difference over the
    elapsed time (bytes in KiB) -/
def rateOk (isBytes : Bool) (tPrev tNow : Int) (prev v : Val) (rate : Option Frac) : Bool :=
  match prev, v with
  | .int l, .int c =>
    if l > c then rate == none
    else if tNow ≤ tPrev then true      -- outside the domain (elapsed time must be positive)
    else match rate with
      | none => false
      | some f => approx f ((c - l) * 1000000) ((if isBytes then 1024 else 1) * (tNow - tPrev))
  | _, _ => rate == none

/-- one counter at one sample.  `prev` is the total reported by the previous sample (`Val.none`
    at the first sample), `v` the total reported now, `rate` the reported rate. -/
def counterOk (isBytes : Bool) (tPrev tNow : Int) (prev : Val) (raw : Raw) (v : Val)
    (rate : Option Frac) : Bool :=
  nonnegOk v && isoOk raw v && rateOk isBytes tPrev tNow prev v rate

def plainOk (raw : Raw) (v : Val) : Bool := isoOk raw v

def isFail : Raw → Bool | .fail _ => true | _ => false
def allFail (r : Readings) : Bool :=
  isFail r.br && isFail r.bs && isFail r.pr && isFail r.ps && isFail r.status && isFail r.ip

def failVal : Raw → Val | .fail e => .exc e | _ => .none

structure Prev where
  t : Int
  br : Val := .none
  bs : Val := .none
  pr : Val := .none
  ps : Val := .none
deriving DecidableEq, Repr

/-- one observed sample; returns the verdict and the next `Prev` -/
def sampleOk (p : Prev) (tNow : Int) (r : Readings) (o : Except Nat Sample) : Bool × Prev :=
  match o with
  | .error _ =>
    -- the call raises only when every reading failed
    (allFail r, ⟨tNow, failVal r.br, failVal r.bs, failVal r.pr, failVal r.ps⟩)
  | .ok s =>
    -- (a result is acceptable also when all six failed: the text does not demand a raise)
    (counterOk true p.t tNow p.br r.br s.br s.rbr
      && counterOk true p.t tNow p.bs r.bs s.bs s.rbs
      && counterOk false p.t tNow p.pr r.pr s.pr s.rpr
      && counterOk false p.t tNow p.ps r.ps s.ps s.rps
      && plainOk r.status s.status && plainOk r.ip s.ip,
     ⟨tNow, s.br, s.bs, s.pr, s.ps⟩)

def seriesOk (p : Prev) : List (Int × Readings) → List (Except Nat Sample) → Bool
  | [], [] => true
  | (t, r) :: ins, o :: outs =>
    let (ok, p') := sampleOk p t r o
    ok && seriesOk p' ins outs
  | _, _ => false

end Upnp.C20
