#!/bin/bash
# Run the repository's pinned baseline (guard OFF) and compare with BASELINE.json's stable_pass set.
# usage: tools/baseline.sh [repo_dir]
REPO="${1:-/repo}"
OUT="$(mktemp -d)"
cd "$REPO" && env -u ASYNC_UPNP_CLIENT_VERIF /venv/bin/python -m pytest -ra -q -p no:cacheprovider --timeout=900 --continue-on-collection-errors --junitxml="$OUT/j.xml" >"$OUT/log" 2>&1
/venv/bin/python - "$OUT/j.xml" <<'PY'
import json,sys,xml.etree.ElementTree as ET
base=json.load(open('/root/.vp/BASELINE.json'))
want=set(base['stable_pass'])
got=set()
for tc in ET.parse(sys.argv[1]).getroot().iter('testcase'):
    name=tc.get('classname')+'::'+tc.get('name')
    if not any(c.tag in('failure','error','skipped') for c in tc): got.add(name)
missing=sorted(want-got)
print(f"baseline: want={len(want)} pass_now={len(got)} missing={len(missing)}")
for m in missing: print("  MISSING",m)
sys.exit(1 if missing else 0)
PY
rc=$?
rm -rf "$OUT"
exit $rc
