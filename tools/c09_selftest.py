"""Mutation / pre-fix self-test for C09, C10, C11 (DESIGN §11 step 8).

usage: /venv/bin/python tools/c09_selftest.py <library-git-dir> [mutation-name ...]

Creates a scratch worktree of the library at HEAD under $TMPDIR, applies each hand-made mutation from the "Mutations" lists of
DESIGN §5 (never committed anywhere), runs `./check Cxx --tier quick` against it and replays the first judged violation.
Every mutation must end with rc=1, a `VIOLATION … replay=` line and a replay that reproduces (rc=1).
"""
import subprocess, sys, os, re, json, tempfile
VERIF = os.path.dirname(os.path.dirname(os.path.abspath(__file__)))
LIB = sys.argv[1] if len(sys.argv) > 1 else "/repo"
MUT = os.path.join(tempfile.gettempdir(), "c09-selftest-mut")
subprocess.run(["git", "-C", LIB, "worktree", "remove", "--force", MUT], capture_output=True)
subprocess.run(["git", "-C", LIB, "worktree", "add", "-f", MUT, "HEAD"], capture_output=True, check=True)
EH=f"{MUT}/async_upnp_client/event_handler.py"
CL=f"{MUT}/async_upnp_client/client.py"
AIO=f"{MUT}/async_upnp_client/aiohttp.py"
UT=f"{MUT}/async_upnp_client/utils.py"
def rep(path, old, new, count=1):
    s=open(path).read()
    assert s.count(old)>=1, (path, old)
    s=s.replace(old,new,count)
    open(path,"w").write(s)
MUTS={
 "C09-M1-register-before-status": ("C09", lambda: rep(EH, """        # check results
        if response_status != 200:
            _LOGGER.debug("Did not receive 200, but %s", response_status)
            raise UpnpResponseError(status=response_status, headers=response_headers)

        if "sid" not in response_headers:""", """        if "sid" in response_headers:
            self._subscriptions[response_headers["sid"]] = service
        # check results
        if response_status != 200:
            _LOGGER.debug("Did not receive 200, but %s", response_status)
            raise UpnpResponseError(status=response_status, headers=response_headers)

        if "sid" not in response_headers:""")),
 "C09-M2-keep-old-sid": ("C09", lambda: rep(EH, """            if new_sid != sid:
                del self._subscriptions[sid]
                sid = new_sid""", """            if new_sid != sid:
                sid = new_sid""")),
 "C09-M3-resubscribe-after-connerr": ("C09", lambda: rep(EH, "        except UpnpConnectionError as err:\n            _LOGGER.debug(\n                \"Resubscribe for %s failed: %s. Device offline, not retrying.\"", "        except asyncio.CancelledError as err:\n            _LOGGER.debug(\n                \"Resubscribe for %s failed: %s. Device offline, not retrying.\"")),
 "C09-M4-unsubscribe-del-on-200": ("C09", lambda: (rep(EH, """        # Remove registration before potential device errors
        del self._subscriptions[sid]
""", ""), rep(EH, """            raise UpnpResponseError(status=response_status, headers=response_headers)

        return sid

    async def async_unsubscribe_all""", """            raise UpnpResponseError(status=response_status, headers=response_headers)

        del self._subscriptions[sid]
        return sid

    async def async_unsubscribe_all"""))),
 "C09-M5-subscribe-timeout-float": ("C09", lambda: rep(EH, '"TIMEOUT": "Second-" + str(timeout.seconds),\n            "HOST"', '"TIMEOUT": "Second-" + str(timeout.total_seconds()),\n            "HOST"')),
 "C10-M1-abort-on-bad-value": ("C10", lambda: rep(CL, """            except UpnpValueError:
                _LOGGER.error("Got invalid value for %s: %s", state_var, value)
""", """            except UpnpValueError:
                _LOGGER.error("Got invalid value for %s: %s", state_var, value)
                break
""")),
 "C10-M2-callback-per-variable": ("C10", lambda: rep(CL, """                state_var.upnp_value = value
                changed_state_variables.append(state_var)
""", """                state_var.upnp_value = value
                changed_state_variables.append(state_var)
                if self.on_event:
                    self.on_event(self, [state_var])
""")),
 "C10-M3-list-unchanged": ("C10", lambda: rep(CL, """            except UpnpValueError:
                _LOGGER.error("Got invalid value for %s: %s", state_var, value)
""", """            except UpnpValueError:
                _LOGGER.error("Got invalid value for %s: %s", state_var, value)
                changed_state_variables.append(state_var)
""")),
 "C10-M4-sid-before-nt": ("C10", lambda: rep(EH, """        # ensure valid request
        if "NT" not in headers or "NTS" not in headers:""", """        sid0 = headers["SID"]
        # ensure valid request
        if "NT" not in headers or "NTS" not in headers:""")),
 "C10-M5-status-swap": ("C10", lambda: rep(EH, """            or "SID" not in headers
        ):
            return HTTPStatus.PRECONDITION_FAILED""", """            or "SID" not in headers
        ):
            return HTTPStatus.BAD_REQUEST""")),
 "C10-M6-first-duplicate-wins": ("C10", lambda: rep(EH, """                changes[name] = value""", """                changes.setdefault(name, value)""")),
 "C10-M7-negative-offset-not-fixed-up": ("C10", lambda: rep(UT, 'value[-6] in ["+", "-"]', 'value[-6] in ["+"]')),
 "C09-M6-unguarded-granted-timeout": ("C09", lambda: rep(EH, "            except (ValueError, OverflowError):", "            except (KeyError,):", 2)),
 "C11-M4-replay-skips-repeated-body": ("C11", lambda: rep(EH, """            for item in self._backlog[sid]:
                await self.handle_notify(item[0], item[1])""", """            replayed = set()
            for item in self._backlog[sid]:
                if item[1] in replayed:
                    continue
                replayed.add(item[1])
                await self.handle_notify(item[0], item[1])""")),
 "C10-M8-identical-event-skipped": ("C10", lambda: rep(EH, """        # decode event and send updates to service
        changes = {}""", """        if getattr(self, "_last_event", None) == (sid, body):
            return HTTPStatus.OK
        self._last_event = (sid, body)
        # decode event and send updates to service
        changes = {}""")),
 "C10-M9-unchanged-value-not-reported": ("C10", lambda: rep(CL, """        self.validate_value(value)
        self._value = value""", """        self.validate_value(value)
        if value == self._value:
            return
        self._value = value""")),
 # --- audit 3: A* = the check must be red with a judged replay; H* = harmless (text-conforming) changes: at most no-failing-input-found
 "C09-A1-unsubscribe-deletes-after-request": ("C09", lambda: (rep(EH, """        # Remove registration before potential device errors
        del self._subscriptions[sid]
""", ""), rep(EH, """        response_status, response_headers, _ = await self._requester.async_http_request(
            "UNSUBSCRIBE", service.event_sub_url, headers
        )
""", """        try:
            response_status, response_headers, _ = await self._requester.async_http_request(
                "UNSUBSCRIBE", service.event_sub_url, headers
            )
        finally:
            self._subscriptions.pop(sid, None)
"""))),
 "C09-A2-timeout-seconds-drops-days": ("C09", lambda: rep(EH, 'str(int(timeout.total_seconds()))', 'str(timeout.seconds)', 2)),
 "C09-H3-unconfirmed-unsubscribe-returns-sid": ("C09", lambda: rep(EH, """            _LOGGER.debug("Did not receive 200, but %s", response_status)
            raise UpnpResponseError(status=response_status, headers=response_headers)

        return sid""", """            _LOGGER.debug("Did not receive 200, but %s", response_status)

        return sid""")),
 "C09-H4-empty-sid-is-missing-sid": ("C09", lambda: rep(EH, 'if "sid" not in response_headers:', 'if not response_headers.get("sid"):')),
 "C10-A1-non-evented-variables-skipped": ("C10", lambda: rep(CL, """            state_var = self.state_variable(name)
            try:""", """            state_var = self.state_variable(name)
            if not state_var.send_events:
                continue
            try:""")),
 "C10-H2-stamp-on-conversion-error": ("C10", lambda: rep(CL, """            self._value = UpnpStateVariable.UPNP_VALUE_ERROR
""", """            self._value = UpnpStateVariable.UPNP_VALUE_ERROR
            self._updated_at = datetime.now(timezone.utc)
""")),
 "C11-A1-yield-before-replay": ("C11", lambda: rep(EH, """            for item in self._backlog[sid]:
                await self.handle_notify(item[0], item[1])""", """            await asyncio.sleep(0)
            for item in self._backlog[sid]:
                await self.handle_notify(item[0], item[1])""")),
 "C11-H2-coalesced-replay-single-callback": ("C11", lambda: (rep(EH, """        # decode event and send updates to service
        changes = {}""", """        service.notify_changed_state_variables(self._decode_event(body))
        return HTTPStatus.OK

    @staticmethod
    def _decode_event(body: str) -> Dict[str, str]:
        changes = {}"""), rep(EH, """                changes[name] = value

        # send changes to service
        service.notify_changed_state_variables(changes)

        return HTTPStatus.OK""", """                changes[name] = value
        return changes"""), rep(EH, """            for item in self._backlog[sid]:
                await self.handle_notify(item[0], item[1])
            del self._backlog[sid]""", """            merged: Dict[str, str] = {}
            for item in self._backlog.pop(sid):
                for name, value in self._decode_event(item[1]).items():
                    merged.pop(name, None)
                    merged[name] = value
            service.notify_changed_state_variables(merged)"""))),
 "C09-M7-eager-HTTPStatus-phrase": ("C09", lambda: rep(EH, '_LOGGER.debug("Did not receive 200, but %s", response_status)', '_LOGGER.debug("Did not receive 200, but %s", HTTPStatus(response_status).phrase)', 3)),
 "C11-M5-notify-server-412-for-unknown-sid": ("C11", lambda: rep(AIO, """        status = await self.event_handler.handle_notify(headers, body)""", """        if self.event_handler.service_for_sid(headers.get("SID", "")) is None:
            return aiohttp.web.Response(status=412)
        status = await self.event_handler.handle_notify(headers, body)""")),
 "C11-M1-replay-newest-only": ("C11", lambda: rep(EH, "for item in self._backlog[sid]:", "for item in self._backlog[sid][-1:]:")),
 "C11-M2-delete-before-replay": ("C11", lambda: rep(EH, """            for item in self._backlog[sid]:
                await self.handle_notify(item[0], item[1])
            del self._backlog[sid]""", """            del self._backlog[sid]
            for item in self._backlog.get(sid, []):
                await self.handle_notify(item[0], item[1])""")),
 "C11-M3-register-after-replay": ("C11", lambda: (rep(EH, """        sid: ServiceId = response_headers["sid"]
        self._subscriptions[sid] = service
        _LOGGER.debug("Got SID: %s, timeout: %s", sid, timeout)
""", """        sid: ServiceId = response_headers["sid"]
"""), rep(EH, """            del self._backlog[sid]

        return sid, timeout

    async def _async_do_resubscribe""", """            del self._backlog[sid]
        self._subscriptions[sid] = service

        return sid, timeout

    async def _async_do_resubscribe"""))),
}
which=sys.argv[2:] or list(MUTS)
for name in which:
    prop, fn = MUTS[name]
    subprocess.run(["git","-C",MUT,"checkout","-q","--","."],check=True)
    fn()
    env=dict(os.environ, VERIF_REPO=MUT)
    p=subprocess.run(["timeout","900","./check",prop,"--tier","quick"],cwd=VERIF,env=env,capture_output=True,text=True)
    out=[l for l in (p.stdout+p.stderr).splitlines() if "condarc" not in l]
    viol=[l for l in out if l.startswith("VIOLATION")]
    print(f"== {name}: rc={p.returncode} {out[-1] if out else ''}")
    for v in viol[:2]: print("   ", v)
    if viol:
        m=re.search(r"replay=(\S+)", viol[0])
        if m and "no-failing-input-found" not in viol[0]:
            r=subprocess.run(["timeout","600","./check",prop,"--replay",m.group(1)],cwd=VERIF,env=env,capture_output=True,text=True)
            last=[l for l in r.stdout.splitlines() if l.startswith("replay verdict")]
            print("    replay:", r.returncode, last[-1][:200] if last else r.stdout[-200:])
subprocess.run(["git","-C",MUT,"checkout","-q","--","."],check=True)
subprocess.run(["git", "-C", LIB, "worktree", "remove", "--force", MUT], capture_output=True)
