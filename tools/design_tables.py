"""Regenerate the generated tables of DESIGN.md (between <!-- BEGIN GENERATED:name --> / <!-- END GENERATED:name --> markers)
from the harness MANIFEST dicts, the evidence files, known_findings.d/*.json and seeded/*/meta.json."""
import glob
import importlib
import json
import re
import sys
from pathlib import Path

VERIF = Path(__file__).resolve().parent.parent
sys.path.insert(0, str(VERIF))


def esc(s: str) -> str:
    return str(s).replace("|", "\\|").replace("\n", " ")


def as_built() -> str:
    rows = ["| property | theorems in `Props/` (count; see `design/Cxx.md` for the list) | generated pins (translator tie) | quick: cases (wall, seed 0, measured on the build machine under load) | thorough: cases (wall) | build notes |",
            "|---|---|---|---|---|---|"]
    for hp in sorted((VERIF / "harness").glob("c[0-9][0-9].py")):
        pid = hp.stem.upper()
        mod = importlib.import_module(f"harness.{hp.stem}")
        src = (VERIF / "lean" / "Upnp" / "Props" / f"{pid}.lean").read_text()
        thms = re.findall(r"^theorem\s+(\S+)", src, re.M)
        main = ", ".join(f"`{t}`" for t in thms[:6]) + (" …" if len(thms) > 6 else "")
        sz = json.loads((VERIF / "design" / "sizes.json").read_text()).get(pid, {})
        fmt = lambda t: f"{sz[t]['cases']} ({sz[t]['wall_s']:.0f} s)" if t in sz else ""  # noqa: E731
        rows.append(f"| {pid} | {len(thms)}: {main} | {', '.join(getattr(mod, 'GEN_MODULES', [])) or '—'} | {fmt('quick')} | {fmt('thorough')} | `design/{pid}.md` |")
    return "\n".join(rows)


def findings() -> str:
    rows = ["| id | property | status | commit in /repo | what failed |", "|---|---|---|---|---|"]
    for f in sorted(glob.glob(str(VERIF / "known_findings.d" / "*.json"))):
        for e in json.load(open(f))["findings"]:
            what = re.sub(r"^fixed: property=\S+ \S+ ", "", e["what"])
            rows.append(f"| {e['id']} | {e['property']} | {e['status']} | {e.get('commit', '')} | {esc(what)} |")
    return "\n".join(rows)


def seeded() -> str:
    rows = ["| seeded change | breaks | what it needs to manifest | caught by (tier quick unless noted) |", "|---|---|---|---|"]
    for d in sorted((VERIF / "seeded").glob("*/meta.json")):
        m = json.loads(d.read_text())
        v = m.get("verified", {})
        by = []
        for p, r in v.get("checks", {}).items():
            if r.get("rc") == 1 and r.get("violation_lines"):
                by.append(p + (" (no-failing-input-found)" if r.get("no_failing_input_found") else ""))
        caught = ", ".join(by) if by else ("NOT VERIFIED YET" if not v else "MISSED")
        rows.append(f"| `seeded/{d.parent.name}` | {esc(m.get('summary', ''))[:160]} | {esc(m.get('needs', ''))[:200]} | {caught} |")
    return "\n".join(rows)


def main() -> None:
    p = VERIF / "DESIGN.md"
    s = p.read_text()
    for name, fn in (("as_built", as_built), ("findings", findings), ("seeded", seeded)):
        a, b = f"<!-- BEGIN GENERATED:{name} -->", f"<!-- END GENERATED:{name} -->"
        if a in s and b in s:
            s = s[: s.index(a) + len(a)] + "\n" + fn() + "\n" + s[s.index(b):]
        else:
            print("marker missing:", name)
    p.write_text(s)


if __name__ == "__main__":
    main()
