"""Rewrite the commit ids in known_findings.d/*.json from the engineers' fix-branch commits to the
cherry-picked commits on /repo's main line (matched by commit subject)."""
import glob
import json
import subprocess
import sys

def git(*a):
    return subprocess.run(["git", "-C", "/repo", *a], capture_output=True, text=True).stdout.strip()

main = {}
for line in git("log", "--format=%h\t%s", "HEAD").splitlines():
    h, s = line.split("\t", 1)
    main.setdefault(s, h)
on_main = set(git("log", "--format=%h", "HEAD").split())
changed = 0
for f in sorted(glob.glob("/verif/known_findings.d/*.json")):
    doc = json.load(open(f))
    for e in doc["findings"]:
        c = e.get("commit")
        if e.get("status") != "fixed" or not c:
            continue
        short = git("rev-parse", "--short", c) or c
        if short in on_main:
            continue
        subj = git("log", "-1", "--format=%s", c)
        new = main.get(subj)
        if not new:
            print(f"{f}: {e['id']}: no commit on main with subject {subj!r}", file=sys.stderr)
            continue
        e["what"] = e["what"].replace(c, new).replace(short, new)
        e["commit"] = new
        changed += 1
    json.dump(doc, open(f, "w"), indent=1)
    open(f, "a").write("\n")
print("rewritten", changed)
