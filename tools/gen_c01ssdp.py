"""Translator for C01/C02: ssdp.py -> lean/Upnp/Gen/C01Ssdp.lean

Extracted (ast only):
  * ssdpPrefixes  - the byte literals `data.startswith(b"...")` in `is_valid_ssdp_packet`, and the shape of
                    the gate itself: `bool(data) and b"\\n" in data and (startswith or startswith ...)`
  * metaKeys      - every module-level `LOWER_* = lowerstr("...")`
  * lruSizes      - `@lru_cache(maxsize=N)` of the three caches on the decode path
  * headerSep / lineSep / searchRequestLine / searchHeaderNames - the literals `build_ssdp_packet` and
                    `build_ssdp_search_packet` serialise with
Anything of another shape raises Untranslatable.
"""
from __future__ import annotations

import ast
from pathlib import Path

import extract
from extract import Untranslatable, generator, parse


def _bytes_lit(bs: bytes) -> str:
    return "[" + ", ".join(str(b) for b in bs) + "]"


def _func(mod: ast.Module, name: str) -> ast.FunctionDef:
    for n in mod.body:
        if isinstance(n, ast.FunctionDef) and n.name == name:
            return n
    raise Untranslatable(f"function {name} not found")


def _lru_size(fn: ast.FunctionDef) -> int:
    for d in fn.decorator_list:
        if isinstance(d, ast.Call) and getattr(d.func, "id", None) == "lru_cache":
            for kw in d.keywords:
                if kw.arg == "maxsize" and isinstance(kw.value, ast.Constant) and isinstance(kw.value.value, int):
                    return kw.value.value
    raise Untranslatable(f"{fn.name}: no @lru_cache(maxsize=<int>)")


def _startswith_lits(node: ast.expr) -> list:
    """`data.startswith(b"A") or data.startswith(b"B") or ...`"""
    if not (isinstance(node, ast.BoolOp) and isinstance(node.op, ast.Or)):
        raise Untranslatable("prefix test is not an `or` chain")
    out = []
    for v in node.values:
        if not (isinstance(v, ast.Call) and isinstance(v.func, ast.Attribute) and v.func.attr == "startswith"
                and isinstance(v.func.value, ast.Name) and v.func.value.id == "data" and len(v.args) == 1
                and isinstance(v.args[0], ast.Constant) and isinstance(v.args[0].value, bytes)):
            raise Untranslatable("prefix test: operand is not data.startswith(b'...')")
        out.append(v.args[0].value)
    return out


@generator("C01Ssdp")
def gen(repo: Path) -> str:
    mod = parse(repo, "async_upnp_client/ssdp.py")
    # --- gate
    fn = _func(mod, "is_valid_ssdp_packet")
    body = [s for s in fn.body if not (isinstance(s, ast.Expr) and isinstance(s.value, ast.Constant))]
    if len(body) != 1 or not isinstance(body[0], ast.Return):
        raise Untranslatable("is_valid_ssdp_packet: body is not a single return")
    ret = body[0].value
    if not (isinstance(ret, ast.BoolOp) and isinstance(ret.op, ast.And) and len(ret.values) == 3):
        raise Untranslatable("is_valid_ssdp_packet: not `a and b and c`")
    a, b, c = ret.values
    if not (isinstance(a, ast.Call) and getattr(a.func, "id", None) == "bool" and len(a.args) == 1
            and isinstance(a.args[0], ast.Name) and a.args[0].id == "data"):
        raise Untranslatable("is_valid_ssdp_packet: first conjunct is not bool(data)")
    if not (isinstance(b, ast.Compare) and len(b.ops) == 1 and isinstance(b.ops[0], ast.In)
            and isinstance(b.left, ast.Constant) and b.left.value == b"\n"
            and isinstance(b.comparators[0], ast.Name) and b.comparators[0].id == "data"):
        raise Untranslatable("is_valid_ssdp_packet: second conjunct is not b'\\n' in data")
    prefixes = _startswith_lits(c)
    # --- meta keys
    metas = []
    for n in mod.body:
        if (isinstance(n, ast.Assign) and len(n.targets) == 1 and isinstance(n.targets[0], ast.Name)
                and n.targets[0].id.startswith("LOWER_")):
            v = n.value
            if not (isinstance(v, ast.Call) and getattr(v.func, "id", None) == "lowerstr" and len(v.args) == 1
                    and isinstance(v.args[0], ast.Constant) and isinstance(v.args[0].value, str)):
                raise Untranslatable(f"{n.targets[0].id}: not lowerstr('<literal>')")
            metas.append((n.targets[0].id, v.args[0].value))
    if not metas:
        raise Untranslatable("no LOWER_* constants")
    # --- caches
    sizes = [_lru_size(_func(mod, f)) for f in ("_cached_decode_ssdp_packet", "_cached_header_parse", "get_adjusted_url")]
    # --- builder literals
    bfn = _func(mod, "build_ssdp_packet")
    src = ast.unparse(bfn)
    joins = [n for n in ast.walk(bfn) if isinstance(n, ast.Call) and isinstance(n.func, ast.Attribute)
             and n.func.attr == "join" and isinstance(n.func.value, ast.Constant)]
    if len(joins) != 1:
        raise Untranslatable("build_ssdp_packet: expected exactly one '<sep>'.join(...)")
    line_sep = joins[0].func.value.value
    # the header line f"{key}:{value}"
    hdr_sep = None
    for n in ast.walk(joins[0]):
        if isinstance(n, ast.JoinedStr) and len(n.values) == 3 and isinstance(n.values[1], ast.Constant):
            names = [getattr(getattr(v, "value", None), "id", None) for v in (n.values[0], n.values[2])]
            if names == ["key", "value"]:
                hdr_sep = n.values[1].value
    if hdr_sep is None:
        raise Untranslatable("build_ssdp_packet: header line is not f'{key}<sep>{value}'")
    # the packet f"{status_line}\r\n{headers_str}\r\n\r\n"
    pk = None
    for n in ast.walk(bfn):
        if isinstance(n, ast.JoinedStr) and len(n.values) == 4:
            v = n.values
            if (isinstance(v[0], ast.FormattedValue) and getattr(v[0].value, "id", None) == "status_line"
                    and isinstance(v[1], ast.Constant) and isinstance(v[2], ast.FormattedValue)
                    and getattr(v[2].value, "id", None) == "headers_str" and isinstance(v[3], ast.Constant)):
                pk = (v[1].value, v[3].value)
    if pk is None:
        raise Untranslatable("build_ssdp_packet: packet is not f'{status_line}<a>{headers_str}<b>'")
    sfn = _func(mod, "build_ssdp_search_packet")
    req = None
    names = None
    for n in ast.walk(sfn):
        if isinstance(n, ast.Assign) and getattr(n.targets[0], "id", None) == "request_line" and isinstance(n.value, ast.Constant):
            req = n.value.value
        if isinstance(n, ast.Assign) and getattr(n.targets[0], "id", None) == "headers" and isinstance(n.value, ast.Dict):
            if not all(isinstance(k, ast.Constant) and isinstance(k.value, str) for k in n.value.keys):
                raise Untranslatable("build_ssdp_search_packet: header names are not literals")
            names = [k.value for k in n.value.keys]
    if req is None or names is None:
        raise Untranslatable("build_ssdp_search_packet: request_line / headers literal not found")
    del src

    out = [extract.HEADER.format(src="async_upnp_client/ssdp.py"), "namespace Upnp.Gen.C01Ssdp\n\n"]
    out.append("/-- byte prefixes accepted by `is_valid_ssdp_packet` (the gate is `bool(data) and b\"\\n\" in data and any prefix`) -/\n")
    out.append("def ssdpPrefixes : List (List Nat) :=\n  [" + ",\n   ".join(_bytes_lit(p) for p in prefixes) + "]\n\n")
    out.append("/-- `LOWER_* = lowerstr(...)` constants (name, value) -/\n")
    out.append("def metaKeyNames : List String := [" + ", ".join(extract.lean_str(n) for n, _ in metas) + "]\n")
    out.append("def metaKeys : List (List Nat) :=\n  [" + ",\n   ".join(_bytes_lit(v.encode()) for _, v in metas) + "]\n\n")
    out.append("/-- `lru_cache(maxsize=…)` of `_cached_decode_ssdp_packet`, `_cached_header_parse`, `get_adjusted_url` -/\n")
    out.append(f"def lruSizes : List Nat := [{', '.join(str(s) for s in sizes)}]\n\n")
    out.append("/-- literals of `build_ssdp_packet`: between name and value, between header lines, after the start line, at the end -/\n")
    out.append(f"def headerSep : List Nat := {_bytes_lit(hdr_sep.encode())}\n")
    out.append(f"def lineSep : List Nat := {_bytes_lit(line_sep.encode())}\n")
    out.append(f"def afterStartLine : List Nat := {_bytes_lit(pk[0].encode())}\n")
    out.append(f"def terminator : List Nat := {_bytes_lit(pk[1].encode())}\n\n")
    out.append("/-- `build_ssdp_search_packet`: request line and header names in order -/\n")
    out.append(f"def searchRequestLine : List Nat := {_bytes_lit(req.encode())}\n")
    out.append("def searchHeaderNames : List (List Nat) := [" + ", ".join(_bytes_lit(n.encode()) for n in names) + "]\n\n")
    out.append("end Upnp.Gen.C01Ssdp\n")
    return "".join(out)
