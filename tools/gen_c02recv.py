"""Translator for C02: the guards of the SSDP receive path -> lean/Upnp/Gen/C02Recv.lean

For every raising primitive of the receive-path model (lean/Upnp/Model/C02Recv.lean) the translator finds the
call in the source and records whether it sits under a handler that catches what it raises:

  datagram_received      except clause around decode_ssdp_packet        catchInvalidHeader / catchLineTooLong / catchUnicode
  get_adjusted_url       urlsplit(url) under `except ValueError`        urlsplitGuard
                         no `assert` on the hostname                    hostnameGuard
                         every `.port` read under `except ValueError`   portGuard
  extract_uncache_after  int(...) under `except ValueError`             intGuard
                         timedelta(...) under `except OverflowError`    tdGuard
  extract_valid_to       the `+` under `except OverflowError`           dtGuard
  SsdpSearchResponder._on_data   test guarding the deferred send        mxClamp  (`delay > 0` vs `delay`)
  SsdpDeviceTracker._see_device  USN check before purge_devices         checkBeforePurge

plus the constants the model hard-codes (default max-age, regex text and flags, location prefix and needles, MX cap,
jitter bounds, NTS literals), pinned by `decide` theorems in Props/C02.lean.  Unknown shapes raise Untranslatable.
"""
from __future__ import annotations

import ast
from pathlib import Path
from typing import Dict, Iterable, List, Optional, Set

import extract
from extract import Untranslatable, generator, lean_str, parse

VALUE_ERR = {"ValueError", "Exception", "BaseException"}
OVERFLOW_ERR = {"OverflowError", "ArithmeticError", "Exception", "BaseException"}


def _func(scope, name: str) -> ast.FunctionDef:
    for n in scope.body:
        if isinstance(n, ast.FunctionDef) and n.name == name:
            return n
    raise Untranslatable(f"function {name} not found")


def _class(mod: ast.Module, name: str) -> ast.ClassDef:
    for n in mod.body:
        if isinstance(n, ast.ClassDef) and n.name == name:
            return n
    raise Untranslatable(f"class {name} not found")


def _handler_names(h: ast.ExceptHandler) -> Set[str]:
    if h.type is None:
        return {"BaseException"}
    elts = h.type.elts if isinstance(h.type, ast.Tuple) else [h.type]
    out = set()
    for e in elts:
        if isinstance(e, ast.Name):
            out.add(e.id)
        elif isinstance(e, ast.Attribute):
            out.add(e.attr)
        else:
            raise Untranslatable("except clause with a non-name class")
    return out


def _caught_at(fn: ast.FunctionDef, target: ast.AST) -> Set[str]:
    """names caught by the try statements (inside fn) whose BODY encloses target"""
    caught: Set[str] = set()

    def visit(node: ast.AST, acc: Set[str]) -> bool:
        if node is target:
            caught.update(acc)
            return True
        if isinstance(node, ast.Try):
            inner = set(acc)
            for h in node.handlers:
                inner |= _handler_names(h)
            for c in node.body:
                if visit(c, inner):
                    return True
            for c in list(node.handlers) + node.orelse + node.finalbody:
                if visit(c, acc):
                    return True
            return False
        for c in ast.iter_child_nodes(node):
            if visit(c, acc):
                return True
        return False

    if not visit(fn, set()):
        raise Untranslatable("internal: target not inside function")
    return caught


def _calls(fn: ast.AST, name: str) -> List[ast.Call]:
    return [n for n in ast.walk(fn) if isinstance(n, ast.Call)
            and ((isinstance(n.func, ast.Name) and n.func.id == name) or (isinstance(n.func, ast.Attribute) and n.func.attr == name))]


def _b(x: bool) -> str:
    return "true" if x else "false"


def _bytes_lit(bs: bytes) -> str:
    return "[" + ", ".join(str(b) for b in bs) + "]"


@generator("C02Recv")
def gen(repo: Path) -> str:
    ssdp = parse(repo, "async_upnp_client/ssdp.py")
    lst = parse(repo, "async_upnp_client/ssdp_listener.py")
    srv = parse(repo, "async_upnp_client/server.py")
    adv = parse(repo, "async_upnp_client/advertisement.py")

    # --- datagram_received
    dr = _func(_class(ssdp, "SsdpProtocol"), "datagram_received")
    dec = _calls(dr, "decode_ssdp_packet")
    if len(dec) != 1:
        raise Untranslatable("datagram_received: expected exactly one decode_ssdp_packet call")
    caught = _caught_at(dr, dec[0])
    catch_ih = bool(caught & {"InvalidHeader", "BadHttpMessage", "HttpProcessingError", "Exception", "BaseException"})
    catch_ltl = bool(caught & {"LineTooLong", "BadHttpMessage", "HttpProcessingError", "Exception", "BaseException"})
    catch_uni = bool(caught & {"UnicodeDecodeError", "UnicodeError", "ValueError", "Exception", "BaseException"})
    gates = [n for n in ast.walk(dr) if isinstance(n, ast.If) and isinstance(n.test, ast.Call)
             and getattr(n.test.func, "id", None) == "is_valid_ssdp_packet"]
    if len(gates) != 1:
        raise Untranslatable("datagram_received: the is_valid_ssdp_packet gate is not a single `if`")
    # the decoder must run INSIDE the gate's body (the parser's IndexError is unreachable only behind it) ...
    if not any(x is dec[0] for b in gates[0].body for x in ast.walk(b)):
        raise Untranslatable("datagram_received: decode_ssdp_packet is not called inside `if is_valid_ssdp_packet(data):`")
    # ... and the handler around it must end the delivery: its last statement is `return` (no fall-through to on_data,
    # no re-raise)
    for t in ast.walk(dr):
        if isinstance(t, ast.Try) and any(x is dec[0] for b in t.body for x in ast.walk(b)):
            for h in t.handlers:
                if not h.body or not isinstance(h.body[-1], ast.Return) or any(isinstance(x, ast.Raise) for b in h.body for x in ast.walk(b)):
                    raise Untranslatable("datagram_received: the handler around decode_ssdp_packet does not end in `return` (or re-raises)")

    # --- get_adjusted_url
    ga = _func(ssdp, "get_adjusted_url")
    us_ = _calls(ga, "urlsplit")
    if len(us_) != 1:
        raise Untranslatable("get_adjusted_url: expected one urlsplit call")
    urlsplit_guard = bool(_caught_at(ga, us_[0]) & VALUE_ERR)
    # no assert, and an explicit `if not data.hostname: return url`
    hostname_guard = (not any(isinstance(n, ast.Assert) for n in ast.walk(ga))) and any(
        isinstance(n, ast.If) and isinstance(n.test, ast.UnaryOp) and isinstance(n.test.op, ast.Not)
        and isinstance(n.test.operand, ast.Attribute) and n.test.operand.attr == "hostname"
        and n.body and isinstance(n.body[-1], ast.Return) for n in ast.walk(ga))
    # every handler of the function returns the URL unchanged (no re-raise, no fall-through)
    for t in ast.walk(ga):
        if isinstance(t, ast.Try):
            for h in t.handlers:
                if not (len(h.body) >= 1 and isinstance(h.body[-1], ast.Return) and isinstance(h.body[-1].value, ast.Name)
                        and h.body[-1].value.id == "url"):
                    raise Untranslatable("get_adjusted_url: a handler does not `return url`")
    ports = [n for n in ast.walk(ga) if isinstance(n, ast.Attribute) and n.attr == "port"]
    if not ports:
        raise Untranslatable("get_adjusted_url: no .port read")
    port_guard = all(bool(_caught_at(ga, p) & VALUE_ERR) for p in ports)
    ipa = _calls(ga, "ip_address")
    if len(ipa) != 1 or not (_caught_at(ga, ipa[0]) & VALUE_ERR):
        raise Untranslatable("get_adjusted_url: ip_address(...) is not under `except ValueError` (model assumes it is)")

    # --- extract_uncache_after / extract_valid_to
    eu = _func(lst, "extract_uncache_after")
    ints = _calls(eu, "int")
    tds = _calls(eu, "timedelta")
    if len(ints) != 1 or len(tds) != 1:
        raise Untranslatable("extract_uncache_after: expected one int(...) and one timedelta(...)")
    int_guard = bool(_caught_at(eu, ints[0]) & VALUE_ERR)
    td_guard = bool(_caught_at(eu, tds[0]) & OVERFLOW_ERR)
    if not (len(tds[0].keywords) == 1 and tds[0].keywords[0].arg == "seconds" and not tds[0].args):
        raise Untranslatable("extract_uncache_after: not timedelta(seconds=…)")
    ev = _func(lst, "extract_valid_to")
    adds = [n for n in ast.walk(ev) if isinstance(n, ast.BinOp) and isinstance(n.op, ast.Add)]
    if len(adds) != 1:
        raise Untranslatable("extract_valid_to: expected one `+`")
    dt_guard = bool(_caught_at(ev, adds[0]) & OVERFLOW_ERR)

    # --- constants of ssdp_listener
    default_age = regex = None
    regex_flags: List[str] = []
    for n in lst.body:
        if isinstance(n, ast.Assign) and len(n.targets) == 1 and isinstance(n.targets[0], ast.Name):
            nm = n.targets[0].id
            if nm == "DEFAULT_MAX_AGE":
                v = n.value
                if not (isinstance(v, ast.Call) and getattr(v.func, "id", None) == "timedelta" and len(v.keywords) == 1
                        and v.keywords[0].arg == "seconds" and isinstance(v.keywords[0].value, ast.Constant)):
                    raise Untranslatable("DEFAULT_MAX_AGE is not timedelta(seconds=<int>)")
                default_age = int(v.keywords[0].value.value)
            if nm == "CACHE_CONTROL_RE":
                v = n.value
                if not (isinstance(v, ast.Call) and isinstance(v.func, ast.Attribute) and v.func.attr == "compile"
                        and isinstance(v.args[0], ast.Constant)):
                    raise Untranslatable("CACHE_CONTROL_RE is not re.compile('<literal>', flags)")
                regex = v.args[0].value
                for a in v.args[1:]:
                    for x in ast.walk(a):
                        if isinstance(x, ast.Attribute):
                            regex_flags.append(x.attr)
    if default_age is None or regex is None:
        raise Untranslatable("DEFAULT_MAX_AGE / CACHE_CONTROL_RE not found")

    def validity(fn_name: str):
        """header names the validity test reads, and the function it hands the location to"""
        fn = _func(lst, fn_name)
        keys = [c.args[0].value for c in _calls(fn, "get_lower") if c.args and isinstance(c.args[0], ast.Constant)]
        tests = [c.func.id for c in ast.walk(fn) if isinstance(c, ast.Call) and isinstance(c.func, ast.Name)
                 and len(c.args) == 1 and isinstance(c.args[0], ast.Name) and c.args[0].id == "location"]
        if any(isinstance(n, ast.Compare) and isinstance(n.ops[0], ast.In) for n in ast.walk(fn)) or _calls(fn, "startswith"):
            raise Untranslatable(f"{fn_name}: inline location test (substring / prefix) instead of one call on `location`")
        # the test is ONE conjunction `bool(a and b and ...)` over exactly the values read (an `or` would accept more)
        rets = [n for n in ast.walk(fn) if isinstance(n, ast.Return)]
        if len(rets) != 1 or not (isinstance(rets[0].value, ast.Call) and getattr(rets[0].value.func, "id", None) == "bool"
                                  and len(rets[0].value.args) == 1 and isinstance(rets[0].value.args[0], ast.BoolOp)
                                  and isinstance(rets[0].value.args[0].op, ast.And)):
            raise Untranslatable(f"{fn_name}: not a single `return bool(a and b and ...)`")
        conj = rets[0].value.args[0].values
        if any(isinstance(x, ast.BoolOp) for c in conj for x in ast.walk(c)) or len(conj) != len(keys) + len(tests):
            raise Untranslatable(f"{fn_name}: the conjunction does not have one operand per header read (+ the location test)")
        return keys, tests

    s_keys, s_tests = validity("valid_search_headers")
    a_keys, a_tests = validity("valid_advertisement_headers")
    b_keys, b_tests = validity("valid_byebye_headers")
    if s_tests != a_tests or len(s_tests) != 1 or b_tests:
        raise Untranslatable("valid_search_headers / valid_advertisement_headers: not exactly one (the same) location test; or byebye tests a location")
    # the location test itself must not let anything escape: every raising call in it under a ValueError handler
    lt = _func(lst, s_tests[0])
    for nm in ("urlparse", "urlsplit", "ip_address"):
        for c in _calls(lt, nm):
            if not (_caught_at(lt, c) & VALUE_ERR):
                raise Untranslatable(f"{s_tests[0]}: {nm}(...) is not under `except ValueError` (model assumes it is)")
    for n in ast.walk(lt):
        if isinstance(n, ast.Attribute) and n.attr in ("hostname", "port") and isinstance(n.ctx, ast.Load) and n.attr == "port":
            raise Untranslatable(f"{s_tests[0]}: reads .port")

    # --- _see_device order
    sd = _func(_class(lst, "SsdpDeviceTracker"), "_see_device")
    purge_i = check_i = None
    for i, st in enumerate(sd.body):
        if isinstance(st, ast.Expr) and isinstance(st.value, ast.Call) and getattr(st.value.func, "attr", None) == "purge_devices":
            purge_i = i
        if isinstance(st, ast.If) and any(isinstance(x, ast.Call) and getattr(x.func, "id", None) == "udn_from_usn" for x in ast.walk(st.test)):
            check_i = i
    if purge_i is None or check_i is None:
        raise Untranslatable("_see_device: purge_devices call / udn_from_usn test not found at top level")
    check_before_purge = check_i < purge_i

    # --- responder
    od = _func(_class(srv, "SsdpSearchResponder"), "_on_data")
    ca = _calls(od, "call_at")
    if len(ca) != 1:
        raise Untranslatable("responder: expected one call_at")
    guard_if = None
    for n in ast.walk(od):
        if isinstance(n, ast.If) and any(x is ca[0] for b in n.body for x in ast.walk(b)):
            guard_if = n
    if guard_if is None:
        raise Untranslatable("responder: call_at is not under an `if`")
    t = guard_if.test
    if isinstance(t, ast.Name) and t.id == "delay":
        mx_clamp = False
    elif (isinstance(t, ast.Compare) and isinstance(t.left, ast.Name) and t.left.id == "delay" and len(t.ops) == 1
          and isinstance(t.ops[0], ast.Gt) and isinstance(t.comparators[0], ast.Constant) and t.comparators[0].value == 0):
        mx_clamp = True
    else:
        raise Untranslatable(f"responder: unknown delay test `{ast.unparse(t)}`")
    mins = [c for c in _calls(od, "min")]
    if len(mins) != 1 or not (isinstance(mins[0].args[0], ast.Constant) and isinstance(mins[0].args[1], ast.Call)
                              and getattr(mins[0].args[1].func, "id", None) == "int"):
        raise Untranslatable("responder: delay is not min(<cap>, int(mx_header))")
    mx_cap = mins[0].args[0].value
    if not (_caught_at(od, mins[0]) & VALUE_ERR):
        raise Untranslatable("responder: int(mx_header) is not under `except ValueError` (model assumes it is)")
    rr = _calls(od, "randrange")
    if len(rr) != 1 or ast.unparse(rr[0].args[1]).replace(" ", "") not in ("delay*1000-250", "(delay*1000)-250") or not isinstance(rr[0].args[0], ast.Constant):
        raise Untranslatable(f"responder: jitter is not randrange(<lo>, delay * 1000 - 250): {ast.unparse(rr[0]) if rr else None}")
    jitter_lo = rr[0].args[0].value
    search_line = None
    for n in ast.walk(od):
        if isinstance(n, ast.Compare) and isinstance(n.left, ast.Name) and n.left.id == "request_line" and isinstance(n.comparators[0], ast.Constant):
            search_line = n.comparators[0].value
    if search_line is None:
        raise Untranslatable("responder: request_line comparison not found")

    # --- literals compared in advertisement.py / const.py
    const = parse(repo, "async_upnp_client/const.py")
    nts = {}
    for n in _class(const, "NotificationSubType").body:
        if isinstance(n, ast.Assign) and isinstance(n.value, ast.Constant):
            nts[n.targets[0].id] = n.value.value
    discover = None
    for n in ssdp.body:
        if isinstance(n, ast.Assign) and getattr(n.targets[0], "id", None) == "SSDP_DISCOVER" and isinstance(n.value, ast.Constant):
            discover = n.value.value
    if discover is None or set(nts) != {"SSDP_ALIVE", "SSDP_BYEBYE", "SSDP_UPDATE"}:
        raise Untranslatable("SSDP_DISCOVER / NotificationSubType literals not found")
    del adv

    o = [extract.HEADER.format(src="async_upnp_client/{ssdp,ssdp_listener,server,const}.py"), "namespace Upnp.Gen.C02Recv\n\n"]
    o.append("/-! guards present in the source (see tools/gen_c02recv.py) -/\n")
    for name, val in [("catchInvalidHeader", catch_ih), ("catchLineTooLong", catch_ltl), ("catchUnicode", catch_uni),
                      ("urlsplitGuard", urlsplit_guard), ("hostnameGuard", hostname_guard), ("portGuard", port_guard),
                      ("tdGuard", td_guard), ("dtGuard", dt_guard), ("intGuard", int_guard), ("mxClamp", mx_clamp),
                      ("checkBeforePurge", check_before_purge)]:
        o.append(f"def {name} : Bool := {_b(val)}\n")
    o.append(f"\ndef caughtClasses : List String := [{', '.join(lean_str(c) for c in sorted(caught))}]\n")
    o.append(f"def defaultMaxAge : Nat := {default_age}\n")
    o.append(f"def cacheControlRe : String := {lean_str(regex)}\n")
    o.append(f"def cacheControlReBytes : List Nat := {_bytes_lit(regex.encode())}\n")
    o.append(f"def cacheControlReFlags : List String := [{', '.join(lean_str(f) for f in regex_flags)}]\n")
    o.append(f"def locationTest : List Nat := {_bytes_lit(s_tests[0].encode())}\n")
    o.append("def searchKeys : List (List Nat) := [" + ", ".join(_bytes_lit(k.encode()) for k in s_keys) + "]\n")
    o.append("def advertisementKeys : List (List Nat) := [" + ", ".join(_bytes_lit(k.encode()) for k in a_keys) + "]\n")
    o.append("def byebyeKeys : List (List Nat) := [" + ", ".join(_bytes_lit(k.encode()) for k in b_keys) + "]\n")
    o.append(f"def mxCap : Nat := {mx_cap}\n")
    o.append(f"def jitterLo : Nat := {jitter_lo}\n")
    o.append("def jitterHiOffset : Nat := 250\n")
    o.append(f"def searchRequestLine : List Nat := {_bytes_lit(search_line.encode())}\n")
    o.append(f"def discover : List Nat := {_bytes_lit(discover.encode())}\n")
    o.append(f"def ntsAlive : List Nat := {_bytes_lit(nts['SSDP_ALIVE'].encode())}\n")
    o.append(f"def ntsByebye : List Nat := {_bytes_lit(nts['SSDP_BYEBYE'].encode())}\n")
    o.append(f"def ntsUpdate : List Nat := {_bytes_lit(nts['SSDP_UPDATE'].encode())}\n")
    o.append("\nend Upnp.Gen.C02Recv\n")
    return "".join(o)
