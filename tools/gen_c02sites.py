"""Translator for C02: every call site, in the functions of the SSDP receive path, of a primitive that may raise on
attacker-controlled text -> lean/Upnp/Gen/C02Sites.lean

The receive path is the call-graph closure of the entry points ROOTS inside MODULES (see `receive_path`).  In each
function the translator records, in source order, every occurrence of

  int( float( urlsplit( urlparse( ip_address( timedelta( randrange( range( parse_headers(  .decode(  .port  .hostname
  `+` (BinOp Add)   x[...] (Subscript load, also split()[n] / partition()[n] / match[n])   tuple-unpacking assignment   assert

together with the exception classes caught by the `try` bodies / `with suppress(...)` blocks that enclose it INSIDE that
function.  `Props/C02.lean` pins the list against the table of sites the model covers, so a NEW site (e.g. an unguarded
int() on a header value) breaks the build before the fuzz stream has to find an input for it.
"""
from __future__ import annotations

import ast
from pathlib import Path
from typing import List, Optional, Set, Tuple

import extract
from extract import Untranslatable, generator, lean_str, parse

CALLS = {"int", "float", "urlsplit", "urlparse", "ip_address", "timedelta", "randrange", "range", "parse_headers", "decode"}
ATTRS = {"port", "hostname"}

# The receive path = everything reachable from the entry points below by calls that resolve, BY NAME, to a function or
# method defined in these modules (an over-approximation: `x.replace(...)` also reaches `CaseInsensitiveDict.replace`);
# `Cls(...)` reaches `Cls.__init__`, `x[k]` / `x[k] = v` / `del x[k]` reach `__getitem__` / `__setitem__` / `__delitem__`.
# A new helper called from the receive path is therefore scanned without anybody listing it.
MODULES: List[Tuple[str, Optional[Set[str]]]] = [
    ("ssdp.py", None), ("advertisement.py", None), ("search.py", None), ("ssdp_listener.py", None),
    ("server.py", {"SsdpSearchResponder"}), ("utils.py", {"CaseInsensitiveDict"}),
]
ROOTS: List[Tuple[str, Optional[str], str]] = [
    ("ssdp.py", "SsdpProtocol", "datagram_received"),
    ("advertisement.py", "SsdpAdvertisementListener", "_on_data"),
    ("search.py", "SsdpSearchListener", "_on_data"),
    ("ssdp_listener.py", "SsdpListener", "_on_search"), ("ssdp_listener.py", "SsdpListener", "_on_alive"),
    ("ssdp_listener.py", "SsdpListener", "_on_byebye"), ("ssdp_listener.py", "SsdpListener", "_on_update"),
    ("server.py", "SsdpSearchResponder", "_on_data"),
]


def receive_path(repo: Path):
    """[(file, class, function, node)] in module / source order"""
    funcs = {}
    index = {}
    classes = {}
    for order, (f, only) in enumerate(MODULES):
        mod = parse(repo, "async_upnp_client/" + f)
        for n in mod.body:
            if isinstance(n, (ast.FunctionDef, ast.AsyncFunctionDef)) and f != "utils.py":
                funcs[(f, None, n.name)] = (order, n.lineno, n)
                index.setdefault(n.name, []).append((f, None, n.name))
            if isinstance(n, ast.ClassDef) and (only is None or n.name in only):
                classes[n.name] = f
                for m in n.body:
                    if isinstance(m, (ast.FunctionDef, ast.AsyncFunctionDef)):
                        funcs[(f, n.name, m.name)] = (order, m.lineno, m)
                        index.setdefault(m.name, []).append((f, n.name, m.name))
    for r in ROOTS:
        if r not in funcs:
            raise Untranslatable(f"entry point {r} not found")
    seen: Set[Tuple[str, Optional[str], str]] = set()
    todo = list(ROOTS)
    while todo:
        k = todo.pop()
        if k in seen:
            continue
        seen.add(k)
        for n in ast.walk(funcs[k][2]):
            names: List[str] = []
            if isinstance(n, ast.Call):
                nm = n.func.id if isinstance(n.func, ast.Name) else (n.func.attr if isinstance(n.func, ast.Attribute) else None)
                if nm in classes:
                    names.append("__init__")
                    todo += [t for t in index.get("__init__", []) if t[1] == nm]
                    nm = None
                if nm:
                    names.append(nm)
            elif isinstance(n, ast.Subscript):
                names.append({ast.Load: "__getitem__", ast.Store: "__setitem__", ast.Del: "__delitem__"}[type(n.ctx)])
            for nm in names:
                if nm == "__init__":
                    continue
                todo += [t for t in index.get(nm, []) if t not in seen]
    return [(k[0], k[1], k[2], funcs[k][2]) for k in sorted(seen, key=lambda k: funcs[k][:2])]


def _find(mod: ast.Module, cls: Optional[str], fn: str) -> ast.FunctionDef:
    scope = mod
    if cls is not None:
        for n in mod.body:
            if isinstance(n, ast.ClassDef) and n.name == cls:
                scope = n
                break
        else:
            raise Untranslatable(f"class {cls} not found")
    for n in scope.body:
        if isinstance(n, (ast.FunctionDef, ast.AsyncFunctionDef)) and n.name == fn:
            return n
    raise Untranslatable(f"function {cls + '.' if cls else ''}{fn} not found")


def _names(t: Optional[ast.expr]) -> Set[str]:
    if t is None:
        return {"BaseException"}
    out = set()
    for e in (t.elts if isinstance(t, ast.Tuple) else [t]):
        if isinstance(e, ast.Name):
            out.add(e.id)
        elif isinstance(e, ast.Attribute):
            out.add(e.attr)
        else:
            raise Untranslatable("exception class that is not a name")
    return out


def _sites(fn: ast.FunctionDef) -> List[Tuple[str, str]]:
    out: List[Tuple[int, int, str, str]] = []

    def rec(node: ast.AST, guard: Set[str], annotation: bool) -> None:
        if isinstance(node, (ast.FunctionDef, ast.AsyncFunctionDef, ast.Lambda)) and node is not fn:
            for c in ast.iter_child_nodes(node):
                rec(c, guard, annotation)
            return
        g = ",".join(sorted(guard)) or "-"
        pos = (getattr(node, "lineno", 0), getattr(node, "col_offset", 0))
        if not annotation:
            if isinstance(node, ast.Call):
                f = node.func
                nm = f.id if isinstance(f, ast.Name) else (f.attr if isinstance(f, ast.Attribute) else None)
                if nm in CALLS:
                    out.append((*pos, nm + "(", g))
            elif isinstance(node, ast.Attribute) and node.attr in ATTRS and isinstance(node.ctx, ast.Load):
                out.append((*pos, "." + node.attr, g))
            elif isinstance(node, ast.BinOp) and isinstance(node.op, ast.Add):
                out.append((*pos, "+", g))
            elif isinstance(node, ast.Subscript) and isinstance(node.ctx, (ast.Load, ast.Del)):
                out.append((*pos, ("del[" if isinstance(node.ctx, ast.Del) else "[") + ast.unparse(node.slice)[:24] + "]", g))
            elif isinstance(node, ast.Assign) and any(isinstance(t, (ast.Tuple, ast.List)) for t in node.targets) \
                    and not isinstance(node.value, (ast.Tuple, ast.List)):
                out.append((*pos, "unpack " + ast.unparse(node.value)[:32], g))
            elif isinstance(node, ast.Assert):
                out.append((*pos, "assert " + ast.unparse(node.test)[:32], g))
        if isinstance(node, ast.Try):
            inner = set(guard)
            for h in node.handlers:
                inner |= _names(h.type)
            for c in node.body:
                rec(c, inner, annotation)
            for c in list(node.handlers) + node.orelse + node.finalbody:
                rec(c, guard, annotation)
            return
        if isinstance(node, ast.With):
            inner = set(guard)
            for it in node.items:
                ce = it.context_expr
                if isinstance(ce, ast.Call) and getattr(ce.func, "id", None) == "suppress":
                    for a in ce.args:
                        inner |= _names(a)
                rec(ce, guard, annotation)
            for c in node.body:
                rec(c, inner, annotation)
            return
        if isinstance(node, ast.AnnAssign):
            rec(node.target, guard, annotation)
            if node.value is not None:
                rec(node.value, guard, annotation)
            return
        if isinstance(node, ast.arguments):
            return
        for name, child in ast.iter_fields(node):
            if name in ("returns", "annotation", "type_comment", "decorator_list"):
                continue
            if isinstance(child, list):
                for c in child:
                    if isinstance(c, ast.AST):
                        rec(c, guard, annotation)
            elif isinstance(child, ast.AST):
                rec(child, guard, annotation)

    for st in fn.body:
        rec(st, set(), False)
    out.sort()
    return [(p, g) for _, _, p, g in out]


@generator("C02Sites")
def gen(repo: Path) -> str:
    rows = []
    for f, cls, fn, node in receive_path(repo):
        q = f"{f[:-3]}:{cls + '.' if cls else ''}{fn}"
        for prim, guard in _sites(node):
            rows.append((q, prim, guard))
    o = [extract.HEADER.format(src="the functions reachable from the receive-path entry points (tools/gen_c02sites.py)"), "namespace Upnp.Gen.C02Sites\n\n"]
    o.append("/-- (function, primitive, exception classes caught around it inside that function) in source order -/\n")
    o.append("def sites : List (String × String × String) :=\n  [" + ",\n   ".join(
        f"({lean_str(a)}, {lean_str(b)}, {lean_str(c)})" for a, b, c in rows) + "]\n\n")
    o.append("end Upnp.Gen.C02Sites\n")
    return "".join(o)
