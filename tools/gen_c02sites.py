"""Translator for C02: every call site, in the functions of the SSDP receive path, of a primitive that may raise on
attacker-controlled text -> lean/Upnp/Gen/C02Sites.lean

The receive path is the fixed list FUNCTIONS below (a function of that list that disappears is Untranslatable).  In each
function the translator records, in source order, every occurrence of

  int( float( urlsplit( urlparse( ip_address( timedelta( randrange( range( parse_headers(  .decode(  .port  .hostname
  `+` (BinOp Add)   x[...] (Subscript load, also split()[n] / partition()[n] / match[n])   tuple-unpacking assignment   assert

together with the exception classes caught by the `try` bodies / `with suppress(...)` blocks that enclose it INSIDE that
function.  `Props/C02.lean` pins the list against the table of sites the model covers, so a NEW site (e.g. an unguarded
int() on a header value) breaks the build before the fuzz stream has to find an input for it.
"""
from __future__ import annotations

import ast
from pathlib import Path
from typing import List, Optional, Set, Tuple

import extract
from extract import Untranslatable, generator, lean_str, parse

CALLS = {"int", "float", "urlsplit", "urlparse", "ip_address", "timedelta", "randrange", "range", "parse_headers", "decode"}
ATTRS = {"port", "hostname"}

# (file, class or None, function)
FUNCTIONS: List[Tuple[str, Optional[str], str]] = [
    ("ssdp.py", None, "get_host_string"), ("ssdp.py", None, "get_adjusted_url"), ("ssdp.py", None, "is_valid_ssdp_packet"),
    ("ssdp.py", None, "udn_from_usn"), ("ssdp.py", None, "_cached_header_parse"), ("ssdp.py", None, "_cached_decode_ssdp_packet"),
    ("ssdp.py", None, "decode_ssdp_packet"), ("ssdp.py", "SsdpProtocol", "datagram_received"),
    ("advertisement.py", "SsdpAdvertisementListener", "_on_data"),
    ("search.py", "SsdpSearchListener", "_on_data"),
    ("ssdp_listener.py", None, "valid_search_headers"), ("ssdp_listener.py", None, "valid_advertisement_headers"),
    ("ssdp_listener.py", None, "valid_byebye_headers"), ("ssdp_listener.py", None, "extract_uncache_after"),
    ("ssdp_listener.py", None, "extract_valid_to"), ("ssdp_listener.py", None, "same_headers_differ"),
    ("ssdp_listener.py", None, "headers_differ_from_existing_advertisement"), ("ssdp_listener.py", None, "headers_differ_from_existing_search"),
    ("ssdp_listener.py", None, "ip_version_from_location"), ("ssdp_listener.py", None, "location_changed"),
    ("ssdp_listener.py", "SsdpDevice", "add_location"), ("ssdp_listener.py", "SsdpDevice", "purge_locations"),
    ("ssdp_listener.py", "SsdpDeviceTracker", "see_search"), ("ssdp_listener.py", "SsdpDeviceTracker", "see_advertisement"),
    ("ssdp_listener.py", "SsdpDeviceTracker", "_see_device"), ("ssdp_listener.py", "SsdpDeviceTracker", "unsee_advertisement"),
    ("ssdp_listener.py", "SsdpDeviceTracker", "purge_devices"),
    ("ssdp_listener.py", "SsdpListener", "_on_search"), ("ssdp_listener.py", "SsdpListener", "_on_alive"),
    ("ssdp_listener.py", "SsdpListener", "_on_byebye"), ("ssdp_listener.py", "SsdpListener", "_on_update"),
    ("server.py", "SsdpSearchResponder", "_on_data"), ("server.py", "SsdpSearchResponder", "_build_responses"),
    ("server.py", "SsdpSearchResponder", "_match_type_versions"), ("server.py", "SsdpSearchResponder", "_matched_devices_by_type"),
    ("server.py", "SsdpSearchResponder", "_matched_services_by_type"), ("server.py", "SsdpSearchResponder", "_send_responses"),
    ("utils.py", "CaseInsensitiveDict", "__init__"), ("utils.py", "CaseInsensitiveDict", "_drop_shadowed_keys"),
    ("utils.py", "CaseInsensitiveDict", "combine_lower_dict"), ("utils.py", "CaseInsensitiveDict", "get_lower"),
    ("utils.py", "CaseInsensitiveDict", "__setitem__"), ("utils.py", "CaseInsensitiveDict", "__getitem__"),
    ("utils.py", "CaseInsensitiveDict", "replace"), ("utils.py", "CaseInsensitiveDict", "case_map"), ("utils.py", "CaseInsensitiveDict", "as_dict"),
]


def _find(mod: ast.Module, cls: Optional[str], fn: str) -> ast.FunctionDef:
    scope = mod
    if cls is not None:
        for n in mod.body:
            if isinstance(n, ast.ClassDef) and n.name == cls:
                scope = n
                break
        else:
            raise Untranslatable(f"class {cls} not found")
    for n in scope.body:
        if isinstance(n, (ast.FunctionDef, ast.AsyncFunctionDef)) and n.name == fn:
            return n
    raise Untranslatable(f"function {cls + '.' if cls else ''}{fn} not found")


def _names(t: Optional[ast.expr]) -> Set[str]:
    if t is None:
        return {"BaseException"}
    out = set()
    for e in (t.elts if isinstance(t, ast.Tuple) else [t]):
        if isinstance(e, ast.Name):
            out.add(e.id)
        elif isinstance(e, ast.Attribute):
            out.add(e.attr)
        else:
            raise Untranslatable("exception class that is not a name")
    return out


def _sites(fn: ast.FunctionDef) -> List[Tuple[str, str]]:
    out: List[Tuple[int, int, str, str]] = []

    def rec(node: ast.AST, guard: Set[str], annotation: bool) -> None:
        if isinstance(node, (ast.FunctionDef, ast.AsyncFunctionDef, ast.Lambda)) and node is not fn:
            for c in ast.iter_child_nodes(node):
                rec(c, guard, annotation)
            return
        g = ",".join(sorted(guard)) or "-"
        pos = (getattr(node, "lineno", 0), getattr(node, "col_offset", 0))
        if not annotation:
            if isinstance(node, ast.Call):
                f = node.func
                nm = f.id if isinstance(f, ast.Name) else (f.attr if isinstance(f, ast.Attribute) else None)
                if nm in CALLS:
                    out.append((*pos, nm + "(", g))
            elif isinstance(node, ast.Attribute) and node.attr in ATTRS and isinstance(node.ctx, ast.Load):
                out.append((*pos, "." + node.attr, g))
            elif isinstance(node, ast.BinOp) and isinstance(node.op, ast.Add):
                out.append((*pos, "+", g))
            elif isinstance(node, ast.Subscript) and isinstance(node.ctx, (ast.Load, ast.Del)):
                out.append((*pos, ("del[" if isinstance(node.ctx, ast.Del) else "[") + ast.unparse(node.slice)[:24] + "]", g))
            elif isinstance(node, ast.Assign) and any(isinstance(t, (ast.Tuple, ast.List)) for t in node.targets) \
                    and not isinstance(node.value, (ast.Tuple, ast.List)):
                out.append((*pos, "unpack " + ast.unparse(node.value)[:32], g))
            elif isinstance(node, ast.Assert):
                out.append((*pos, "assert " + ast.unparse(node.test)[:32], g))
        if isinstance(node, ast.Try):
            inner = set(guard)
            for h in node.handlers:
                inner |= _names(h.type)
            for c in node.body:
                rec(c, inner, annotation)
            for c in list(node.handlers) + node.orelse + node.finalbody:
                rec(c, guard, annotation)
            return
        if isinstance(node, ast.With):
            inner = set(guard)
            for it in node.items:
                ce = it.context_expr
                if isinstance(ce, ast.Call) and getattr(ce.func, "id", None) == "suppress":
                    for a in ce.args:
                        inner |= _names(a)
                rec(ce, guard, annotation)
            for c in node.body:
                rec(c, inner, annotation)
            return
        if isinstance(node, ast.AnnAssign):
            rec(node.target, guard, annotation)
            if node.value is not None:
                rec(node.value, guard, annotation)
            return
        if isinstance(node, ast.arguments):
            return
        for name, child in ast.iter_fields(node):
            if name in ("returns", "annotation", "type_comment", "decorator_list"):
                continue
            if isinstance(child, list):
                for c in child:
                    if isinstance(c, ast.AST):
                        rec(c, guard, annotation)
            elif isinstance(child, ast.AST):
                rec(child, guard, annotation)

    for st in fn.body:
        rec(st, set(), False)
    out.sort()
    return [(p, g) for _, _, p, g in out]


@generator("C02Sites")
def gen(repo: Path) -> str:
    mods = {}
    rows = []
    for f, cls, fn in FUNCTIONS:
        if f not in mods:
            mods[f] = parse(repo, "async_upnp_client/" + f)
        node = _find(mods[f], cls, fn)
        q = f"{f[:-3]}:{cls + '.' if cls else ''}{fn}"
        for prim, guard in _sites(node):
            rows.append((q, prim, guard))
    o = [extract.HEADER.format(src="the receive-path functions listed in tools/gen_c02sites.py"), "namespace Upnp.Gen.C02Sites\n\n"]
    o.append("/-- (function, primitive, exception classes caught around it inside that function) in source order -/\n")
    o.append("def sites : List (String × String × String) :=\n  [" + ",\n   ".join(
        f"({lean_str(a)}, {lean_str(b)}, {lean_str(c)})" for a, b, c in rows) + "]\n\n")
    o.append("end Upnp.Gen.C02Sites\n")
    return "".join(o)
