"""Translator for C03/C04: the constants and validity tests of ssdp_listener.py -> lean/Upnp/Gen/C03Tracker.lean.

Extracted with `ast` only (shapes are matched strictly; anything else raises Untranslatable):
  CACHE_CONTROL_RE = re.compile(<pattern>, re.IGNORECASE)      -> cacheControlRe, cacheControlIgnoreCase
  DEFAULT_MAX_AGE = timedelta(seconds=<n>)                     -> defaultMaxAgeSec
  IGNORED_HEADERS = {<str>, ...}                               -> ignoredHeaders (sorted)
  valid_search_headers / valid_advertisement_headers / valid_byebye_headers:
      <name> = headers.get_lower(<key>[, ""]) ... return bool(a and b and ... and location.startswith(<p>)
      and is_usable_location(location))                        -> required header names
  is_usable_location: whole source text, the startswith prefix, the scheme tuple, the loopback name  -> usable*
  same_headers_differ: the skip test `(lower_header != "" and lower_header[0] == "_") or lower_header in IGNORED_HEADERS`
                                                               -> privatePrefix
  purge tests: `now > device.valid_to`, `now > valid_to`, `self.next_valid_to > now` (strictness of the comparisons)
                                                               -> purgeTests
  whole source (docstrings / comments / layout apart) of every function the model transcribes by hand  -> sources
  _see_device: the order of its top-level statements (validate USN -> purge -> ...)  -> seeDeviceOrder
"""
from __future__ import annotations

import ast
from pathlib import Path

from extract import HEADER, Untranslatable, generator, lean_list, lean_str, parse

SRC = "async_upnp_client/ssdp_listener.py"


def _assign(mod: ast.Module, name: str) -> ast.expr:
    for node in mod.body:
        if isinstance(node, ast.Assign) and len(node.targets) == 1 and isinstance(node.targets[0], ast.Name) \
                and node.targets[0].id == name:
            return node.value
    raise Untranslatable(f"{name}: assignment not found")


def _func(mod: ast.Module, name: str) -> ast.FunctionDef:
    for node in mod.body:
        if isinstance(node, ast.FunctionDef) and node.name == name:
            return node
    raise Untranslatable(f"{name}: function not found")


def _str(node: ast.expr, what: str) -> str:
    if isinstance(node, ast.Constant) and isinstance(node.value, str):
        return node.value
    raise Untranslatable(f"{what}: string constant expected, got {ast.dump(node)[:80]}")


def _valid_fn(mod: ast.Module, fname: str):
    """-> (required header names in order, prefix or None, needles)"""
    fn = _func(mod, fname)
    var2hdr = {}
    ret = None
    for st in fn.body:
        if isinstance(st, ast.Expr) and isinstance(st.value, ast.Constant):
            continue  # docstring
        if isinstance(st, ast.Assign) and len(st.targets) == 1 and isinstance(st.targets[0], ast.Name):
            call = st.value
            if not (isinstance(call, ast.Call) and isinstance(call.func, ast.Attribute) and call.func.attr == "get_lower"
                    and isinstance(call.func.value, ast.Name) and call.func.value.id == "headers"
                    and 1 <= len(call.args) <= 2 and not call.keywords):
                raise Untranslatable(f"{fname}: unexpected assignment {ast.dump(st)[:120]}")
            if len(call.args) == 2 and _str(call.args[1], fname) != "":
                raise Untranslatable(f"{fname}: non-empty default")
            var2hdr[st.targets[0].id] = _str(call.args[0], fname)
            continue
        if isinstance(st, ast.Return):
            ret = st.value
            continue
        raise Untranslatable(f"{fname}: unexpected statement {ast.dump(st)[:120]}")
    if not (isinstance(ret, ast.Call) and isinstance(ret.func, ast.Name) and ret.func.id == "bool" and len(ret.args) == 1
            and isinstance(ret.args[0], ast.BoolOp) and isinstance(ret.args[0].op, ast.And)):
        raise Untranslatable(f"{fname}: return bool(a and b ...) expected")
    required, prefix, needles = [], None, []
    for v in ret.args[0].values:
        if isinstance(v, ast.Call) and isinstance(v.func, ast.Name) and v.func.id == "is_usable_location" \
                and len(v.args) == 1 and isinstance(v.args[0], ast.Name) and var2hdr.get(v.args[0].id) == "location" \
                and not v.keywords:
            if prefix is not None:
                raise Untranslatable(f"{fname}: two location tests")
            prefix = "<is_usable_location>"
            continue
        if isinstance(v, ast.Name):
            if v.id not in var2hdr:
                raise Untranslatable(f"{fname}: unknown name {v.id}")
            required.append(var2hdr[v.id])
        elif isinstance(v, ast.Call) and isinstance(v.func, ast.Attribute) and v.func.attr == "startswith" \
                and isinstance(v.func.value, ast.Name) and var2hdr.get(v.func.value.id) == "location" and len(v.args) == 1:
            if prefix is not None:
                raise Untranslatable(f"{fname}: two prefixes")
            prefix = _str(v.args[0], fname)
        elif isinstance(v, ast.UnaryOp) and isinstance(v.op, ast.Not) and isinstance(v.operand, ast.BoolOp) \
                and isinstance(v.operand.op, ast.Or):
            for c in v.operand.values:
                if not (isinstance(c, ast.Compare) and len(c.ops) == 1 and isinstance(c.ops[0], ast.In)
                        and isinstance(c.comparators[0], ast.Name) and var2hdr.get(c.comparators[0].id) == "location"):
                    raise Untranslatable(f"{fname}: unexpected needle test {ast.dump(c)[:120]}")
                needles.append(_str(c.left, fname))
        else:
            raise Untranslatable(f"{fname}: unexpected conjunct {ast.dump(v)[:120]}")
    return required, prefix, needles


def _usable_location(mod: ast.Module):
    """is_usable_location: (source text without docstring, startswith prefix, accepted schemes, loopback names)"""
    fn = _func(mod, "is_usable_location")
    body = [st for st in fn.body if not (isinstance(st, ast.Expr) and isinstance(st.value, ast.Constant))]
    src = "\n".join(ast.unparse(st) for st in body)
    prefix, schemes, names = None, None, []
    for node in ast.walk(fn):
        if isinstance(node, ast.Call) and isinstance(node.func, ast.Attribute) and node.func.attr == "startswith" \
                and len(node.args) == 1:
            prefix = _str(node.args[0], "is_usable_location")
        if isinstance(node, ast.Compare) and len(node.ops) == 1 and isinstance(node.ops[0], ast.NotIn) \
                and ast.unparse(node.left) == "parts.scheme" and isinstance(node.comparators[0], ast.Tuple):
            schemes = [_str(e, "is_usable_location") for e in node.comparators[0].elts]
        if isinstance(node, ast.Compare) and len(node.ops) == 1 and isinstance(node.ops[0], ast.Eq) \
                and ast.unparse(node.left) == "hostname":
            names.append(_str(node.comparators[0], "is_usable_location"))
    if prefix is None or schemes is None:
        raise Untranslatable("is_usable_location: startswith(...) / parts.scheme not in (...) not found")
    return src, prefix, schemes, names


def _skip_test(mod: ast.Module) -> str:
    """the `continue` guard of same_headers_differ -> the private prefix character"""
    fn = _func(mod, "same_headers_differ")
    for node in ast.walk(fn):
        if isinstance(node, ast.If) and len(node.body) == 1 and isinstance(node.body[0], ast.Continue):
            t = node.test
            if not (isinstance(t, ast.BoolOp) and isinstance(t.op, ast.Or) and len(t.values) == 2):
                break
            a, b = t.values
            ok_b = (isinstance(b, ast.Compare) and len(b.ops) == 1 and isinstance(b.ops[0], ast.In)
                    and isinstance(b.left, ast.Name) and b.left.id == "lower_header"
                    and isinstance(b.comparators[0], ast.Name) and b.comparators[0].id == "IGNORED_HEADERS")
            if not (ok_b and isinstance(a, ast.BoolOp) and isinstance(a.op, ast.And) and len(a.values) == 2):
                break
            ne, first = a.values
            if not (isinstance(ne, ast.Compare) and isinstance(ne.ops[0], ast.NotEq) and _str(ne.comparators[0], "skip") == ""):
                break
            if not (isinstance(first, ast.Compare) and isinstance(first.ops[0], ast.Eq) and isinstance(first.left, ast.Subscript)
                    and isinstance(first.left.slice, ast.Constant) and first.left.slice.value == 0):
                break
            return _str(first.comparators[0], "skip")
    raise Untranslatable("same_headers_differ: skip test not recognised")


def _purge_tests(mod: ast.Module):
    """the comparisons of purge_devices / purge_locations / _see_device, as source text (whitespace-normalised)"""
    out = []
    cls = [n for n in mod.body if isinstance(n, ast.ClassDef) and n.name in ("SsdpDeviceTracker", "SsdpDevice")]
    want = {"purge_devices", "purge_locations", "_see_device"}
    for c in cls:
        for fn in c.body:
            if isinstance(fn, ast.FunctionDef) and fn.name in want:
                for node in ast.walk(fn):
                    if isinstance(node, ast.Compare) and any(isinstance(o, (ast.Gt, ast.GtE, ast.Lt, ast.LtE)) for o in node.ops):
                        out.append(f"{fn.name}: {ast.unparse(node)}")
    return out


def _see_device_order(mod: ast.Module):
    """top-level statements of SsdpDeviceTracker._see_device, classified (order matters: validate -> purge -> ...)"""
    cls = [n for n in mod.body if isinstance(n, ast.ClassDef) and n.name == "SsdpDeviceTracker"]
    if not cls:
        raise Untranslatable("SsdpDeviceTracker not found")
    fn = next((f for f in cls[0].body if isinstance(f, ast.FunctionDef) and f.name == "_see_device"), None)
    if fn is None:
        raise Untranslatable("_see_device not found")
    out = []
    for st in fn.body:
        src = ast.unparse(st)
        if isinstance(st, ast.Expr) and isinstance(st.value, ast.Constant):
            continue  # docstring
        if isinstance(st, ast.If) and "udn_from_usn" in ast.unparse(st.test) and any(isinstance(b, ast.Return) for b in st.body) \
                and not st.orelse and "purge" not in src:
            out.append("validate-usn-return")
        elif isinstance(st, ast.Assign) and src.startswith("now = headers.get_lower('_timestamp')"):
            out.append("now")
        elif isinstance(st, ast.Expr) and src == "self.purge_devices(now)":
            out.append("purge")
        elif isinstance(st, ast.Assign) and src == "valid_to = extract_valid_to(headers)":
            out.append("valid_to")
        elif isinstance(st, ast.If) and src.startswith("if udn not in self.devices:") and st.orelse:
            out.append("create-or-refresh")
        elif isinstance(st, ast.Assign) and src == "new_location = location_changed(ssdp_device, headers)":
            out.append("location_changed")
        elif isinstance(st, ast.Expr) and src == "ssdp_device.add_location(headers.get_lower('location'), valid_to)":
            out.append("add_location")
        elif isinstance(st, ast.Assign) and src == "ssdp_device.last_seen = now":
            out.append("last_seen")
        elif isinstance(st, ast.If) and "next_valid_to" in ast.unparse(st.test) and not st.orelse:
            out.append("lower-watermark")
        elif isinstance(st, ast.Return):
            out.append("return")
        else:
            raise Untranslatable(f"_see_device: unexpected statement {src[:100]}")
    return out


# functions the tracker model transcribes by hand: their whole source (docstrings, comments and layout apart) is pinned
PINNED_SOURCES = [
    ("is_usable_location", None), ("extract_uncache_after", None), ("extract_valid_to", None),
    ("same_headers_differ", None), ("location_changed", None), ("ip_version_from_location", None),
    ("purge_locations", "SsdpDevice"), ("combined_headers", "SsdpDevice"), ("location", "SsdpDevice"),
    ("purge_devices", "SsdpDeviceTracker"), ("_see_device", "SsdpDeviceTracker"), ("see_search", "SsdpDeviceTracker"),
    ("see_advertisement", "SsdpDeviceTracker"), ("unsee_advertisement", "SsdpDeviceTracker"),
    ("_on_search", "SsdpListener"), ("_on_alive", "SsdpListener"), ("_on_update", "SsdpListener"),
    ("_on_byebye", "SsdpListener"),
]


def _source_of(mod: ast.Module, name: str, cls) -> str:
    scope = mod.body
    if cls is not None:
        cs = [n for n in mod.body if isinstance(n, ast.ClassDef) and n.name == cls]
        if not cs:
            raise Untranslatable(f"class {cls} not found")
        scope = cs[0].body
    fns = [n for n in scope if isinstance(n, (ast.FunctionDef, ast.AsyncFunctionDef)) and n.name == name]
    if len(fns) != 1:
        raise Untranslatable(f"{cls or 'module'}.{name}: expected exactly one definition")
    fn = fns[0]
    body = [st for st in fn.body if not (isinstance(st, ast.Expr) and isinstance(st.value, ast.Constant)
                                         and isinstance(st.value.value, str))]
    args = ast.unparse(fn.args)
    return f"def {name}({args}):\n" + "\n".join(ast.unparse(st) for st in body)


@generator("C03Tracker")
def gen(repo: Path) -> str:
    mod = parse(repo, SRC)
    cc = _assign(mod, "CACHE_CONTROL_RE")
    if not (isinstance(cc, ast.Call) and ast.unparse(cc.func) == "re.compile" and len(cc.args) == 2 and not cc.keywords):
        raise Untranslatable("CACHE_CONTROL_RE: re.compile(pattern, flags) expected")
    pattern = _str(cc.args[0], "CACHE_CONTROL_RE")
    flags = ast.unparse(cc.args[1])
    dm = _assign(mod, "DEFAULT_MAX_AGE")
    if not (isinstance(dm, ast.Call) and ast.unparse(dm.func) == "timedelta" and not dm.args and len(dm.keywords) == 1
            and dm.keywords[0].arg == "seconds" and isinstance(dm.keywords[0].value, ast.Constant)
            and isinstance(dm.keywords[0].value.value, int) and dm.keywords[0].value.value >= 0):
        raise Untranslatable("DEFAULT_MAX_AGE: timedelta(seconds=<nat>) expected")
    default_max_age = dm.keywords[0].value.value
    ig = _assign(mod, "IGNORED_HEADERS")
    if not isinstance(ig, ast.Set):
        raise Untranslatable("IGNORED_HEADERS: set display expected")
    ignored = sorted(_str(e, "IGNORED_HEADERS") for e in ig.elts)
    s_req, s_pre, s_needles = _valid_fn(mod, "valid_search_headers")
    a_req, a_pre, a_needles = _valid_fn(mod, "valid_advertisement_headers")
    b_req, b_pre, b_needles = _valid_fn(mod, "valid_byebye_headers")
    if s_pre != "<is_usable_location>" or a_pre != "<is_usable_location>" or s_needles or a_needles:
        raise Untranslatable("valid_*_headers: the location test is not is_usable_location(location)")
    u_src, u_prefix, u_schemes, u_names = _usable_location(mod)
    priv = _skip_test(mod)
    tests = _purge_tests(mod)
    order = _see_device_order(mod)

    def sl(xs):
        return lean_list([lean_str(x) for x in xs])

    out = HEADER.format(src=SRC)
    out += "namespace Upnp.Gen.C03Tracker\n\n"
    out += f"def cacheControlRe : String := {lean_str(pattern)}\n"
    out += f"def cacheControlFlags : String := {lean_str(flags)}\n"
    out += f"def defaultMaxAgeSec : Nat := {default_max_age}\n"
    out += f"def ignoredHeaders : List String := {sl(ignored)}\n"
    out += f"def privatePrefix : String := {lean_str(priv)}\n"
    out += f"def searchRequired : List String := {sl(s_req)}\n"
    out += f"def usableLocationSrc : String := {lean_str(u_src)}\n"
    out += f"def usablePrefix : String := {lean_str(u_prefix)}\n"
    out += f"def usableSchemes : List String := {sl(u_schemes)}\n"
    out += f"def usableLoopbackNames : List String := {sl(u_names)}\n"
    out += f"def advRequired : List String := {sl(a_req)}\n"

    out += f"def byebyeRequired : List String := {sl(b_req)}\n"
    out += f"def byebyeLocationPrefix : Option String := {'none' if b_pre is None else 'some ' + lean_str(b_pre)}\n"
    out += f"def byebyeBadNeedles : List String := {sl(b_needles)}\n"
    out += f"def purgeTests : List String := {sl(tests)}\n"
    out += f"def seeDeviceOrder : List String := {sl(order)}\n"
    out += "def sources : List (String × String) := [\n"
    out += ",\n".join(f"  ({lean_str((cls + '.' if cls else '') + name)}, {lean_str(_source_of(mod, name, cls))})"
                       for name, cls in PINNED_SOURCES)
    out += "]\n"
    out += "\nend Upnp.Gen.C03Tracker\n"
    return out
