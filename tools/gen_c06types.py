"""C06/C07 translator: const.STATE_VARIABLE_TYPE_MAPPING, the entity table passed to `escape` in
client.UpnpAction._format_request_args, and the library exception hierarchy (exceptions.py)
-> lean/Upnp/Gen/C06Types.lean."""
from __future__ import annotations

import ast
from pathlib import Path

import extract
from extract import Untranslatable, lean_str

PYTYPES = {"int": ".int", "float": ".float", "str": ".str", "bool": ".bool", "date": ".date",
           "datetime": ".datetime", "time": ".time"}


def chars(s: str) -> str:
    """a Lean `List Char` literal (kernel-reducible, unlike String functions)"""
    return lean_str(s) + ".toList"


def _is_name(node, name=None):
    return isinstance(node, ast.Name) and (name is None or node.id == name)


def _lambda1(node):
    if not isinstance(node, ast.Lambda):
        return None
    a = node.args
    if a.posonlyargs or a.kwonlyargs or a.vararg or a.kwarg or a.defaults or len(a.args) != 1:
        return None
    return a.args[0].arg, node.body


def in_shape(node) -> str:
    if _is_name(node, "int"):
        return ".int"
    if _is_name(node, "float"):
        return ".float"
    if _is_name(node, "str"):
        return ".str"
    if _is_name(node, "parse_date_time"):
        return ".dateTime"
    lam = _lambda1(node)
    if lam:
        arg, body = lam
        # s.lower() in ["1", "true", "yes"]
        if (isinstance(body, ast.Compare) and len(body.ops) == 1 and isinstance(body.ops[0], ast.In)
                and isinstance(body.left, ast.Call) and not body.left.args and not body.left.keywords
                and isinstance(body.left.func, ast.Attribute) and body.left.func.attr == "lower"
                and _is_name(body.left.func.value, arg)
                and isinstance(body.comparators[0], (ast.List, ast.Tuple, ast.Set))
                and all(isinstance(e, ast.Constant) and isinstance(e.value, str) for e in body.comparators[0].elts)):
            return "(.boolIn [" + ", ".join(chars(e.value) for e in body.comparators[0].elts) + "])"
    raise Untranslatable("in-coercer: " + ast.dump(node)[:200])


def out_shape(node, pytype: str = "") -> str:
    if _is_name(node, "str"):
        return ".str"
    lam = _lambda1(node)
    if lam:
        arg, body = lam
        # str(int(x))
        if (isinstance(body, ast.Call) and _is_name(body.func, "str") and len(body.args) == 1 and not body.keywords
                and isinstance(body.args[0], ast.Call) and _is_name(body.args[0].func, "int")
                and len(body.args[0].args) == 1 and not body.args[0].keywords and _is_name(body.args[0].args[0], arg)):
            return ".strInt"
        # "1" if b else "0"
        if (isinstance(body, ast.IfExp) and _is_name(body.test, arg)
                and all(isinstance(x, ast.Constant) and isinstance(x.value, str) for x in (body.body, body.orelse))):
            return f"(.boolOut {chars(body.body.value)} {chars(body.orelse.value)})"
        # x.isoformat(...)
        if (isinstance(body, ast.Call) and isinstance(body.func, ast.Attribute) and body.func.attr == "isoformat"
                and _is_name(body.func.value, arg)
                and all(isinstance(x, ast.Constant) for x in body.args)
                and all(k.arg in ("sep", "timespec") and isinstance(k.value, ast.Constant) for k in body.keywords)):
            args = [x.value for x in body.args]
            kws = {k.arg: k.value.value for k in body.keywords}
            if not kws:
                if args == []:
                    return ".iso0"
                if args == ["T", "seconds"]:
                    return ".isoTSec"
                if args == ["seconds"]:
                    return ".isoSec"
            # keyword spellings of the same calls (second precision, separator T)
            if kws.get("timespec") == "seconds" and kws.get("sep", "T") == "T":
                if args == [] and "sep" not in kws:
                    if pytype == "time":
                        return ".isoSec"
                    if pytype == "datetime":
                        return ".isoTSec"
                if (args == ["T"] and "sep" not in kws) or (args == [] and "sep" in kws):
                    return ".isoTSec"
    raise Untranslatable("out-coercer: " + ast.dump(node)[:200])


def type_table(repo: Path):
    mod = extract.parse(repo, "async_upnp_client/const.py")
    for node in mod.body:
        tgt = None
        if isinstance(node, ast.AnnAssign) and _is_name(node.target, "STATE_VARIABLE_TYPE_MAPPING"):
            tgt = node.value
        if isinstance(node, ast.Assign) and any(_is_name(t, "STATE_VARIABLE_TYPE_MAPPING") for t in node.targets):
            tgt = node.value
        if tgt is None:
            continue
        if not isinstance(tgt, ast.Dict):
            raise Untranslatable("STATE_VARIABLE_TYPE_MAPPING is not a dict display")
        rows = []
        for k, v in zip(tgt.keys, tgt.values):
            if not (isinstance(k, ast.Constant) and isinstance(k.value, str) and isinstance(v, ast.Dict)):
                raise Untranslatable("row shape")
            fields = {}
            for fk, fv in zip(v.keys, v.values):
                if not (isinstance(fk, ast.Constant) and isinstance(fk.value, str)):
                    raise Untranslatable("row key")
                fields[fk.value] = fv
            if set(fields) - {"type", "in", "out", "validator"} or not {"type", "in", "out"} <= set(fields):
                raise Untranslatable(f"row {k.value}: keys {sorted(fields)}")
            ty = fields["type"]
            if not (_is_name(ty) and ty.id in PYTYPES):
                raise Untranslatable(f"row {k.value}: type")
            need_tz = "false"
            if "validator" in fields:
                if not _is_name(fields["validator"], "require_tzinfo"):
                    raise Untranslatable(f"row {k.value}: validator")
                need_tz = "true"
            rows.append(f"  ⟨{chars(k.value)}, {PYTYPES[ty.id]}, {need_tz}, {in_shape(fields['in'])}, {out_shape(fields['out'], ty.id)}⟩")
        return rows
    raise Untranslatable("STATE_VARIABLE_TYPE_MAPPING not found")


def escape_extra(repo: Path):
    """the `entities` argument of the `escape(...)` call inside UpnpAction._format_request_args"""
    mod = extract.parse(repo, "async_upnp_client/client.py")
    fn = None
    for node in ast.walk(mod):
        if isinstance(node, ast.FunctionDef) and node.name == "_format_request_args":
            fn = node
    if fn is None:
        raise Untranslatable("_format_request_args not found")
    calls = [n for n in ast.walk(fn) if isinstance(n, ast.Call) and _is_name(n.func, "escape")]
    if len(calls) != 1:
        raise Untranslatable(f"{len(calls)} escape() calls in _format_request_args")
    call = calls[0]
    ent = None
    if len(call.args) == 2:
        ent = call.args[1]
    for kw in call.keywords:
        if kw.arg == "entities":
            ent = kw.value
        else:
            raise Untranslatable("escape keyword " + str(kw.arg))
    if len(call.args) not in (1, 2):
        raise Untranslatable("escape arity")
    if ent is None:
        return []
    if isinstance(ent, ast.Name):  # a module-level constant dict
        for node in mod.body:
            if isinstance(node, (ast.Assign, ast.AnnAssign)):
                tgts = node.targets if isinstance(node, ast.Assign) else [node.target]
                if any(_is_name(t, ent.id) for t in tgts):
                    ent = node.value
                    break
    if not isinstance(ent, ast.Dict):
        raise Untranslatable("escape entities is not a dict display")
    out = []
    for k, v in zip(ent.keys, ent.values):
        if not (isinstance(k, ast.Constant) and isinstance(k.value, str) and len(k.value) == 1
                and isinstance(v, ast.Constant) and isinstance(v.value, str)):
            raise Untranslatable("escape entity shape")
        out.append(f"(Char.ofNat {ord(k.value)}, {chars(v.value)})")
    return out


def ns_attr_quoted(repo: Path) -> str:
    """how `create_request` writes the service type into `xmlns:u=`: through `quoteattr(...)` (true)
    or pasted between double quotes (false)"""
    mod = extract.parse(repo, "async_upnp_client/client.py")
    fn = None
    for node in ast.walk(mod):
        if isinstance(node, ast.FunctionDef) and node.name == "create_request":
            fn = node
    if fn is None:
        raise Untranslatable("create_request not found")
    found = []
    for js in [n for n in ast.walk(fn) if isinstance(n, ast.JoinedStr)]:
        vals = js.values
        for i, v in enumerate(vals):
            if not (isinstance(v, ast.Constant) and isinstance(v.value, str) and i + 1 < len(vals)):
                continue
            nxt = vals[i + 1]
            if not isinstance(nxt, ast.FormattedValue) or nxt.conversion != -1 or nxt.format_spec is not None:
                continue
            after = vals[i + 2].value if i + 2 < len(vals) and isinstance(vals[i + 2], ast.Constant) else ""
            if v.value.endswith(" xmlns:u="):
                e = nxt.value
                if (isinstance(e, ast.Call) and _is_name(e.func, "quoteattr") and len(e.args) == 1 and not e.keywords
                        and _is_name(e.args[0], "service_type") and after.startswith(">")):
                    found.append("true")
                else:
                    raise Untranslatable("xmlns:u value: " + ast.dump(e)[:200])
            elif v.value.endswith(' xmlns:u="'):
                if _is_name(nxt.value, "service_type") and after.startswith('">'):
                    found.append("false")
                else:
                    raise Untranslatable("xmlns:u value: " + ast.dump(nxt.value)[:200])
    if len(found) != 1:
        raise Untranslatable(f"{len(found)} xmlns:u attributes in create_request")
    return found[0]


def exc_ancestors(repo: Path):
    mod = extract.parse(repo, "async_upnp_client/exceptions.py")
    bases = {}
    for node in mod.body:
        if isinstance(node, ast.ClassDef):
            bs = []
            for b in node.bases:
                if isinstance(b, ast.Name):
                    bs.append(b.id)
                elif isinstance(b, ast.Attribute):
                    bs.append(ast.unparse(b))
                else:
                    raise Untranslatable("base of " + node.name)
            bases[node.name] = bs
    rows = []
    for name in bases:
        if not name.startswith("Upnp") or name.endswith("Code"):
            continue
        seen, todo = [], [name]
        while todo:
            c = todo.pop(0)
            if c in seen or c not in bases:
                continue
            seen.append(c)
            todo.extend(bases[c])
        lib = sorted(c for c in seen if c.startswith("Upnp"))
        rows.append(f"  ({lean_str(name)}, [{', '.join(lean_str(c) for c in lib)}])")
    return rows


@extract.generator("C06Types")
def gen(repo: Path) -> str:
    rows = type_table(repo)
    ents = escape_extra(repo)
    excs = exc_ancestors(repo)
    nsq = ns_attr_quoted(repo)
    return (
        extract.HEADER.format(src="async_upnp_client/const.py, client.py, exceptions.py")
        + "import Upnp.Model.C06Val\nnamespace Upnp.Gen.C06Types\nopen Upnp.C06\n\n"
        + "/-- const.STATE_VARIABLE_TYPE_MAPPING -/\ndef table : List TypeRow := [\n" + ",\n".join(rows) + "]\n\n"
        + "/-- entity table passed to `escape` in UpnpAction._format_request_args -/\n"
        + "def escapeExtra : List (Char × Str) := [" + ", ".join(ents) + "]\n\n"
        + "/-- `create_request` writes the service type into `xmlns:u=` through `quoteattr` -/\n"
        + f"def nsAttrQuoted : Bool := {nsq}\n\n"
        + "/-- library exception classes with their library ancestors (reflexive, sorted) -/\n"
        + "def excAncestors : List (String × List String) := [\n" + ",\n".join(excs) + "]\n\n"
        + "end Upnp.Gen.C06Types\n"
    )
