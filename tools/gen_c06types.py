"""C06/C07 translator (the type table itself is C08's, Gen/C08Types.lean): the entity table passed to `escape` in
client.UpnpAction._format_request_args, and the library exception hierarchy (exceptions.py)
-> lean/Upnp/Gen/C06Types.lean."""
from __future__ import annotations

import ast
from pathlib import Path

import extract
from extract import Untranslatable, lean_str

def chars(s: str) -> str:
    """a Lean `List Char` literal (kernel-reducible, unlike String functions)"""
    return lean_str(s) + ".toList"


def _is_name(node, name=None):
    return isinstance(node, ast.Name) and (name is None or node.id == name)


def escape_extra(repo: Path):
    """the `entities` argument of the `escape(...)` call inside UpnpAction._format_request_args"""
    mod = extract.parse(repo, "async_upnp_client/client.py")
    fn = None
    for node in ast.walk(mod):
        if isinstance(node, ast.FunctionDef) and node.name == "_format_request_args":
            fn = node
    if fn is None:
        raise Untranslatable("_format_request_args not found")
    calls = [n for n in ast.walk(fn) if isinstance(n, ast.Call) and _is_name(n.func, "escape")]
    if len(calls) != 1:
        raise Untranslatable(f"{len(calls)} escape() calls in _format_request_args")
    call = calls[0]
    ent = None
    if len(call.args) == 2:
        ent = call.args[1]
    for kw in call.keywords:
        if kw.arg == "entities":
            ent = kw.value
        else:
            raise Untranslatable("escape keyword " + str(kw.arg))
    if len(call.args) not in (1, 2):
        raise Untranslatable("escape arity")
    if ent is None:
        return []
    if isinstance(ent, ast.Name):  # a module-level constant dict
        for node in mod.body:
            if isinstance(node, (ast.Assign, ast.AnnAssign)):
                tgts = node.targets if isinstance(node, ast.Assign) else [node.target]
                if any(_is_name(t, ent.id) for t in tgts):
                    ent = node.value
                    break
    if not isinstance(ent, ast.Dict):
        raise Untranslatable("escape entities is not a dict display")
    out = []
    for k, v in zip(ent.keys, ent.values):
        if not (isinstance(k, ast.Constant) and isinstance(k.value, str) and len(k.value) == 1
                and isinstance(v, ast.Constant) and isinstance(v.value, str)):
            raise Untranslatable("escape entity shape")
        out.append(f"(Char.ofNat {ord(k.value)}, {chars(v.value)})")
    return out


def ns_attr_quoted(repo: Path) -> str:
    """how `create_request` writes the service type into `xmlns:u=`: through `quoteattr(...)` (true)
    or pasted between double quotes (false)"""
    mod = extract.parse(repo, "async_upnp_client/client.py")
    fn = None
    for node in ast.walk(mod):
        if isinstance(node, ast.FunctionDef) and node.name == "create_request":
            fn = node
    if fn is None:
        raise Untranslatable("create_request not found")
    found = []
    for js in [n for n in ast.walk(fn) if isinstance(n, ast.JoinedStr)]:
        vals = js.values
        for i, v in enumerate(vals):
            if not (isinstance(v, ast.Constant) and isinstance(v.value, str) and i + 1 < len(vals)):
                continue
            nxt = vals[i + 1]
            if not isinstance(nxt, ast.FormattedValue) or nxt.conversion != -1 or nxt.format_spec is not None:
                continue
            after = vals[i + 2].value if i + 2 < len(vals) and isinstance(vals[i + 2], ast.Constant) else ""
            if v.value.endswith(" xmlns:u="):
                e = nxt.value
                if (isinstance(e, ast.Call) and _is_name(e.func, "quoteattr") and len(e.args) == 1 and not e.keywords
                        and _is_name(e.args[0], "service_type") and after.startswith(">")):
                    found.append("true")
                else:
                    raise Untranslatable("xmlns:u value: " + ast.dump(e)[:200])
            elif v.value.endswith(' xmlns:u="'):
                if _is_name(nxt.value, "service_type") and after.startswith('">'):
                    found.append("false")
                else:
                    raise Untranslatable("xmlns:u value: " + ast.dump(nxt.value)[:200])
    if len(found) != 1:
        raise Untranslatable(f"{len(found)} xmlns:u attributes in create_request")
    return found[0]


def exc_ancestors(repo: Path):
    mod = extract.parse(repo, "async_upnp_client/exceptions.py")
    bases = {}
    for node in mod.body:
        if isinstance(node, ast.ClassDef):
            bs = []
            for b in node.bases:
                if isinstance(b, ast.Name):
                    bs.append(b.id)
                elif isinstance(b, ast.Attribute):
                    bs.append(ast.unparse(b))
                else:
                    raise Untranslatable("base of " + node.name)
            bases[node.name] = bs
    rows = []
    for name in bases:
        if not name.startswith("Upnp") or name.endswith("Code"):
            continue
        seen, todo = [], [name]
        while todo:
            c = todo.pop(0)
            if c in seen or c not in bases:
                continue
            seen.append(c)
            todo.extend(bases[c])
        lib = sorted(c for c in seen if c.startswith("Upnp"))
        rows.append(f"  ({lean_str(name)}, [{', '.join(lean_str(c) for c in lib)}])")
    return rows


@extract.generator("C06Types")
def gen(repo: Path) -> str:
    ents = escape_extra(repo)
    excs = exc_ancestors(repo)
    nsq = ns_attr_quoted(repo)
    return (
        extract.HEADER.format(src="async_upnp_client/client.py, exceptions.py")
        + "namespace Upnp.Gen.C06Types\n\n"
        + "/-- entity table passed to `escape` in UpnpAction._format_request_args -/\n"
        + "def escapeExtra : List (Char × List Char) := [" + ", ".join(ents) + "]\n\n"
        + "/-- `create_request` writes the service type into `xmlns:u=` through `quoteattr` -/\n"
        + f"def nsAttrQuoted : Bool := {nsq}\n\n"
        + "/-- library exception classes with their library ancestors (reflexive, sorted) -/\n"
        + "def excAncestors : List (String × List String) := [\n" + ",\n".join(excs) + "]\n\n"
        + "end Upnp.Gen.C06Types\n"
    )
