"""Translator for C08/C05: const.STATE_VARIABLE_TYPE_MAPPING, utils._UNCOMPILED_MATCHERS,
utils.parse_date_time (tz fix-up guard), utils.require_tzinfo and the default-value conversion of
client_factory._state_variable_create_schema  ->  lean/Upnp/Gen/C08Types.lean.

Only a closed list of AST shapes is accepted; anything else raises Untranslatable."""
from __future__ import annotations

import ast
import re
from pathlib import Path
from typing import List

from extract import HEADER, Untranslatable, generator, parse


def chars(s: str) -> str:
    def one(c: str) -> str:
        if c == "'":
            return "'\\''"
        if c == "\\":
            return "'\\\\'"
        if c == "\n":
            return "'\\n'"
        if 32 <= ord(c) < 127:
            return f"'{c}'"
        return "(Char.ofNat %d)" % ord(c)
    return "[" + ", ".join(one(c) for c in s) + "]"


def find_assign(mod: ast.Module, name: str) -> ast.expr:
    for node in mod.body:
        if isinstance(node, ast.AnnAssign) and isinstance(node.target, ast.Name) and node.target.id == name:
            return node.value
        if isinstance(node, ast.Assign) and len(node.targets) == 1 and isinstance(node.targets[0], ast.Name) \
                and node.targets[0].id == name:
            return node.value
    raise Untranslatable(f"{name} not found")


def find_func(mod: ast.Module, name: str) -> ast.FunctionDef:
    for node in ast.walk(mod):
        if isinstance(node, (ast.FunctionDef, ast.AsyncFunctionDef)) and node.name == name:
            return node
    raise Untranslatable(f"def {name} not found")


def const_str(node: ast.expr) -> str:
    if isinstance(node, ast.Constant) and isinstance(node.value, str):
        return node.value
    raise Untranslatable(f"expected string constant, got {ast.dump(node)}")


def lambda_arg(node: ast.Lambda) -> str:
    a = node.args
    if a.posonlyargs or a.kwonlyargs or a.vararg or a.kwarg or a.defaults or len(a.args) != 1:
        raise Untranslatable("lambda with other than one plain argument")
    return a.args[0].arg


PY_TYPES = {"int": ".int", "float": ".float", "str": ".str", "bool": ".bool", "date": ".date",
            "datetime": ".datetime", "time": ".time"}


def in_kind(node: ast.expr) -> str:
    if isinstance(node, ast.Name):
        kinds = {"int": ".int", "float": ".float", "str": ".str", "parse_date_time": ".parseDateTime"}
        if node.id in kinds:
            return kinds[node.id]
        raise Untranslatable(f"in-coercer {node.id}")
    if isinstance(node, ast.Lambda):
        arg = lambda_arg(node)
        b = node.body
        # lambda s: s.lower() in [..]
        if (isinstance(b, ast.Compare) and len(b.ops) == 1 and isinstance(b.ops[0], ast.In)
                and isinstance(b.left, ast.Call) and not b.left.args and not b.left.keywords
                and isinstance(b.left.func, ast.Attribute) and b.left.func.attr == "lower"
                and isinstance(b.left.func.value, ast.Name) and b.left.func.value.id == arg
                and isinstance(b.comparators[0], (ast.List, ast.Tuple))):
            items = [const_str(e) for e in b.comparators[0].elts]
            return "(.lowerIn [" + ", ".join(chars(i) for i in items) + "])"
    raise Untranslatable(f"in-coercer shape {ast.dump(node)}")


def out_kind(node: ast.expr) -> str:
    if isinstance(node, ast.Name):
        if node.id == "str":
            return ".str"
        raise Untranslatable(f"out-coercer {node.id}")
    if isinstance(node, ast.Lambda):
        arg = lambda_arg(node)
        b = node.body
        # lambda i: str(int(i))
        if (isinstance(b, ast.Call) and isinstance(b.func, ast.Name) and b.func.id == "str" and len(b.args) == 1
                and not b.keywords and isinstance(b.args[0], ast.Call) and isinstance(b.args[0].func, ast.Name)
                and b.args[0].func.id == "int" and len(b.args[0].args) == 1 and not b.args[0].keywords
                and isinstance(b.args[0].args[0], ast.Name) and b.args[0].args[0].id == arg):
            return ".strInt"
        if isinstance(b, ast.IfExp) and isinstance(b.test, ast.Name) and b.test.id == arg:
            return f"(.ifElse {chars(const_str(b.body))} {chars(const_str(b.orelse))})"
        if (isinstance(b, ast.Call) and isinstance(b.func, ast.Attribute) and b.func.attr == "isoformat"
                and isinstance(b.func.value, ast.Name) and b.func.value.id == arg and not b.keywords):
            return "(.isoformat [" + ", ".join(chars(const_str(a)) for a in b.args) + "])"
    raise Untranslatable(f"out-coercer shape {ast.dump(node)}")


def type_rows(repo: Path) -> List[str]:
    mod = parse(repo, "async_upnp_client/const.py")
    d = find_assign(mod, "STATE_VARIABLE_TYPE_MAPPING")
    if not isinstance(d, ast.Dict):
        raise Untranslatable("STATE_VARIABLE_TYPE_MAPPING is not a dict display")
    rows = []
    seen = set()
    for k, v in zip(d.keys, d.values):
        name = const_str(k)
        if name in seen:
            raise Untranslatable(f"duplicate key {name}")
        seen.add(name)
        if not isinstance(v, ast.Dict):
            raise Untranslatable(f"row {name} is not a dict display")
        ent = {}
        for kk, vv in zip(v.keys, v.values):
            ent[const_str(kk)] = vv
        if set(ent) - {"type", "in", "out", "validator"} or not {"type", "in", "out"} <= set(ent):
            raise Untranslatable(f"row {name} keys {sorted(ent)}")
        t = ent["type"]
        if not isinstance(t, ast.Name) or t.id not in PY_TYPES:
            raise Untranslatable(f"row {name} type {ast.dump(t)}")
        req = "false"
        if "validator" in ent:
            val = ent["validator"]
            if not isinstance(val, ast.Name) or val.id != "require_tzinfo":
                raise Untranslatable(f"row {name} validator {ast.dump(val)}")
            req = "true"
        rows.append(f"  {{ name := {chars(name)}, ty := {PY_TYPES[t.id]}, inK := {in_kind(ent['in'])}, "
                    f"outK := {out_kind(ent['out'])}, requireTz := {req} }}")
    return rows


def re_tokens(rx: str) -> str:
    out = []
    i = 0
    while i < len(rx):
        m = re.match(r"\\d\{(\d+)\}", rx[i:])
        if m:
            out.append(f".digits {m.group(1)}")
            i += m.end()
        elif rx.startswith("[+-]", i) or rx.startswith("[-+]", i):
            out.append(".sign")
            i += 4
        elif rx[i] == "$" and i == len(rx) - 1:
            out.append(".eos")
            i += 1
        elif rx[i].isalnum() or rx[i] in "-: ":
            out.append(f".lit {chars(rx[i])[1:-1]}")
            i += 1
        else:
            raise Untranslatable(f"regex {rx!r} at {i}")
    return "[" + ", ".join(out) + "]"


def fmt_tokens(fmt: str) -> str:
    out = []
    i = 0
    while i < len(fmt):
        if fmt[i] == "%":
            if i + 1 < len(fmt) and fmt[i + 1] in "YmdHMSz":
                out.append("." + fmt[i + 1])
                i += 2
            else:
                raise Untranslatable(f"format {fmt!r} at {i}")
        elif fmt[i].isalnum() or fmt[i] in "-: ":
            out.append(f".lit {chars(fmt[i])[1:-1]}")
            i += 1
        else:
            raise Untranslatable(f"format {fmt!r} at {i}")
    return "[" + ", ".join(out) + "]"


def matcher_rows(mod: ast.Module) -> List[str]:
    d = find_assign(mod, "_UNCOMPILED_MATCHERS")
    if not isinstance(d, ast.Dict):
        raise Untranslatable("_UNCOMPILED_MATCHERS is not a dict display")
    rows = []
    for k, v in zip(d.keys, d.values):
        rx = const_str(k)
        if not isinstance(v, ast.Lambda):
            raise Untranslatable(f"matcher {rx!r}: not a lambda")
        arg = lambda_arg(v)
        b = v.body
        post = ".keep"
        if isinstance(b, ast.Call) and isinstance(b.func, ast.Attribute) and b.func.attr in ("date", "time", "timetz") \
                and not b.args and not b.keywords:
            post = "." + b.func.attr
            b = b.func.value
        elif isinstance(b, ast.Call) and isinstance(b.func, ast.Attribute) and b.func.attr == "replace":
            if b.args or len(b.keywords) != 1 or b.keywords[0].arg != "tzinfo" \
                    or not isinstance(b.keywords[0].value, ast.Name) or b.keywords[0].value.id != "UTC":
                raise Untranslatable(f"matcher {rx!r}: replace(...) shape")
            post = ".replaceUTC"
            b = b.func.value
        if not (isinstance(b, ast.Call) and isinstance(b.func, ast.Attribute) and b.func.attr == "strptime"
                and isinstance(b.func.value, ast.Name) and b.func.value.id == "datetime" and len(b.args) == 2
                and not b.keywords and isinstance(b.args[0], ast.Name) and b.args[0].id == arg):
            raise Untranslatable(f"matcher {rx!r}: body {ast.dump(v.body)}")
        fmt = const_str(b.args[1])
        rows.append(f"  {{ re := {re_tokens(rx)}, fmt := {fmt_tokens(fmt)}, post := {post} }}")
    return rows


def same(node: ast.AST, src: str) -> bool:
    want = ast.parse(src).body[0]
    return ast.dump(node) == ast.dump(want)


def strip_doc(body: List[ast.stmt]) -> List[ast.stmt]:
    if body and isinstance(body[0], ast.Expr) and isinstance(body[0].value, ast.Constant) \
            and isinstance(body[0].value.value, str):
        return body[1:]
    return body


FIXUP_BODY = "value = value[:-3] + value[-2:]"
LOOP = "for pattern, parser in COMPILED_MATCHERS.items():\n    if pattern.match(value):\n        return parser(value)"
RAISE = 'raise ValueError("Unknown date/time: " + value)'
COMPILED = ("COMPILED_MATCHERS: Dict[re.Pattern, Callable] = {\n"
            "    re.compile(matcher): parser for matcher, parser in _UNCOMPILED_MATCHERS.items()\n}")
UTC_DEF = "UTC = timezone(timedelta(hours=0))"
REQUIRE_TZ = ("def require_tzinfo(value: Any) -> Any:\n    if value.tzinfo is None:\n"
              "        raise Invalid(\"Requires tzinfo\")\n    return value")


def tz_guard(mod: ast.Module) -> str:
    fn = find_func(mod, "parse_date_time")
    body = strip_doc(fn.body)
    if len(body) != 3 or not isinstance(body[0], ast.If) or body[0].orelse:
        raise Untranslatable("parse_date_time: statement shape")
    if not same(body[1], LOOP) or not same(body[2], RAISE):
        raise Untranslatable("parse_date_time: matcher loop / final raise shape")
    if len(body[0].body) != 1 or not same(body[0].body[0], FIXUP_BODY):
        raise Untranslatable("parse_date_time: fix-up assignment shape")
    test = body[0].test
    if not isinstance(test, ast.BoolOp) or not isinstance(test.op, ast.And):
        raise Untranslatable("parse_date_time: fix-up test shape")
    vals = list(test.values)
    guard = "none"
    if len(vals) == 3:
        g = vals[0]
        if (isinstance(g, ast.Compare) and len(g.ops) == 1 and isinstance(g.ops[0], (ast.GtE, ast.Gt))
                and same(ast.Expr(g.left), "len(value)") and isinstance(g.comparators[0], ast.Constant)
                and isinstance(g.comparators[0].value, int)):
            n = g.comparators[0].value + (1 if isinstance(g.ops[0], ast.Gt) else 0)
            guard = f"some {n}"
            vals = vals[1:]
        else:
            raise Untranslatable("parse_date_time: length guard shape")
    if len(vals) != 2 or not (same(ast.Expr(vals[0]), 'value[-6] in ["+", "-"]') and same(ast.Expr(vals[1]), 'value[-3] == ":"')):
        raise Untranslatable("parse_date_time: fix-up test shape")
    # module-level glue the model relies on
    ok_compiled = any(same(n, COMPILED) for n in mod.body if isinstance(n, ast.AnnAssign))
    ok_utc = any(same(n, UTC_DEF) for n in mod.body if isinstance(n, ast.Assign))
    if not ok_compiled or not ok_utc:
        raise Untranslatable("COMPILED_MATCHERS / UTC definition shape")
    rq = find_func(mod, "require_tzinfo")
    rq2 = ast.FunctionDef(name=rq.name, args=rq.args, body=strip_doc(rq.body), decorator_list=rq.decorator_list,
                          returns=rq.returns, type_comment=None, type_params=[])
    if not same(rq2, REQUIRE_TZ):
        raise Untranslatable("require_tzinfo shape")
    return guard


def default_via_in(repo: Path) -> str:
    mod = parse(repo, "async_upnp_client/client_factory.py")
    fn = find_func(mod, "_state_variable_create_schema")
    found = []
    for node in ast.walk(fn):
        if isinstance(node, ast.If) and same(ast.Expr(node.test), "data_type == bool"):
            if len(node.body) != 1 or not same(node.body[0], 'default_value = default_value == "1"') or len(node.orelse) != 1:
                raise Untranslatable("default value: bool branch shape")
            found.append(node.orelse[0])
    if len(found) != 1:
        raise Untranslatable("default value conversion not found")
    st = found[0]
    if same(st, "default_value = data_type(default_value)"):
        return "false"
    if same(st, 'default_value = data_type_mapping["in"](default_value)'):
        return "true"
    raise Untranslatable(f"default value conversion shape: {ast.unparse(st)}")


@generator("C08Types")
def gen(repo: Path) -> str:
    rows = type_rows(repo)
    umod = parse(repo, "async_upnp_client/utils.py")
    ms = matcher_rows(umod)
    guard = tz_guard(umod)
    dvi = default_via_in(repo)
    out = HEADER.format(src="async_upnp_client/const.py, utils.py, client_factory.py")
    out += "import Upnp.Model.C08Types\nnamespace Upnp.Gen.C08Types\nopen Upnp.C08\n\n"
    out += "/-- const.STATE_VARIABLE_TYPE_MAPPING -/\ndef rows : List TypeRow := [\n" + ",\n".join(rows) + "\n]\n\n"
    out += "/-- utils._UNCOMPILED_MATCHERS (in dict order) -/\ndef matchers : List Matcher := [\n" + ",\n".join(ms) + "\n]\n\n"
    out += f"/-- length guard of the tz fix-up in utils.parse_date_time -/\ndef tzGuard : Option Nat := {guard}\n\n"
    out += ("/-- client_factory._state_variable_create_schema converts a defaultValue with the \"in\" coercer -/\n"
            f"def defaultViaIn : Bool := {dvi}\n\n")
    out += "def table : Table := { rows := rows, matchers := matchers, tzGuard := tzGuard, defaultViaIn := defaultViaIn }\n\n"
    out += "end Upnp.Gen.C08Types\n"
    return out
